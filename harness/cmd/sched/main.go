// Correspondence harness for the scheduler engine (C01, C02, C03): runs a real
// res.Service under random and directed schedules, records the hook notes of
// /repo (build tag verif) in one totally ordered log, and converts the log to the
// label sequence of coq/Sched/Model.v.
package main

import (
	"bytes"
	"encoding/json"
	"errors"
	"flag"
	"fmt"
	"os"
	"path/filepath"
	"runtime"
	"strconv"
	"strings"
	"sync"
	"sync/atomic"
	"time"

	res "github.com/jirenius/go-res"
	"github.com/jirenius/go-res/logger"
	"github.com/jirenius/go-res/verifhook"
	nats "github.com/nats-io/nats.go"

	"verifharness/astacc"
	. "verifharness/common"
)

// ---------- log ----------

type entry struct {
	gid  uint64
	kind string
	s    string
	n    int
}

type recorder struct {
	mu  sync.Mutex
	log []entry
}

func goid() uint64 {
	var buf [64]byte
	n := runtime.Stack(buf[:], false)
	f := bytes.Fields(buf[:n])
	id, _ := strconv.ParseUint(string(f[1]), 10, 64)
	return id
}

func (r *recorder) add(kind, s string, n int) {
	g := goid()
	r.mu.Lock()
	r.log = append(r.log, entry{g, kind, s, n})
	r.mu.Unlock()
}

// ---------- connection ----------

type conn struct {
	rec       *recorder
	r         *runner
	gen       int32                     // serve cycle this connection was created for
	failSub   bool                      // every subscription is refused (scenario d9)
	closeGate chan struct{}             // when set, Close blocks on it after marking the connection closed (scenario d9)
	closing   chan struct{}             // closed when Close has been entered (scenario d9)
	qsubs     map[string]chan *nats.Msg // query-event inbox subscriptions (subject -> channel)
	sendMu    sync.RWMutex              // held (R) by the harness while it delivers a message, (W) by Close
	mu        sync.Mutex
	inCh      chan *nats.Msg
	subs      []subRec // every non-inbox subscription (subject pattern, channel), in subscription order
	closed    bool
}

type subRec struct {
	subj string
	ch   chan *nats.Msg
}

// subjMatches is NATS subject matching (tokens, * = one token, > = one or more trailing tokens).
func subjMatches(pat, subj string) bool {
	pt, st := strings.Split(pat, "."), strings.Split(subj, ".")
	for i, t := range pt {
		if t == ">" {
			return i == len(pt)-1 && len(st) > i
		}
		if i >= len(st) || (t != "*" && t != st[i]) {
			return false
		}
	}
	return len(pt) == len(st)
}

// chanFor returns the channel of the first subscription whose subject matches, like a connection that delivers a
// message to the subscription it matches (the service decides which channel it hands to which subscription).
func (c *conn) chanFor(subj string) chan *nats.Msg {
	c.mu.Lock()
	defer c.mu.Unlock()
	for _, sr := range c.subs {
		if subjMatches(sr.subj, subj) {
			return sr.ch
		}
	}
	return nil
}

func (c *conn) Publish(subject string, payload []byte) error {
	c.rec.add("conn-publish", subject, 0)
	if c.r != nil {
		if cur := atomic.LoadInt32(&c.r.curGen); c.gen < cur {
			// every goroutine of the earlier cycle was joined before the later cycle's connection was created
			c.r.violation(fmt.Sprintf("stale-conn: %s published on the connection of serve cycle %d while the service is being served on the connection of cycle %d", subject, c.gen, cur))
		}
		if subject == "system.reset" {
			atomic.AddInt32(&c.r.resets[c.gen%8], 1)
		}
		if len(subject) > 1 && subject[0] == 'R' {
			// the notFound reply of a request for an unmatched resource is its whole callback: stretch it a
			// little, so that two such callbacks of one name would overlap if they were not serialised
			if n, err := strconv.Atoi(subject[1:]); err == nil {
				if _, ok := c.r.unmatched.Load(n); ok {
					time.Sleep(150 * time.Microsecond)
				}
			}
		}
	}
	c.mu.Lock()
	defer c.mu.Unlock()
	if c.closed {
		return errors.New("connection closed")
	}
	return nil
}
func (c *conn) PublishRequest(subject, reply string, data []byte) error { return nil }
func (c *conn) ChanSubscribe(subject string, ch chan *nats.Msg) (*nats.Subscription, error) {
	c.mu.Lock()
	if c.closed {
		c.mu.Unlock()
		return nil, errors.New("connection closed") // like nats.ErrConnectionClosed
	}
	if c.failSub {
		c.mu.Unlock()
		return nil, errors.New("subscription refused")
	}
	if strings.HasPrefix(subject, "_INBOX.") {
		if c.qsubs == nil {
			c.qsubs = map[string]chan *nats.Msg{}
		}
		c.qsubs[subject] = ch
	} else {
		c.subs = append(c.subs, subRec{subject, ch})
		if c.inCh == nil {
			c.inCh = ch
		}
	}
	c.mu.Unlock()
	return &nats.Subscription{}, nil
}
func (c *conn) ChanQueueSubscribe(subject, queue string, ch chan *nats.Msg) (*nats.Subscription, error) {
	return c.ChanSubscribe(subject, ch)
}
func (c *conn) Close() {
	c.rec.add("conn-close", "", 0)
	c.sendMu.Lock()
	c.mu.Lock()
	c.closed = true
	c.mu.Unlock()
	c.sendMu.Unlock()
	if c.closing != nil {
		close(c.closing)
	}
	if c.closeGate != nil {
		<-c.closeGate
	}
	if c.r != nil {
		if f, _ := c.r.onConnClose.Load().(func()); f != nil {
			f()
		}
	}
}

func (c *conn) isClosed() bool {
	c.mu.Lock()
	defer c.mu.Unlock()
	return c.closed
}

// ---------- scenario ----------

type scenario struct {
	Kind      string   `json:"kind"` // random | d1..d5
	Workers   int      `json:"workers"`
	InCh      int      `json:"inch"`
	Producers int      `json:"producers"`
	PerProd   int      `json:"per_producer"`
	Groups    []string `json:"groups"`
	Requests  int      `json:"requests"`
	Cycles    int      `json:"cycles"`
	Shutdown  string   `json:"shutdown"` // "after" (all work done) | "during"
	Nested    bool     `json:"nested"`
	Unmatched bool     `json:"all_unmatched,omitempty"` // every request goes to a resource no handler matches
	Perturb   uint64   `json:"perturb"`
	Seed      uint64   `json:"seed"`
}

type submission struct {
	g string
	c int
}

type runner struct {
	sc   scenario
	rec  *recorder
	s    *res.Service
	rng  *Rng
	subs sync.Map // goid -> *[]submission  (pending runWith invocations of that goroutine, FIFO)
	lsub struct {
		mu sync.Mutex
		q  []submission
	}
	prodGids    sync.Map // goid -> true for harness producer goroutines and workers doing nested submissions
	nextCb      int32
	cbGroup     sync.Map // c -> group string
	occupancy   sync.Map // group -> *int32
	impl        []ImplViolation
	implMu      sync.Mutex
	gateFn      atomic.Value    // func(pt string)
	scratch     map[string]*int // per-group memory written WITHOUT synchronisation by the callbacks (race-detector runs)
	shutdowns   int32
	dfltCtr     int32
	curGen      int32
	sharedErrs  sync.Map      // c/2 -> *res.Error without code, sent by the handlers of requests c and c+1
	unmatched   sync.Map      // c -> true for requests sent to a resource no handler matches
	resets      [8]int32      // system.reset messages seen per connection generation
	onConnClose atomic.Value  // func(), called at the end of conn.Close
	stopPoll    chan struct{} // closes the log poller of race-detector runs
	sharedTids  []string      // argument slices shared by all publisher goroutines: the service may read them, never write
	sharedRes   []string
	lastReq     sync.Map     // group -> *int32: number of the last request whose callback was started
	noteFn      atomic.Value // func(pt string): scenario-specific action at a Note point
}

func (r *runner) violation(what string) {
	r.implMu.Lock()
	r.impl = append(r.impl, ImplViolation{What: what, Desc: r.sc, Tags: []string{strings.SplitN(what, ":", 2)[0]}})
	r.implMu.Unlock()
}

func (r *runner) pushSub(g string, c int) {
	id := goid()
	r.prodGids.Store(id, true)
	v, _ := r.subs.LoadOrStore(id, &[]submission{})
	p := v.(*[]submission)
	*p = append(*p, submission{g, c})
}

// unpushSub forgets the submission this goroutine recorded last (the call was refused before reaching runWith).
func (r *runner) unpushSub() {
	if v, ok := r.subs.Load(goid()); ok {
		p := v.(*[]submission)
		if len(*p) > 0 {
			*p = (*p)[:len(*p)-1]
		}
	}
}

func (r *runner) newCb(g string) int {
	c := int(atomic.AddInt32(&r.nextCb, 1)) + 99
	r.cbGroup.Store(c, g)
	return c
}

// reqOrder: the requests of one group are taken in the order in which the connection delivered them (the request
// sender is one goroutine and numbers its messages increasingly), whatever the kind of the request.
func (r *runner) reqOrder(c int, g string) {
	if g == "" {
		return
	}
	v, _ := r.lastReq.LoadOrStore(g, new(int32))
	if prev := atomic.SwapInt32(v.(*int32), int32(c)); int(prev) > c {
		r.violation(fmt.Sprintf("request-order: the callback of request %d of group %s was started after that of request %d, which was delivered later", c, g, prev))
	}
}

func (r *runner) body(c int, g string, nested bool) {
	r.rec.add("run", g, c)
	if g != "" {
		v, _ := r.occupancy.LoadOrStore(g, new(int32))
		if atomic.AddInt32(v.(*int32), 1) > 1 {
			r.violation("group-overlap: two callbacks of group " + g + " executing at once")
		}
		defer atomic.AddInt32(v.(*int32), -1)
	}
	if p := r.scratch[g]; p != nil {
		*p = *p + c // unsynchronised on purpose: only mutual exclusion + happens-before of the group protect it
	}
	// a little work, sometimes yielding
	switch c % 5 {
	case 0:
		runtime.Gosched()
	case 1:
		time.Sleep(time.Duration(c%7) * 10 * time.Microsecond)
	}
	if nested {
		g2 := r.sc.Groups[c%len(r.sc.Groups)]
		c2 := r.newCb(g2)
		r.pushSub(g2, c2)
		r.s.WithGroup(g2, func(*res.Service) { r.body(c2, g2, false) })
	}
	r.rec.add("ret", g, c)
}

func (r *runner) submit(g string) {
	if n := atomic.AddInt32(&r.dfltCtr, 1); n%7 == 3 {
		// a resource with the DEFAULT group (its resource name), whose handler was registered on the service
		// through a mount point: callbacks for one such resource must be serialised like any other group
		g = fmt.Sprintf("svc.sub.dflt.%d", n%2)
		c := r.newCb(g)
		r.pushSub(g, c)
		if err := r.s.With(g, func(res.Resource) { r.body(c, g, false) }); err != nil {
			r.violation("with-error: " + err.Error())
		}
		return
	}
	c := r.newCb(g)
	r.pushSub(g, c)
	nested := r.sc.Nested && c%11 == 0
	// vary the public entry point: WithGroup, With (group computed by the Mux from the ${g} template or the
	// Parallel flag) and WithResource; they all end in runWith with the same group
	rid := fmt.Sprintf("svc.item.%d.%s", c, g)
	if g == "" {
		rid = fmt.Sprintf("svc.par.%d", c)
	}
	if c%8 == 3 && g != "" {
		rid = fmt.Sprintf("svc.%s.first", g)
	}
	if c%8 == 7 && g != "" {
		rid = fmt.Sprintf("svc.mw.z%d.%s.x.%d", c%3, g, c)
	}
	if c%16 == 9 {
		// default groups of the root resource and of the name "svc." (one empty token): the resource names themselves
		g = []string{"svc", "svc."}[(c/16)%2]
		r.cbGroup.Store(c, g)
		// the submission recorded above carries the old group: replace it
		r.unpushSub()
		r.pushSub(g, c)
		rid = g
	}
	if c%8 == 5 && g != "" {
		// a placeholder matches ANY token: ids whose tokens are not plain words match the handler just the same
		// (a request for such a name would reach the handler), so With/Resource must accept them
		odd := []string{"\u00e5sa", "a*b", "jane doe", "$", "a>b", "$x", "*", ">", "a=b&c", "\x01", "it\u00e9m"}
		rid = fmt.Sprintf("svc.item.%s.%s", odd[(c/8)%len(odd)], g)
	}
	switch c % 4 {
	case 1, 3:
		if err := r.s.With(rid, func(rs res.Resource) {
			// the resource handed to the callback is that of the handler whose pattern matches the id: the root
			// pattern for the service name itself, the one-placeholder pattern for "svc." (an empty token)
			if _, solo := rs.PathParams()["solo"]; rs.ResourceName() != rid || solo != (rid == "svc.") {
				r.violation(fmt.Sprintf("with-wrong-handler: the callback of With(%q) got the resource %q with path parameters %v", rid, rs.ResourceName(), rs.PathParams()))
			}
			r.body(c, g, nested)
		}); err != nil {
			r.unpushSub()
			r.violation("with-error: With reported an error for the resource id " + strconv.Quote(rid) + ", which a handler pattern matches: " + err.Error())
		}
	case 2:
		rs, err := r.s.Resource(rid)
		if err != nil {
			r.violation("with-error: Resource reported an error for the resource id " + strconv.Quote(rid) + ", which a handler pattern matches: " + err.Error())
			r.s.WithGroup(g, func(*res.Service) { r.body(c, g, nested) })
			return
		}
		r.s.WithResource(rs, func() { r.body(c, g, nested) })
	default:
		r.s.WithGroup(g, func(*res.Service) { r.body(c, g, nested) })
	}
	// With on a resource id no handler matches must report an error and run nothing (no runWith at all)
	if c%13 == 0 {
		if err := r.s.With(fmt.Sprintf("other.%d", c), func(res.Resource) {
			r.violation("with-nomatch-ran: callback of With on an unmatched resource id was executed")
		}); err == nil {
			r.violation("with-nomatch-no-error: With on an unmatched resource id returned nil")
		}
		// a matching id that the router only finds by backtracking out of a literal branch must be accepted
		gb := "svc.bt.lit.other"
		cbt := r.newCb(gb)
		r.pushSub(gb, cbt)
		if err := r.s.With(gb, func(res.Resource) { r.body(cbt, gb, false) }); err != nil {
			r.violation("with-error: With reported an error for " + gb + ", which the handler pattern bt.$x.other matches: " + err.Error())
		}
		// ... also for ids that merely START with the service name or miss the separator
		for _, id := range []string{fmt.Sprintf("svc_item.%d.%s", c, g), fmt.Sprintf("svcitem.%d.%s", c, g), "svcx", "sv.par.1", fmt.Sprintf("svc.item.%d", c)} {
			id := id
			if err := r.s.With(id, func(res.Resource) {
				r.violation("with-nomatch-ran: callback of With on the unmatched resource id " + id + " was executed")
			}); err == nil {
				r.violation("with-nomatch-no-error: With on the unmatched resource id " + id + " returned nil")
			}
		}
	}
}

func (r *runner) sendRequest(cn *conn, inCh chan *nats.Msg, g string) (ok bool) {
	// like nats.go, deliver nothing once the connection is closed (Close happens before close(inCh))
	cn.sendMu.RLock()
	defer cn.sendMu.RUnlock()
	if cn.isClosed() {
		return false
	}
	defer func() {
		if recover() != nil {
			// send on closed channel although the connection is not closed yet (deliveries are made holding the
			// connection's delivery lock, which Close takes): the service closed its in-channel before closing the
			// connection, so a real connection delivering a request at that moment would panic
			r.violation("deliver-panic: delivering a request panicked (send on closed channel) while the connection was still open")
			ok = false
			// the message was never delivered: forget its submission record (single sender: it is the last one)
			r.lsub.mu.Lock()
			r.lsub.q = r.lsub.q[:len(r.lsub.q)-1]
			r.lsub.mu.Unlock()
		}
	}()
	c := r.newCb(g)
	// handler pattern: item.$c.$g  with Group("${g}") ; group "" is not expressible as a token -> use Parallel resource par.$c
	var subj string
	if c%6 == 0 || (r.sc.Seed%4 == 0 && c%2 == 0) || r.sc.Unmatched {
		// a request for a resource no handler matches: still enqueued (group = resource name) and answered
		// with system.notFound by a worker; few names, so that requests for the SAME unmatched name form one
		// group (every fourth scenario sends every second request to one unmatched name)
		g = fmt.Sprintf("svc.none.%d", (c/6)%2)
		if r.sc.Seed%4 == 0 {
			g = "svc.none.0"
		}
		r.unmatched.Store(c, true)
		r.cbGroup.Store(c, g)
		subj = "get." + g
	} else if g == "" {
		subj = fmt.Sprintf("get.svc.par.%d", c)
	} else if c%5 == 2 || c%5 == 3 {
		// requests of the other kinds for the same resource: whatever their kind, the requests of one group are to be
		// taken in the order in which the connection delivered them
		subj = fmt.Sprintf("%s.svc.item.%d.%s", map[int]string{2: "access", 3: "call"}[c%5], c, g)
		if c%5 == 3 {
			subj += ".m"
		}
	} else {
		subj = fmt.Sprintf("get.svc.item.%d.%s", c, g)
	}
	r.lsub.mu.Lock()
	r.lsub.q = append(r.lsub.q, submission{g, c})
	r.lsub.mu.Unlock()
	// the message goes to the channel of the subscription its subject matches
	if ch := cn.chanFor(subj); ch != nil {
		inCh = ch
	} else {
		r.violation("no-subscription: no subscription of the served service matches the request subject " + subj)
	}
	inCh <- &nats.Msg{Subject: subj, Reply: fmt.Sprintf("R%d", c), Data: nil}
	return true
}

func (r *runner) gate(pt string) {
	switch pt {
	case "runwith-checked", "runwith-before-signal", "publish-checked":
		r.rec.add("gate:"+pt, "", 0)
	}
	if f, _ := r.gateFn.Load().(func(string)); f != nil {
		f(pt)
	}
}

func (r *runner) newService(c *conn) *res.Service {
	s := res.NewService("svc")
	if raceMode {
		// race-detector runs (C16): exercise the shipped loggers from all goroutines (every third service the
		// std logger writing to a discarded stream, else the in-memory logger with tracing on)
		if r.sc.Seed%3 == 0 {
			s.SetLogger(logger.NewStdLogger()) // writes info/error lines to stderr, which the race driver discards
		} else {
			ml := logger.NewMemLogger().SetTrace(true)
			s.SetLogger(ml)
			// the log is read (as a failing test prints it) while the service is writing to it from all its goroutines
			stopPoll := make(chan struct{})
			r.stopPoll = stopPoll
			go func() {
				for {
					select {
					case <-stopPoll:
						return
					default:
						_ = ml.String()
						time.Sleep(200 * time.Microsecond)
					}
				}
			}()
		}
	} else if r.sc.Kind == "d1" || r.sc.Kind == "d5" || (r.sc.Kind == "random" && r.sc.Shutdown == "during" && r.sc.Seed%2 == 0) {
		// a logger, and an error hook that re-enters the service the way an application reporting errors over
		// the connection would: neither may ever be called with the service mutex held
		s.SetLogger(logger.NewMemLogger())
		s.SetOnError(func(sv *res.Service, msg string) {
			if nc := sv.Conn(); nc != nil {
				nc.Publish("errors.svc", []byte(msg))
			}
		})
	} else {
		s.SetLogger(nil)
	}
	s.SetWorkerCount(r.sc.Workers)
	s.SetInChannelSize(r.sc.InCh)
	s.SetQueryEventDuration(15 * time.Millisecond)
	s.Handle("item.$c.$g", res.Group("${g}"), res.GetResource(func(q res.GetRequest) {
		c, _ := strconv.Atoi(q.PathParam("c"))
		r.reqOrder(c, q.PathParam("g"))
		r.body(c, q.PathParam("g"), false)
		if c%3 != 1 {
			// an application error value WITHOUT code, shared by the handlers of two consecutive requests (usually of
			// different groups, hence possibly executing at the same time): the library may read it, never write to it
			v, _ := r.sharedErrs.LoadOrStore(c/2, &res.Error{Message: "shared application error"})
			q.Error(v.(*res.Error))
		} else {
			q.NotFound()
		}
	}), res.Access(func(q res.AccessRequest) {
		c, _ := strconv.Atoi(q.PathParam("c"))
		r.reqOrder(c, q.PathParam("g"))
		r.body(c, q.PathParam("g"), false)
		if c%3 != 1 {
			v, _ := r.sharedErrs.LoadOrStore(c/2, &res.Error{Message: "shared application error"})
			q.Error(v.(*res.Error))
		} else {
			q.AccessGranted()
		}
	}), res.Call("m", func(q res.CallRequest) {
		c, _ := strconv.Atoi(q.PathParam("c"))
		r.reqOrder(c, q.PathParam("g"))
		r.body(c, q.PathParam("g"), false)
		if c%3 != 1 {
			v, _ := r.sharedErrs.LoadOrStore(c/2, &res.Error{Message: "shared application error"})
			q.Error(v.(*res.Error))
		} else {
			q.OK(nil)
		}
	}))
	// two patterns that share a prefix and diverge literal vs placeholder, both continuing deeper: a name that enters
	// the literal branch but matches only through the placeholder needs backtracking in the router
	s.Handle("bt.lit.deep", res.GetResource(func(q res.GetRequest) { q.NotFound() }))
	s.Handle("bt.$x.other", res.GetResource(func(q res.GetRequest) { q.NotFound() }))
	sub := res.NewMux("")
	s.Mount("sub", sub)
	s.Handle("sub.dflt.$k", res.GetResource(func(q res.GetRequest) { q.NotFound() }))
	// the root resource of the named service (pattern ""): its default group is the service name; and a pattern that is
	// one placeholder token: "svc." (an empty token after the service name) matches it, not the root pattern
	s.Handle("", res.GetResource(func(q res.GetRequest) { q.NotFound() }))
	s.Handle("$solo", res.GetResource(func(q res.GetRequest) { q.NotFound() }))
	// a pattern ending in the full wildcard, registered on a mounted Mux, whose group tag is not the first placeholder
	mw := res.NewMux("")
	mw.Handle("$zone.$shard.>", res.Group("${shard}"), res.GetResource(func(q res.GetRequest) { q.NotFound() }))
	s.Mount("mw", mw)
	// a group template that is a single ${tag} naming the FIRST token of the pattern
	s.Handle("$g.first", res.Group("${g}"), res.GetResource(func(q res.GetRequest) { q.NotFound() }))
	s.Handle("par.$c", res.Parallel(true), res.GetResource(func(q res.GetRequest) {
		c, _ := strconv.Atoi(q.PathParam("c"))
		r.body(c, "", false)
		q.NotFound()
	}))
	return s
}

// settle waits until every accepted callback has returned: as many cb-end notes as enq-new + enq-append notes, and
// no new log entry for three polls in a row (a quiet log alone is not enough: on a loaded machine the workers may
// simply not have been scheduled for a while); gives up after d.
func (r *runner) settle(d time.Duration) {
	deadline := time.Now().Add(3 * d)
	last := -1
	stable := 0
	for time.Now().Before(deadline) {
		r.rec.mu.Lock()
		n := len(r.rec.log)
		acc, done := 0, 0
		for _, e := range r.rec.log {
			switch e.kind {
			case "cycle-begin": // callbacks dropped by an earlier cycle's Shutdown are not waited for
				acc, done = 0, 0
			case "enq-new", "enq-append":
				acc++
			case "cb-end":
				done++
			}
		}
		r.rec.mu.Unlock()
		if n == last && done >= acc {
			stable++
			if stable >= 3 {
				return
			}
		} else {
			stable = 0
			last = n
		}
		time.Sleep(3 * time.Millisecond)
	}
}

func (r *runner) shutdown(s *res.Service) bool {
	done := make(chan error, 1)
	go func() {
		defer func() {
			if v := recover(); v != nil {
				r.violation(fmt.Sprintf("panic: Shutdown panicked: %v", v))
				done <- nil
			}
		}()
		done <- s.Shutdown()
	}()
	select {
	case <-done:
		return true
	case <-time.After(5 * time.Second):
		r.violation("shutdown-hang: Shutdown did not return within 5s")
		return false
	}
}

func (r *runner) safeGo(wg *sync.WaitGroup, what string, f func()) {
	wg.Add(1)
	go func() {
		defer wg.Done()
		defer func() {
			if v := recover(); v != nil {
				r.violation(fmt.Sprintf("panic: %s panicked: %v", what, v))
			}
		}()
		f()
	}()
}

// run executes the scenario and returns false if the process must stop (hang).
func (r *runner) run() bool {
	sc := r.sc
	var holdCtr uint32
	verifhook.SetNote(func(pt, s string, n int) {
		r.rec.add(pt, s, n)
		if f, _ := r.noteFn.Load().(func(string)); f != nil {
			f(pt)
		}
		// lock-hold perturbation (stress runs): now and then stay inside a critical section of s.mu for > 1 ms.
		// Goroutines then queue up on the mutex, it switches to starvation mode and is handed over in FIFO
		// order, which makes narrow "unlock; lock again" windows of the code under test reachable.
		if sc.Kind == "stress" {
			switch pt {
			case "enq-new", "enq-append", "take", "retire":
				if atomic.AddUint32(&holdCtr, 1)%23 == 0 {
					time.Sleep(1500 * time.Microsecond)
				}
			}
		}
	})
	verifhook.SetGate(r.gate)
	verifhook.SetPerturb(sc.Perturb)
	defer verifhook.SetPerturb(0)
	if sc.Kind == "d9" {
		return r.runD9()
	}
	if sc.Kind == "restartloop" {
		return r.runRestartLoop()
	}
	if sc.Kind == "d11" {
		return r.runD11()
	}
	if sc.Kind == "d12" {
		return r.runD12()
	}
	if sc.Kind == "d13" {
		return r.runD13()
	}
	if sc.Kind == "d14" {
		return r.runD14()
	}
	if sc.Kind == "d15" {
		return r.runD15()
	}
	c := &conn{rec: r.rec, r: r}
	s := r.newService(c)
	r.s = s
	for cyc := 0; cyc < sc.Cycles; cyc++ {
		// a fresh connection object per serve cycle: whatever the service publishes while served on it must go there
		c = &conn{rec: r.rec, r: r, gen: int32(cyc)}
		atomic.StoreInt32(&r.curGen, int32(cyc))
		served := make(chan error, 1)
		effWorkers := sc.Workers
		if effWorkers <= 0 {
			effWorkers = 32 // SetWorkerCount documents: a value less or equal to zero means the default
		}
		r.rec.add("cycle-begin", "", effWorkers)
		var startupWG sync.WaitGroup
		stopStartup := make(chan struct{})
		if sc.Kind == "d6" {
			for p := 0; p < 3; p++ {
				r.safeGo(&startupWG, "ResetAll during start-up", func() {
					for {
						select {
						case <-stopStartup:
							return
						default:
						}
						s.ResetAll()
						runtime.Gosched()
					}
				})
			}
		}
		cc := c
		go func() { served <- s.Serve(cc) }()
		// wait for started (positive evidence; the bound only matters when the service never subscribes)
		for i := 0; i < 50000; i++ {
			c.mu.Lock()
			ch := c.inCh
			c.mu.Unlock()
			if ch != nil {
				break
			}
			time.Sleep(100 * time.Microsecond)
		}
		time.Sleep(300 * time.Microsecond)
		c.mu.Lock()
		inCh := c.inCh
		c.mu.Unlock()
		if inCh != nil {
			// serve() sends system.reset right after subscribing, before it starts listening: it must be on THIS connection
			for i := 0; i < 50000 && atomic.LoadInt32(&r.resets[c.gen%8]) == 0; i++ {
				time.Sleep(100 * time.Microsecond)
			}
			if atomic.LoadInt32(&r.resets[c.gen%8]) == 0 {
				r.violation(fmt.Sprintf("no-reset: Serve (cycle %d) did not publish system.reset on the connection it was given", cyc))
			}
		}
		var wg sync.WaitGroup
		ok := true
		switch sc.Kind {
		case "random", "reqorder":
			for p := 0; p < sc.Producers; p++ {
				p := p
				r.safeGo(&wg, "WithGroup", func() {
					for k := 0; k < sc.PerProd; k++ {
						r.submit(sc.Groups[(p*7+k*3+int(sc.Seed))%len(sc.Groups)])
						if (p+k)%3 == 0 {
							runtime.Gosched()
						}
					}
				})
			}
			if sc.Requests > 0 {
				r.safeGo(&wg, "request sender", func() {
					for k := 0; k < sc.Requests; k++ {
						if !r.sendRequest(c, inCh, sc.Groups[(k*5+int(sc.Seed))%len(sc.Groups)]) {
							return
						}
					}
				})
			}
			// publishers; their slice arguments are shared between the goroutines and contain duplicates and an empty entry:
			// the service may read them while the call lasts, and must leave them as they are
			for pb := 0; pb < 2; pb++ {
				r.safeGo(&wg, "publisher", func() {
					for k := 0; k < 3; k++ {
						s.TokenEvent("cid1", nil)
						s.Reset(r.sharedRes, nil)
						s.TokenEventWithID("cid1", "tid1", map[string]int{"k": k})
						s.TokenReset("svc.auth", r.sharedTids...)
						s.Reset(nil, r.sharedRes)
						runtime.Gosched()
					}
				})
			}
			// configuration setters are for a stopped service only (that is what makes the unlocked reads of the
			// configuration fields safe): on a served service each of them must panic and change nothing
			if sc.Seed%3 == 0 {
				for name, f := range map[string]func(){
					"SetLogger":             func() { s.SetLogger(nil) },
					"SetQueryEventDuration": func() { s.SetQueryEventDuration(time.Second) },
					"SetWorkerCount":        func() { s.SetWorkerCount(1) },
					"SetInChannelSize":      func() { s.SetInChannelSize(1) },
				} {
					func() {
						defer func() {
							if recover() == nil && !c.isClosed() {
								r.violation("setter-accepted: " + name + " on a served service did not panic")
							}
						}()
						f()
					}()
				}
			}
			if sc.Shutdown == "during" {
				time.Sleep(time.Duration(r.rng.Intn(400)) * time.Microsecond)
				ok = r.shutdown(s)
				wg.Wait()
			} else {
				wg.Wait()
				r.settle(2 * time.Second)
				if cyc < sc.Cycles-1 || sc.Shutdown == "after" {
					ok = r.shutdown(s)
				}
			}
		case "d6": // publishers call ResetAll while Serve is starting up (default ownership is computed then)
			time.Sleep(2 * time.Millisecond)
			close(stopStartup)
			startupWG.Wait()
			for k := 0; k < 3; k++ {
				r.submit(sc.Groups[k%len(sc.Groups)])
			}
			r.settle(2 * time.Second)
			ok = r.shutdown(s)
		case "d1": // producer passes the started-check, then close() sets the queue to nil, then the producer enqueues
			blocked := make(chan struct{})
			release := make(chan struct{})
			var once int32
			var target uint64
			r.gateFn.Store(func(pt string) {
				switch pt {
				case "runwith-checked":
					if goid() == atomic.LoadUint64(&target) {
						if atomic.CompareAndSwapInt32(&once, 0, 1) {
							close(blocked)
							<-release
						}
					}
				case "close-after-nil":
					select {
					case <-release:
					default:
						close(release)
					}
				}
			})
			r.safeGo(&wg, "WithGroup", func() {
				atomic.StoreUint64(&target, goid())
				r.submit(sc.Groups[0])
			})
			prodDone := make(chan struct{})
			go func() { wg.Wait(); close(prodDone) }()
			select {
			case <-blocked:
			case <-prodDone: // the submission never reached runWith (refused earlier: reported by submit)
			}
			ok = r.shutdown(s)
			select {
			case <-release:
			default:
				close(release)
			}
			wg.Wait()
			r.gateFn.Store((func(string))(nil))
		case "d2": // publisher passes the started-check, Shutdown runs to completion, then the publisher uses the connection
			blocked := make(chan struct{})
			release := make(chan struct{})
			var once int32
			var target uint64
			r.gateFn.Store(func(pt string) {
				if pt == "publish-checked" && goid() == atomic.LoadUint64(&target) {
					if atomic.CompareAndSwapInt32(&once, 0, 1) {
						close(blocked)
						<-release
					}
				}
			})
			r.safeGo(&wg, "TokenEvent", func() {
				atomic.StoreUint64(&target, goid())
				switch sc.Seed % 3 {
				case 0:
					s.TokenEvent("cid1", map[string]string{"a": "b"})
				case 1:
					s.ResetAll()
				default:
					s.TokenReset("svc.auth", "tid1")
				}
			})
			<-blocked
			ok = r.shutdown(s)
			close(release)
			wg.Wait()
			r.gateFn.Store((func(string))(nil))
		case "d7": // a query event of group G expires while Shutdown is in progress and a callback of G is still executing
			g := sc.Groups[0]
			if g == "" {
				g = "g1"
			}
			c1 := r.newCb(g)
			cNil := r.newCb(g)
			inCb := make(chan struct{})
			release := make(chan struct{})
			r.pushSub(g, c1)
			if err := s.With(fmt.Sprintf("svc.item.%d.%s", c1, g), func(rs res.Resource) {
				r.rec.add("run", g, c1)
				v, _ := r.occupancy.LoadOrStore(g, new(int32))
				atomic.AddInt32(v.(*int32), 1)
				if p := r.scratch[g]; p != nil {
					*p = *p + 1
				}
				// the expiry callback is submitted by the query listener goroutine: its runWith invocation is
				// attributed through the anonymous submission queue
				r.lsub.mu.Lock()
				r.lsub.q = append(r.lsub.q, submission{g, cNil})
				r.lsub.mu.Unlock()
				rs.QueryEvent(func(q res.QueryRequest) {
					if q == nil {
						r.body(cNil, g, false)
					}
				})
				close(inCb)
				<-release
				if p := r.scratch[g]; p != nil {
					*p = *p + 1
				}
				atomic.AddInt32(v.(*int32), -1)
				r.rec.add("ret", g, c1)
			}); err != nil {
				r.violation("with-error: " + err.Error())
			}
			select {
			case <-inCb:
			case <-time.After(3 * time.Second):
				r.violation("callback-not-started: a callback submitted to the served service was not started within 3s")
			}
			shutDone := make(chan bool, 1)
			go func() { shutDone <- r.shutdown(s) }()
			time.Sleep(60 * time.Millisecond) // the query event expires while the callback is held and Shutdown waits
			close(release)
			ok = <-shutDone
		case "d8": // an in-flight callback uses the service (event, query event) after close() closed the connection, while
			// Shutdown waits for it; the next cycle serves on a new connection and its events must appear there
			g := sc.Groups[0]
			if g == "" {
				g = "g1"
			}
			if sc.Seed%4 == 1 {
				g = "" // a Parallel resource: its callbacks are not serialised, but Shutdown must drain them all the same
			}
			emit := func(c1 int, during bool) {
				inCb := make(chan struct{})
				release := make(chan struct{})
				var returned int32
				rid := fmt.Sprintf("svc.item.%d.%s", c1, g)
				if g == "" {
					rid = fmt.Sprintf("svc.par.%d", c1)
				}
				r.pushSub(g, c1)
				if err := s.With(rid, func(rs res.Resource) {
					defer atomic.StoreInt32(&returned, 1)
					r.rec.add("run", g, c1)
					defer r.rec.add("ret", g, c1)
					defer func() {
						if v := recover(); v != nil {
							r.violation(fmt.Sprintf("callback-panic: a callback in flight during Shutdown panicked using its resource: %v", v))
						}
					}()
					close(inCb)
					<-release
					rs.Event("custom", map[string]int{"c": c1})
					if during {
						nils := 0
						rs.QueryEvent(func(q res.QueryRequest) {
							if q == nil {
								nils++
							}
						})
						if nils != 1 {
							r.violation(fmt.Sprintf("query-nil: QueryEvent on a closed connection called back with nil %d times synchronously, expected once", nils))
						}
					}
				}); err != nil {
					r.violation("with-error: " + err.Error())
				}
				select {
				case <-inCb:
				case <-time.After(3 * time.Second):
					r.violation("callback-not-started: a callback submitted to the served service was not started within 3s")
				}
				if during {
					closed := make(chan struct{})
					var once int32
					r.onConnClose.Store(func() {
						if atomic.CompareAndSwapInt32(&once, 0, 1) {
							close(closed)
						}
					})
					shutDone := make(chan bool, 1)
					go func() { shutDone <- r.shutdown(s) }()
					select {
					case <-closed:
					case <-time.After(3 * time.Second):
					}
					time.Sleep(time.Duration(sc.Seed%3) * time.Millisecond)
					select {
					case ok = <-shutDone:
						if atomic.LoadInt32(&returned) == 0 {
							r.violation("drain: Shutdown returned while a callback that had started was still executing")
						}
						close(release)
					case <-time.After(10 * time.Millisecond):
						close(release)
						ok = <-shutDone
					}
					r.onConnClose.Store((func())(nil))
				} else {
					close(release)
					r.settle(2 * time.Second)
				}
			}
			if cyc < sc.Cycles-1 {
				emit(r.newCb(g), true)
			} else {
				emit(r.newCb(g), false)
				for k := 0; k < 3; k++ {
					r.submit(sc.Groups[k%len(sc.Groups)])
				}
				s.ResetAll()
				r.settle(2 * time.Second)
				if sc.Shutdown == "after" {
					ok = r.shutdown(s)
				}
			}
		case "d10": // query-request and query-expiry callbacks of a query event must be serialised with the resource's group:
			// while a callback of group G is executing, a query request arrives on a query event of a resource of G and the
			// event expires; neither callback may start before the executing one has returned
			g := sc.Groups[0]
			if g == "" {
				g = "g1"
			}
			c1, cq, cNil := r.newCb(g), r.newCb(g), r.newCb(g)
			cq2 := r.newCb(g)
			late := sc.Seed%2 == 1 // a second request is still buffered in the event's channel when the event expires
			var nreq int32
			atDone, resumeDone := make(chan struct{}), make(chan struct{})
			if late {
				var once int32
				r.gateFn.Store(func(pt string) {
					if pt == "query-done" && atomic.CompareAndSwapInt32(&once, 0, 1) {
						close(atDone)
						select {
						case <-resumeDone:
						case <-time.After(3 * time.Second):
						}
					}
				})
			}
			inCb := make(chan struct{})
			release := make(chan struct{})
			r.pushSub(g, c1)
			if err := s.With(fmt.Sprintf("svc.item.%d.%s", c1, g), func(rs res.Resource) {
				r.rec.add("run", g, c1)
				v, _ := r.occupancy.LoadOrStore(g, new(int32))
				if atomic.AddInt32(v.(*int32), 1) > 1 {
					r.violation("group-overlap: two callbacks of group " + g + " executing at once")
				}
				rs.QueryEvent(func(q res.QueryRequest) {
					if q == nil {
						r.body(cNil, g, false)
						return
					}
					if atomic.AddInt32(&nreq, 1) == 1 {
						r.body(cq, g, false)
					} else {
						r.body(cq2, g, false)
					}
					q.NotFound()
				})
				close(inCb)
				<-release
				atomic.AddInt32(v.(*int32), -1)
				r.rec.add("ret", g, c1)
			}); err != nil {
				r.violation("with-error: " + err.Error())
			}
			select {
			case <-inCb:
			case <-time.After(3 * time.Second):
				r.violation("callback-not-started: a callback submitted to the served service was not started within 3s")
			}
			var qch chan *nats.Msg
			var qsubj string
			c.mu.Lock()
			for sj, ch := range c.qsubs {
				qsubj, qch = sj, ch
			}
			c.mu.Unlock()
			// the callbacks are submitted by the query listener goroutine, in this order
			r.lsub.mu.Lock()
			r.lsub.q = append(r.lsub.q, submission{g, cq})
			if late {
				r.lsub.q = append(r.lsub.q, submission{g, cq2})
			}
			r.lsub.q = append(r.lsub.q, submission{g, cNil})
			r.lsub.mu.Unlock()
			if qch != nil {
				qch <- &nats.Msg{Subject: qsubj, Reply: fmt.Sprintf("Q%d", cq), Data: []byte(`{"query":"a=1"}`)}
			} else {
				r.violation("harness-query: no query event subscription was made")
			}
			if late && qch != nil {
				// the listener has seen the expiry and is about to pass on what is still buffered: buffer one more request
				select {
				case <-atDone:
					qch <- &nats.Msg{Subject: qsubj, Reply: fmt.Sprintf("Q%d", cq2), Data: []byte(`{"query":"a=2"}`)}
				case <-time.After(3 * time.Second):
					r.violation("harness-query: the query event did not expire within 3 s")
				}
				close(resumeDone)
			}
			time.Sleep(40 * time.Millisecond) // the request is forwarded and the event (15 ms) expires while c1 is still executing
			close(release)
			if late {
				r.gateFn.Store((func(string))(nil))
			}
			r.settle(2 * time.Second)
			if cyc < sc.Cycles-1 || sc.Shutdown == "after" {
				ok = r.shutdown(s)
			}
		case "dep": // callbacks of DIFFERENT idle groups submitted back to back, each waiting until all of them have started:
			// with at least as many workers as callbacks none of them may be left waiting in the queue while workers are idle
			k := sc.Workers
			if k > 3 {
				k = 3
			}
			var stranded int32
			for rd := 0; rd < sc.PerProd && atomic.LoadInt32(&stranded) == 0; rd++ {
				var started int32
				allStarted := make(chan struct{})
				var rwg sync.WaitGroup
				for j := 0; j < k; j++ {
					g := fmt.Sprintf("dep%d_%d", rd, j)
					cb := r.newCb(g)
					r.pushSub(g, cb)
					rwg.Add(1)
					s.WithGroup(g, func(*res.Service) {
						defer rwg.Done()
						r.rec.add("run", g, cb)
						if atomic.AddInt32(&started, 1) == int32(k) {
							close(allStarted)
						}
						select {
						case <-allStarted:
						case <-time.After(3 * time.Second):
							if atomic.CompareAndSwapInt32(&stranded, 0, 1) {
								r.violation(fmt.Sprintf("stranded: %d callbacks of %d different idle groups were accepted back to back by a service with %d workers, but only %d of them were started within 3 s: an accepted callback waits in the queue while workers are idle", k, k, sc.Workers, atomic.LoadInt32(&started)))
							}
						}
						r.rec.add("ret", g, cb)
					})
				}
				rwg.Wait()
			}
			r.settle(2 * time.Second)
			if cyc < sc.Cycles-1 || sc.Shutdown == "after" {
				ok = r.shutdown(s)
			}
		case "burst": // several goroutines submit to the same IDLE group at the same instant (spin barrier), round after
			// round on fresh groups: the lookup-or-create of a group's work item must be one atomic step
			k := sc.Producers
			rounds := sc.PerProd
			arrived := make([]int32, rounds)
			for p := 0; p < k; p++ {
				p := p
				r.safeGo(&wg, "WithGroup", func() {
					for rd := 0; rd < rounds; rd++ {
						g := fmt.Sprintf("b%d", rd)
						if rd%4 == 3 {
							g = sc.Groups[0] // now and then a long-lived group that goes idle and busy again
							if g == "" {
								g = "g1"
							}
						}
						c := r.newCb(g)
						r.pushSub(g, c)
						atomic.AddInt32(&arrived[rd], 1)
						for spin := 0; atomic.LoadInt32(&arrived[rd]) < int32(k) && spin < 2000000; spin++ {
						}
						if (p+rd)%2 == 0 {
							s.WithGroup(g, func(*res.Service) { r.body(c, g, false) })
						} else if err := s.With(fmt.Sprintf("svc.item.%d.%s", c, g), func(res.Resource) { r.body(c, g, false) }); err != nil {
							r.violation("with-error: " + err.Error())
						}
					}
				})
			}
			wg.Wait()
			r.settle(3 * time.Second)
			if cyc < sc.Cycles-1 || sc.Shutdown == "after" {
				ok = r.shutdown(s)
			}
		case "stress": // many tiny callbacks of few groups from several producers: work items retire and are re-created constantly
			for p := 0; p < sc.Producers; p++ {
				p := p
				r.safeGo(&wg, "WithGroup", func() {
					for k := 0; k < sc.PerProd; k++ {
						g := sc.Groups[(p+k)%len(sc.Groups)]
						c := r.newCb(g)
						r.pushSub(g, c)
						s.WithGroup(g, func(*res.Service) {
							r.rec.add("run", g, c)
							if q := r.scratch[g]; q != nil {
								*q = *q + 1
							}
							r.rec.add("ret", g, c)
						})
					}
				})
			}
			wg.Wait()
			r.settle(3 * time.Second)
			if cyc < sc.Cycles-1 || sc.Shutdown == "after" {
				ok = r.shutdown(s)
			}
		case "d3": // a callback is appended while the worker is between its last callback and re-locking
			g := sc.Groups[0]
			atRelock := make(chan struct{})
			release := make(chan struct{})
			var once int32
			r.gateFn.Store(func(pt string) {
				if pt == "worker-before-relock" {
					if atomic.CompareAndSwapInt32(&once, 0, 1) {
						close(atRelock)
						<-release
					}
				}
			})
			r.submit(g)
			<-atRelock
			r.submit(g) // appended to the live work item while its worker is parked before the re-lock
			r.submit(g)
			close(release)
			r.settle(2 * time.Second)
			r.gateFn.Store((func(string))(nil))
			if cyc < sc.Cycles-1 || sc.Shutdown == "after" {
				ok = r.shutdown(s)
			}
		case "d4": // new work is queued but its producer is parked before Signal while every worker waits
			r.settle(time.Second) // all workers reach Wait
			parked := make(chan struct{})
			release := make(chan struct{})
			var once int32
			r.gateFn.Store(func(pt string) {
				if pt == "runwith-before-signal" {
					if atomic.CompareAndSwapInt32(&once, 0, 1) {
						close(parked)
						<-release
					}
				}
			})
			r.safeGo(&wg, "WithGroup", func() { r.submit(sc.Groups[0]) })
			<-parked
			for k := 0; k < 3; k++ {
				r.submit(sc.Groups[k%len(sc.Groups)])
			}
			close(release)
			wg.Wait()
			r.settle(2 * time.Second)
			r.gateFn.Store((func(string))(nil))
			if cyc < sc.Cycles-1 || sc.Shutdown == "after" {
				ok = r.shutdown(s)
			}
		case "d5": // Shutdown is parked between setting the queue to nil and Broadcast while producers keep submitting
			parked := make(chan struct{})
			release := make(chan struct{})
			var once int32
			r.gateFn.Store(func(pt string) {
				if pt == "close-after-nil" {
					if atomic.CompareAndSwapInt32(&once, 0, 1) {
						close(parked)
						<-release
					}
				}
			})
			for k := 0; k < 4; k++ {
				r.submit(sc.Groups[k%len(sc.Groups)])
			}
			shutDone := make(chan bool, 1)
			go func() { shutDone <- r.shutdown(s) }()
			<-parked
			for p := 0; p < 3; p++ {
				p := p
				r.safeGo(&wg, "WithGroup", func() {
					for k := 0; k < 3; k++ {
						r.submit(sc.Groups[(p+k)%len(sc.Groups)])
					}
				})
			}
			wg.Wait()
			close(release)
			ok = <-shutDone
			r.gateFn.Store((func(string))(nil))
		}
		if !ok {
			return false
		}
		stopped := cyc < sc.Cycles-1 || sc.Shutdown != "none"
		if stopped {
			select {
			case <-served:
			case <-time.After(5 * time.Second):
				r.violation("serve-hang: Serve did not return after Shutdown")
				return false
			}
		}
	}
	return true
}

// runD9: the first Serve fails to subscribe (the library then shuts the service down by itself) while either a With
// callback submitted during the short started window is still executing (variant 0), or the first connection's Close
// is slow (variant 1); the application retries Serve on a new connection in a loop. A retry must be refused as
// not-stopped until the first cycle is completely over, and the second cycle must then give all the guarantees:
// no callback of the first cycle overlaps a same-group callback of the second, submissions are accepted, the
// start-up system.reset is on the new connection, Shutdown returns nil and Serve returns. Runtime checks only
// (the label trace of this scenario is not converted).
func (r *runner) runD9() bool {
	sc := r.sc
	variant := sc.Seed % 2
	g := "g1"
	c1 := &conn{rec: r.rec, r: r, gen: 0, failSub: true, closing: make(chan struct{})}
	closeGate := make(chan struct{})
	if variant == 1 {
		c1.closeGate = closeGate
	}
	s := r.newService(c1)
	s.SetLogger(logger.NewMemLogger())
	r.s = s
	release := make(chan struct{})
	inCb := make(chan struct{})
	var once, released int32
	cb1 := r.newCb(g)
	s.SetOnError(func(_ *res.Service, msg string) {
		if variant != 0 || !strings.Contains(msg, "ubscribe") || !atomic.CompareAndSwapInt32(&once, 0, 1) {
			return
		}
		r.pushSub(g, cb1)
		err := s.With(fmt.Sprintf("svc.item.%d.%s", cb1, g), func(res.Resource) {
			r.rec.add("run", g, cb1)
			v, _ := r.occupancy.LoadOrStore(g, new(int32))
			if atomic.AddInt32(v.(*int32), 1) > 1 {
				r.violation("group-overlap: two callbacks of group " + g + " executing at once")
			}
			close(inCb)
			<-release
			atomic.AddInt32(v.(*int32), -1)
			r.rec.add("ret", g, cb1)
		})
		if err != nil {
			close(inCb) // refused: nothing is in flight
			return
		}
		// stay inside the error callback (serve() is waiting for it) until the callback has been taken by a worker:
		// otherwise the shutdown that follows may legitimately drop it before it starts
		select {
		case <-inCb:
		case <-time.After(time.Second):
		}
	})
	releaseAll := func() {
		if atomic.CompareAndSwapInt32(&released, 0, 1) {
			close(release)
			close(closeGate)
		}
	}
	defer releaseAll()
	served1 := make(chan error, 1)
	go func() { served1 <- s.Serve(c1) }()
	if variant == 0 {
		select {
		case <-inCb:
		case <-time.After(2 * time.Second):
		}
	} else {
		select {
		case <-c1.closing:
		case <-time.After(2 * time.Second):
		}
	}
	// retry loop
	c2 := &conn{rec: r.rec, r: r, gen: 1}
	served2 := make(chan error, 1)
	holdUntil := time.Now().Add(60 * time.Millisecond)
	giveUp := time.Now().Add(4 * time.Second)
	serving := false
	for !serving {
		if time.Now().After(giveUp) {
			r.violation("restart-refused: Serve was still refused 4 s after the failed first start was over")
			return false
		}
		go func() { served2 <- s.Serve(c2) }()
		// the attempt is over when Serve has returned (refused: try again) or the start-up reset of the new cycle has
		// appeared on its connection (served); no conclusion is drawn from the mere passing of time
		for attempt := true; attempt; {
			select {
			case <-served2:
				if time.Now().After(holdUntil) {
					releaseAll()
				}
				time.Sleep(300 * time.Microsecond)
				attempt = false
			default:
				if atomic.LoadInt32(&r.resets[1]) > 0 {
					serving, attempt = true, false
				} else if time.Now().After(giveUp) {
					r.violation("no-reset: a retried Serve neither returned nor published system.reset on the connection it was given within 4 s")
					return false
				} else {
					time.Sleep(100 * time.Microsecond)
				}
			}
		}
	}
	atomic.StoreInt32(&r.curGen, 1)
	for i := 0; i < 50000 && atomic.LoadInt32(&r.resets[1]) == 0; i++ {
		time.Sleep(100 * time.Microsecond)
	}
	if atomic.LoadInt32(&r.resets[1]) == 0 {
		r.violation("no-reset: the retried Serve did not publish system.reset on the connection it was given")
	}
	early := atomic.LoadInt32(&released) == 0 // served again although the first cycle was still held open
	if early {
		for k := 0; k < 2; k++ {
			r.submitPlain(g)
		}
		r.settle(300 * time.Millisecond)
		releaseAll()
		time.Sleep(20 * time.Millisecond)
	}
	for k := 0; k < 3; k++ {
		r.submitPlain(g)
	}
	c2.mu.Lock()
	inCh := c2.inCh
	c2.mu.Unlock()
	if inCh != nil {
		r.sendRequest(c2, inCh, g)
	}
	r.settle(2 * time.Second)
	select {
	case <-served1:
	case <-time.After(5 * time.Second):
		r.violation("serve-hang: the first (failed) Serve did not return")
		return false
	}
	done := make(chan error, 1)
	go func() { done <- s.Shutdown() }()
	select {
	case err := <-done:
		if err != nil {
			r.violation("shutdown-error: Shutdown of the served service returned: " + err.Error())
		}
	case <-time.After(5 * time.Second):
		r.violation("shutdown-hang: Shutdown did not return within 5s")
		return false
	}
	select {
	case <-served2:
	case <-time.After(5 * time.Second):
		r.violation("serve-hang: Serve did not return after Shutdown")
		return false
	}
	if !c2.isClosed() {
		r.violation("not-closed: the connection of the second cycle was not closed by Shutdown")
	}
	return true
}

// runD11: Serve is called again in the tail of Shutdown: the service is flagged stopped (so Serve is accepted) but the
// Shutdown call has not finished yet. The blocked Serve call of the first cycle must still return, the second cycle
// must be served normally (its Serve call stays blocked until its own Shutdown, callbacks run, the start-up reset is
// on the new connection), and its Shutdown returns nil without panicking. Runtime checks only.
func (r *runner) runD11() bool {
	c1 := &conn{rec: r.rec, r: r, gen: 0}
	s := r.newService(c1)
	r.s = s
	served1 := make(chan error, 1)
	go func() { served1 <- s.Serve(c1) }()
	for i := 0; i < 20000 && atomic.LoadInt32(&r.resets[0]) == 0; i++ {
		time.Sleep(100 * time.Microsecond)
	}
	if atomic.LoadInt32(&r.resets[0]) == 0 {
		r.violation("no-reset: Serve did not publish system.reset")
		return false
	}
	r.submitPlain("g1")
	r.settle(time.Second)
	atStopped := make(chan struct{})
	resume := make(chan struct{})
	var once int32
	r.noteFn.Store(func(pt string) {
		if pt == "shutdown-stopped" && atomic.CompareAndSwapInt32(&once, 0, 1) {
			close(atStopped)
			select {
			case <-resume:
			case <-time.After(3 * time.Second):
			}
		}
	})
	defer r.noteFn.Store((func(string))(nil))
	shut1 := make(chan bool, 1)
	go func() { shut1 <- r.shutdown(s) }()
	select {
	case <-atStopped:
	case <-time.After(3 * time.Second):
		close(resume)
		r.violation("harness-d11: Shutdown did not reach the point where the service is flagged stopped")
		return <-shut1
	}
	// the service is stopped: Serve is accepted
	c2 := &conn{rec: r.rec, r: r, gen: 1}
	atomic.StoreInt32(&r.curGen, 1)
	served2 := make(chan error, 1)
	go func() {
		defer func() {
			if v := recover(); v != nil {
				r.violation(fmt.Sprintf("panic: Serve, called once the service was stopped, panicked: %v", v))
				served2 <- nil
			}
		}()
		served2 <- s.Serve(c2)
	}()
	for i := 0; i < 20000 && atomic.LoadInt32(&r.resets[1]) == 0; i++ {
		time.Sleep(100 * time.Microsecond)
	}
	started2 := atomic.LoadInt32(&r.resets[1]) > 0
	close(resume)
	if !<-shut1 {
		return false
	}
	if !started2 {
		select {
		case err := <-served2:
			r.violation(fmt.Sprintf("restart-refused: Serve on the stopped service came back with: %v", err))
		default:
			r.violation("no-reset: the second cycle did not publish system.reset on its connection")
		}
		return false
	}
	select {
	case <-served1:
	case <-time.After(2 * time.Second):
		r.violation("serve-hang: the Serve call of the first cycle did not return although its Shutdown has returned (a second cycle was started in the tail of that Shutdown)")
	}
	select {
	case err := <-served2:
		r.violation(fmt.Sprintf("serve-early: the Serve call of the second cycle returned (%v) although that cycle was never shut down", err))
		return true
	case <-time.After(20 * time.Millisecond):
	}
	for k := 0; k < 3; k++ {
		r.submitPlain("g1")
	}
	r.settle(time.Second)
	if !r.shutdown(s) {
		return false
	}
	select {
	case <-served2:
	case <-time.After(5 * time.Second):
		r.violation("serve-hang: Serve did not return after Shutdown")
		return false
	}
	if !c2.isClosed() {
		r.violation("not-closed: the connection of the second cycle was not closed by Shutdown")
	}
	return true
}

// runD12: a start that fails before the service is flagged started (an event listener on a pattern without handler),
// then Shutdown from another goroutine: Serve must return the error, and Shutdown must return within bounded time
// (refused as not started) however the failed start left the service. Runtime checks only.
func (r *runner) runD12() bool {
	c1 := &conn{rec: r.rec, r: r, gen: 0}
	s := r.newService(c1)
	r.s = s
	s.AddListener("nohandler.$id", func(*res.Event) {})
	served := make(chan error, 1)
	go func() { served <- s.Serve(c1) }()
	select {
	case err := <-served:
		if err == nil {
			r.violation("serve-nil: Serve returned nil although an event listener has no handler")
		}
	case <-time.After(3 * time.Second):
		r.violation("serve-hang: Serve neither failed nor served within 3 s although an event listener has no handler")
	}
	n := 1 + int(r.sc.Seed%2)
	done := make(chan struct{}, n)
	for i := 0; i < n; i++ {
		go func() {
			defer func() {
				if v := recover(); v != nil {
					r.violation(fmt.Sprintf("panic: Shutdown after a failed start panicked: %v", v))
				}
				done <- struct{}{}
			}()
			s.Shutdown()
		}()
	}
	for i := 0; i < n; i++ {
		select {
		case <-done:
		case <-time.After(5 * time.Second):
			r.violation("shutdown-hang: Shutdown, called after a start that had failed, did not return within 5s")
			return false
		}
	}
	return true
}

// runD13: a callback that takes long (6 s) is executing when Shutdown is called: Shutdown returns only when it has
// finished, however long that takes; the service can be served again afterwards. Runtime checks only.
func (r *runner) runD13() bool {
	c1 := &conn{rec: r.rec, r: r, gen: 0}
	s := r.newService(c1)
	r.s = s
	served := make(chan error, 1)
	go func() { served <- s.Serve(c1) }()
	for i := 0; i < 50000 && atomic.LoadInt32(&r.resets[0]) == 0; i++ {
		time.Sleep(100 * time.Microsecond)
	}
	g := "g1"
	if r.sc.Seed%2 == 1 {
		g = "" // Parallel resource
	}
	cb := r.newCb(g)
	rid := fmt.Sprintf("svc.item.%d.%s", cb, g)
	if g == "" {
		rid = fmt.Sprintf("svc.par.%d", cb)
	}
	inCb, release := make(chan struct{}), make(chan struct{})
	var returned int32
	r.pushSub(g, cb)
	if err := s.With(rid, func(res.Resource) {
		close(inCb)
		<-release
		atomic.StoreInt32(&returned, 1)
	}); err != nil {
		r.violation("with-error: " + err.Error())
		return r.shutdown(s)
	}
	select {
	case <-inCb:
	case <-time.After(3 * time.Second):
		r.violation("callback-not-started: a callback submitted to the served service was not started within 3s")
		close(release)
		return r.shutdown(s)
	}
	shut := make(chan error, 1)
	go func() { shut <- s.Shutdown() }()
	select {
	case <-shut:
		if atomic.LoadInt32(&returned) == 0 {
			r.violation("drain: Shutdown returned while a callback that had started was still executing (it had been executing for less than 6 s)")
		}
		close(release)
		return true
	case <-time.After(6 * time.Second):
	}
	close(release)
	select {
	case <-shut:
	case <-time.After(5 * time.Second):
		r.violation("shutdown-hang: Shutdown did not return within 5s after the last callback had returned")
		return false
	}
	select {
	case <-served:
	case <-time.After(5 * time.Second):
		r.violation("serve-hang: Serve did not return after Shutdown")
		return false
	}
	return true
}

// runD14: Shutdown while callbacks keep arriving for a group that is busy: a callback that re-submits itself every time
// it runs, and another goroutine submitting to the same group in a loop. Once Shutdown has begun the submissions are
// refused, so the group's queue runs dry and Shutdown returns within bounded time. Runtime checks only.
func (r *runner) runD14() bool {
	c1 := &conn{rec: r.rec, r: r, gen: 0}
	s := r.newService(c1)
	r.s = s
	served := make(chan error, 1)
	go func() { served <- s.Serve(c1) }()
	for i := 0; i < 50000 && atomic.LoadInt32(&r.resets[0]) == 0; i++ {
		time.Sleep(100 * time.Microsecond)
	}
	g := "g1"
	var stop, ran int32
	var self func(*res.Service)
	self = func(*res.Service) {
		atomic.AddInt32(&ran, 1)
		time.Sleep(50 * time.Microsecond)
		if atomic.LoadInt32(&stop) == 0 {
			s.WithGroup(g, self)
		}
	}
	s.WithGroup(g, self)
	var wg sync.WaitGroup
	r.safeGo(&wg, "WithGroup", func() {
		for atomic.LoadInt32(&stop) == 0 {
			s.WithGroup(g, func(*res.Service) { atomic.AddInt32(&ran, 1) })
			time.Sleep(20 * time.Microsecond)
		}
	})
	time.Sleep(5 * time.Millisecond)
	before := atomic.LoadInt32(&ran)
	ok := make(chan bool, 1)
	go func() {
		done := make(chan error, 1)
		go func() { done <- s.Shutdown() }()
		select {
		case <-done:
			ok <- true
		case <-time.After(3 * time.Second):
			r.violation(fmt.Sprintf("shutdown-hang: Shutdown did not return within 3 s while callbacks kept being submitted to a busy group (%d callbacks ran after Shutdown was called)", atomic.LoadInt32(&ran)-before))
			ok <- false
		}
	}()
	res := <-ok
	atomic.StoreInt32(&stop, 1)
	wg.Wait()
	if !res {
		return false
	}
	select {
	case <-served:
	case <-time.After(5 * time.Second):
		r.violation("serve-hang: Serve did not return after Shutdown")
		return false
	}
	return true
}

// runD15: Shutdown from another goroutine while the OnServe hook of the application is still running (the service is
// started, subscribed and has sent its reset; the request listener is not yet running). Shutdown returns, and when the
// hook has returned the blocked Serve call returns too; a following serve cycle works. Runtime checks only.
func (r *runner) runD15() bool {
	c1 := &conn{rec: r.rec, r: r, gen: 0}
	s := r.newService(c1)
	r.s = s
	inHook, leaveHook := make(chan struct{}), make(chan struct{})
	var once int32
	s.SetOnServe(func(*res.Service) {
		if atomic.CompareAndSwapInt32(&once, 0, 1) {
			close(inHook)
			select {
			case <-leaveHook:
			case <-time.After(5 * time.Second):
			}
		}
	})
	served := make(chan error, 1)
	go func() { served <- s.Serve(c1) }()
	select {
	case <-inHook:
	case <-time.After(5 * time.Second):
		r.violation("harness-d15: the OnServe hook was not called within 5 s")
		close(leaveHook)
		return r.shutdown(s)
	}
	if !r.shutdown(s) {
		close(leaveHook)
		return false
	}
	if r.sc.Seed%2 == 1 {
		// the application serves again before the first hook has returned
		c2 := &conn{rec: r.rec, r: r, gen: 1}
		atomic.StoreInt32(&r.curGen, 1)
		served2 := make(chan error, 1)
		go func() { served2 <- s.Serve(c2) }()
		for i := 0; i < 50000 && atomic.LoadInt32(&r.resets[1]) == 0; i++ {
			time.Sleep(100 * time.Microsecond)
		}
		close(leaveHook)
		select {
		case <-served:
		case <-time.After(3 * time.Second):
			r.violation("serve-hang: the Serve call whose cycle was shut down during its OnServe hook did not return within 3 s after the hook had returned (a second cycle is being served)")
		}
		r.submitPlain("g1")
		r.settle(time.Second)
		if !r.shutdown(s) {
			return false
		}
		select {
		case <-served2:
		case <-time.After(5 * time.Second):
			r.violation("serve-hang: Serve did not return after Shutdown")
			return false
		}
		return true
	}
	close(leaveHook)
	select {
	case <-served:
	case <-time.After(3 * time.Second):
		r.violation("serve-hang: the Serve call whose cycle was shut down during its OnServe hook did not return within 3 s after the hook had returned")
		return false
	}
	return true
}

// runRestartLoop: many stop/start cycles in which Serve is called again as soon as Shutdown has returned (the service
// is stopped then), without waiting for the previous Serve call to return. The new Serve must be accepted and must
// not panic, the previous Serve call must return although a new cycle is being served, and each cycle publishes its
// start-up system.reset on its own connection. Shutdown is only called once the cycle's start-up is complete
// (Shutdown during Serve's own start-up is not among the concurrent uses C03 lists). Runtime checks only.
func (r *runner) runRestartLoop() bool {
	sc := r.sc
	rounds := sc.PerProd
	c := &conn{rec: &recorder{}, r: r, gen: 0}
	s := r.newService(c)
	r.s = s
	served := make(chan error, 1)
	go func() { served <- s.Serve(c) }()
	waitReset := func(gen int) bool {
		for i := 0; i < 20000; i++ {
			if atomic.LoadInt32(&r.resets[gen%8]) > 0 {
				return true
			}
			time.Sleep(100 * time.Microsecond)
		}
		return false
	}
	if !waitReset(0) {
		r.violation("no-reset: Serve did not publish system.reset")
		return false
	}
	late := 0
	lateAfter := 3 * time.Second
	for i := 1; i <= rounds; i++ {
		atomic.StoreInt32(&r.resets[(i+1)%8], 0)
		var e2 error
		second := make(chan struct{})
		if i%3 == 0 {
			// a second, concurrent Shutdown: exactly one of the two calls stops the service, the other is refused
			go func() { e2 = s.Shutdown(); close(second) }()
		} else {
			e2 = errors.New("res: service is not started")
			close(second)
		}
		e1 := s.Shutdown()
		select {
		case <-second:
		case <-time.After(5 * time.Second):
			r.violation(fmt.Sprintf("shutdown-hang: round %d: a second, concurrent Shutdown call did not return within 5s", i))
			return false
		}
		if (e1 == nil) == (e2 == nil) {
			r.violation(fmt.Sprintf("shutdown-twice: round %d: two concurrent Shutdown calls returned %v and %v: exactly one of them stops the service, the other is refused as not started", i, e1, e2))
			return false
		}
		cn := &conn{rec: c.rec, r: r, gen: int32(i)}
		atomic.StoreInt32(&r.curGen, int32(i))
		next := make(chan error, 1)
		go func() {
			defer func() {
				if v := recover(); v != nil {
					r.violation(fmt.Sprintf("panic: Serve, called right after Shutdown had returned, panicked: %v", v))
					next <- nil
				}
			}()
			next <- s.Serve(cn)
		}()
		if !waitReset(i) {
			select {
			case err := <-next:
				r.violation(fmt.Sprintf("restart-refused: round %d: Serve after Shutdown had returned came back with: %v", i, err))
			default:
				r.violation(fmt.Sprintf("no-reset: round %d: the new cycle did not publish system.reset", i))
			}
			return false
		}
		select {
		case <-served:
		case <-time.After(lateAfter):
			late++
			if late == 1 {
				r.violation(fmt.Sprintf("serve-late: round %d: the previous Serve call had not returned 3 s after Shutdown returned and a new cycle was being served", i))
				lateAfter = time.Millisecond
			}
		}
		served = next
		if i%64 == 0 {
			r.submitPlain("g1")
		}
	}
	ok := r.shutdown(s)
	if ok {
		select {
		case <-served:
		case <-time.After(5 * time.Second):
			r.violation("serve-hang: Serve did not return after Shutdown")
			return false
		}
	}
	return ok
}

// submitPlain submits one callback to group g through With and reports a refusal (the service is being served).
func (r *runner) submitPlain(g string) {
	c := r.newCb(g)
	r.pushSub(g, c)
	if err := r.s.With(fmt.Sprintf("svc.item.%d.%s", c, g), func(res.Resource) { r.body(c, g, false) }); err != nil {
		r.violation("with-error: With on a served service reported: " + err.Error())
	}
}

// ---------- log -> labels ----------

type conv struct {
	r        *runner
	labels   []string
	kinds    []string
	svc      string
	widx     map[uint64]int
	retired  map[uint64]bool
	running  map[uint64]int
	prod     map[uint64]int // goid -> current producer number
	prodSub  map[uint64]submission
	widBad   bool
	nextP    int
	wq       []int
	nextW    int
	pub      map[uint64]int
	cleared  bool
	shutSt   int // 0 idle, 1 waited (LWgDone emitted, LClearConn not yet)
	hasClose bool
	lsubIdx  int
	subIdx   map[uint64]int
	cbGroups map[int]string
	groupNum map[string]int
}

func (c *conv) emit(kind, term string) {
	c.labels = append(c.labels, term)
	c.kinds = append(c.kinds, kind)
}

// insertBeforeLast inserts a label before the last label of the given kind (linearisation of an
// atomic read that happened before that label although it was logged after it).
func (c *conv) insertBeforeLast(beforeKind, kind, term string) bool {
	for i := len(c.kinds) - 1; i >= 0; i-- {
		if c.kinds[i] == beforeKind {
			c.labels = append(c.labels[:i], append([]string{term}, c.labels[i:]...)...)
			c.kinds = append(c.kinds[:i], append([]string{kind}, c.kinds[i:]...)...)
			return true
		}
	}
	return false
}

// earlyStart: a started-check that passed while the "serve-started" note is not yet logged means the
// atomic store of stateStarted has already happened (the note is logged after the store).
func (c *conv) earlyStart() {
	if c.svc == "starting" {
		c.emit("servestarted", "LServeStarted")
		c.svc = "started"
	}
}

func (c *conv) gnum(g string) int {
	if g == "" {
		return 0
	}
	if n, ok := c.groupNum[g]; ok {
		return n
	}
	n := len(c.groupNum) + 1
	c.groupNum[g] = n
	return n
}

func (c *conv) worker(g uint64) int {
	if k, ok := c.widx[g]; ok {
		return k
	}
	k := len(c.widx)
	c.widx[g] = k
	return k
}

func (c *conv) popSub(g uint64) (submission, bool) {
	if v, ok := c.r.subs.Load(g); ok {
		q := *(v.(*[]submission))
		i := c.subIdx[g]
		if i < len(q) {
			c.subIdx[g] = i + 1
			return q[i], true
		}
	}
	// the listener goroutine
	c.r.lsub.mu.Lock()
	defer c.r.lsub.mu.Unlock()
	if c.lsubIdx < len(c.r.lsub.q) {
		s := c.r.lsub.q[c.lsubIdx]
		c.lsubIdx++
		return s, true
	}
	return submission{}, false
}

// checkWid: the queue key under which the service files a callback must be the group of the resource (its name, or
// what the Group option maps it to; "" for a Parallel resource), whichever way the callback was submitted.
func (c *conv) checkWid(e entry) {
	sub, ok := c.prodSub[e.gid]
	if !ok || c.widBad || e.s == sub.g {
		return
	}
	c.widBad = true
	c.r.violation(fmt.Sprintf("wrong-group: callback %d belongs to group %q, but the service filed it under the queue key %q", sub.c, sub.g, e.s))
}

func sectRes(kind string, w int) string {
	switch kind {
	case "take":
		return fmt.Sprintf("(RTake %d%%N)", w)
	case "worker-wait":
		return "RWait"
	default:
		return "RExit"
	}
}

func (c *conv) convert(log []entry) error {
	for i, e := range log {
		switch e.kind {
		case "cycle-begin":
			c.emit("servecas", "LServeCAS true")
			c.emit("serveinit", fmt.Sprintf("LServeInit %d%%nat", e.n))
			c.widx = map[uint64]int{}
			c.retired = map[uint64]bool{}
			c.running = map[uint64]int{}
			c.wq = nil
			c.cleared = false
			c.svc = "starting"
		case "serve-started":
			if c.svc != "started" { // otherwise already emitted early, see earlyStart
				c.emit("servestarted", "LServeStarted")
				c.svc = "started"
			}
		case "gate:runwith-checked":
			c.earlyStart()
			sub, ok := c.popSub(e.gid)
			if !ok {
				return fmt.Errorf("log %d: runWith invocation without a recorded submission", i)
			}
			c.nextP++
			c.prod[e.gid] = c.nextP
			c.prodSub[e.gid] = sub
			t := fmt.Sprintf("LCheck %d%%N %d%%N %d%%N true", c.nextP, c.gnum(sub.g), sub.c)
			if c.svc != "started" && c.insertBeforeLast("shutcas", "check", t) {
				// the load preceded Shutdown's CAS
			} else {
				c.emit("check", t)
			}
		case "enq-refused":
			sub, ok := c.popSub(e.gid)
			if !ok {
				return fmt.Errorf("log %d: refused runWith without a recorded submission", i)
			}
			c.nextP++
			t := fmt.Sprintf("LCheck %d%%N %d%%N %d%%N false", c.nextP, c.gnum(sub.g), sub.c)
			if c.svc == "started" && c.insertBeforeLast("servestarted", "check", t) {
			} else {
				c.emit("check", t)
			}
		case "enq-closing":
			c.checkWid(e)
			c.emit("enq", fmt.Sprintf("LEnq %d%%N EClosing", c.prod[e.gid]))
			delete(c.prod, e.gid)
		case "enq-new":
			c.checkWid(e)
			c.emit("enq", fmt.Sprintf("LEnq %d%%N ENew", c.prod[e.gid]))
			c.wq = append(c.wq, c.nextW)
			c.nextW++
		case "enq-append":
			c.checkWid(e)
			c.emit("enq", fmt.Sprintf("LEnq %d%%N EAppend", c.prod[e.gid]))
			delete(c.prod, e.gid)
		case "gate:runwith-before-signal":
			c.emit("signal", fmt.Sprintf("LSignal %d%%N", c.prod[e.gid]))
			delete(c.prod, e.gid)
		case "take", "worker-wait", "worker-exit":
			k := c.worker(e.gid)
			w := 0
			if e.kind == "take" {
				if len(c.wq) == 0 {
					return fmt.Errorf("log %d: take with empty mirrored queue", i)
				}
				w = c.wq[0]
				c.wq = c.wq[1:]
			}
			c.emit("sect", fmt.Sprintf("LSect %d%%nat %s %s", k, Bool(c.retired[e.gid]), sectRes(e.kind, w)))
			c.retired[e.gid] = false
		case "worker-wake":
			c.emit("wake", fmt.Sprintf("LWake %d%%nat", c.worker(e.gid)))
		case "retire":
			c.retired[e.gid] = true
		case "cb-start":
			k := c.worker(e.gid)
			if e.n > 0 {
				c.emit("sect", fmt.Sprintf("LSect %d%%nat false RNext", k))
			}
			cb := -1
			for j := i + 1; j < len(log); j++ {
				if log[j].gid == e.gid {
					if log[j].kind == "run" {
						cb = log[j].n
					} else if log[j].kind == "conn-publish" && strings.HasPrefix(log[j].s, "R") {
						// the callback of a request for an unmatched resource: processRequest replies notFound itself
						cb, _ = strconv.Atoi(log[j].s[1:])
					}
					break
				}
			}
			if cb < 0 {
				return fmt.Errorf("log %d: cb-start without callback body entry", i)
			}
			c.running[e.gid] = cb
			c.emit("start", fmt.Sprintf("LStart %d%%nat %d%%N", k, cb))
		case "cb-end":
			c.emit("end", fmt.Sprintf("LEnd %d%%nat %d%%N", c.worker(e.gid), c.running[e.gid]))
		case "shutdown-begin":
			c.emit("shutcas", "LShutCAS true")
			c.svc = "stopping"
		case "close-nil":
			c.emit("closenil", "LCloseNil")
			c.wq = nil
			c.hasClose = true
		case "close-broadcast":
			c.emit("bcast", "LBroadcast")
		case "conn-close":
			c.emit("connclose", "LConnClose")
		case "shutdown-waited":
			c.emit("wgdone", "LWgDone")
			c.shutSt = 1
		case "shutdown-stopped":
			if c.shutSt == 1 {
				c.emit("clear", "LClearConn")
			}
			c.cleared = true
			c.shutSt = 0
			c.emit("stopped", "LStopped")
			c.svc = "stopped"
		case "gate:publish-checked":
			c.earlyStart()
			c.nextP++
			c.pub[e.gid] = c.nextP
			t := fmt.Sprintf("LPubCheck %d%%N true", c.nextP)
			if c.svc != "started" && c.insertBeforeLast("shutcas", "pubcheck", t) {
			} else {
				c.emit("pubcheck", t)
			}
		case "conn-publish":
			if p, ok := c.pub[e.gid]; ok {
				t := fmt.Sprintf("LPubUse %d%%N true", p)
				// Publish is logged when it is called; the connection was read (under s.mu) before that,
				// hence before Shutdown cleared it, if it has been cleared by now.
				if c.cleared && c.insertBeforeLast("clear", "pubuse", t) {
				} else {
					c.emit("pubuse", t)
				}
				delete(c.pub, e.gid)
			}
		case "publish-refused":
			if p, ok := c.pub[e.gid]; ok {
				if c.shutSt == 1 {
					c.emit("clear", "LClearConn")
					c.cleared = true
					c.shutSt = 2
				}
				c.emit("pubuse", fmt.Sprintf("LPubUse %d%%N false", p))
				delete(c.pub, e.gid)
			}
		}
	}
	return nil
}

func runScenario(sc scenario) (Case, []ImplViolation, bool) {
	r := &runner{sc: sc, rec: &recorder{}, rng: NewRng(sc.Seed), scratch: map[string]*int{}}
	for _, g := range sc.Groups {
		if g != "" {
			r.scratch[g] = new(int)
		}
	}
	r.sharedTids = []string{"tid1", "tid2", "tid2", "", "tid4", "tid1"}
	r.sharedRes = []string{"svc.>", "svc.a", "svc.a", "svc.>"}
	alive := r.run()
	if fmt.Sprint(r.sharedTids) != fmt.Sprint([]string{"tid1", "tid2", "tid2", "", "tid4", "tid1"}) || fmt.Sprint(r.sharedRes) != fmt.Sprint([]string{"svc.>", "svc.a", "svc.a", "svc.>"}) {
		r.violation(fmt.Sprintf("argument-mutated: a slice passed to TokenReset/Reset was modified by the service: %q %q", r.sharedTids, r.sharedRes))
	}
	verifhook.SetNote(nil)
	verifhook.SetGate(nil)
	if r.stopPoll != nil {
		close(r.stopPoll)
	}
	r.rec.mu.Lock()
	log := append([]entry{}, r.rec.log...)
	r.rec.mu.Unlock()
	// a scenario that leaves its service running (shutdown "none") must not leak goroutines into the next scenario,
	// whose hooks are process-wide: stop it now that the hooks are off and the log is taken
	if r.s != nil {
		stopped := make(chan struct{})
		go func() {
			defer close(stopped)
			defer func() { recover() }()
			r.s.Shutdown()
		}()
		select {
		case <-stopped:
		case <-time.After(5 * time.Second):
		}
	}
	cv := &conv{r: r, widx: map[uint64]int{}, retired: map[uint64]bool{}, running: map[uint64]int{}, prod: map[uint64]int{}, prodSub: map[uint64]submission{},
		pub: map[uint64]int{}, subIdx: map[uint64]int{}, groupNum: map[string]int{}, svc: "stopped"}
	if sc.Kind != "d9" && sc.Kind != "d11" && sc.Kind != "d12" && sc.Kind != "d13" && sc.Kind != "d14" && sc.Kind != "d15" && sc.Kind != "restartloop" {
		if err := cv.convert(log); err != nil {
			r.violation("harness-conversion: " + err.Error())
		}
	}
	var groups []string
	r.cbGroup.Range(func(k, v interface{}) bool {
		groups = append(groups, fmt.Sprintf("(%d%%N,%d%%N)", k.(int), cv.gnum(v.(string))))
		return true
	})
	complete := sc.Shutdown == "none" && alive && len(r.impl) == 0
	term := fmt.Sprintf("SC %s %s %s []", List(cv.labels), List(groups), Bool(complete))
	// non-trivial: >= 2 callbacks of one group were pending simultaneously (an EAppend happened) and >= 2 workers took work
	appends, takers := 0, map[string]bool{}
	for i, k := range cv.kinds {
		if k == "enq" && strings.HasSuffix(cv.labels[i], "EAppend") {
			appends++
		}
		if k == "sect" && strings.Contains(cv.labels[i], "RTake") {
			takers[strings.Fields(cv.labels[i])[1]] = true
		}
	}
	nt := (appends > 0 && len(takers) >= 2) || strings.HasPrefix(sc.Kind, "d")
	return Case{Term: term, Desc: sc, Nontrivial: nt, Key: term}, r.impl, alive
}

var raceMode bool

func main() {
	prop := flag.String("prop", "C01", "C01|C02|C03|C16")
	o := ParseOpts()
	raceMode = *prop == "C16"
	rng := NewRng(o.Seed)
	var cases []Case
	var impl []ImplViolation
	dist := map[string]int{}
	n := 150
	if o.Tier == "thorough" {
		n = 1500
	}
	if o.N > 0 {
		n = o.N
	}
	var scs []scenario
	if o.Replay != "" {
		var sc scenario
		if err := LoadReplay(o.Replay, &sc); err != nil {
			panic(err)
		}
		scs = append(scs, sc)
	} else {
		groupSets := [][]string{{"g1"}, {"g1", "g2"}, {"g1", "g2", "g3", ""}, {"", "g1"}, {"a", "b", "c", "d", "e"}}
		for i := 0; i < n; i++ {
			sc := scenario{Kind: "random", Workers: []int{1, 2, 3, 8, 32}[rng.Intn(5)], InCh: []int{1, 2, 1024}[rng.Intn(3)],
				Producers: 1 + rng.Intn(6), PerProd: 1 + rng.Intn(8), Groups: groupSets[rng.Intn(len(groupSets))],
				Requests: rng.Intn(12), Cycles: 1 + rng.Intn(3), Nested: rng.Chance(30), Seed: rng.Next() % 1000000}
			switch rng.Intn(4) {
			case 0:
				sc.Shutdown = "during"
			case 1:
				sc.Shutdown = "none"
			default:
				sc.Shutdown = "after"
			}
			if rng.Chance(60) {
				sc.Perturb = rng.Next() | 1
			}
			if *prop == "C03" && rng.Chance(50) {
				sc.Shutdown = "during"
			}
			scs = append(scs, sc)
		}
		ns := 3
		if o.Tier == "thorough" {
			ns = 40
		}
		for i := 0; i < ns; i++ {
			scs = append(scs, scenario{Kind: "stress", Workers: []int{1, 2, 4}[rng.Intn(3)], InCh: 1024, Producers: 3 + rng.Intn(4),
				PerProd: 400, Groups: groupSets[rng.Intn(2)], Cycles: 1, Shutdown: "none", Seed: rng.Next() % 1000000})
		}
		// the documented "default" worker count 0
		for i := 0; i < 2; i++ {
			scs = append(scs, scenario{Kind: "random", Workers: 0, InCh: 1024, Producers: 2 + rng.Intn(3), PerProd: 3 + rng.Intn(4),
				Groups: groupSets[rng.Intn(3)], Requests: 4, Cycles: 1, Shutdown: []string{"none", "after"}[i%2], Seed: rng.Next() % 1000000})
		}
		// requests for a resource no handler matches (every second request, seed%4 == 0) while Shutdown is called
		for i := 0; i < ns+1; i++ {
			scs = append(scs, scenario{Kind: "random", Workers: []int{1, 2, 8}[rng.Intn(3)], InCh: []int{2, 1024}[i%2], Producers: 1, PerProd: 2,
				Groups: groupSets[rng.Intn(3)], Requests: 40, Cycles: 1 + rng.Intn(2), Shutdown: "during", Seed: rng.Next() % 1000000 / 4 * 4})
			// ... and nothing but such requests, so that the listener's last actions before the shutdown are of that kind
			scs = append(scs, scenario{Kind: "random", Workers: []int{1, 2, 8}[rng.Intn(3)], InCh: []int{2, 1024}[i%2], Producers: 0, PerProd: 0, Unmatched: true,
				Groups: groupSets[rng.Intn(3)], Requests: 200, Cycles: 2, Shutdown: "during", Seed: rng.Next() % 1000000 / 4 * 4})
		}
		nb := 3
		if o.Tier == "thorough" {
			nb = 30
		}
		for i := 0; i < nb; i++ {
			scs = append(scs, scenario{Kind: "burst", Workers: []int{2, 4, 32}[rng.Intn(3)], InCh: 1024, Producers: 4 + rng.Intn(3),
				PerProd: 250, Groups: []string{"g1"}, Cycles: 1, Shutdown: []string{"none", "after"}[rng.Intn(2)], Seed: rng.Next() % 1000000})
		}
		nrl := 0
		if *prop == "C03" {
			nrl = 1
			if o.Tier == "thorough" {
				nrl = 6
			}
		}
		for i := 0; i < nrl; i++ {
			scs = append(scs, scenario{Kind: "restartloop", Workers: []int{1, 2, 4}[rng.Intn(3)], InCh: 1024, PerProd: 1500, Groups: []string{"g1"},
				Cycles: 1500, Shutdown: "after", Seed: rng.Next() % 1000000})
		}
		nd := 4
		if o.Tier == "thorough" {
			nd = 60
		}
		for i := 0; i < nd; i++ {
			scs = append(scs, scenario{Kind: "d9", Workers: []int{1, 2, 32}[rng.Intn(3)], InCh: 1024, Groups: []string{"g1"},
				Cycles: 2, Shutdown: "after", Seed: rng.Next()%1000000/2*2 + uint64(i%2)})
		}
		for i := 0; i < nd; i++ {
			scs = append(scs, scenario{Kind: "d11", Workers: []int{1, 2, 32}[rng.Intn(3)], InCh: 1024, Groups: []string{"g1"},
				Cycles: 2, Shutdown: "after", Seed: rng.Next() % 1000000})
		}
		for i := 0; i < nd; i++ {
			scs = append(scs, scenario{Kind: "d12", Workers: []int{1, 2, 32}[rng.Intn(3)], InCh: 1024, Groups: []string{"g1"},
				Cycles: 1, Shutdown: "after", Seed: rng.Next()%1000000/2*2 + uint64(i%2)})
		}
		for i := 0; i < nd; i++ {
			scs = append(scs, scenario{Kind: "d15", Workers: []int{1, 2, 32}[i%3], InCh: 1024, Groups: []string{"g1"},
				Cycles: 1, Shutdown: "after", Seed: rng.Next()%1000000/2*2 + uint64(i%2)})
		}
		for i := 0; i < nd; i++ {
			scs = append(scs, scenario{Kind: "d14", Workers: []int{1, 2, 32}[i%3], InCh: 1024, Groups: []string{"g1"},
				Cycles: 1, Shutdown: "after", Seed: rng.Next() % 1000000})
		}
		for i := 0; i < 1+nd/30; i++ {
			scs = append(scs, scenario{Kind: "d13", Workers: []int{1, 2, 32}[rng.Intn(3)], InCh: 1024, Groups: []string{"g1"},
				Cycles: 1, Shutdown: "after", Seed: rng.Next()%1000000/2*2 + uint64(i%2)})
		}
		for i := 0; i < nb; i++ {
			scs = append(scs, scenario{Kind: "dep", Workers: []int{2, 3, 32}[i%3], InCh: 1024, PerProd: 40, Groups: []string{"g1"},
				Cycles: 1, Shutdown: []string{"none", "after"}[i%2], Seed: rng.Next() % 1000000})
		}
		for i := 0; i < nb; i++ {
			// one sender delivering a long run of requests of all kinds for ONE group back to back
			scs = append(scs, scenario{Kind: "reqorder", Workers: []int{1, 2, 4}[rng.Intn(3)], InCh: 1024, Producers: 0,
				Requests: 400, Groups: []string{"g1"}, Cycles: 1, Shutdown: "after", Seed: rng.Next()%1000000/4*4 + 1})
		}
		for i := 0; i < nd; i++ {
			// every second one on a Parallel resource (seed%4 == 1)
			scs = append(scs, scenario{Kind: "d8", Workers: []int{1, 2, 32}[rng.Intn(3)], InCh: 1024, Groups: groupSets[rng.Intn(3)],
				Cycles: 2 + rng.Intn(2), Shutdown: []string{"none", "after"}[rng.Intn(2)], Seed: rng.Next()%1000000/4*4 + uint64(i%2)})
		}
		for i := 0; i < nd; i++ {
			for _, k := range []string{"d1", "d2", "d3", "d4", "d5", "d6", "d7", "d10"} {
				sc := scenario{Kind: k, Workers: []int{1, 2, 32}[rng.Intn(3)], InCh: 1024, Groups: groupSets[rng.Intn(3)],
					Cycles: 1 + rng.Intn(2), Shutdown: "after", Seed: rng.Next()%1000000/2*2 + uint64(i%2)} // variants by seed parity: both
				scs = append(scs, sc)
			}
		}
	}
	for _, sc := range scs {
		// if the process dies inside the library (a panic on one of its own goroutines cannot be recovered here),
		// the driver reports the scenario that was running as the failing input
		if b, err := json.Marshal(map[string]interface{}{"desc": sc}); err == nil {
			os.WriteFile(filepath.Join(o.Out, "current_case.json"), b, 0o644)
		}
		c, iv, alive := runScenario(sc)
		dist[sc.Kind]++
		dist["shutdown-"+sc.Shutdown]++
		dist[fmt.Sprintf("workers-%d", sc.Workers)]++
		if c.Nontrivial {
			dist["nontrivial"]++
		}
		cases = append(cases, c)
		impl = append(impl, iv...)
		if !alive {
			break
		}
	}
	os.Remove(filepath.Join(o.Out, "current_case.json"))
	runMod := *prop
	if runMod == "C16" {
		runMod = "C01" // race-detector mode: the traces are a by-product
	}
	// one structural case: the access table extracted from the current source; Coq checks that the atomic steps
	// of the LTS (LSect, LEnq) are single critical sections in the code (Sched/Access.v granularity_ok)
	if o.Replay == "" {
		if acc, err := astacc.Collect(astacc.RepoDir()); err == nil {
			var terms []string
			for _, a := range acc {
				terms = append(terms, astacc.CoqAcc(a))
			}
			cases = append(cases, Case{Term: "SC [] [] false " + List(terms), Desc: map[string]interface{}{"kind": "lock-granularity", "entries": len(acc)}, Nontrivial: true, Tags: []string{"lock-granularity"}})
			dist["lock-granularity-table"]++
		} else {
			impl = append(impl, ImplViolation{What: "harness-ast: cannot parse /repo: " + err.Error(), Desc: "astacc", Tags: []string{"harness-ast"}})
		}
	}
	hdr := "From stdpp Require Import gmap.\nFrom Coq Require Import NArith String.\nFrom GoRes Require Import Run.Run_" + runMod + ".\nLocal Open Scope string_scope."
	Emit(o, *prop, hdr, "scase",
		"real res.Service runs (worker counts 1/2/3/8/32, in-channel 1/2/1024, 1-6 producer goroutines using WithGroup incl. nested submissions from callbacks, requests through the in-channel incl. Parallel resources, publishers, 1-3 serve/shutdown cycles, shutdown after/during/none, seeded schedule perturbation at hook points) + directed schedules d1-d10 (enqueue after close-nil, publish after shutdown, append before re-lock, parked Signal, producers during parked close, ResetAll during Serve start-up, query expiry during Shutdown with a same-group callback in flight, an in-flight callback emitting an event and a query event after the connection was closed followed by a serve cycle on a new connection; d9: first Serve refused its subscriptions while a With callback from the started window is in flight or the first Close is slow, Serve retried in a loop on a new connection - runtime checks only; d10: a query request and the expiry of a query event while a callback of the resource's group is executing; restartloop (C03 only): 1500 stop/start cycles with Serve called as soon as Shutdown has returned - runtime checks only; d11: Serve called in the tail of Shutdown, after the service was flagged stopped and before Shutdown returned - runtime checks only; d12: Shutdown after a start that failed before the service was flagged started; d13: Shutdown while a callback executes for 6 s; d15: Shutdown from another goroutine while the application's OnServe hook is still running, with and without a new Serve before the hook returns; d14: Shutdown while a callback keeps re-submitting itself and another goroutine keeps submitting to the same busy group; dep: callbacks of different idle groups accepted back to back that wait for each other (no accepted callback may wait in the queue while workers are idle); reqorder: one sender delivering 400 get/access/call requests of one group back to back, each to the channel of the subscription its subject matches, with the runtime check that their callbacks start in delivery order) + simultaneous submissions to an idle group behind a spin barrier (burst) + high-contention stress runs (thousands of tiny callbacks on 1-2 groups); every serve cycle gets a fresh connection object and anything published on an earlier one is a violation; one case = one run's label trace; non-trivial = a callback was appended to a live work item and >= 2 workers took work, or a directed schedule; distinct by trace",
		cases, dist, nil, impl, 40)
	if len(impl) > 0 {
		fmt.Fprintln(os.Stderr, "impl violations:", len(impl))
	}
}
