(* Proofs of the C20 statements (imported by Props/C20.v). *)
From GoRes Require Import Legacy.Spec.
From Coq Require Import Lia.
Open Scope N_scope.

(* ---- byte strings ---- *)
Lemma beq_refl : forall a, beq a a = true.
Proof. induction a as [|x a IH]; cbn [beq]; [reflexivity|]. rewrite N.eqb_refl, IH. reflexivity. Qed.

Lemma beq_eq : forall a b, beq a b = true -> a = b.
Proof.
  induction a as [|x a IH]; intros [|y b] H; cbn [beq] in H; try discriminate; [reflexivity|].
  apply andb_true_iff in H. destruct H as [H1 H2].
  apply N.eqb_eq in H1. apply IH in H2. subst. reflexivity.
Qed.

Lemma beq_sym : forall a b, beq a b = beq b a.
Proof.
  induction a as [|x a IH]; intros [|y b]; cbn [beq]; try reflexivity.
  rewrite N.eqb_sym, IH. reflexivity.
Qed.

Lemma beq_neq : forall a b, beq a b = false -> a <> b.
Proof. intros a b H E. subst. rewrite beq_refl in H. discriminate. Qed.

(* ---- lookups after the map operations of the model and of the reference semantics ---- *)
Lemma mget_mset : forall k v m k',
  mget k' (mset k v m) = if beq k' k then Some v else mget k' m.
Proof.
  intros k v m k'. induction m as [|[k0 v0] m IH]; cbn [mset mget].
  - reflexivity.
  - destruct (beq k k0) eqn:E; cbn [mget].
    + apply beq_eq in E. subst k0. destruct (beq k' k); reflexivity.
    + rewrite IH. destruct (beq k' k0) eqn:E0; [|reflexivity].
      apply beq_eq in E0. subst k0. rewrite beq_sym, E. reflexivity.
Qed.

Lemma mget_mdel : forall k m k',
  mget k' (mdel k m) = if beq k' k then None else mget k' m.
Proof.
  intros k m k'. induction m as [|[k0 v0] m IH]; cbn [mdel mget].
  - destruct (beq k' k); reflexivity.
  - destruct (beq k k0) eqn:E; cbn [mget].
    + apply beq_eq in E. subst k0. rewrite IH. destruct (beq k' k); reflexivity.
    + rewrite IH. destruct (beq k' k0) eqn:E0; [|reflexivity].
      apply beq_eq in E0. subst k0. rewrite beq_sym, E. reflexivity.
Qed.

Lemma shas_mget : forall k m, shas k m = match mget k m with Some _ => true | None => false end.
Proof.
  intros k m. unfold shas. induction m as [|[k0 v0] m IH]; cbn [existsb mget fst]; [reflexivity|].
  destruct (beq k k0); [reflexivity|]. exact IH.
Qed.

Lemma mget_map_put : forall k v m k',
  mget k' (map (fun kv : key * jval => if beq k (fst kv) then (fst kv, v) else kv) m)
  = if beq k' k then match mget k' m with Some _ => Some v | None => None end else mget k' m.
Proof.
  intros k v m k'. induction m as [|[k0 v0] m IH]; cbn [map mget fst].
  - destruct (beq k' k); reflexivity.
  - destruct (beq k k0) eqn:E; cbn [mget]; rewrite IH.
    + apply beq_eq in E. subst k0. destruct (beq k' k); reflexivity.
    + destruct (beq k' k0) eqn:E0; [|reflexivity].
      apply beq_eq in E0. subst k0. rewrite beq_sym, E. reflexivity.
Qed.

Lemma mget_sput : forall k v m k',
  mget k' (sput k v m) = if beq k' k then Some v else mget k' m.
Proof.
  intros k v m k'. unfold sput. destruct (shas k m) eqn:H.
  - rewrite mget_map_put. destruct (beq k' k) eqn:E; [|reflexivity].
    apply beq_eq in E. subst k'. rewrite shas_mget in H. destruct (mget k m); [reflexivity|discriminate].
  - cbn [mget]. reflexivity.
Qed.

Lemma mget_sdel : forall k m k',
  mget k' (sdel k m) = if beq k' k then None else mget k' m.
Proof.
  intros k m k'. unfold sdel. induction m as [|[k0 v0] m IH]; cbn [filter mget fst].
  - destruct (beq k' k); reflexivity.
  - destruct (beq k k0) eqn:E; cbn [negb mget].
    + apply beq_eq in E. subst k0. rewrite IH. destruct (beq k' k); reflexivity.
    + rewrite IH. destruct (beq k' k0) eqn:E0; [|reflexivity].
      apply beq_eq in E0. subst k0. rewrite beq_sym, E. reflexivity.
Qed.

Lemma mget_supd : forall m k a k',
  mget k' (supd m (k, a)) =
  if beq k' k then match a with Put v => Some v | Del => None end else mget k' m.
Proof.
  intros m k a k'. unfold supd. cbn [fst snd]. destruct a as [v|].
  - apply mget_sput.
  - apply mget_sdel.
Qed.

(* ---- equality of JSON values is an equivalence ---- *)
Lemma meqv_refl : forall m, meqv m m.
Proof. intros m k. reflexivity. Qed.
Lemma meqv_sym : forall a b, meqv a b -> meqv b a.
Proof. intros a b H k. symmetry. apply H. Qed.
Lemma meqv_trans : forall a b c, meqv a b -> meqv b c -> meqv a c.
Proof. intros a b c H1 H2 k. rewrite H1. apply H2. Qed.

Lemma reqv_refl : forall r, reqv r r.
Proof. intros [m|l|]; cbn; [apply meqv_refl|reflexivity|exact I]. Qed.
Lemma reqv_trans : forall a b c, reqv a b -> reqv b c -> reqv a c.
Proof.
  intros [x|x|] [y|y|] [z|z|]; cbn; intros H1 H2; try contradiction; try exact I.
  - eapply meqv_trans; eassumption.
  - congruence.
Qed.
Lemma veqv_refl : forall v, veqv v v.
Proof. intros [r|]; cbn; [apply reqv_refl|exact I]. Qed.
Lemma veqv_trans : forall a b c, veqv a b -> veqv b c -> veqv a c.
Proof.
  intros [x|] [y|] [z|]; cbn; intros H1 H2; try contradiction; try exact I.
  eapply reqv_trans; eassumption.
Qed.

Lemma supd_meqv : forall a b ka, meqv a b -> meqv (supd a ka) (supd b ka).
Proof. intros a b [k x] H k'. rewrite !mget_supd. destruct (beq k' k); [reflexivity|apply H]. Qed.

Lemma fold_supd_meqv : forall vs a b, meqv a b -> meqv (fold_left supd vs a) (fold_left supd vs b).
Proof.
  induction vs as [|ka vs IH]; intros a b H; cbn [fold_left]; [exact H|].
  apply IH. apply supd_meqv. exact H.
Qed.

(* ---- the change loop against the reference semantics ---- *)
Lemma deep_equal_norm : forall g j, deep_equal g j = true -> norm g = j.
Proof.
  intros g j H. destruct g, j; cbn in H; try discriminate; cbn [norm].
  - apply N.eqb_eq in H. subst. reflexivity.
  - apply beq_eq in H. subst. reflexivity.
  - reflexivity.
  - apply Bool.eqb_prop in H. subst. reflexivity.
  - apply beq_eq in H. subst. reflexivity.
Qed.

Definition pact (a : act gval) : act jval := match a with Put g => Put (norm g) | Del => Del end.

Lemma change_step_meqv : forall k a m, meqv (fst (change_step k a m)) (supd m (k, pact a)).
Proof.
  intros k a m k'. rewrite mget_supd. unfold change_step.
  destruct (mget k m) as [ov|] eqn:G; destruct a as [g|]; cbn [fst pact].
  - destruct (deep_equal g ov) eqn:D; cbn [fst].
    + apply deep_equal_norm in D. destruct (beq k' k) eqn:E; [|reflexivity].
      apply beq_eq in E. subst k'. rewrite G, D. reflexivity.
    + apply mget_mset.
  - apply mget_mdel.
  - apply mget_mset.
  - destruct (beq k' k) eqn:E; [|reflexivity]. apply beq_eq in E. subst k'. exact G.
Qed.

Lemma pubvals_cons : forall k a cs, pubvals ((k, a) :: cs) = (k, pact a) :: pubvals cs.
Proof. intros k a cs. unfold pubvals. cbn [map fst snd]. destruct a; reflexivity. Qed.

Lemma change_loop_meqv : forall cs m, meqv (fst (change_loop cs m)) (fold_left supd (pubvals cs) m).
Proof.
  induction cs as [|[k a] cs IH]; intros m.
  - cbn. apply meqv_refl.
  - rewrite pubvals_cons. cbn [change_loop fold_left].
    pose proof (change_step_meqv k a m) as H1.
    destruct (change_step k a m) as [m1 r1]. cbn [fst] in H1.
    pose proof (IH m1) as H2.
    destruct (change_loop cs m1) as [m2 r2]. cbn [fst] in *.
    eapply meqv_trans; [exact H2|]. apply fold_supd_meqv. exact H1.
Qed.

(* ---- collections ---- *)
Lemma insert_at_spec : forall n v l, insert_at n v l = firstn n l ++ v :: skipn n l.
Proof.
  induction n as [|n IH]; intros v l.
  - reflexivity.
  - destruct l as [|x l]; cbn [insert_at firstn skipn app]; [reflexivity|]. rewrite IH. reflexivity.
Qed.
Lemma remove_at_spec : forall n l, remove_at n l = firstn n l ++ skipn (S n) l.
Proof.
  induction n as [|n IH]; intros l.
  - destruct l; reflexivity.
  - destruct l as [|x l]; [reflexivity|]. cbn [remove_at firstn app]. rewrite IH. reflexivity.
Qed.

(* ---- what each Apply handler does ---- *)
Lemma apply_change_inv : forall c s cs,
  (exists s', apply_change c s cs = Failed s' /\ s' = s) \/
  apply_change c s cs = Applied s (ORev []) \/
  (exists m0 m1 rev, c_type c = TModel /\ start c s = Some (RModel m0) /\ change_loop cs m0 = (m1, rev) /\
     ((rev = [] /\ apply_change c s cs = Applied s (ORev [])) \/
      (rev <> [] /\ exists ix, apply_change c s cs = Applied (St (Some (RModel m1)) ix) (ORev rev)))).
Proof.
  intros c s cs. unfold apply_change.
  destruct (c_type c); [|left; eauto].
  destruct (existsb (fun ka : key * act gval => match snd ka with Put g => is_bad g | Del => false end) cs);
    [left; eauto|].
  destruct (start c s) as [[m0|l|]|]; [|left; eauto| |left; eauto].
  2:{ destruct (existsb _ cs); [left; eauto|right; left; reflexivity]. }
  destruct (change_loop cs m0) as [m1 rev] eqn:L.
  destruct rev as [|x rev]; cbn [is_nil].
  - right. right. exists m0, m1, []. repeat split; auto.
  - destruct (idxs c) as [ks|].
    + destruct (decode c (RModel m0)) as [b0|]; [destruct (decode c (RModel m1)) as [a0|]|].
      * right. right. exists m0, m1, (x :: rev). repeat split; auto. right. split; [discriminate|]. eauto.
      * left. eauto.
      * left. eauto.
    + right. right. exists m0, m1, (x :: rev). repeat split; auto. right. split; [discriminate|]. eauto.
Qed.

Lemma served_start : forall c s, served (c_def c) (st_val s) = start c s.
Proof. reflexivity. Qed.

Lemma ltb_leb : forall a b, (a <? b) = negb (b <=? a).
Proof. intros a b. apply N.ltb_antisym. Qed.

(* one event: either something is published, it is applicable to the served view and yields the
   new served view, or nothing is published and the database is unchanged *)
Lemma fire_step : forall c s e,
  match o_pub (fire c s e) with
  | Some p => exists v', spec_step (c_def c) (start c s) (sev_of_pub p e) = Some v' /\
                         veqv (start c (o_state (fire c s e))) v'
  | None => o_state (fire c s e) = s
  end.
Proof.
  intros c s e. destruct e as [cs|v i|i|d| |]; cbn [fire]; [| | | |reflexivity|].
  - (* change *)
    destruct (c_type c) eqn:T; [|reflexivity].
    destruct cs as [|c0 cs0]; [reflexivity|]. cbn [is_nil]. set (cs := c0 :: cs0).
    destruct (apply_change_inv c s cs) as [[s' [H E]]|[H|[m0 [m1 [rev [_ [ST [L [[R H]|[R [ix H]]]]]]]]]]]; rewrite H.
    + cbn. exact E.
    + cbn. reflexivity.
    + cbn. reflexivity.
    + destruct rev as [|x rev]; [congruence|]. cbn [is_nil o_pub o_state sev_of_pub].
      rewrite ST. cbn [spec_step]. eexists. split; [reflexivity|].
      unfold start. cbn [st_val veqv reqv].
      pose proof (change_loop_meqv cs m0) as M. rewrite L in M. exact M.
  - (* add *)
    destruct (c_type c) eqn:T; [reflexivity|].
    destruct (i <? 0)%Z; [reflexivity|].
    unfold apply_add. rewrite T.
    destruct (is_bad v); [reflexivity|].
    destruct (start c s) as [[m|l|]|] eqn:ST; cbn.
    + reflexivity.
    + destruct (len l <? Z.to_N i) eqn:B; cbn; [reflexivity|].
      rewrite ltb_leb in B. apply negb_false_iff in B. rewrite B.
      eexists. split; [reflexivity|]. unfold start. cbn. apply insert_at_spec.
    + destruct (0 <? Z.to_N i) eqn:B; cbn; [reflexivity|].
      assert (Z.to_N i = 0) as Z0 by (apply N.ltb_ge in B; lia). rewrite Z0. cbn.
      eexists. split; [reflexivity|]. unfold start. cbn. reflexivity.
    + destruct (0 <? Z.to_N i) eqn:B; cbn; [reflexivity|].
      assert (Z.to_N i = 0) as Z0 by (apply N.ltb_ge in B; lia). rewrite Z0. cbn.
      eexists. split; [reflexivity|]. unfold start. cbn. reflexivity.
  - (* remove *)
    destruct (c_type c) eqn:T; [reflexivity|].
    destruct (i <? 0)%Z; [reflexivity|].
    unfold apply_remove. rewrite T.
    destruct (start c s) as [[m|l|]|] eqn:ST; cbn; try reflexivity.
    destruct (len l <=? Z.to_N i) eqn:B; cbn; [reflexivity|].
    rewrite ltb_leb, B. cbn.
    eexists. split; [reflexivity|]. unfold start. cbn. apply remove_at_spec.
  - (* create *)
    unfold apply_create. unfold start.
    destruct (st_val s) as [r|] eqn:V; [reflexivity|].
    destruct (c_def c) as [d0|] eqn:D; [reflexivity|].
    destruct (idxs c); cbn; eexists; (split; [reflexivity|]); apply reqv_refl.
  - (* delete *)
    unfold apply_delete.
    destruct (c_pkg c) eqn:P.
    + destruct (st_val s) as [r|] eqn:V; cbn.
      * eexists. split; [reflexivity|]. unfold start. cbn. apply veqv_refl.
      * eexists. split; [reflexivity|]. unfold start. rewrite V. apply veqv_refl.
    + destruct (st_val s) as [r|] eqn:V.
      * destruct (decode c r); cbn; [|reflexivity].
        eexists. split; [reflexivity|]. unfold start. cbn. apply veqv_refl.
      * destruct (idxs c); cbn; [|reflexivity].
        eexists. split; [reflexivity|]. unfold start. rewrite V. apply veqv_refl.
Qed.

(* ---- the reference step respects equality of JSON values ---- *)
Lemma spec_step_eqv : forall def a b e a',
  veqv a b -> spec_step def a e = Some a' ->
  exists b', spec_step def b e = Some b' /\ veqv a' b'.
Proof.
  intros def a b e a' H S.
  destruct e as [vs|x i|i|d|]; destruct a as [[m|l|]|]; destruct b as [[m2|l2|]|];
    cbn [veqv reqv] in H; try contradiction; cbn [spec_step] in *; try discriminate;
    try subst l2; try (eexists; split; [exact S|]; apply veqv_refl).
  inversion S; subst. eexists. split; [reflexivity|]. cbn. apply fold_supd_meqv. exact H.
Qed.

Lemma final_cons : forall c s e es, final c s (e :: es) = final c (o_state (fire c s e)) es.
Proof. reflexivity. Qed.

Lemma fold_general : forall c es s v0,
  veqv (start c s) v0 ->
  exists v, spec_fold (c_def c) (published c s es) v0 = Some v /\ veqv (start c (final c s es)) v.
Proof.
  intros c es. induction es as [|e es IH]; intros s v0 H.
  - cbn. eexists. split; [reflexivity|]. exact H.
  - rewrite final_cons. cbn [published].
    pose proof (fire_step c s e) as F.
    destruct (o_pub (fire c s e)) as [p|].
    + destruct F as [v' [ST EQ]].
      destruct (spec_step_eqv _ _ _ _ _ H ST) as [b' [ST2 EQ2]].
      cbn [app spec_fold]. rewrite ST2.
      apply IH. eapply veqv_trans; eassumption.
    + cbn [app]. rewrite F in *. apply IH; assumption.
Qed.

Lemma get_is_start : forall c s, maps c = None -> get_resource c s = gres_of (start c s).
Proof.
  intros c s M. unfold get_resource, start. rewrite M.
  destruct (st_val s); [reflexivity|]. destruct (c_def c); reflexivity.
Qed.

Lemma gres_of_eqv : forall a b, veqv a b -> geqv (gres_of a) (gres_of b).
Proof. intros [x|] [y|]; cbn; auto. Qed.

(* ---- typing is preserved ---- *)
Lemma fits_mset : forall t k v m,
  vfits t v = true -> forallb (fun kv : key * jval => vfits t (snd kv)) m = true ->
  forallb (fun kv : key * jval => vfits t (snd kv)) (mset k v m) = true.
Proof.
  intros t k v m V. induction m as [|[k0 v0] m IH]; cbn [mset forallb snd]; intros H.
  - rewrite V. reflexivity.
  - apply andb_true_iff in H. destruct H as [H1 H2].
    destruct (beq k k0); cbn [forallb snd].
    + rewrite V, H2. reflexivity.
    + rewrite H1, (IH H2). reflexivity.
Qed.
Lemma fits_mdel : forall t k m,
  forallb (fun kv : key * jval => vfits t (snd kv)) m = true ->
  forallb (fun kv : key * jval => vfits t (snd kv)) (mdel k m) = true.
Proof.
  intros t k m. induction m as [|[k0 v0] m IH]; cbn [mdel forallb snd]; intros H; [reflexivity|].
  apply andb_true_iff in H. destruct H as [H1 H2].
  destruct (beq k k0); cbn [forallb snd]; [auto|]. rewrite H1, (IH H2). reflexivity.
Qed.
Lemma fits_change_step : forall t k a m,
  afits t a = true -> forallb (fun kv : key * jval => vfits t (snd kv)) m = true ->
  forallb (fun kv : key * jval => vfits t (snd kv)) (fst (change_step k a m)) = true.
Proof.
  intros t k a m A H. unfold change_step.
  destruct (mget k m) as [ov|]; destruct a as [g|]; cbn [fst afits] in *.
  - destruct (deep_equal g ov); cbn [fst]; [exact H|]. apply fits_mset; assumption.
  - apply fits_mdel. exact H.
  - apply fits_mset; assumption.
  - exact H.
Qed.
Lemma fits_change_loop : forall t cs m,
  forallb (fun ka : key * act gval => afits t (snd ka)) cs = true ->
  forallb (fun kv : key * jval => vfits t (snd kv)) m = true ->
  forallb (fun kv : key * jval => vfits t (snd kv)) (fst (change_loop cs m)) = true.
Proof.
  intros t. induction cs as [|[k a] cs IH]; intros m A H; [exact H|].
  cbn [forallb snd] in A. apply andb_true_iff in A. destruct A as [A1 A2].
  cbn [change_loop].
  pose proof (fits_change_step t k a m A1 H) as H1.
  destruct (change_step k a m) as [m1 r1]. cbn [fst] in H1.
  pose proof (IH m1 A2 H1) as H2.
  destruct (change_loop cs m1) as [m2 r2]. exact H2.
Qed.

(* a struct-typed model stays a value of the struct under changes that give a a number and b a string *)
Lemma sfits_inv : forall m, sfits m = true -> exists n x, m = [(fld_a, JNum n); (fld_b, JStr x)].
Proof.
  intros m H. destruct m as [|[k1 v1] [|[k2 v2] [|p m]]]; try discriminate;
    destruct v1; try discriminate; destruct v2; try discriminate.
  cbn [sfits] in H. apply andb_true_iff in H. destruct H as [H1 H2].
  apply beq_eq in H1. apply beq_eq in H2. subst. eauto.
Qed.
Lemma sfits_change_step : forall k a m,
  safits k a = true -> sfits m = true -> sfits (fst (change_step k a m)) = true.
Proof.
  intros k a m A H. destruct (sfits_inv m H) as [n [x E]]. subst m.
  destruct a as [g|]; [|discriminate]. unfold safits in A.
  destruct g; cbn [norm] in A; try discriminate; apply beq_eq in A; subst k;
    unfold change_step; cbn; try reflexivity.
  - destruct (n0 =? n); reflexivity.
  - destruct (beq s x); reflexivity.
Qed.
Lemma sfits_change_loop : forall cs m,
  forallb (fun ka : key * act gval => safits (fst ka) (snd ka)) cs = true ->
  sfits m = true -> sfits (fst (change_loop cs m)) = true.
Proof.
  induction cs as [|[k a] cs IH]; intros m A H; [exact H|].
  cbn [forallb fst snd] in A. apply andb_true_iff in A. destruct A as [A1 A2].
  cbn [change_loop].
  pose proof (sfits_change_step k a m A1 H) as H1.
  destruct (change_step k a m) as [m1 r1]. cbn [fst] in H1.
  pose proof (IH m1 A2 H1) as H2.
  destruct (change_loop cs m1) as [m2 r2]. exact H2.
Qed.
Lemma mfits_change_loop : forall c cs m,
  ev_fits c (EChange cs) = true -> mfits (c_ty c) m = true ->
  mfits (c_ty c) (fst (change_loop cs m)) = true.
Proof.
  intros c cs m E H. cbn [ev_fits] in E. unfold mfits in *. destruct (c_ty c).
  - apply fits_change_loop; assumption.
  - apply fits_change_loop; assumption.
  - apply sfits_change_loop; assumption.
Qed.
Lemma fits_insert : forall t n v l,
  vfits t v = true -> forallb (vfits t) l = true -> forallb (vfits t) (insert_at n v l) = true.
Proof.
  intros t. induction n as [|n IH]; intros v l V H.
  - cbn. rewrite V. exact H.
  - destruct l as [|x l]; cbn [insert_at forallb] in *.
    + rewrite V. reflexivity.
    + apply andb_true_iff in H. destruct H as [H1 H2]. rewrite H1, (IH v l V H2). reflexivity.
Qed.
Lemma fits_remove : forall t n l, forallb (vfits t) l = true -> forallb (vfits t) (remove_at n l) = true.
Proof.
  intros t. induction n as [|n IH]; intros l H.
  - destruct l as [|x l]; [reflexivity|]. cbn in *. apply andb_true_iff in H. tauto.
  - destruct l as [|x l]; [reflexivity|]. cbn [remove_at forallb] in *.
    apply andb_true_iff in H. destruct H as [H1 H2]. rewrite H1, (IH l H2). reflexivity.
Qed.

Lemma start_fits : forall c s r,
  ofits c (c_def c) = true -> ofits c (st_val s) = true -> start c s = Some r -> fits c r = true.
Proof.
  intros c s r D V. unfold start. destruct (st_val s) as [x|].
  - intros E. inversion E; subst. exact V.
  - intros E. rewrite E in D. exact D.
Qed.

Lemma fire_fits : forall c s e,
  ofits c (c_def c) = true -> ofits c (st_val s) = true -> ev_fits c e = true ->
  ofits c (st_val (o_state (fire c s e))) = true.
Proof.
  intros c s e D V E. destruct e as [cs|v i|i|d| |]; cbn [fire]; [| | | |exact V|].
  - destruct (c_type c) eqn:T; [|exact V].
    destruct cs as [|c0 cs0]; [exact V|]. cbn [is_nil]. set (cs := c0 :: cs0) in *.
    destruct (apply_change_inv c s cs) as [[s' [H E']]|[H|[m0 [m1 [rev [_ [ST [L [[R H]|[R [ix H]]]]]]]]]]]; rewrite H.
    + cbn. subst s'. exact V.
    + cbn. exact V.
    + cbn. exact V.
    + destruct rev as [|x rev]; [congruence|]. cbn [is_nil o_state st_val ofits].
      pose proof (start_fits c s _ D V ST) as F0. unfold fits in *. rewrite T in *.
      pose proof (mfits_change_loop c cs m0 E F0) as F1. rewrite L in F1. exact F1.
  - destruct (c_type c) eqn:T; [exact V|].
    destruct (i <? 0)%Z; [exact V|].
    unfold apply_add. rewrite T.
    destruct (is_bad v); [exact V|].
    destruct (start c s) as [[m|l|]|] eqn:ST; cbn.
    + exact V.
    + destruct (len l <? Z.to_N i); cbn; [exact V|].
      pose proof (start_fits c s _ D V ST) as F0. unfold fits in *. rewrite T in *.
      apply fits_insert; assumption.
    + destruct (0 <? Z.to_N i); cbn; [exact V|].
      unfold fits. rewrite T. apply fits_insert; [exact E|reflexivity].
    + destruct (0 <? Z.to_N i); cbn; [exact V|].
      unfold fits. rewrite T. apply fits_insert; [exact E|reflexivity].
  - destruct (c_type c) eqn:T; [exact V|].
    destruct (i <? 0)%Z; [exact V|].
    unfold apply_remove. rewrite T.
    destruct (start c s) as [[m|l|]|] eqn:ST; cbn; try exact V.
    destruct (len l <=? Z.to_N i); cbn; [exact V|].
    pose proof (start_fits c s _ D V ST) as F0. unfold fits in *. rewrite T in *.
    apply fits_remove. exact F0.
  - unfold apply_create.
    destruct (st_val s) as [r|] eqn:VS; [cbn; rewrite VS; exact V|].
    destruct (c_def c) as [d0|]; [cbn; rewrite VS; reflexivity|].
    destruct (idxs c); cbn; exact E.
  - unfold apply_delete.
    destruct (c_pkg c).
    + destruct (st_val s) as [r|] eqn:VS; cbn; [reflexivity|]. rewrite VS. reflexivity.
    + destruct (st_val s) as [r|] eqn:VS.
      * destruct (decode c r) eqn:F; cbn; [reflexivity|]. rewrite VS. cbn. exact V.
      * destruct (idxs c); cbn; rewrite VS; reflexivity.
Qed.

Lemma typed_final : forall c es s,
  ofits c (c_def c) = true -> ofits c (st_val s) = true -> forallb (ev_fits c) es = true ->
  ofits c (st_val (final c s es)) = true.
Proof.
  intros c es. induction es as [|e es IH]; intros s D V E.
  - exact V.
  - cbn [forallb] in E. apply andb_true_iff in E. destruct E as [E1 E2].
    rewrite final_cons. apply IH; [exact D| |exact E2]. apply fire_fits; assumption.
Qed.

(* a value of the handler's Type unmarshals into itself *)
Lemma vfits_vdec : forall t v, vfits t v = true -> vdec t v = Some v.
Proof. intros [| |] v H; [reflexivity| |reflexivity]. destruct v; cbn in H; try discriminate. reflexivity. Qed.
Lemma fits_dec_list : forall t l, forallb (vfits t) l = true -> dec_list t l = Some l.
Proof.
  intros t. induction l as [|v l IH]; cbn [forallb dec_list]; intros H; [reflexivity|].
  apply andb_true_iff in H. destruct H as [H1 H2]. rewrite (vfits_vdec _ _ H1), (IH H2). reflexivity.
Qed.
Lemma fits_dec_model : forall t m,
  forallb (fun kv : key * jval => vfits t (snd kv)) m = true -> dec_model t m = Some m.
Proof.
  intros t. induction m as [|[k v] m IH]; cbn [forallb dec_model snd]; intros H; [reflexivity|].
  apply andb_true_iff in H. destruct H as [H1 H2]. rewrite (vfits_vdec _ _ H1), (IH H2). reflexivity.
Qed.
Lemma sfits_dec_struct : forall m, sfits m = true -> dec_struct m = Some m.
Proof. intros m H. destruct (sfits_inv m H) as [n [x E]]. subst m. reflexivity. Qed.
Lemma fits_decode : forall c r, fits c r = true -> decode c r = Some r.
Proof.
  intros c r. unfold fits, decode. destruct (c_type c), r as [m|l|]; try discriminate; intros H.
  - unfold mfits in H. destruct (c_ty c).
    + rewrite (fits_dec_model _ _ H). reflexivity.
    + rewrite (fits_dec_model _ _ H). reflexivity.
    + rewrite (sfits_dec_struct _ H). reflexivity.
  - rewrite (fits_dec_list _ _ H). reflexivity.
Qed.
(* into an interface-valued Type nothing is converted *)
Lemma dec_list_any : forall l, dec_list TyAny l = Some l.
Proof. induction l as [|v l IH]; cbn [dec_list vdec]; [reflexivity|]. rewrite IH. reflexivity. Qed.
Lemma dec_model_any : forall m, dec_model TyAny m = Some m.
Proof. induction m as [|[k v] m IH]; cbn [dec_model vdec]; [reflexivity|]. rewrite IH. reflexivity. Qed.
Lemma decode_any : forall c r r', c_ty c = TyAny -> decode c r = Some r' -> r' = r.
Proof.
  intros c r r' T. unfold decode. rewrite T. destruct (c_type c), r as [m|l|]; try discriminate; try (cbn; congruence).
  - rewrite dec_model_any. cbn. congruence.
  - rewrite dec_list_any. cbn. congruence.
Qed.

Lemma value_is_get : forall c s,
  maps c = None -> ofits c (st_val s) = true -> value_resource c s = get_resource c s.
Proof.
  intros c s M H. unfold value_resource, get_resource. rewrite M. destruct (st_val s) as [r|]; [|reflexivity].
  cbn in H. rewrite (fits_decode _ _ H). reflexivity.
Qed.

(* ---- served_is_fold ---- *)
(* get, for every configuration, initial content and event sequence *)
Lemma served_is_fold_pf : forall c s es,
  exists v,
    spec_fold (c_def c) (published c s es) (served (c_def c) (st_val s)) = Some v /\
    veqv (served (c_def c) (st_val (final c s es))) v /\
    (maps c = None -> geqv (get_resource c (final c s es)) (gres_of v)) /\
    get_resource c (reopen (final c s es)) = get_resource c (final c s es) /\
    value_resource c (reopen (final c s es)) = value_resource c (final c s es).
Proof.
  intros c s es.
  destruct (fold_general c es s (start c s) (veqv_refl _)) as [v [SF EQ]].
  exists v. rewrite !served_start. split; [exact SF|]. split; [exact EQ|].
  split; [|split; reflexivity]. intros M. rewrite (get_is_start _ _ M). apply gres_of_eqv. exact EQ.
Qed.

(* Value(), when the stored content decodes into the handler's Type *)
Lemma value_is_fold_pf : forall c s es,
  maps c = None -> well_typed c s es = true ->
  value_resource c (final c s es) = get_resource c (final c s es).
Proof.
  intros c s es M W. unfold well_typed in W.
  apply andb_true_iff in W. destruct W as [W E]. apply andb_true_iff in W. destruct W as [D V].
  apply value_is_get; [exact M|]. apply typed_final; assumption.
Qed.

(* with a Map callback get serves Map(the stored entry unmarshalled into Type); the Default is not mapped *)
Lemma mapped_get_pf : forall c s f,
  maps c = Some f ->
  get_resource c s =
    match st_val s with
    | Some r => match decode c r with
                | Some r' => match f r' with Some x => GOk x | None => GErr end
                | None => GErr
                end
    | None => gres_of (c_def c)
    end.
Proof.
  intros c s f M. unfold get_resource. rewrite M. destruct (st_val s); [reflexivity|].
  destruct (c_def c); reflexivity.
Qed.

(* every event that publishes nothing leaves the database unchanged *)
Lemma silent_unchanged_pf : forall c s e,
  o_pub (fire c s e) = None -> o_state (fire c s e) = s.
Proof.
  intros c s e H. pose proof (fire_step c s e) as F. rewrite H in F. exact F.
Qed.

(* ---- old_values_exact ---- *)
Lemma change_step_other : forall k a m k',
  beq k' k = false -> mget k' (fst (change_step k a m)) = mget k' m.
Proof.
  intros k a m k' H. rewrite (change_step_meqv k a m k'), mget_supd, H. reflexivity.
Qed.

Lemma change_step_rev : forall k a m,
  snd (change_step k a m) = if changed m k a then Some (oldv m k) else None.
Proof.
  intros k a m. unfold change_step, changed, oldv.
  destruct (mget k m) as [ov|]; destruct a as [g|]; cbn [snd]; try reflexivity.
  destruct (deep_equal g ov); reflexivity.
Qed.

Lemma cget_notin : forall k (cs : list (key * act gval)), ~ In k (map fst cs) -> cget k cs = None.
Proof.
  intros k cs. induction cs as [|[k0 a] cs IH]; cbn [cget map fst In]; intros H; [reflexivity|].
  destruct (beq k k0) eqn:E.
  - apply beq_eq in E. subst. exfalso. apply H. left. reflexivity.
  - apply IH. intros H'. apply H. right. exact H'.
Qed.

Lemma change_loop_rev : forall cs m,
  NoDup (map fst cs) ->
  forall k, rget k (snd (change_loop cs m)) =
    match cget k cs with
    | Some a => if changed m k a then Some (oldv m k) else None
    | None => None
    end.
Proof.
  induction cs as [|[k0 a0] cs IH]; intros m ND k; [reflexivity|].
  cbn [map fst] in ND. inversion ND as [|x xs NI ND']; subst.
  cbn [change_loop cget].
  pose proof (change_step_rev k0 a0 m) as R1.
  pose proof (fun k' => change_step_other k0 a0 m k') as O1.
  destruct (change_step k0 a0 m) as [m1 r1]. cbn [fst snd] in *.
  pose proof (IH m1 ND' k) as R2.
  destruct (change_loop cs m1) as [m2 r2]. cbn [snd] in *.
  destruct (beq k k0) eqn:E.
  - apply beq_eq in E. subst k0. rewrite (cget_notin k cs NI) in R2.
    subst r1. destruct (changed m k a0).
    + cbn [rget]. rewrite beq_refl. reflexivity.
    + exact R2.
  - transitivity (rget k r2).
    { destruct r1; [|reflexivity]. cbn [rget]. rewrite E. reflexivity. }
    rewrite R2. destruct (cget k cs) as [a|]; [|reflexivity].
    unfold changed, oldv. rewrite (O1 k E). reflexivity.
Qed.

Lemma old_values_exact_pf : forall c s cs l,
  NoDup (map fst cs) ->
  o_call (fire c s (EChange cs)) = Some l ->
  exists m0 rev,
    served (c_def c) (st_val s) = Some (RModel m0) /\
    l = LChange (pubvals cs) rev /\
    o_pub (fire c s (EChange cs)) = Some (PChange (pubvals cs)) /\
    forall k, rget k rev =
      match cget k cs with
      | Some a => if changed m0 k a then Some (oldv m0 k) else None
      | None => None
      end.
Proof.
  intros c s cs l ND. cbn [fire].
  destruct (c_type c) eqn:T; [|discriminate].
  destruct cs as [|c0 cs0]; [discriminate|]. cbn [is_nil]. set (cs := c0 :: cs0) in *.
  destruct (apply_change_inv c s cs) as [[s' [H E']]|[H|[m0 [m1 [rev [_ [ST [L [[R H]|[R [ix H]]]]]]]]]]]; rewrite H.
  - discriminate.
  - discriminate.
  - discriminate.
  - destruct rev as [|x rev]; [congruence|]. cbn [is_nil o_call o_pub]. intros E. inversion E; subst l.
    exists m0, (x :: rev). rewrite served_start. repeat split; auto.
    intros k. pose proof (change_loop_rev cs m0 ND k) as RV. rewrite L in RV. exact RV.
Qed.

Lemma delete_data_exact_pf : forall c s l,
  o_call (fire c s EDelete) = Some l ->
  l = LDelete (option_map (delete_view c) (st_val s)) /\ o_pub (fire c s EDelete) = Some PDelete.
Proof.
  intros c s l. cbn [fire]. unfold apply_delete, delete_view.
  destruct (c_pkg c).
  - destruct (st_val s) as [r|] eqn:V; cbn; intros E; inversion E; auto.
  - destruct (st_val s) as [r|] eqn:V; cbn [option_map].
    + destruct (decode c r); cbn; intros E; inversion E; auto.
    + destruct (idxs c); cbn; intros E; inversion E; auto.
Qed.

Lemma delete_view_typed_pf : forall c r, fits c r = true -> delete_view c r = r.
Proof. intros c r H. unfold delete_view. rewrite (fits_decode _ _ H). reflexivity. Qed.
Lemma delete_view_any_pf : forall c r, c_ty c = TyAny -> delete_view c r = r.
Proof.
  intros c r T. unfold delete_view. destruct (decode c r) as [r'|] eqn:D; [|reflexivity].
  apply (decode_any _ _ _ T D).
Qed.

Lemma changed_jchanged_pf : forall m k a, no_int a = true -> changed m k a = jchanged m k a.
Proof.
  intros m k a H. unfold changed, jchanged. destruct a as [g|]; [|reflexivity].
  destruct (mget k m) as [ov|]; [|reflexivity].
  destruct g; cbn in H; try discriminate; destruct ov; reflexivity.
Qed.

(* ---- unappliable_silent ---- *)
Lemma unappliable_silent_pf : forall c s e,
  unappliable (served (c_def c) (st_val s)) e = true -> fire c s e = silent true s.
Proof.
  intros c s e. rewrite served_start. destruct e as [cs|v i|i|d| |]; cbn [unappliable fire]; [| | | |reflexivity|].
  - intros H. apply andb_true_iff in H. destruct H as [H1 H2].
    destruct (c_type c) eqn:T; [|reflexivity].
    destruct (is_nil cs); [discriminate|].
    unfold apply_change. rewrite T. destruct (existsb _ cs); [reflexivity|].
    destruct (start c s); [discriminate|reflexivity].
  - intros H. destruct (c_type c) eqn:T; [reflexivity|].
    destruct (i <? 0)%Z; [reflexivity|]. cbn [orb] in H.
    unfold apply_add. rewrite T. destruct (is_bad v); [reflexivity|].
    destruct (start c s) as [[m|l|]|]; try discriminate.
    + rewrite H. reflexivity.
    + cbn [len length N.of_nat]. rewrite H. reflexivity.
  - intros H. destruct (c_type c) eqn:T; [reflexivity|].
    destruct (i <? 0)%Z; [reflexivity|]. cbn [orb] in H.
    unfold apply_remove. rewrite T.
    destruct (start c s) as [[m|l|]|]; try discriminate; [|reflexivity].
    rewrite H. reflexivity.
  - intros H. unfold apply_create. unfold start in H.
    destruct (st_val s); [reflexivity|]. destruct (c_def c); [reflexivity|discriminate].
  - discriminate.
Qed.

(* ---- index entries stay those of the stored value (resbadger.Model with IndexSet) ---- *)
Lemma ent_eqb_eq : forall a b : ent, ent_eqb a b = true <-> a = b.
Proof.
  intros [i k] [j k']. unfold ent_eqb. cbn [fst snd]. split.
  - intros H. apply andb_true_iff in H. destruct H as [H1 H2].
    apply N.eqb_eq in H1. apply beq_eq in H2. subst. reflexivity.
  - intros H. inversion H; subst. rewrite N.eqb_refl, beq_refl. reflexivity.
Qed.

Lemma In_idx_set : forall x l e, In e (idx_set x l) <-> e = x \/ In e l.
Proof.
  intros x l e. unfold idx_set. destruct (existsb (ent_eqb x) l) eqn:E.
  - split; [auto|]. intros [H|H]; [|exact H]. subst e.
    apply existsb_exists in E. destruct E as [y [Hy Hxy]]. apply ent_eqb_eq in Hxy. subst y. exact Hy.
  - rewrite in_app_iff. cbn [In]. split.
    + intros [H|[H|[]]]; auto.
    + intros [H|H]; auto.
Qed.

Lemma In_idx_del : forall x l e, In e (idx_del x l) <-> e <> x /\ In e l.
Proof.
  intros x l e. unfold idx_del. rewrite filter_In. split.
  - intros [H1 H2]. split; [|exact H1]. intros E. subst e.
    assert (ent_eqb x x = true) as R by (apply ent_eqb_eq; reflexivity). rewrite R in H2. discriminate.
  - intros [H1 H2]. split; [exact H2|]. destruct (ent_eqb x e) eqn:E; [|reflexivity].
    apply ent_eqb_eq in E. subst. contradiction.
Qed.

Definition E1 (i : N) (o : option bytes) : list ent := match o with Some k => [(i, k)] | None => [] end.

Lemma idx_entries_cons : forall i kf ks r,
  idx_entries i (kf :: ks) r = E1 i (kf r) ++ idx_entries (i + 1) ks r.
Proof. reflexivity. Qed.

Lemma entries_ge : forall ks j r e, In e (idx_entries j ks r) -> j <= fst e.
Proof.
  induction ks as [|kf ks IH]; intros j r e H; [contradiction|].
  rewrite idx_entries_cons in H. apply in_app_iff in H. destruct H as [H|H].
  - unfold E1 in H. destruct (kf r); [|contradiction]. destruct H as [H|[]]. subst e. cbn. lia.
  - apply IH in H. lia.
Qed.

Lemma idx_create_in : forall ks i d l e,
  In e (idx_create i ks d l) <-> In e l \/ In e (idx_entries i ks d).
Proof.
  induction ks as [|kf ks IH]; intros i d l e.
  - cbn. tauto.
  - cbn [idx_create]. rewrite IH, idx_entries_cons, in_app_iff. unfold E1.
    destruct (kf d) as [k|].
    + rewrite In_idx_set. cbn [In]. split; intros H.
      * destruct H as [[H|H]|H]; [subst; right; left; left; reflexivity|left; exact H|right; right; exact H].
      * destruct H as [H|[[H|[]]|H]]; [left; right; exact H|subst; left; left; reflexivity|right; exact H].
    + cbn [In]. tauto.
Qed.

Lemma idx_delete_in : forall ks i r l e,
  In e (idx_delete i ks r l) <-> In e l /\ ~ In e (idx_entries i ks r).
Proof.
  induction ks as [|kf ks IH]; intros i r l e.
  - cbn. tauto.
  - cbn [idx_delete]. rewrite IH, idx_entries_cons, in_app_iff. unfold E1.
    destruct (kf r) as [k|].
    + rewrite In_idx_del. cbn [In]. split.
      * intros [[H1 H2] H3]. split; [exact H2|]. intros [[H|[]]|H]; [congruence|contradiction].
      * intros [H1 H2]. split; [split; [|exact H1]|]; intros H; apply H2; auto.
    + cbn [In]. tauto.
Qed.

Lemma beq_nil_r : forall x, beq x [] = is_nil x.
Proof. destruct x; reflexivity. Qed.
Lemma beq_nil_l : forall x, beq [] x = is_nil x.
Proof. destruct x; reflexivity. Qed.
Lemma is_nil_false : forall (x : bytes), x <> [] -> is_nil x = false.
Proof. destruct x; [congruence|reflexivity]. Qed.

Definition idx_step (i : N) (kf : keyfn) (b a : res) (l : list ent) : list ent :=
  let bk := kbytes (kf b) in
  let ak := kbytes (kf a) in
  if beq bk ak then l
  else
    let l' := if is_nil bk then l else idx_del (i, bk) l in
    if is_nil ak then l' else idx_set (i, ak) l'.

Lemma idx_change_cons : forall i kf ks b a l,
  idx_change i (kf :: ks) b a l = idx_change (i + 1) ks b a (idx_step i kf b a l).
Proof. reflexivity. Qed.

Lemma idx_step_in : forall i (kf : keyfn) b a l R rest,
  (forall r, kf r <> Some []) ->
  (forall e, In e R -> fst e < i) ->
  (forall e, In e rest -> i + 1 <= fst e) ->
  (forall e, In e l <-> In e R \/ In e (E1 i (kf b)) \/ In e rest) ->
  forall e, In e (idx_step i kf b a l) <-> In e R \/ In e (E1 i (kf a)) \/ In e rest.
Proof.
  intros i kf b a l R rest NE HR Hrest HL e.
  assert (forall k, In e R -> e <> (i, k)) as RN.
  { intros k H E. apply HR in H. subst e. cbn in H. lia. }
  assert (forall k, In e rest -> e <> (i, k)) as SN.
  { intros k H E. apply Hrest in H. subst e. cbn in H. lia. }
  pose proof (NE b) as NB. pose proof (NE a) as NA. specialize (HL e).
  unfold idx_step.
  destruct (kf b) as [kb|]; destruct (kf a) as [ka|]; cbn [kbytes E1 In] in *.
  - assert (kb <> []) as B by (intros H; subst kb; apply NB; reflexivity).
    assert (ka <> []) as A by (intros H; subst ka; apply NA; reflexivity).
    rewrite (is_nil_false _ A), (is_nil_false _ B).
    destruct (beq kb ka) eqn:E.
    + apply beq_eq in E. subst ka. exact HL.
    + rewrite In_idx_set, In_idx_del, HL. split.
      * intros [H|[H1 [H|[[H|[]]|H]]]]; auto; try congruence; subst; auto.
      * intros [H|[[H|[]]|H]].
        -- right. split; [apply RN; exact H|auto].
        -- left. auto.
        -- right. split; [apply SN; exact H|auto].
  - assert (kb <> []) as B by (intros H; subst kb; apply NB; reflexivity).
    rewrite beq_nil_r, (is_nil_false _ B). cbn [is_nil].
    rewrite In_idx_del, HL. split.
    + intros [H1 [H|[[H|[]]|H]]]; auto; try congruence; subst; auto.
    + intros [H|[[]|H]].
      * split; [apply RN; exact H|auto].
      * split; [apply SN; exact H|auto].
  - assert (ka <> []) as A by (intros H; subst ka; apply NA; reflexivity).
    rewrite beq_nil_l, (is_nil_false _ A). cbn [is_nil].
    rewrite In_idx_set, HL. split.
    + intros [H|[H|[[]|H]]]; auto.
    + intros [H|[[H|[]]|H]]; auto.
  - cbn [beq]. exact HL.
Qed.

Lemma idx_change_in : forall ks i b a l R,
  keys_nonempty ks ->
  (forall e, In e R -> fst e < i) ->
  (forall e, In e l <-> In e R \/ In e (idx_entries i ks b)) ->
  forall e, In e (idx_change i ks b a l) <-> In e R \/ In e (idx_entries i ks a).
Proof.
  induction ks as [|kf ks IH]; intros i b a l R NE HR HL e.
  - cbn [idx_change idx_entries] in *. exact (HL e).
  - rewrite idx_change_cons, idx_entries_cons.
    assert (forall r, kf r <> Some []) as NK by (intros r; apply NE; left; reflexivity).
    assert (keys_nonempty ks) as NE' by (intros kf' r H; apply NE; right; exact H).
    assert (forall e, In e (idx_step i kf b a l) <->
                      In e (R ++ E1 i (kf a)) \/ In e (idx_entries (i + 1) ks b)) as H1.
    { intros e'. rewrite in_app_iff.
      assert (In e' (idx_step i kf b a l) <->
              In e' R \/ In e' (E1 i (kf a)) \/ In e' (idx_entries (i + 1) ks b)) as X.
      { apply idx_step_in; auto.
        - intros e0 H0. apply entries_ge in H0. exact H0.
        - intros e0. rewrite (HL e0), idx_entries_cons, in_app_iff. tauto. }
      tauto. }
    rewrite (IH (i + 1) b a (idx_step i kf b a l) (R ++ E1 i (kf a)) NE').
    + rewrite !in_app_iff. tauto.
    + intros e0 H0. apply in_app_iff in H0. destruct H0 as [H0|H0].
      * apply HR in H0. lia.
      * unfold E1 in H0. destruct (kf a); [|contradiction]. destruct H0 as [H0|[]]. subst e0. cbn. lia.
    + exact H1.
Qed.

Lemma dec_exact : forall c r r',
  c_ty c = TyAny \/ fits c r = true -> decode c r = Some r' -> r' = r.
Proof.
  intros c r r' [H|H] D.
  - apply (decode_any _ _ _ H D).
  - rewrite (fits_decode _ _ H) in D. congruence.
Qed.

Lemma fire_idx_ok : forall c ks s e,
  c_pkg c = ResB -> c_type c = TModel -> c_idx c = Some ks -> c_def c = None ->
  c_ty c = TyAny \/ (ofits c (st_val s) = true /\ ev_fits c e = true) ->
  keys_nonempty ks -> idx_ok ks s -> idx_ok ks (o_state (fire c s e)).
Proof.
  intros c ks s e P T IX D TA NE OK.
  assert (idxs c = Some ks) as IXS by (unfold idxs; rewrite P, T; exact IX).
  destruct e as [cs|v i|i|d| |]; cbn [fire]; rewrite ?T; try exact OK.
  - destruct cs as [|c0 cs0]; [exact OK|]. cbn [is_nil]. set (cs := c0 :: cs0) in *.
    unfold apply_change, start. rewrite T, D, IXS.
    destruct (existsb (fun ka : key * act gval => match snd ka with Put g => is_bad g | Del => false end) cs);
      [exact OK|].
    destruct (st_val s) as [[m0|l|]|] eqn:V; try exact OK.
    2:{ destruct (existsb _ cs); exact OK. }
    destruct (change_loop cs m0) as [m1 rev] eqn:L.
    destruct rev as [|x rev]; cbn [is_nil]; [exact OK|].
    destruct (decode c (RModel m0)) as [b0|] eqn:D0; [|exact OK].
    destruct (decode c (RModel m1)) as [a0|] eqn:D1; [|exact OK].
    assert (b0 = RModel m0 /\ a0 = RModel m1) as [E0 E1].
    { destruct TA as [TA|[F E]].
      - split; eapply dec_exact; eauto.
      - cbn [ofits] in F. split; [eapply dec_exact; eauto|].
        eapply dec_exact; [right|exact D1]. unfold fits in *. rewrite T in *.
        pose proof (mfits_change_loop c cs m0 E F) as F1. rewrite L in F1. exact F1. }
    subst b0 a0. cbn [o_state].
    intros e. cbn [st_val st_idx idx_spec].
    rewrite (idx_change_in ks 0 (RModel m0) (RModel m1) (st_idx s) [] NE).
    + cbn [In]. tauto.
    + intros e0 [].
    + intros e0. cbn [In]. rewrite (OK e0), V. cbn [idx_spec]. tauto.
  - unfold apply_create. rewrite D, IXS.
    destruct (st_val s) as [r|] eqn:V; [exact OK|]. cbn [o_state].
    intros e. cbn [st_idx st_val idx_spec]. rewrite idx_create_in.
    pose proof (OK e) as O. rewrite V in O. cbn [idx_spec In] in O. tauto.
  - unfold apply_delete. rewrite P, IXS.
    destruct (st_val s) as [r|] eqn:V; [|exact OK].
    destruct (decode c r) as [r'|] eqn:D0; cbn [o_state]; [|exact OK].
    assert (r' = r) as E0.
    { eapply dec_exact; [|exact D0]. destruct TA as [TA|[F _]]; [left; exact TA|right; exact F]. }
    subst r'.
    intros e. cbn [st_idx st_val idx_spec]. rewrite idx_delete_in.
    pose proof (OK e) as O. rewrite V in O. cbn [idx_spec] in O. cbn [In]. tauto.
Qed.

Lemma idx_consistent_pf : forall c ks s es,
  c_pkg c = ResB -> c_type c = TModel -> c_idx c = Some ks -> c_def c = None ->
  c_ty c = TyAny \/ well_typed c s es = true ->
  keys_nonempty ks -> idx_ok ks s -> idx_ok ks (final c s es).
Proof.
  intros c ks s es P T IX D TA NE. revert s TA. induction es as [|e es IH]; intros s TA OK; [exact OK|].
  rewrite final_cons.
  destruct TA as [TA|W].
  - apply IH; [left; exact TA|]. apply fire_idx_ok; auto.
  - unfold well_typed in W. cbn [forallb] in W.
    apply andb_true_iff in W. destruct W as [W E]. apply andb_true_iff in W. destruct W as [DF V].
    apply andb_true_iff in E. destruct E as [E1 E2].
    apply IH.
    + right. unfold well_typed. rewrite DF, E2, (fire_fits c s e DF V E1). reflexivity.
    + apply fire_idx_ok; auto.
Qed.

Lemma reopen_same_pf : forall s, reopen s = s.
Proof. intros [v i]. reflexivity. Qed.
