(* Executable model of the two deprecated BadgerDB middlewares
     middleware/badgerdb.go            (package middleware, [Legacy])
     middleware/resbadger/*.go         (package resbadger,  [ResB])
   and of the event methods of resource.go (ChangeEvent / AddEvent / RemoveEvent /
   CreateEvent / DeleteEvent) that call their Apply* handlers.

   What is stored under one resource name is [option res]; resbadger additionally
   keeps index entries  <name>:<key>\0<rid>  for that resource ([st_idx]).
   JSON values are numbers, strings, null, booleans and arrays of numbers ([jval]); a Go
   value handed to an event method is a float64, an int, a string, nil, a bool or a
   []interface{} of float64 ([gval]; reflect.DeepEqual distinguishes int from the float64
   that encoding/json produces, so the distinction is observable).  A property that is
   present with value null ([mget] = Some JNull) is distinct from an absent one (None),
   as `ov, ok := m[k]` distinguishes them in both packages.
   No proofs here. *)
From GoRes Require Export Base.Bytes.
From Coq Require Export ZArith.
Open Scope N_scope.

Definition key := bytes.
Inductive jval := JNum (n : N) | JStr (s : bytes) | JNull | JBool (b : bool) | JArr (l : list N).
(* GBad: a Go value encoding/json cannot marshal (a channel) *)
Inductive gval := GNum (n : N) | GInt (n : N) | GStr (s : bytes) | GNull | GBool (b : bool) | GArr (l : list N) | GBad.
(* a property value or res.DeleteAction *)
Inductive act (A : Type) := Put (a : A) | Del.
Arguments Put {A} a.
Arguments Del {A}.

(* json.Marshal followed by json.Unmarshal into interface{} *)
Definition norm (g : gval) : jval :=
  match g with
  | GNum n => JNum n | GInt n => JNum n | GStr s => JStr s
  | GNull => JNull | GBool b => JBool b | GArr l => JArr l
  | GBad => JNull                                        (* never reached: marshalling fails first *)
  end.
Definition is_bad (g : gval) : bool := match g with GBad => true | _ => false end.
Definition jeqb (a b : jval) : bool :=
  match a, b with
  | JNum x, JNum y => x =? y
  | JStr x, JStr y => beq x y
  | JNull, JNull => true
  | JBool x, JBool y => Bool.eqb x y
  | JArr x, JArr y => beq x y
  | _, _ => false
  end.
(* reflect.DeepEqual(v, ov): v supplied by the caller, ov decoded from the stored JSON *)
Definition deep_equal (g : gval) (j : jval) : bool :=
  match g, j with
  | GNum x, JNum y => x =? y
  | GStr x, JStr y => beq x y
  | GNull, JNull => true
  | GBool x, JBool y => Bool.eqb x y
  | GArr x, JArr y => beq x y
  | _, _ => false
  end.

Definition jmodel := list (key * jval).
(* RNull: the entry / served value is the JSON text `null` (CreateEvent(nil), a seeded entry) *)
Inductive res := RModel (m : jmodel) | RColl (c : list jval) | RNull.

(* Go map operations on the association list (first entry of a key wins) *)
Fixpoint mget (k : key) (m : jmodel) : option jval :=
  match m with
  | [] => None
  | (k', v) :: m' => if beq k k' then Some v else mget k m'
  end.
Fixpoint mset (k : key) (v : jval) (m : jmodel) : jmodel :=
  match m with
  | [] => [(k, v)]
  | (k', v') :: m' => if beq k k' then (k', v) :: m' else (k', v') :: mset k v m'
  end.
Fixpoint mdel (k : key) (m : jmodel) : jmodel :=
  match m with
  | [] => []
  | (k', v') :: m' => if beq k k' then mdel k m' else (k', v') :: mdel k m'
  end.

(* c = append(c, nil); copy(c[idx+1:], c[idx:]); c[idx] = v      (idx <= len c checked before) *)
Fixpoint insert_at (i : nat) (v : jval) (c : list jval) : list jval :=
  match i, c with
  | O, _ => v :: c
  | S i', x :: c' => x :: insert_at i' v c'
  | S _, [] => [v]
  end.
(* copy(c[idx:], c[idx+1:]); c = c[:len(c)-1]                    (idx < len c checked before) *)
Fixpoint remove_at (i : nat) (c : list jval) : list jval :=
  match i, c with
  | _, [] => []
  | O, _ :: c' => c'
  | S i', x :: c' => x :: remove_at i' c'
  end.
Definition len {A} (l : list A) : N := N.of_nat (length l).

(* ---- configuration of one handler ---- *)
Inductive pkg := Legacy | ResB.
Inductive rtype := TModel | TColl.
(* Type option: map[string]interface{} / []interface{} (or unset)  |  map[string]float64 / []float64
   |  for a model  struct { A float64 `json:"a"`; B string `json:"b"` }  (for a collection TyStruct
   stands for []interface{}) *)
Inductive ty := TyAny | TyNum | TyStruct.
Definition fld_a : key := [97].
Definition fld_b : key := [98].
(* Index.Key callback: None = nil slice, Some [] = empty non-nil slice *)
Definition keyfn := res -> option bytes.
Record cfg := Cfg {
  c_pkg : pkg;
  c_type : rtype;
  c_ty : ty;
  c_def : option res;             (* Default (rawDefault is its JSON) *)
  c_idx : option (list keyfn);    (* resbadger.Model.IndexSet *)
  c_map : option (res -> option res)  (* resbadger.Model.Map: None (inner) = the callback returns an error *)
}.
(* only resbadger.Model carries an index set *)
Definition idxs (c : cfg) : option (list keyfn) :=
  match c_pkg c, c_type c with ResB, TModel => c_idx c | _, _ => None end.

(* only resbadger.Model has a Map callback *)
Definition maps (c : cfg) : option (res -> option res) :=
  match c_pkg c, c_type c with ResB, TModel => c_map c | _, _ => None end.

(* v is a value of the element type of Type *)
Definition vfits (t : ty) (v : jval) : bool :=
  match t with
  | TyAny => true
  | TyNum => match v with JNum _ => true | _ => false end
  | TyStruct => true
  end.
(* the JSON of a value of the struct type: both fields, in declaration order, nothing else *)
Definition sfits (m : jmodel) : bool :=
  match m with
  | [(k1, JNum _); (k2, JStr _)] => beq k1 fld_a && beq k2 fld_b
  | _ => false
  end.
Definition mfits (t : ty) (m : jmodel) : bool :=
  match t with
  | TyStruct => sfits m
  | _ => forallb (fun kv => vfits t (snd kv)) m
  end.
Definition fits (c : cfg) (r : res) : bool :=
  match c_type c, r with
  | TModel, RModel m => mfits (c_ty c) m
  | TColl, RColl l => forallb (vfits (c_ty c)) l
  | _, _ => false
  end.
(* json.Unmarshal(dta, reflect.New(b.t)): None = error.  Into float64 a JSON null is
   "ignored" by encoding/json and leaves the zero value; every other non-number fails. *)
Definition vdec (t : ty) (v : jval) : option jval :=
  match t with
  | TyAny => Some v
  | TyNum => match v with JNum n => Some (JNum n) | JNull => Some (JNum 0) | _ => None end
  | TyStruct => Some v
  end.
Fixpoint dec_list (t : ty) (l : list jval) : option (list jval) :=
  match l with
  | [] => Some []
  | v :: l' =>
    match vdec t v, dec_list t l' with Some v', Some r => Some (v' :: r) | _, _ => None end
  end.
Fixpoint dec_model (t : ty) (m : jmodel) : option jmodel :=
  match m with
  | [] => Some []
  | (k, v) :: m' =>
    match vdec t v, dec_model t m' with Some v', Some r => Some ((k, v') :: r) | _, _ => None end
  end.
(* into the struct: a missing or null member leaves the zero value, a member of another JSON kind is an
   error, members the struct does not declare are dropped; null as a whole leaves the zero struct *)
Definition dec_struct (m : jmodel) : option jmodel :=
  match (match mget fld_a m with None | Some JNull => Some (JNum 0) | Some (JNum n) => Some (JNum n) | _ => None end),
        (match mget fld_b m with None | Some JNull => Some (JStr []) | Some (JStr x) => Some (JStr x) | _ => None end) with
  | Some va, Some vb => Some [(fld_a, va); (fld_b, vb)]
  | _, _ => None
  end.
Definition decode (c : cfg) (r : res) : option res :=
  match c_type c, r with
  | TModel, RModel m =>
    match c_ty c with
    | TyStruct => option_map RModel (dec_struct m)
    | t => option_map RModel (dec_model t m)
    end
  | TModel, RNull =>
    match c_ty c with TyStruct => option_map RModel (dec_struct []) | _ => Some RNull end
  | TColl, RColl l => option_map RColl (dec_list (c_ty c) l)
  | _, RNull => Some RNull                              (* null into a map / slice type: nil, no error *)
  | _, _ => None
  end.

(* ---- database content that belongs to one resource name ---- *)
Definition ent := (N * bytes)%type.          (* (position of the index in IndexSet.Indexes, key) *)
Record state := St { st_val : option res; st_idx : list ent }.

Definition ent_eqb (a b : ent) : bool := (fst a =? fst b) && beq (snd a) (snd b).
Definition idx_del (e : ent) (l : list ent) : list ent := filter (fun x => negb (ent_eqb e x)) l.   (* txn.Delete *)
Definition idx_set (e : ent) (l : list ent) : list ent := if existsb (ent_eqb e) l then l else l ++ [e]. (* txn.Set *)
Definition kbytes (k : option bytes) : bytes := match k with Some b => b | None => [] end.

(* applyChange: bytes.Equal(before, after) => continue; len > 0 tests *)
Fixpoint idx_change (i : N) (ks : list keyfn) (before after : res) (l : list ent) : list ent :=
  match ks with
  | [] => l
  | kf :: ks' =>
    let bk := kbytes (kf before) in
    let ak := kbytes (kf after) in
    let l1 :=
      if beq bk ak then l
      else
        let l' := if is_nil bk then l else idx_del (i, bk) l in
        if is_nil ak then l' else idx_set (i, ak) l' in
    idx_change (i + 1) ks' before after l1
  end.
(* applyCreate: iv != nil => Set *)
Fixpoint idx_create (i : N) (ks : list keyfn) (v : res) (l : list ent) : list ent :=
  match ks with
  | [] => l
  | kf :: ks' =>
    idx_create (i + 1) ks' v (match kf v with Some k => idx_set (i, k) l | None => l end)
  end.
(* applyDelete: iv != nil => Delete *)
Fixpoint idx_delete (i : N) (ks : list keyfn) (v : res) (l : list ent) : list ent :=
  match ks with
  | [] => l
  | kf :: ks' =>
    idx_delete (i + 1) ks' v (match kf v with Some k => idx_del (i, k) l | None => l end)
  end.

(* ---- Apply* handlers ---- *)
Definition revmap := list (key * act jval).
Inductive aout := ONone | ORev (rev : revmap) | OData (d : option res).
(* [Failed s]: the handler returned an error; s is the database content afterwards *)
Inductive outcome := Applied (s : state) (o : aout) | Failed (s : state).

(* one iteration of `for k, v := range changes`: new map, entry added to rev *)
Definition change_step (k : key) (a : act gval) (m : jmodel) : jmodel * option (act jval) :=
  match mget k m, a with
  | None, Put g => (mset k (norm g) m, Some Del)
  | None, Del => (m, None)
  | Some ov, Del => (mdel k m, Some (Put ov))
  | Some ov, Put g => if deep_equal g ov then (m, None) else (mset k (norm g) m, Some (Put ov))
  end.
Fixpoint change_loop (cs : list (key * act gval)) (m : jmodel) : jmodel * revmap :=
  match cs with
  | [] => (m, [])
  | (k, a) :: cs' =>
    let (m1, r1) := change_step k a m in
    let (m2, r2) := change_loop cs' m1 in
    (m2, match r1 with Some x => (k, x) :: r2 | None => r2 end)
  end.

(* the bytes the handler starts from: the stored entry, else rawDefault *)
Definition start (c : cfg) (s : state) : option res :=
  match st_val s with Some r => Some r | None => c_def c end.

Definition apply_change (c : cfg) (s : state) (cs : list (key * act gval)) : outcome :=
  match c_type c with
  | TColl => Failed s
  | TModel =>
    (* a value that cannot be marshalled always counts as changed and makes json.Marshal(m) fail
       (or, on a missing / undecodable / null entry, the handler fails before that) *)
    if existsb (fun ka => match snd ka with Put g => is_bad g | Del => false end) cs then Failed s else
    match start c s with
    | None => Failed s                                   (* res.ErrNotFound *)
    | Some (RColl _) => Failed s                         (* json: cannot unmarshal array into map *)
    | Some RNull =>
      (* null unmarshals into a nil map: reading and delete() are fine, m[k] = v panics *)
      if existsb (fun ka => match snd ka with Put _ => true | Del => false end) cs
      then Failed s else Applied s (ORev [])
    | Some (RModel m0) =>
      let (m1, rev) := change_loop cs m0 in
      if is_nil rev then Applied s (ORev [])             (* no actual change: nothing written *)
      else
        match idxs c with
        | None => Applied (St (Some (RModel m1)) (st_idx s)) (ORev rev)
        | Some ks =>
          (* before / after value: dta and ndta unmarshalled into Type *)
          match decode c (RModel m0), decode c (RModel m1) with
          | Some b, Some a => Applied (St (Some (RModel m1)) (idx_change 0 ks b a (st_idx s))) (ORev rev)
          | _, _ => Failed s                             (* error inside the transaction: rolled back *)
          end
        end
    end
  end.

Definition apply_add (c : cfg) (s : state) (v : gval) (i : N) : outcome :=
  match c_type c with
  | TModel => Failed s
  | TColl =>
    if is_bad v then Failed s else                       (* json.Marshal(value) fails (or an earlier check) *)
    (* a missing collection without Default and a stored `null` (nil slice) count as empty *)
    match (match start c s with Some RNull => RColl [] | Some r => r | None => RColl [] end) with
    | RModel _ => Failed s
    | RColl l =>
      if len l <? i then Failed s
      else Applied (St (Some (RColl (insert_at (N.to_nat i) (norm v) l))) (st_idx s)) ONone
    | RNull => Failed s
    end
  end.

Definition apply_remove (c : cfg) (s : state) (i : N) : outcome :=
  match c_type c with
  | TModel => Failed s
  | TColl =>
    match start c s with
    | None => Failed s
    | Some (RModel _) => Failed s
    | Some RNull => Failed s                             (* nil slice: index out of range *)
    | Some (RColl l) =>
      if len l <=? i then Failed s
      else Applied (St (Some (RColl (remove_at (N.to_nat i) l))) (st_idx s)) ONone
    end
  end.

Definition apply_create (c : cfg) (s : state) (d : res) : outcome :=
  match st_val s with
  | Some _ => Failed s                                   (* errResourceAlreadyExists *)
  | None =>
    match c_def c with
    | Some _ => Failed s                                 (* rawDefault != nil: already exists *)
    | None =>
      match idxs c with
      | None => Applied (St (Some d) (st_idx s)) ONone
      | Some ks => Applied (St (Some d) (idx_create 0 ks d (st_idx s))) ONone
      end
    end
  end.

Definition apply_delete (c : cfg) (s : state) : outcome :=
  match c_pkg c with
  | Legacy =>
    match st_val s with
    | None => Applied s (OData None)                     (* json.RawMessage(nil) *)
    | Some r =>
      (* the value unmarshalled into Type, or the raw JSON when that fails *)
      Applied (St None (st_idx s)) (OData (Some (match decode c r with Some r' => r' | None => r end)))
    end
  | ResB =>
    match st_val s with
    | None =>
      match idxs c with
      | Some _ => Applied s (OData None)
      | None => Failed s                                 (* json.Unmarshal(nil): unexpected end of input *)
      end
    | Some r =>
      (* the value is unmarshalled into Type inside the transaction, before txn.Delete *)
      match decode c r with
      | Some r' =>
        Applied (St None (match idxs c with Some ks => idx_delete 0 ks r' (st_idx s) | None => st_idx s end))
                (OData (Some r'))
      | None => Failed s
      end
    end
  end.

(* resbadger applyDelete as it was before the fix ec218ca: without an index set the delete was
   committed BEFORE the value was unmarshalled into Type *)
Definition apply_delete_v0 (c : cfg) (s : state) : outcome :=
  match c_pkg c, idxs c, st_val s with
  | ResB, None, Some r =>
    match decode c r with
    | Some r' => Applied (St None (st_idx s)) (OData (Some r'))
    | None => Failed (St None (st_idx s))
    end
  | _, _, _ => apply_delete c s
  end.

(* ---- get handler: response to a get request / result of Value() ---- *)
Inductive gres := GOk (r : res) | GNotFound | GErr.
Definition get_resource (c : cfg) (s : state) : gres :=
  match st_val s with
  | Some r =>
    match maps c with
    | None => GOk r                                      (* json.RawMessage(dta) *)
    | Some f =>                                          (* Map(value unmarshalled into Type) *)
      match decode c r with
      | Some r' => match f r' with Some x => GOk x | None => GErr end
      | None => GErr
      end
    end
  | None => match c_def c with Some d => GOk d | None => GNotFound end   (* the Default is not mapped *)
  end.
Definition value_resource (c : cfg) (s : state) : gres :=
  match st_val s with
  | Some r => match decode c r with Some r' => GOk r' | None => GErr end
  | None => match c_def c with Some d => GOk d | None => GNotFound end
  end.
(* closing and reopening the database: the handlers keep nothing outside it *)
Definition reopen (s : state) : state := St (st_val s) (st_idx s).

(* ---- resource.go event methods ---- *)
Inductive event :=
| EChange (cs : list (key * act gval))
| EAdd (v : gval) (i : Z)
| ERemove (i : Z)
| ECreate (d : res)
| ECreateBad                     (* CreateEvent with a value that cannot be marshalled *)
| EDelete.

Definition pubvals (cs : list (key * act gval)) : revmap :=
  map (fun ka => (fst ka, match snd ka with Put g => Put (norm g) | Del => Del end)) cs.

(* payload published on event.<rid>.<name> *)
Inductive pubmsg :=
| PChange (vs : revmap) | PAdd (v : jval) (i : N) | PRemove (i : N) | PCreate | PDelete.
(* what every listener registered for the resource is called with *)
Inductive lcall :=
| LChange (newv oldv : revmap) | LAdd (v : jval) (i : N) | LRemove (i : N) | LCreate (d : res) | LDelete (d : option res).

Record obs := Obs {
  o_panic : bool;              (* the event method panicked *)
  o_pub : option pubmsg;
  o_call : option lcall;
  o_state : state
}.
Definition silent (p : bool) (s : state) : obs := Obs p None None s.

Definition fire (c : cfg) (s : state) (e : event) : obs :=
  match e with
  | EChange cs =>
    match c_type c with
    | TColl => silent true s
    | TModel =>
      if is_nil cs then silent false s
      else match apply_change c s cs with
           | Failed s' => silent true s'
           | Applied s' (ORev rev) =>
             if is_nil rev then silent false s'
             else Obs false (Some (PChange (pubvals cs))) (Some (LChange (pubvals cs) rev)) s'
           | Applied s' _ => silent true s'
           end
    end
  | EAdd v i =>
    match c_type c with
    | TModel => silent true s
    | TColl =>
      if (i <? 0)%Z then silent true s
      else match apply_add c s v (Z.to_N i) with
           | Failed s' => silent true s'
           | Applied s' _ => Obs false (Some (PAdd (norm v) (Z.to_N i))) (Some (LAdd (norm v) (Z.to_N i))) s'
           end
    end
  | ERemove i =>
    match c_type c with
    | TModel => silent true s
    | TColl =>
      if (i <? 0)%Z then silent true s
      else match apply_remove c s (Z.to_N i) with
           | Failed s' => silent true s'
           | Applied s' _ => Obs false (Some (PRemove (Z.to_N i))) (Some (LRemove (Z.to_N i))) s'
           end
    end
  | ECreate d =>
    match apply_create c s d with
    | Failed s' => silent true s'
    | Applied s' _ => Obs false (Some PCreate) (Some (LCreate d)) s'
    end
  | ECreateBad => silent true s    (* already exists, or json.Marshal(value) fails *)
  | EDelete =>
    match apply_delete c s with
    | Failed s' => silent true s'
    | Applied s' (OData d) => Obs false (Some PDelete) (Some (LDelete d)) s'
    | Applied s' _ => silent true s'
    end
  end.

Fixpoint run (c : cfg) (s : state) (es : list event) : list obs :=
  match es with
  | [] => []
  | e :: es' => let o := fire c s e in o :: run c (o_state o) es'
  end.
Definition final (c : cfg) (s : state) (es : list event) : state :=
  fold_left (fun s e => o_state (fire c s e)) es s.

(* the Index.Key callbacks used by the correspondence harness: the value of one
   property; a string gives its bytes (the empty string an empty non-nil slice),
   a number n the single byte '0' + n mod 10, anything else (absent, null, bool, array) nil *)
Definition field_key (f : key) : keyfn := fun r =>
  match r with
  | RModel m =>
    match mget f m with
    | Some (JStr s) => Some s
    | Some (JNum n) => Some [48 + n mod 10]
    | _ => None
    end
  | _ => None
  end.

(* the Map callback used by the correspondence harness: keeps property a, adds m = 1, fails when b = "y" *)
Definition fld_m : key := [109].
Definition std_map : res -> option res := fun r =>
  match r with
  | RModel m =>
    match mget fld_b m with
    | Some (JStr [121]) => None
    | _ => Some (RModel (match mget fld_a m with Some v => [(fld_a, v)] | None => [] end ++ [(fld_m, JNum 1)]))
    end
  | RNull => Some (RModel [(fld_m, JNum 1)])
  | RColl _ => None
  end.

(* ---- index listeners (IndexSet.Listen / ListenIndex): the calls one event makes, in order.
   IC (Some i) b a : listeners of index i ; IC None b a : listeners of the whole set *)
Inductive icall := IC (name : option N) (before after : option res).
Fixpoint upd_change (i : N) (ks : list keyfn) (b a : res) : list N :=
  match ks with
  | [] => []
  | kf :: ks' => (if beq (kbytes (kf b)) (kbytes (kf a)) then [] else [i]) ++ upd_change (i + 1) ks' b a
  end.
Fixpoint upd_some (i : N) (ks : list keyfn) (v : res) : list N :=
  match ks with
  | [] => []
  | kf :: ks' => (match kf v with Some _ => [i] | None => [] end) ++ upd_some (i + 1) ks' v
  end.
Definition idx_calls (c : cfg) (s : state) (e : event) : list icall :=
  match idxs c with
  | None => []
  | Some ks =>
    match e with
    | EChange cs =>
      match apply_change c s cs, start c s with
      | Applied _ (ORev (_ :: _)), Some (RModel m0) =>
        match decode c (RModel m0), decode c (RModel (fst (change_loop cs m0))) with
        | Some b, Some a =>
          match upd_change 0 ks b a with
          | [] => []
          | u => map (fun i => IC (Some i) (Some b) (Some a)) u ++ [IC None (Some b) (Some a)]
          end
        | _, _ => []
        end
      | _, _ => []
      end
    | ECreate d =>
      match apply_create c s d with
      | Applied _ _ =>
        match upd_some 0 ks d with
        | [] => []
        | u => map (fun i => IC (Some i) None (Some d)) u ++ [IC None None (Some d)]
        end
      | Failed _ => []
      end
    | EDelete =>
      match apply_delete c s with
      | Applied _ (OData None) => [IC None None None]
      | Applied _ (OData (Some r')) => map (fun i => IC (Some i) (Some r') None) (upd_some 0 ks r') ++ [IC None (Some r') None]
      | _ => []
      end
    | _ => []
    end
  end.

(* ---- Model.RebuildIndexes(pattern) with this resource the only one under the pattern.
   typeset = the Type option is set (RebuildIndexes uses reflect.TypeOf(o.Type) as it is) *)
Inductive rbres := RbOk (l : list ent) | RbErr | RbPanic.
Fixpoint all_entries (i : N) (ks : list keyfn) (v : res) : list ent :=
  match ks with
  | [] => []
  | kf :: ks' => (i, kbytes (kf v)) :: all_entries (i + 1) ks' v     (* a nil key gives an entry with an empty key *)
  end.
Definition rebuild (c : cfg) (typeset : bool) (s : state) : rbres :=
  match idxs c with
  | None => RbOk (st_idx s)
  | Some [] => RbOk (st_idx s)
  | Some ks =>
    match st_val s with
    | None => RbOk []                                    (* DropPrefix, nothing to index *)
    | Some r =>
      if negb typeset then RbPanic                       (* reflect.New(nil) *)
      else match decode c r with
           | Some r' => RbOk (all_entries 0 ks r')
           | None => RbErr                               (* entries dropped, transaction rolled back *)
           end
    end
  end.
