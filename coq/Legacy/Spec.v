(* Reference semantics the property C20 refers to, written independently of the
   middleware model: what a RES client holds for one resource (its [view]) and how the
   protocol events change it.  Models are finite maps, so they are compared by lookups
   ([meqv]), not as lists. *)
From GoRes Require Export Legacy.Model.
Open Scope N_scope.

(* None = the client was told the resource does not exist *)
Definition view := option res.

Inductive sevent :=
| SChange (vs : list (key * act jval))
| SAdd (v : jval) (i : N)
| SRemove (i : N)
| SCreate (d : res)
| SDelete.

(* finite-map update by map / filter *)
Definition shas (k : key) (m : jmodel) : bool := existsb (fun kv => beq k (fst kv)) m.
Definition sput (k : key) (v : jval) (m : jmodel) : jmodel :=
  if shas k m then map (fun kv => if beq k (fst kv) then (fst kv, v) else kv) m else (k, v) :: m.
Definition sdel (k : key) (m : jmodel) : jmodel := filter (fun kv => negb (beq k (fst kv))) m.
Definition supd (m : jmodel) (ka : key * act jval) : jmodel :=
  match snd ka with Put v => sput (fst ka) v m | Del => sdel (fst ka) m end.

(* one protocol event on a client's view; None = the event is not applicable to it.
   [def]: what the service serves for a name with no stored entry (the Default); a
   collection that does not exist, or is the JSON value null, counts as empty for an add at position 0. *)
Definition spec_step (def : view) (v : view) (e : sevent) : option view :=
  match e, v with
  | SChange vs, Some (RModel m) => Some (Some (RModel (fold_left supd vs m)))
  | SAdd x i, Some (RColl c) =>
    if i <=? len c then Some (Some (RColl (firstn (N.to_nat i) c ++ x :: skipn (N.to_nat i) c))) else None
  | SAdd x i, None => if i =? 0 then Some (Some (RColl [x])) else None
  | SAdd x i, Some RNull => if i =? 0 then Some (Some (RColl [x])) else None
  | SRemove i, Some (RColl c) =>
    if i <? len c then Some (Some (RColl (firstn (N.to_nat i) c ++ skipn (S (N.to_nat i)) c))) else None
  | SCreate d, None => Some (Some d)
  | SDelete, _ => Some def
  | _, _ => None
  end.
Fixpoint spec_fold (def : view) (es : list sevent) (v : view) : option view :=
  match es with
  | [] => Some v
  | e :: es' => match spec_step def v e with Some v' => spec_fold def es' v' | None => None end
  end.

(* the initial-or-default value *)
Definition served (def : view) (stored : option res) : view :=
  match stored with Some r => Some r | None => def end.
Definition gres_of (v : view) : gres := match v with Some r => GOk r | None => GNotFound end.

(* the protocol event a client reads off a published message (a create event carries no
   data on the wire: the client fetches it, here it is the data given to CreateEvent) *)
Definition sev_of_pub (p : pubmsg) (e : event) : sevent :=
  match p with
  | PChange vs => SChange vs
  | PAdd v i => SAdd v i
  | PRemove i => SRemove i
  | PCreate => SCreate (match e with ECreate d => d | _ => RColl [] end)
  | PDelete => SDelete
  end.
(* the events published while the model runs es *)
Fixpoint published (c : cfg) (s : state) (es : list event) : list sevent :=
  match es with
  | [] => []
  | e :: es' =>
    let o := fire c s e in
    match o_pub o with Some p => [sev_of_pub p e] | None => [] end ++ published c (o_state o) es'
  end.

(* ---- equality of JSON values ---- *)
Definition meqv (a b : jmodel) : Prop := forall k, mget k a = mget k b.
Definition reqv (a b : res) : Prop :=
  match a, b with RModel x, RModel y => meqv x y | RColl x, RColl y => x = y | RNull, RNull => True | _, _ => False end.
Definition veqv (a b : view) : Prop :=
  match a, b with Some x, Some y => reqv x y | None, None => True | _, _ => False end.
Definition geqv (a b : gres) : Prop :=
  match a, b with GOk x, GOk y => reqv x y | GNotFound, GNotFound => True | GErr, GErr => True | _, _ => False end.

(* decidable forms (used by Run_C20) *)
Definition ojeqb (a b : option jval) : bool :=
  match a, b with Some x, Some y => jeqb x y | None, None => true | _, _ => false end.
Definition meqb (a b : jmodel) : bool :=
  forallb (fun kv => ojeqb (mget (fst kv) a) (mget (fst kv) b)) (a ++ b).
Fixpoint leqb (a b : list jval) : bool :=
  match a, b with [] , [] => true | x :: a', y :: b' => jeqb x y && leqb a' b' | _, _ => false end.
Definition reqb (a b : res) : bool :=
  match a, b with RModel x, RModel y => meqb x y | RColl x, RColl y => leqb x y | RNull, RNull => true | _, _ => false end.
Definition veqb (a b : view) : bool :=
  match a, b with Some x, Some y => reqb x y | None, None => true | _, _ => false end.
Definition geqb (a b : gres) : bool :=
  match a, b with GOk x, GOk y => reqb x y | GNotFound, GNotFound => true | GErr, GErr => true | _, _ => false end.

(* ---- typing of events against the handler's Type ---- *)
Definition afits (t : ty) (a : act gval) : bool := match a with Put g => vfits t (norm g) | Del => true end.
(* a change of a struct-typed model that keeps it a value of the struct: a number for a, a string for b *)
Definition safits (k : key) (a : act gval) : bool :=
  match a with
  | Put g =>
    match norm g with
    | JNum _ => beq k fld_a
    | JStr _ => beq k fld_b
    | _ => false
    end
  | Del => false
  end.
Definition ev_fits (c : cfg) (e : event) : bool :=
  match e with
  | EChange cs =>
    match c_ty c with
    | TyStruct => forallb (fun ka => safits (fst ka) (snd ka)) cs
    | t => forallb (fun ka => afits t (snd ka)) cs
    end
  | EAdd v _ => vfits (c_ty c) (norm v)
  | ECreate d => fits c d
  | _ => true
  end.
Definition ofits (c : cfg) (o : option res) : bool := match o with Some r => fits c r | None => true end.
(* Default is of the handler's Type (SetOption panics otherwise), the stored entry
   decodes into it, and every event carries values of it *)
Definition well_typed (c : cfg) (s : state) (es : list event) : bool :=
  ofits c (c_def c) && ofits c (st_val s) && forallb (ev_fits c) es.

(* ---- events the property calls not appliable (decided on the client's view) ---- *)
Definition unappliable (v : view) (e : event) : bool :=
  match e with
  | EChange cs => negb (is_nil cs) && match v with None => true | Some _ => false end
  | EAdd _ i =>
    (i <? 0)%Z || match v with Some (RColl c) => len c <? Z.to_N i | None => 0 <? Z.to_N i | _ => false end
  | ERemove i =>
    (i <? 0)%Z || match v with Some (RColl c) => len c <=? Z.to_N i | None => true | _ => false end
  | ECreate _ => match v with Some _ => true | None => false end
  | ECreateBad => true
  | EDelete => false
  end.

(* ---- old values of a change event ---- *)
Fixpoint rget (k : key) (r : revmap) : option (act jval) :=
  match r with [] => None | (k', x) :: r' => if beq k k' then Some x else rget k r' end.
Fixpoint cget (k : key) (cs : list (key * act gval)) : option (act gval) :=
  match cs with [] => None | (k', x) :: cs' => if beq k k' then Some x else cget k cs' end.
(* the handler regards property k as changed by action a *)
Definition changed (m0 : jmodel) (k : key) (a : act gval) : bool :=
  match a, mget k m0 with
  | Put _, None => true
  | Put g, Some ov => negb (deep_equal g ov)
  | Del, Some _ => true
  | Del, None => false
  end.
Definition oldv (m0 : jmodel) (k : key) : act jval :=
  match mget k m0 with Some ov => Put ov | None => Del end.
(* what the JSON values say: the property gets another value *)
Definition jchanged (m0 : jmodel) (k : key) (a : act gval) : bool :=
  match a, mget k m0 with
  | Put _, None => true
  | Put g, Some ov => negb (jeqb (norm g) ov)
  | Del, Some _ => true
  | Del, None => false
  end.
(* neither a Go int nor a value that cannot be marshalled *)
Definition no_int (a : act gval) : bool := match a with Put (GInt _) => false | Put GBad => false | _ => true end.

(* the data a delete listener receives: the stored entry as Value() would give it (unmarshalled
   into Type); it IS the stored entry when that is of the handler's Type *)
Definition delete_view (c : cfg) (r : res) : res :=
  match decode c r with Some r' => r' | None => r end.

(* ---- index entries as a function of the stored value ---- *)
Fixpoint idx_entries (i : N) (ks : list keyfn) (r : res) : list ent :=
  match ks with
  | [] => []
  | kf :: ks' => match kf r with Some k => [(i, k)] | None => [] end ++ idx_entries (i + 1) ks' r
  end.
Definition idx_spec (ks : list keyfn) (v : option res) : list ent :=
  match v with Some r => idx_entries 0 ks r | None => [] end.
Definition idx_ok (ks : list keyfn) (s : state) : Prop :=
  forall e, In e (st_idx s) <-> In e (idx_spec ks (st_val s)).
(* no Key callback returns an empty non-nil slice *)
Definition keys_nonempty (ks : list keyfn) : Prop :=
  forall kf r, In kf ks -> kf r <> Some [].
