(* C18 proofs, part 2: the string encoder and decoder are inverse on every
   byte list (up to the replacement of ill-formed UTF-8 by U+FFFD, i.e. exactly
   on valid UTF-8), the encoder's output is one string token, and hence a
   reference survives Marshal -> Unmarshal. *)
From GoRes Require Import Codec.Spec Codec.Proofs.
From Coq Require Import String Arith.
Open Scope N_scope.
Local Notation length := List.length.

(* ---- the UTF-8 walk, unfolded once ---- *)
Lemma utf8_fold_unfold : forall A fa fm fbad (z : A) b r,
  utf8_fold fa fm fbad z (b :: r) =
  if b <? 128 then fa b (utf8_fold fa fm fbad z r)
  else match utf8_size (b :: r) with
       | Some n => fm (firstn n (b :: r)) (utf8_fold fa fm fbad z (skipn n (b :: r)))
       | None => fbad b (utf8_fold fa fm fbad z r)
       end.
Proof.
  intros A fa fm fbad z b r. cbn [utf8_fold]. destruct (b <? 128); [reflexivity|].
  unfold utf8_size.
  destruct r as [|c1 r1]; [reflexivity|].
  destruct (is2 b c1); [reflexivity|].
  destruct r1 as [|c2 r2]; [reflexivity|].
  destruct (is3 b c1 c2); [reflexivity|].
  destruct r2 as [|c3 r3]; [reflexivity|].
  destruct (is4 b c1 c2 c3); reflexivity.
Qed.

Inductive chunk_at : bytes -> nat -> Prop :=
| chunk2 : forall b c1 x, is2 b c1 = true -> chunk_at (b :: c1 :: x) 2
| chunk3 : forall b c1 c2 x, is2 b c1 = false -> is3 b c1 c2 = true -> chunk_at (b :: c1 :: c2 :: x) 3
| chunk4 : forall b c1 c2 c3 x, is2 b c1 = false -> is3 b c1 c2 = false -> is4 b c1 c2 c3 = true ->
    chunk_at (b :: c1 :: c2 :: c3 :: x) 4.
Lemma utf8_size_some : forall s n, utf8_size s = Some n -> chunk_at s n.
Proof.
  intros s n H. unfold utf8_size in H.
  destruct s as [|b [|c1 r1]]; try discriminate.
  destruct (is2 b c1) eqn:E2. { injection H as <-. constructor. assumption. }
  destruct r1 as [|c2 r2]; try discriminate.
  destruct (is3 b c1 c2) eqn:E3. { injection H as <-. constructor; assumption. }
  destruct r2 as [|c3 r3]; try discriminate.
  destruct (is4 b c1 c2 c3) eqn:E4; try discriminate. injection H as <-. constructor; assumption.
Qed.

Lemma cont_ge : forall c, cont c = true -> 128 <= c.
Proof. intros c H. unfold cont in H. apply andb_true_iff in H. destruct H as [H _]. apply N.leb_le in H. exact H. Qed.
Lemma is2_ge : forall b c, is2 b c = true -> 194 <= b /\ 128 <= c.
Proof.
  intros b c H. unfold is2 in H. rewrite !andb_true_iff in H. destruct H as [[H1 _] H2].
  apply N.leb_le in H1. apply cont_ge in H2. split; assumption.
Qed.
Lemma is3_ge : forall b c1 c2, is3 b c1 c2 = true -> 224 <= b /\ 128 <= c1 /\ 128 <= c2.
Proof.
  intros b c1 c2 H. unfold is3 in H. rewrite andb_true_iff in H. destruct H as [H2 H].
  apply cont_ge in H2. unfold cont in H.
  rewrite !orb_true_iff, !andb_true_iff, !N.eqb_eq, !N.leb_le in H. lia.
Qed.
Lemma is4_ge : forall b c1 c2 c3, is4 b c1 c2 c3 = true -> 240 <= b /\ 128 <= c1 /\ 128 <= c2 /\ 128 <= c3.
Proof.
  intros b c1 c2 c3 H. unfold is4 in H. rewrite !andb_true_iff in H. destruct H as [[H2 H3] H].
  apply cont_ge in H2. apply cont_ge in H3. unfold cont in H.
  rewrite !orb_true_iff, !andb_true_iff, !N.eqb_eq, !N.leb_le in H. lia.
Qed.

(* ---- the decoder on bytes that are not a backslash ---- *)
Lemma hi_tests : forall b, 128 <= b -> (b =? 92) = false /\ (b =? 34) = false /\ (b <? 32) = false /\ (b <? 128) = false.
Proof.
  intros b H. repeat split; try (apply N.eqb_neq; lia); apply N.ltb_ge; lia.
Qed.
Lemma unescape_pass2 : forall b c1 x, is2 b c1 = true ->
  json_unescape (b :: c1 :: x) = oapp [b; c1] (json_unescape x).
Proof.
  intros b c1 x H. destruct (is2_ge _ _ H) as [Hb _].
  destruct (hi_tests b ltac:(lia)) as (E1 & E2 & E3 & E4).
  cbn [json_unescape]. rewrite E1, E2, E3, E4, H. reflexivity.
Qed.
Lemma unescape_pass3 : forall b c1 c2 x, is2 b c1 = false -> is3 b c1 c2 = true ->
  json_unescape (b :: c1 :: c2 :: x) = oapp [b; c1; c2] (json_unescape x).
Proof.
  intros b c1 c2 x H2 H. destruct (is3_ge _ _ _ H) as [Hb _].
  destruct (hi_tests b ltac:(lia)) as (E1 & E2 & E3 & E4).
  cbn [json_unescape]. rewrite E1, E2, E3, E4, H2, H. reflexivity.
Qed.
Lemma unescape_pass4 : forall b c1 c2 c3 x, is2 b c1 = false -> is3 b c1 c2 = false -> is4 b c1 c2 c3 = true ->
  json_unescape (b :: c1 :: c2 :: c3 :: x) = oapp [b; c1; c2; c3] (json_unescape x).
Proof.
  intros b c1 c2 c3 x H2 H3 H. destruct (is4_ge _ _ _ _ H) as [Hb _].
  destruct (hi_tests b ltac:(lia)) as (E1 & E2 & E3 & E4).
  cbn [json_unescape]. rewrite E1, E2, E3, E4, H2, H3, H. reflexivity.
Qed.
Lemma unescape_ufffd : forall x, json_unescape (esc_ufffd ++ x) = oapp repl_char (json_unescape x).
Proof. intro x. reflexivity. Qed.

Lemma N_lt_cases : forall (P : N -> Prop) (k : nat),
  (forall n, (n < k)%nat -> P (N.of_nat n)) -> forall b, b < N.of_nat k -> P b.
Proof.
  intros P k H b Hb. rewrite <- (N2Nat.id b). apply H. lia.
Qed.

(* every ASCII byte comes back from its escape *)
Lemma unescape_esc_ascii : forall b x, b < 128 ->
  json_unescape (esc_ascii b ++ x) = oapp [b] (json_unescape x).
Proof.
  intros b x Hb. unfold esc_ascii.
  destruct (N.eqb_spec b 34) as [->|N34]; [reflexivity|].
  destruct (N.eqb_spec b 92) as [->|N92]; [reflexivity|].
  destruct (N.eqb_spec b 8) as [->|N8]; [reflexivity|].
  destruct (N.eqb_spec b 12) as [->|N12]; [reflexivity|].
  destruct (N.eqb_spec b 10) as [->|N10]; [reflexivity|].
  destruct (N.eqb_spec b 13) as [->|N13]; [reflexivity|].
  destruct (N.eqb_spec b 9) as [->|N9]; [reflexivity|].
  destruct (N.ltb_spec b 32) as [L32|G32].
  { cbn [orb]. clear -L32. revert b L32. apply (N_lt_cases _ 32). intros n Hn.
    do 32 (destruct n as [|n]; [reflexivity|]). lia. }
  cbn [orb].
  destruct (N.eqb_spec b 60) as [->|N60]; [reflexivity|].
  destruct (N.eqb_spec b 62) as [->|N62]; [reflexivity|].
  destruct (N.eqb_spec b 38) as [->|N38]; [reflexivity|].
  cbn [orb app json_unescape].
  assert (E1 : (b =? 92) = false) by (apply N.eqb_neq; assumption).
  assert (E2 : (b =? 34) = false) by (apply N.eqb_neq; assumption).
  assert (E3 : (b <? 32) = false) by (apply N.ltb_ge; assumption).
  assert (E4 : (b <? 128) = true) by (apply N.ltb_lt; assumption).
  rewrite E1, E2, E3, E4. reflexivity.
Qed.

(* a well-formed multi-byte sequence comes back from what the encoder emits for it *)
Lemma unescape_esc_multi : forall s n x, chunk_at s n ->
  json_unescape (esc_multi (firstn n s) ++ skipn n s ++ x) = oapp (firstn n s) (json_unescape (skipn n s ++ x)) /\
  forall y, json_unescape (esc_multi (firstn n s) ++ y) = oapp (firstn n s) (json_unescape y).
Proof.
  intros s n x H.
  assert (G : forall y, json_unescape (esc_multi (firstn n s) ++ y) = oapp (firstn n s) (json_unescape y)).
  { destruct H as [b c1 t H2 | b c1 c2 t H2 H3 | b c1 c2 c3 t H2 H3 H4]; intro y.
    - cbn [firstn esc_multi is_linesep app]. apply unescape_pass2. assumption.
    - cbn [firstn]. unfold esc_multi, is_linesep.
      destruct ((b =? 226) && (c1 =? 128) && ((c2 =? 168) || (c2 =? 169))) eqn:E.
      + rewrite !andb_true_iff, orb_true_iff, !N.eqb_eq in E. destruct E as [[-> ->] [-> | ->]]; reflexivity.
      + cbn [app]. apply unescape_pass3; assumption.
    - cbn [firstn esc_multi is_linesep app]. apply unescape_pass4; assumption. }
  split; [apply G | exact G].
Qed.

Lemma chunk_at_len : forall s n, chunk_at s n -> (length (skipn n s) < length s)%nat /\ firstn n s ++ skipn n s = s.
Proof.
  intros s n H. split; [|apply firstn_skipn].
  destruct H; cbn [skipn List.length]; lia.
Qed.

Lemma json_escape_unfold : forall b r,
  json_escape (b :: r) =
  if b <? 128 then esc_ascii b ++ json_escape r
  else match utf8_size (b :: r) with
       | Some n => esc_multi (firstn n (b :: r)) ++ json_escape (skipn n (b :: r))
       | None => esc_ufffd ++ json_escape r
       end.
Proof. intros. unfold json_escape. apply utf8_fold_unfold. Qed.
Lemma utf8_sanitize_unfold : forall b r,
  utf8_sanitize (b :: r) =
  if b <? 128 then b :: utf8_sanitize r
  else match utf8_size (b :: r) with
       | Some n => firstn n (b :: r) ++ utf8_sanitize (skipn n (b :: r))
       | None => repl_char ++ utf8_sanitize r
       end.
Proof. intros. unfold utf8_sanitize. apply utf8_fold_unfold. Qed.
Lemma utf8_valid_unfold : forall b r,
  utf8_valid (b :: r) =
  if b <? 128 then utf8_valid r
  else match utf8_size (b :: r) with
       | Some n => utf8_valid (skipn n (b :: r))
       | None => false
       end.
Proof. intros. unfold utf8_valid. apply utf8_fold_unfold. Qed.

(* decode (encode s) = s with ill-formed bytes replaced, for EVERY byte list *)
Lemma string_roundtrip_gen : forall n s, (length s <= n)%nat ->
  json_unescape (json_escape s) = Some (utf8_sanitize s).
Proof.
  induction n as [|n IH]; intros s Hl.
  - destruct s; [reflexivity | simpl in Hl; lia].
  - destruct s as [|b r]; [reflexivity|].
    rewrite json_escape_unfold, utf8_sanitize_unfold.
    destruct (N.ltb_spec b 128) as [Lb|Gb].
    + rewrite unescape_esc_ascii by assumption. rewrite IH by (simpl in Hl; lia). reflexivity.
    + destruct (utf8_size (b :: r)) as [k|] eqn:Es.
      * apply utf8_size_some in Es. destruct (chunk_at_len _ _ Es) as [Hlen _].
        destruct (unescape_esc_multi _ _ [] Es) as [_ G]. rewrite G.
        rewrite IH by (simpl in *; lia). reflexivity.
      * rewrite unescape_ufffd. rewrite IH by (simpl in Hl; lia). reflexivity.
Qed.
Lemma string_roundtrip_sanitize_pf : forall s, json_unescape (json_escape s) = Some (utf8_sanitize s).
Proof. intro s. apply (string_roundtrip_gen (length s)). lia. Qed.

Lemma sanitize_valid_gen : forall n s, (length s <= n)%nat -> utf8_valid s = true -> utf8_sanitize s = s.
Proof.
  induction n as [|n IH]; intros s Hl Hv.
  - destruct s; [reflexivity | simpl in Hl; lia].
  - destruct s as [|b r]; [reflexivity|].
    rewrite utf8_sanitize_unfold. rewrite utf8_valid_unfold in Hv.
    destruct (b <? 128).
    + rewrite IH by (simpl in Hl; lia || assumption). reflexivity.
    + destruct (utf8_size (b :: r)) as [k|] eqn:Es; [|discriminate].
      apply utf8_size_some in Es. destruct (chunk_at_len _ _ Es) as [Hlen Hcat].
      rewrite IH by (simpl in *; lia || assumption). exact Hcat.
Qed.
Lemma sanitize_valid : forall s, utf8_valid s = true -> utf8_sanitize s = s.
Proof. intros s H. apply (sanitize_valid_gen (length s)); [lia | assumption]. Qed.

Lemma string_roundtrip_pf : forall s, utf8_valid s = true -> json_unescape (json_escape s) = Some s.
Proof. intros s H. rewrite string_roundtrip_sanitize_pf, sanitize_valid by assumption. reflexivity. Qed.

(* the property cannot be had for ill-formed UTF-8: the encoder is not injective there *)
Lemma string_roundtrip_needs_utf8_pf : json_unescape (json_escape [255]) = Some [239; 191; 189].
Proof. reflexivity. Qed.

(* ---- the encoder's output is the body of exactly one string token ---- *)
Definition scan_ok (p : bytes) : Prop :=
  forall x, scan_string_body (p ++ x) =
            match scan_string_body x with Some (t, r) => Some (p ++ t, r) | None => None end.
Lemma scan_ok_nil : scan_ok [].
Proof. intro x. simpl. destruct (scan_string_body x) as [[t r]|]; reflexivity. Qed.
Lemma scan_ok_app : forall p q, scan_ok p -> scan_ok q -> scan_ok (p ++ q).
Proof.
  intros p q Hp Hq x. rewrite <- app_assoc. rewrite Hp, Hq.
  destruct (scan_string_body x) as [[t r]|]; [rewrite app_assoc|]; reflexivity.
Qed.
Lemma scan_ok_plain : forall c, c <> 34 -> c <> 92 -> scan_ok [c].
Proof.
  intros c H1 H2 x. cbn [app scan_string_body].
  apply N.eqb_neq in H1. apply N.eqb_neq in H2. rewrite H1, H2.
  destruct (scan_string_body x) as [[t r]|]; reflexivity.
Qed.
Lemma scan_ok_cons : forall c p, c <> 34 -> c <> 92 -> scan_ok p -> scan_ok (c :: p).
Proof. intros c p H1 H2 Hp. apply (scan_ok_app [c] p); [apply scan_ok_plain; assumption | assumption]. Qed.
Lemma scan_ok_esc : forall e p, scan_ok p -> scan_ok (92 :: e :: p).
Proof.
  intros e p Hp x. cbn [app scan_string_body]. change (92 =? 34) with false. change (92 =? 92) with true. cbn iota.
  rewrite Hp. destruct (scan_string_body x) as [[t r]|]; reflexivity.
Qed.
Lemma hexd_plain : forall n, hexd n <> 34 /\ hexd n <> 92.
Proof. intro n. unfold hexd. destruct (n <? 10) eqn:E; [apply N.ltb_lt in E | apply N.ltb_ge in E]; lia. Qed.
Lemma scan_ok_esc_ascii : forall b, scan_ok (esc_ascii b).
Proof.
  intro b. unfold esc_ascii.
  repeat match goal with
  | |- context [if ?c then _ else _] => destruct c eqn:?
  end;
  try (apply scan_ok_esc; apply scan_ok_nil).
  - unfold esc_u00. apply scan_ok_esc.
    destruct (hexd_plain (b / 16)), (hexd_plain (b mod 16)).
    repeat (apply scan_ok_cons; [lia | lia | ]). apply scan_ok_nil.
  - apply scan_ok_plain.
    + apply N.eqb_neq. assumption.
    + apply N.eqb_neq. assumption.
Qed.
Lemma scan_ok_esc_ufffd : scan_ok esc_ufffd.
Proof. unfold esc_ufffd. apply scan_ok_esc. repeat (apply scan_ok_cons; [lia | lia | ]). apply scan_ok_nil. Qed.
Lemma scan_ok_esc_multi : forall s n, chunk_at s n -> scan_ok (esc_multi (firstn n s)).
Proof.
  intros s n H. destruct H as [b c1 t H2 | b c1 c2 t H2 H3 | b c1 c2 c3 t H2 H3 H4].
  - cbn [firstn esc_multi is_linesep]. destruct (is2_ge _ _ H2).
    repeat (apply scan_ok_cons; [lia | lia | ]). apply scan_ok_nil.
  - cbn [firstn]. unfold esc_multi, is_linesep. destruct (is3_ge _ _ _ H3) as (? & ? & ?).
    destruct ((b =? 226) && (c1 =? 128) && ((c2 =? 168) || (c2 =? 169))).
    + apply scan_ok_esc. destruct (c2 =? 168); repeat (apply scan_ok_cons; [lia | lia | ]); apply scan_ok_nil.
    + repeat (apply scan_ok_cons; [lia | lia | ]). apply scan_ok_nil.
  - cbn [firstn esc_multi is_linesep]. destruct (is4_ge _ _ _ _ H4) as (? & ? & ? & ?).
    repeat (apply scan_ok_cons; [lia | lia | ]). apply scan_ok_nil.
Qed.
Lemma scan_ok_escape_gen : forall n s, (length s <= n)%nat -> scan_ok (json_escape s).
Proof.
  induction n as [|n IH]; intros s Hl.
  - destruct s; [apply scan_ok_nil | simpl in Hl; lia].
  - destruct s as [|b r]; [apply scan_ok_nil|].
    rewrite json_escape_unfold. destruct (b <? 128).
    + apply scan_ok_app; [apply scan_ok_esc_ascii | apply IH; simpl in Hl; lia].
    + destruct (utf8_size (b :: r)) as [k|] eqn:Es.
      * apply utf8_size_some in Es. destruct (chunk_at_len _ _ Es) as [Hlen _].
        apply scan_ok_app; [apply (scan_ok_esc_multi _ _ Es) | apply IH; simpl in *; lia].
      * apply scan_ok_app; [apply scan_ok_esc_ufffd | apply IH; simpl in Hl; lia].
Qed.
(* scanning a quoted string stops exactly at its closing quote *)
Lemma scan_quote_pf : forall s rest, scan_string (quote s ++ rest) = Some (json_escape s, rest).
Proof.
  intros s rest. unfold quote, scan_string. cbn [app]. change (34 =? 34) with true. cbn iota.
  rewrite <- app_assoc. rewrite (scan_ok_escape_gen (length s) s (le_n _)).
  cbn [app scan_string_body]. change (34 =? 34) with true. cbn iota. rewrite app_nil_r. reflexivity.
Qed.

(* ---- references ---- *)
Lemma strip_prefix_app : forall p s, strip_prefix p (p ++ s) = Some s.
Proof.
  induction p as [|x p IH]; intro s; [destruct s; reflexivity|].
  cbn [app strip_prefix]. rewrite N.eqb_refl. apply IH.
Qed.

Lemma ref_marshal_layout : forall rid, ref_marshal rid = Ok (ref_prefix ++ quote rid ++ [125]).
Proof. intro rid. unfold ref_marshal. apply ref_layout_pf. Qed.
Lemma softref_marshal_layout : forall rid, softref_marshal rid = Ok (ref_prefix ++ quote rid ++ softref_suffix).
Proof. intro rid. unfold softref_marshal. apply softref_layout_pf. Qed.

Lemma parse_ref_text_ref : forall rid,
  parse_ref_text (ref_prefix ++ quote rid ++ [125]) =
  VObj [(s2b "rid", quote rid, JStr (utf8_sanitize rid))].
Proof.
  intro rid. unfold parse_ref_text. rewrite strip_prefix_app, scan_quote_pf, string_roundtrip_sanitize_pf.
  reflexivity.
Qed.
Lemma parse_ref_text_soft : forall rid,
  parse_ref_text (ref_prefix ++ quote rid ++ softref_suffix) =
  VObj [(s2b "rid", quote rid, JStr (utf8_sanitize rid)); (s2b "soft", s2b "true", JBool true)].
Proof.
  intro rid. unfold parse_ref_text. rewrite strip_prefix_app, scan_quote_pf, string_roundtrip_sanitize_pf.
  reflexivity.
Qed.

(* Unmarshal(Marshal(ref)) = ref, the id's ill-formed bytes replaced; so exactly ref for valid UTF-8 *)
Lemma ref_roundtrip_gen : forall rid,
  (exists t, ref_marshal rid = Ok t /\ ref_unmarshal (parse_ref_text t) = Some (utf8_sanitize rid)) /\
  (exists t, softref_marshal rid = Ok t /\ ref_unmarshal (parse_ref_text t) = Some (utf8_sanitize rid)).
Proof.
  intro rid. split.
  - exists (ref_prefix ++ quote rid ++ [125]). split; [apply ref_marshal_layout|].
    rewrite parse_ref_text_ref. reflexivity.
  - exists (ref_prefix ++ quote rid ++ softref_suffix). split; [apply softref_marshal_layout|].
    rewrite parse_ref_text_soft. reflexivity.
Qed.
Lemma ref_roundtrip_pf : forall rid, utf8_valid rid = true ->
  (exists t, ref_marshal rid = Ok t /\ ref_unmarshal (parse_ref_text t) = Some rid) /\
  (exists t, softref_marshal rid = Ok t /\ ref_unmarshal (parse_ref_text t) = Some rid).
Proof.
  intros rid H. pose proof (ref_roundtrip_gen rid) as G. rewrite (sanitize_valid _ H) in G. exact G.
Qed.
