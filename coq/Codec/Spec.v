(* Specification side of C18: the protocol's classification table for store
   values (decided by look-ups on the member list, independent of the model's
   sequential decode), the canonical JSON text of a store value, and what a
   handler outcome is expected to look like to the client.  No proofs here. *)
From GoRes Require Export Codec.Model.
From Coq Require Import String.
Open Scope N_scope.

Definition n_rid : bytes := s2b "rid".
Definition n_soft : bytes := s2b "soft".
Definition n_action : bytes := s2b "action".
Definition n_data : bytes := s2b "data".

(* the protocol table, independent of the model's fold: decided on the member list by lookups *)
Definition last_member (name : bytes) (ms : list (bytes * bytes * json)) : option (bytes * json) :=
  match find (fun m => key_is name (fst (fst m))) (rev ms) with
  | Some m => Some (snd (fst m), snd m)
  | None => None
  end.
Definition spec_string_field (name : bytes) (ms : list (bytes * bytes * json)) : option bytes :=
  match last_member name ms with Some (_, JStr s) => Some s | _ => None end.
Definition spec_soft (ms : list (bytes * bytes * json)) : bool :=
  match find (fun m => key_is n_soft (fst (fst m)) && negb (json_eqb (snd m) JNull)) (rev ms) with
  | Some m => json_eqb (snd m) (JBool true)
  | None => false
  end.
Definition spec_types_ok (ms : list (bytes * bytes * json)) : bool :=
  forallb (fun m =>
    let k := fst (fst m) in let j := snd m in
    if key_is n_rid k || key_is n_action k
    then match j with JStr _ | JNull => true | _ => false end
    else if key_is n_soft k then match j with JBool _ | JNull => true | _ => false end
    else true) ms.
Definition classify_table (data : bytes) (v : view) : outcome value :=
  match v with
  | VSyntax => Err
  | VVal j => if is_arr j then Err else Ok (MkValue data TPrim [] [])
  | VObj ms =>
    if negb (spec_types_ok ms) then Err
    else
      let data_m := last_member n_data ms in
      match spec_string_field n_rid ms with
      | Some rid =>
        if isSome (spec_string_field n_action ms) || isSome data_m || is_nil rid
           || negb (is_valid_rid rid) then Err
        else Ok (MkValue data (if spec_soft ms then TSoft else TRef) rid [])
      | None =>
        match spec_string_field n_action ms with
        | Some a => if isSome data_m || negb (beq a action_delete) then Err else Ok (MkValue data TDelete [] [])
        | None =>
          match data_m with
          | Some (raw, j) =>
            if is_obj j || is_arr j then Ok (MkValue data TData [] raw) else Ok (MkValue raw TPrim [] raw)
          | None => Err
          end
        end
      end
  end.


(* canonical JSON text of a store value: what the protocol value looks like *)
Definition unwrap (o : outcome bytes) : bytes := match o with Ok b => b | _ => [] end.
Definition canon_text (a : value) : bytes :=
  match v_type a with
  | TNone => s2b "null"
  | TPrim => v_raw a
  | TRef => unwrap (ref_marshal (v_rid a))
  | TSoft => unwrap (softref_marshal (v_rid a))
  | TData => data_prefix ++ v_inner a ++ [125]
  | TDelete => s2b "{""action"":""delete""}"
  end.

(* which of result / resource / error the handler's outcome calls for *)
Inductive rclass := CResult | CResource | CError.
Definition rclass_eqb (a b : rclass) : bool :=
  match a, b with CResult, CResult | CResource, CResource | CError, CError => true | _, _ => false end.
Definition expected_class (h : handler_outcome) : rclass :=
  match h with
  | HOk _ => CResult
  | HResource rid => if is_valid_rid rid then CResource else CError
  | HNew rid => if is_valid_rid rid then CResult else CError
  | HAccess get call => if negb get && is_nil call then CError else CResult
  | HAccessGranted => CResult
  | HModel _ _ => CResult
  | HCollection _ _ => CResult
  | _ => CError
  end.
(* the error a handler outcome supplies; None where the text comes from elsewhere *)
Definition norm_data (d : option json) : option json := match d with Some JNull => None | _ => d end.
Definition norm_err (e : rerror) : rerror := MkErr (e_code e) (e_msg e) (norm_data (e_data e)).
(* what ParseResult(&v) leaves in v: JSON null leaves it untouched *)
Definition supplied_result (r : option json) : option json :=
  match r with Some JNull => None | _ => r end.
Definition supplied_error (h : handler_outcome) : option rerror :=
  match h with
  | HResource rid => if is_valid_rid rid then None else Some (internal_error (s2b "res: invalid resource ID: " ++ rid))
  | HError (Some e) => Some (norm_err e)
  | HError None => Some err_internal
  | HErrorOther msg => Some (internal_error msg)
  | HNotFound => Some err_not_found
  | HMethodNotFound => Some err_method_not_found
  | HInvalidParams msg => Some (if is_nil msg then err_invalid_params else MkErr (e_code err_invalid_params) msg None)
  | HInvalidQuery msg => Some (if is_nil msg then err_invalid_query else MkErr (e_code err_invalid_query) msg None)
  | HAccess get call => if negb get && is_nil call then Some err_access_denied else None
  | HAccessDenied => Some err_access_denied
  | HPanicError e => Some (norm_err e)
  | HPanicString msg => Some (internal_error msg)
  | HNoReply => Some (internal_error (s2b "missing response"))
  | _ => None
  end.


(* exactly one of HasResult / HasResource / HasError, and which *)
Definition exactly_one (h : bool * bool * bool) : bool :=
  let '(a, b, c) := h in
  (a && negb b && negb c) || (negb a && b && negb c) || (negb a && negb b && c).
Definition class_of (h : bool * bool * bool) : option rclass :=
  let '(a, b, c) := h in
  if a && negb b && negb c then Some CResult
  else if negb a && b && negb c then Some CResource
  else if negb a && negb b && c then Some CError else None.
Definition has_flags (r : response) : bool * bool * bool := (has_result r, has_resource r, has_error r).
(* the client's parse of what the service publishes for outcome h under meta m *)
Definition client_parse (m : option rmeta) (h : handler_outcome) : response :=
  parse_response (published m h) (view_of (published_ast m h)).

(* number texts directly inside j (as a member value of an object) start like a number *)
Definition members_num_ok (j : json) : bool :=
  match j with JObj ms => forallb (fun kv => top_num_ok (snd kv)) ms | _ => true end.
