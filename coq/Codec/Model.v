(* Executable model of go-res's own codec code (property C18):
     types.go            Ref/SoftRef MarshalJSON (the make/copy offset arithmetic) and UnmarshalJSON
     resprot/resprot.go  MarshalDataValue / UnmarshalDataValue, ParseResponse, Has*, ParseResult,
                         ParseModel, ParseCollection, AccessResult
     store/value.go      Value.UnmarshalJSON (classifier), Equal, MarshalJSON
     request.go/codec.go the payloads a service publishes for every handler outcome
   Byte surgery is modelled on byte lists; every call of encoding/json is
   replaced by its result on the [view]/[json] of Codec/Json.v (trusted).
   Go panics are the outcome [Panic].  No proofs here. *)
From GoRes Require Export Codec.Json.
From GoRes Require Pattern.Model.
From Coq Require Import String.
Open Scope N_scope.
Local Notation length := List.length.

Inductive outcome (A : Type) :=
| Ok (a : A)
| Err          (* the Go function returned a non-nil error *)
| Panic.       (* the Go function panicked *)
Arguments Ok {A} a.
Arguments Err {A}.
Arguments Panic {A}.
Definition obind {A B} (o : outcome A) (f : A -> outcome B) : outcome B :=
  match o with Ok a => f a | Err => Err | Panic => Panic end.

Definition is_valid_rid : bytes -> bool := Pattern.Model.is_valid_rid.   (* types.go IsValidRID, model of C17 *)

(* ---------- Go slice primitives ---------- *)
Definition make_bytes (n : nat) : bytes := repeat 0 n.
(* copy(d, s): min(len d, len s) bytes *)
Fixpoint overlay (d s : bytes) : bytes :=
  match d, s with
  | _ :: d', x :: s' => x :: overlay d' s'
  | _, _ => d
  end.
(* copy(o[off:], src); the slice expression panics when off > len(o) *)
Definition copy_at (o : bytes) (off : nat) (src : bytes) : outcome bytes :=
  if Nat.leb off (length o) then Ok (firstn off o ++ overlay (skipn off o) src) else Panic.
(* o[i] = c *)
Definition set_at (o : bytes) (i : nat) (c : N) : outcome bytes :=
  if Nat.ltb i (length o) then Ok (firstn i o ++ c :: skipn (S i) o) else Panic.
(* the index expression len(o)-k : a negative index panics *)
Definition idx_sub (a k : nat) : outcome nat := if Nat.leb k a then Ok (a - k)%nat else Panic.

(* ---------- types.go ---------- *)
Definition ref_prefix : bytes := s2b "{""rid"":".
Definition softref_suffix : bytes := s2b ",""soft"":true}".
Definition ref_suffix : N := 125.

(* Ref.MarshalJSON after rid, err := json.Marshal(string(r)) returned q *)
Definition ref_marshal_q (q : bytes) : outcome bytes :=
  let o := make_bytes (length q + 8) in
  obind (copy_at o 0 ref_prefix) (fun o =>
  obind (copy_at o 7 q) (fun o =>
  obind (idx_sub (length o) 1) (fun i =>
  set_at o i ref_suffix))).
Definition softref_marshal_q (q : bytes) : outcome bytes :=
  let o := make_bytes (length q + 20) in
  obind (copy_at o 0 ref_prefix) (fun o =>
  obind (copy_at o 7 q) (fun o =>
  obind (idx_sub (length o) 13) (fun i =>
  copy_at o i softref_suffix))).
Definition ref_marshal (rid : bytes) : outcome bytes := ref_marshal_q (quote rid).
Definition softref_marshal (rid : bytes) : outcome bytes := softref_marshal_q (quote rid).

(* json.Unmarshal(b, &p) with p struct{ RID string `json:"rid"` }: members in order, (rid, type error seen) *)
Definition ref_step (st : bytes * bool) (m : bytes * json) : bytes * bool :=
  if key_is (s2b "rid") (fst m) then
    match snd m with
    | JStr s => (s, snd st)
    | JNull => st
    | _ => (fst st, true)
    end
  else st.
(* (Ref|SoftRef).UnmarshalJSON on a text whose AST is j: Some rid, or None = error (receiver unchanged) *)
Definition ref_unmarshal_ast (j : json) : option bytes :=
  match j with
  | JNull => Some []
  | JObj ms => let st := fold_left ref_step ms ([], false) in if snd st then None else Some (fst st)
  | _ => None
  end.
Definition ref_unmarshal (v : view) : option bytes :=
  match view_ast v with Some j => ref_unmarshal_ast j | None => None end.

(* the parser restricted to the two layouts go-res itself emits:
   {"rid":<string>}  and  {"rid":<string>,"soft":true} *)
Fixpoint strip_prefix (p s : bytes) : option bytes :=
  match p, s with
  | [], _ => Some s
  | x :: p', y :: s' => if x =? y then strip_prefix p' s' else None
  | _ :: _, [] => None
  end.
Definition parse_ref_text (text : bytes) : view :=
  match strip_prefix ref_prefix text with
  | None => VSyntax
  | Some r =>
    match scan_string r with
    | None => VSyntax
    | Some (body, rest) =>
      match json_unescape body with
      | None => VSyntax
      | Some s =>
        let raw := 34 :: body ++ [34] in
        if beq rest [ref_suffix] then VObj [(s2b "rid", raw, JStr s)]
        else if beq rest softref_suffix then VObj [(s2b "rid", raw, JStr s); (s2b "soft", s2b "true", JBool true)]
        else VSyntax
      end
    end
  end.

(* ---------- resprot: data values ---------- *)
Definition data_prefix : bytes := s2b "{""data"":".
(* MarshalDataValue after data, err := json.Marshal(v) returned data *)
Definition marshal_data_value_b (data : bytes) : outcome bytes :=
  match data with
  | [] => Panic
  | c :: _ =>
    if (c =? lbrack) || (c =? lbrace) then
      let o := make_bytes (length data + 9) in
      obind (copy_at o 0 data_prefix) (fun o =>
      obind (copy_at o 8 data) (fun o =>
      obind (idx_sub (length o) 1) (fun i =>
      set_at o i 125)))
    else Ok data
  end.
Definition marshal_data_value (j : json) : outcome bytes := marshal_data_value_b (print j).
(* MarshalDataValue as a function of what json.Marshal(v) returned (Err: v cannot be marshalled) *)
Definition marshal_data_value_enc (enc : outcome bytes) : outcome bytes := obind enc marshal_data_value_b.

(* last member named "data": (raw, ast) *)
Definition data_step (st : option (bytes * json)) (m : bytes * bytes * json) : option (bytes * json) :=
  if key_is (s2b "data") (fst (fst m)) then Some (snd (fst m), snd m) else st.
(* UnmarshalDataValue(data, &v) with v an interface{}: the decoded value *)
Definition unmarshal_data_value (data : bytes) (v : view) : outcome json :=
  match first_sig data with
  | None => Err
  | Some c =>
    if c =? lbrack then Err
    else if c =? lbrace then
      match v with
      | VObj ms =>
        match fold_left data_step ms None with
        | None => Err
        | Some (_, j) => Ok j
        end
      | _ => Err
      end
    else match view_ast v with Some j => Ok j | None => Err end
  end.

(* ---------- store/value.go ---------- *)
Inductive vtype := TNone | TPrim | TRef | TSoft | TData | TDelete.
Definition vtype_eqb (a b : vtype) : bool :=
  match a, b with
  | TNone, TNone | TPrim, TPrim | TRef, TRef | TSoft, TSoft | TData, TData | TDelete, TDelete => true
  | _, _ => false
  end.
Record value := MkValue { v_raw : bytes; v_type : vtype; v_rid : bytes; v_inner : bytes }.

Record vobj := MkVobj {
  o_rid : option bytes; o_soft : bool; o_action : option bytes; o_data : option bytes; o_bad : bool }.
Definition vobj0 : vobj := MkVobj None false None None false.
Definition vobj_step (st : vobj) (m : bytes * bytes * json) : vobj :=
  let k := fst (fst m) in let raw := snd (fst m) in let j := snd m in
  if key_is (s2b "rid") k then
    match j with
    | JStr s => MkVobj (Some s) (o_soft st) (o_action st) (o_data st) (o_bad st)
    | JNull => MkVobj None (o_soft st) (o_action st) (o_data st) (o_bad st)
    | _ => MkVobj (o_rid st) (o_soft st) (o_action st) (o_data st) true
    end
  else if key_is (s2b "soft") k then
    match j with
    | JBool b => MkVobj (o_rid st) b (o_action st) (o_data st) (o_bad st)
    | JNull => st
    | _ => MkVobj (o_rid st) (o_soft st) (o_action st) (o_data st) true
    end
  else if key_is (s2b "action") k then
    match j with
    | JStr s => MkVobj (o_rid st) (o_soft st) (Some s) (o_data st) (o_bad st)
    | JNull => MkVobj (o_rid st) (o_soft st) None (o_data st) (o_bad st)
    | _ => MkVobj (o_rid st) (o_soft st) (o_action st) (o_data st) true
    end
  else if key_is (s2b "data") k then MkVobj (o_rid st) (o_soft st) (o_action st) (Some raw) (o_bad st)
  else st.
Definition action_delete : bytes := s2b "delete".

(* the switch of UnmarshalJSON on the decoded valueObject; data = the whole RawMessage *)
Definition value_of_vobj (data : bytes) (o : vobj) : outcome value :=
  if o_bad o then Err
  else
    match o_rid o with
    | Some rid =>
      if isSome (o_action o) || isSome (o_data o) || is_nil rid then Err
      else if negb (is_valid_rid rid) then Err
      else Ok (MkValue data (if o_soft o then TSoft else TRef) rid [])
    | None =>
      match o_action o with
      | Some a =>
        if isSome (o_data o) || negb (beq a action_delete) then Err
        else Ok (MkValue data TDelete [] [])
      | None =>
        match o_data o with
        | Some d =>
          match d with
          | [] => Panic
          | dc :: _ =>
            if (dc =? lbrace) || (dc =? lbrack) then Ok (MkValue data TData [] d)
            else Ok (MkValue d TPrim [] d)
          end
        | None => Err
        end
      end
    end.
(* Value.UnmarshalJSON(data) on a zero Value; v = what json.Unmarshal sees in data *)
Definition value_unmarshal (data : bytes) (v : view) : outcome value :=
  match first_sig data with
  | None => Panic
  | Some c =>
    if c =? lbrace then
      match v with
      | VObj ms => value_of_vobj data (fold_left vobj_step ms vobj0)
      | _ => Err
      end
    else if c =? lbrack then Err
    else Ok (MkValue data TPrim [] [])
  end.
(* json.Unmarshal(text, &value): the decoder validates, trims outer white space, then calls UnmarshalJSON *)
Fixpoint ltrim (s : bytes) : bytes :=
  match s with c :: r => if is_ws c then ltrim r else s | [] => [] end.
Definition trim (s : bytes) : bytes := rev (ltrim (rev (ltrim s))).
Definition json_unmarshal_value (text : bytes) (v : view) : outcome value :=
  match v with
  | VSyntax => Err
  | _ => value_unmarshal (trim text) v
  end.

Definition value_equal (a b : value) : bool :=
  if negb (vtype_eqb (v_type a) (v_type b)) then false
  else match v_type a with
       | TData => beq (v_inner a) (v_inner b)
       | TPrim => beq (v_raw a) (v_raw b)
       | TRef | TSoft => beq (v_rid a) (v_rid b)
       | _ => true
       end.
(* Value.MarshalJSON (a nil RawMessage is the empty byte list) *)
Definition value_marshal (a : value) : bytes :=
  match v_raw a with [] => s2b "null" | r => r end.

(* ---------- resprot: responses ---------- *)
Record rerror := MkErr { e_code : bytes; e_msg : bytes; e_data : option json }.
Definition err_step (st : rerror * bool) (m : bytes * json) : rerror * bool :=
  let e := fst st in
  if key_is (s2b "code") (fst m) then
    match snd m with
    | JStr s => (MkErr s (e_msg e) (e_data e), snd st)
    | JNull => st
    | _ => (e, true)
    end
  else if key_is (s2b "message") (fst m) then
    match snd m with
    | JStr s => (MkErr (e_code e) s (e_data e), snd st)
    | JNull => st
    | _ => (e, true)
    end
  else if key_is (s2b "data") (fst m) then
    match snd m with
    | JNull => (MkErr (e_code e) (e_msg e) None, snd st)
    | j => (MkErr (e_code e) (e_msg e) (Some j), snd st)
    end
  else st.
Definition err0 : rerror := MkErr [] [] None.

Inductive perror :=
| PEInvalid                 (* system.internalError "Internal error: invalid response" *)
| PEUnmarshal               (* system.internalError, message from encoding/json *)
| PEDecoded (e : rerror).
Record presp := MkResp {
  p_result : option (bytes * json);   (* Result raw message and its AST; None = nil *)
  p_resource : bytes;
  p_error : option rerror;
  p_bad : bool }.
Definition presp0 : presp := MkResp None [] None false.
Definition resp_step (st : presp) (m : bytes * bytes * json) : presp :=
  let k := fst (fst m) in let raw := snd (fst m) in let j := snd m in
  if key_is (s2b "result") k then MkResp (Some (raw, j)) (p_resource st) (p_error st) (p_bad st)
  else if key_is (s2b "resource") k then
    match ref_unmarshal_ast j with
    | Some rid => MkResp (p_result st) rid (p_error st) (p_bad st)
    | None => MkResp (p_result st) (p_resource st) (p_error st) true
    end
  else if key_is (s2b "error") k then
    match j with
    | JNull => MkResp (p_result st) (p_resource st) None (p_bad st)
    | JObj ms =>
      let e0 := match p_error st with Some e => e | None => err0 end in
      let r := fold_left err_step ms (e0, false) in
      MkResp (p_result st) (p_resource st) (Some (fst r)) (p_bad st || snd r)
    | _ => MkResp (p_result st) (p_resource st) (p_error st) true
    end
  else st.

Record response := MkResponse {
  r_result : option (bytes * json);
  r_resource : bytes;
  r_error : option perror }.
Definition invalid_response : response := MkResponse None [] (Some PEInvalid).
(* ParseResponse(data); v = what json.Unmarshal sees in data *)
Definition parse_response (data : bytes) (v : view) : response :=
  match data with
  | [] => invalid_response
  | _ :: _ =>
    match v with
    | VSyntax => MkResponse None [] (Some PEUnmarshal)
    | VVal JNull => invalid_response
    | VVal _ => MkResponse None [] (Some PEUnmarshal)
    | VObj ms =>
      let st := fold_left resp_step ms presp0 in
      if p_bad st then MkResponse (p_result st) (p_resource st) (Some PEUnmarshal)
      else
        match p_error st with
        | Some e => MkResponse (p_result st) (p_resource st) (Some (PEDecoded e))
        | None =>
          if is_nil (p_resource st) && negb (isSome (p_result st)) then invalid_response
          else MkResponse (p_result st) (p_resource st) None
        end
    end
  end.
Definition has_error (r : response) : bool := isSome (r_error r).
Definition has_resource (r : response) : bool := negb (isSome (r_error r)) && negb (is_nil (r_resource r)).
Definition has_result (r : response) : bool := negb (isSome (r_error r)) && is_nil (r_resource r).

(* Response.ParseResult(&v), v an interface{}: Ok None = v left untouched *)
Definition parse_result (r : response) : outcome (option json) :=
  if isSome (r_error r) then Err
  else if negb (is_nil (r_resource r)) then Err
  else match r_result r with
       | Some (raw, j) =>
         if is_nil raw then Ok None
         else match j with JNull => Ok None | _ => Ok (Some j) end   (* null sets ParseResult's local copy of v, not *v *)
       | None => Ok None
       end.

(* GetResult{Model, Collection RawMessage; Query string} decoded from the result's AST *)
Record getres := MkGet { g_model : option json; g_coll : option json; g_query : bytes; g_bad : bool }.
Definition get_step (st : getres) (m : bytes * json) : getres :=
  if key_is (s2b "model") (fst m) then MkGet (Some (snd m)) (g_coll st) (g_query st) (g_bad st)
  else if key_is (s2b "collection") (fst m) then MkGet (g_model st) (Some (snd m)) (g_query st) (g_bad st)
  else if key_is (s2b "query") (fst m) then
    match snd m with
    | JStr s => MkGet (g_model st) (g_coll st) s (g_bad st)
    | JNull => st
    | _ => MkGet (g_model st) (g_coll st) (g_query st) true
    end
  else st.
Definition get_result (r : response) : outcome getres :=
  if isSome (r_error r) then Err
  else if negb (is_nil (r_resource r)) then Err
  else match r_result r with
       | Some (raw, j) =>
         if is_nil raw then Ok (MkGet None None [] false)
         else match j with
              | JObj ms => let g := fold_left get_step ms (MkGet None None [] false) in if g_bad g then Err else Ok g
              | JNull => Ok (MkGet None None [] false)
              | _ => Err
              end
       | None => Ok (MkGet None None [] false)
       end.
(* ParseModel(&v) / ParseCollection(&v), v an interface{}: (decoded resource, query) *)
Definition parse_model (r : response) : outcome (json * bytes) :=
  obind (get_result r) (fun g =>
    match g_coll g, g_model g with
    | None, Some m => Ok (m, g_query g)
    | _, _ => Err
    end).
Definition parse_collection (r : response) : outcome (json * bytes) :=
  obind (get_result r) (fun g =>
    match g_model g, g_coll g with
    | None, Some c => Ok (c, g_query g)
    | _, _ => Err
    end).
(* AccessResult(): (get, call) *)
Definition acc_step (st : bool * bytes * bool) (m : bytes * json) : bool * bytes * bool :=
  let '(g, c, bad) := st in
  if key_is (s2b "get") (fst m) then
    match snd m with JBool b => (b, c, bad) | JNull => st | _ => (g, c, true) end
  else if key_is (s2b "call") (fst m) then
    match snd m with JStr s => (g, s, bad) | JNull => st | _ => (g, c, true) end
  else st.
Definition access_result (r : response) : outcome (bool * bytes) :=
  if isSome (r_error r) then Err
  else if negb (is_nil (r_resource r)) then Err
  else match r_result r with
       | Some (raw, j) =>
         if is_nil raw then Ok (false, [])
         else match j with
              | JObj ms => let '(g, c, bad) := fold_left acc_step ms (false, [], false) in if bad then Err else Ok (g, c)
              | JNull => Ok (false, [])
              | _ => Err
              end
       | None => Ok (false, [])
       end.

(* ---------- request.go: what the service publishes ---------- *)
Fixpoint dec_fuel (fuel : nat) (n : N) : bytes :=
  match fuel with
  | O => []
  | S f => if n <? 10 then [48 + n] else dec_fuel f (n / 10) ++ [48 + n mod 10]
  end.
Definition dec (n : N) : bytes := dec_fuel (S (N.size_nat n)) n.

(* r.status and r.rheader (keys sorted, as the marshaller emits a map) *)
Record rmeta := MkMeta { m_status : N; m_header : list (bytes * list bytes) }.
(* Request.meta() *)
Definition meta_of (m : rmeta) : option rmeta :=
  if is_nil (m_header m) && (m_status m =? 0) then None else Some m.
(* metaObject with omitempty on both fields, as a member list to append *)
Definition meta_members (m : option rmeta) : list (bytes * json) :=
  match m with
  | None => []
  | Some m =>
    [(s2b "meta",
      JObj ((if m_status m =? 0 then [] else [(s2b "status", JNum (dec (m_status m)))]) ++
            (if is_nil (m_header m) then []
             else [(s2b "header", JObj (map (fun kv => (fst kv, JArr (map JStr (snd kv)))) (m_header m)))])))]
  end.
Definition err_ast (e : rerror) : json :=
  JObj ([(s2b "code", JStr (e_code e)); (s2b "message", JStr (e_msg e))] ++
        match e_data e with Some d => [(s2b "data", d)] | None => [] end).
Definition err_internal : rerror := MkErr (s2b "system.internalError") (s2b "Internal error") None.
Definition success_ast (result : json) (m : option rmeta) : json := JObj ((s2b "result", result) :: meta_members m).
(* Request.error: a nil *Error is replaced by ErrInternalError *)
Definition error_ast (e : option rerror) (m : option rmeta) : json :=
  JObj ((s2b "error", err_ast (match e with Some e => e | None => err_internal end)) :: meta_members m).
Definition resource_ast (rid : bytes) (m : option rmeta) : json :=
  JObj ((s2b "resource", JObj [(s2b "rid", JStr rid)]) :: meta_members m).

Definition sys_err (code msg : string) : rerror := MkErr (s2b code) (s2b msg) None.
Definition err_access_denied := sys_err "system.accessDenied" "Access denied".
Definition err_not_found := sys_err "system.notFound" "Not found".
Definition err_method_not_found := sys_err "system.methodNotFound" "Method not found".
Definition err_invalid_params := sys_err "system.invalidParams" "Invalid parameters".
Definition err_invalid_query := sys_err "system.invalidQuery" "Invalid query".
Definition internal_error (msg : bytes) : rerror :=
  MkErr (s2b "system.internalError") (s2b "Internal error: " ++ msg) None.

(* the static payloads of request.go *)
Definition response_access_denied := s2b "{""error"":{""code"":""system.accessDenied"",""message"":""Access denied""}}".
Definition response_not_found := s2b "{""error"":{""code"":""system.notFound"",""message"":""Not found""}}".
Definition response_method_not_found := s2b "{""error"":{""code"":""system.methodNotFound"",""message"":""Method not found""}}".
Definition response_invalid_params := s2b "{""error"":{""code"":""system.invalidParams"",""message"":""Invalid parameters""}}".
Definition response_invalid_query := s2b "{""error"":{""code"":""system.invalidQuery"",""message"":""Invalid query""}}".
Definition response_missing_response := s2b "{""error"":{""code"":""system.internalError"",""message"":""Internal error: missing response""}}".
Definition response_access_granted := s2b "{""result"":{""get"":true,""call"":""*""}}".
Definition response_success := s2b "{""result"":null}".

(* what a handler does with its request (and the meta it set before) *)
Inductive handler_outcome :=
| HOk (result : option json)            (* OK(result); None = nil *)
| HResource (rid : bytes)               (* Resource(rid) *)
| HNew (rid : bytes)                    (* New(rid) *)
| HError (e : option rerror)            (* Error(err), err a *res.Error; None = typed nil pointer *)
| HErrorOther (msg : bytes)             (* Error(err), any other error with that text *)
| HNotFound
| HMethodNotFound
| HInvalidParams (msg : bytes)
| HInvalidQuery (msg : bytes)
| HAccess (get : bool) (call : bytes)
| HAccessDenied
| HAccessGranted
| HModel (model : json) (query : bytes)
| HCollection (coll : json) (query : bytes)
| HPanicError (e : rerror)              (* panic(&res.Error{...}) *)
| HPanicString (msg : bytes)            (* panic("...") or panic(errors.New("...")) *)
| HNoReply.                             (* returns without replying (call/auth/get: missing response) *)

Definition access_ast (get : bool) (call : bytes) : json :=
  JObj ((if get then [(s2b "get", JBool true)] else []) ++ (if is_nil call then [] else [(s2b "call", JStr call)])).
Definition get_ast (kind : string) (v : json) (q : bytes) : json :=
  JObj ((s2b kind, v) :: (if is_nil q then [] else [(s2b "query", JStr q)])).

(* the payload published as the reply; m = Request.meta() *)
Definition published (m : option rmeta) (h : handler_outcome) : bytes :=
  let static (b : bytes) (e : rerror) := match m with None => b | Some _ => print (error_ast (Some e) m) end in
  match h with
  | HOk None => match m with None => response_success | Some _ => print (success_ast JNull m) end
  | HOk (Some j) => print (success_ast j m)
  | HResource rid =>
    if is_valid_rid rid then print (resource_ast rid m)
    else print (error_ast (Some (internal_error (s2b "res: invalid resource ID: " ++ rid))) m)
  | HNew rid =>
    if is_valid_rid rid then print (success_ast (JObj [(s2b "rid", JStr rid)]) None)
    else print (error_ast (Some (internal_error (s2b "res: invalid reference RID: " ++ rid))) m)
  | HError e => print (error_ast e m)
  | HErrorOther msg => print (error_ast (Some (internal_error msg)) m)
  | HNotFound => static response_not_found err_not_found
  | HMethodNotFound => static response_method_not_found err_method_not_found
  | HInvalidParams msg =>
    if is_nil msg then static response_invalid_params err_invalid_params
    else print (error_ast (Some (MkErr (s2b "system.invalidParams") msg None)) m)
  | HInvalidQuery msg =>
    if is_nil msg then static response_invalid_query err_invalid_query
    else print (error_ast (Some (MkErr (s2b "system.invalidQuery") msg None)) m)
  | HAccess get call =>
    if negb get && is_nil call then static response_access_denied err_access_denied
    else print (success_ast (access_ast get call) m)
  | HAccessDenied => static response_access_denied err_access_denied
  | HAccessGranted =>
    match m with None => response_access_granted | Some _ => print (success_ast (access_ast true [42]) m) end
  | HModel v q => print (success_ast (get_ast "model" v q) None)
  | HCollection v q => print (success_ast (get_ast "collection" v q) None)
  | HPanicError e => print (error_ast (Some e) m)
  | HPanicString msg => print (error_ast (Some (internal_error msg)) m)
  | HNoReply => response_missing_response
  end.

(* the AST of [published m h] (static payloads included): see Proofs, published_is_print *)
Definition published_ast (m : option rmeta) (h : handler_outcome) : json :=
  match h with
  | HOk None => success_ast JNull m
  | HOk (Some j) => success_ast j m
  | HResource rid =>
    if is_valid_rid rid then resource_ast rid m
    else error_ast (Some (internal_error (s2b "res: invalid resource ID: " ++ rid))) m
  | HNew rid =>
    if is_valid_rid rid then success_ast (JObj [(s2b "rid", JStr rid)]) None
    else error_ast (Some (internal_error (s2b "res: invalid reference RID: " ++ rid))) m
  | HError e => error_ast e m
  | HErrorOther msg => error_ast (Some (internal_error msg)) m
  | HNotFound => error_ast (Some err_not_found) m
  | HMethodNotFound => error_ast (Some err_method_not_found) m
  | HInvalidParams msg =>
    error_ast (Some (if is_nil msg then err_invalid_params else MkErr (s2b "system.invalidParams") msg None)) m
  | HInvalidQuery msg =>
    error_ast (Some (if is_nil msg then err_invalid_query else MkErr (s2b "system.invalidQuery") msg None)) m
  | HAccess get call =>
    if negb get && is_nil call then error_ast (Some err_access_denied) m
    else success_ast (access_ast get call) m
  | HAccessDenied => error_ast (Some err_access_denied) m
  | HAccessGranted => success_ast (access_ast true [42]) m
  | HModel v q => success_ast (get_ast "model" v q) None
  | HCollection v q => success_ast (get_ast "collection" v q) None
  | HPanicError e => error_ast (Some e) m
  | HPanicString msg => error_ast (Some (internal_error msg)) m
  | HNoReply => error_ast (Some (internal_error (s2b "missing response"))) None
  end.
