(* JSON as go-res sees it through encoding/json (the TRUSTED part of C18).

   * [json]: the AST.  Numbers keep their source text, strings hold the DECODED bytes,
     objects keep members in source order (duplicates allowed).
   * [json_escape] / [json_unescape]: byte-level model of the string encoder
     (encoding/json appendString with HTML escaping, Go 1.23: short escapes
     for quote, backslash, \b \f \n \r \t; \u00XX for other controls and for
     the three HTML characters; backslash-u 2028 / 2029 for the two line separators; every ill-formed
     UTF-8 byte -> backslash-u fffd) and of the decoder's [unquote].
   * [print]: the compact text json.Marshal emits for a value whose members are in AST order.
   * [view]: what json.Unmarshal into a struct with RawMessage fields observes
     of a text: syntax error, or object members with their raw value text and
     AST, or a non-object value.  [wf_view] is the (decidable) relation between
     a text and its view that the go-res byte surgery relies on; the harness
     checks it on every case against the real parser.
   No proofs here. *)
From GoRes Require Export Base.Bytes.
From Coq Require Import String.
Open Scope N_scope.

Inductive json :=
| JNull
| JBool (b : bool)
| JNum (text : bytes)
| JStr (s : bytes)
| JArr (items : list json)
| JObj (members : list (bytes * json)).

Fixpoint json_eqb (a b : json) : bool :=
  match a, b with
  | JNull, JNull => true
  | JBool x, JBool y => Bool.eqb x y
  | JNum x, JNum y => beq x y
  | JStr x, JStr y => beq x y
  | JArr x, JArr y =>
      (fix go (x y : list json) : bool :=
         match x, y with
         | [], [] => true
         | a' :: x', b' :: y' => json_eqb a' b' && go x' y'
         | _, _ => false
         end) x y
  | JObj x, JObj y =>
      (fix go (x y : list (bytes * json)) : bool :=
         match x, y with
         | [], [] => true
         | (k, a') :: x', (k', b') :: y' => beq k k' && json_eqb a' b' && go x' y'
         | _, _ => false
         end) x y
  | _, _ => false
  end.

Definition ojson_eqb (a b : option json) : bool :=
  match a, b with Some x, Some y => json_eqb x y | None, None => true | _, _ => false end.

Definition isSome {A} (o : option A) : bool := match o with Some _ => true | None => false end.
Definition is_obj (j : json) : bool := match j with JObj _ => true | _ => false end.
Definition is_arr (j : json) : bool := match j with JArr _ => true | _ => false end.

(* ---------- UTF-8 as utf8.DecodeRune sees it ---------- *)
Definition cont (c : N) : bool := (128 <=? c) && (c <=? 191).
Definition is2 (b c1 : N) : bool := (194 <=? b) && (b <=? 223) && cont c1.
Definition is3 (b c1 c2 : N) : bool :=
  cont c2 &&
  (((b =? 224) && (160 <=? c1) && (c1 <=? 191)) ||
   ((225 <=? b) && (b <=? 236) && cont c1) ||
   ((b =? 237) && (128 <=? c1) && (c1 <=? 159)) ||
   ((238 <=? b) && (b <=? 239) && cont c1)).
Definition is4 (b c1 c2 c3 : N) : bool :=
  cont c2 && cont c3 &&
  (((b =? 240) && (144 <=? c1) && (c1 <=? 191)) ||
   ((241 <=? b) && (b <=? 243) && cont c1) ||
   ((b =? 244) && (128 <=? c1) && (c1 <=? 143))).

(* length (2,3,4) of the well-formed multi-byte sequence at the head of s, if any *)
Definition utf8_size (s : bytes) : option nat :=
  match s with
  | b :: c1 :: r1 =>
    if is2 b c1 then Some 2%nat
    else match r1 with
         | c2 :: r2 =>
           if is3 b c1 c2 then Some 3%nat
           else match r2 with
                | c3 :: _ => if is4 b c1 c2 c3 then Some 4%nat else None
                | [] => None
                end
         | [] => None
         end
  | _ => None
  end.

(* one pass over a byte string the way Go's encoders walk it: ASCII bytes one
   by one, well-formed multi-byte sequences as a chunk, any other byte alone *)
Fixpoint utf8_fold {A : Type} (fa : N -> A -> A) (fm : bytes -> A -> A) (fbad : N -> A -> A) (z : A)
    (s : bytes) : A :=
  match s with
  | [] => z
  | b :: r =>
    if b <? 128 then fa b (utf8_fold fa fm fbad z r)
    else
      match r with
      | c1 :: r1 =>
        if is2 b c1 then fm [b; c1] (utf8_fold fa fm fbad z r1)
        else match r1 with
             | c2 :: r2 =>
               if is3 b c1 c2 then fm [b; c1; c2] (utf8_fold fa fm fbad z r2)
               else match r2 with
                    | c3 :: r3 =>
                      if is4 b c1 c2 c3 then fm [b; c1; c2; c3] (utf8_fold fa fm fbad z r3)
                      else fbad b (utf8_fold fa fm fbad z r)
                    | [] => fbad b (utf8_fold fa fm fbad z r)
                    end
             | [] => fbad b (utf8_fold fa fm fbad z r)
             end
      | [] => fbad b (utf8_fold fa fm fbad z r)
      end
  end.

Definition repl_char : bytes := [239; 191; 189].            (* U+FFFD *)
Definition utf8_valid (s : bytes) : bool :=
  utf8_fold (fun _ a => a) (fun _ a => a) (fun _ _ => false) true s.
(* what string(s) -> []rune -> string does: every ill-formed byte becomes U+FFFD *)
Definition utf8_sanitize (s : bytes) : bytes :=
  utf8_fold (fun b a => b :: a) (fun ch a => ch ++ a) (fun _ a => repl_char ++ a) [] s.

(* ---------- string encoder ---------- *)
Definition hexd (n : N) : N := if n <? 10 then 48 + n else 87 + n.
Definition esc_u00 (b : N) : bytes := [92; 117; 48; 48; hexd (b / 16); hexd (b mod 16)].
Definition esc_ascii (b : N) : bytes :=
  if b =? 34 then [92; 34]
  else if b =? 92 then [92; 92]
  else if b =? 8 then [92; 98]
  else if b =? 12 then [92; 102]
  else if b =? 10 then [92; 110]
  else if b =? 13 then [92; 114]
  else if b =? 9 then [92; 116]
  else if (b <? 32) || (b =? 60) || (b =? 62) || (b =? 38) then esc_u00 b
  else [b].
Definition esc_ufffd : bytes := [92; 117; 102; 102; 102; 100].
Definition is_linesep (ch : bytes) : option N :=
  match ch with
  | [b; c1; c2] => if (b =? 226) && (c1 =? 128) && ((c2 =? 168) || (c2 =? 169)) then Some c2 else None
  | _ => None
  end.
Definition esc_multi (ch : bytes) : bytes :=
  match is_linesep ch with
  | Some c2 => [92; 117; 50; 48; 50; (if c2 =? 168 then 56 else 57)]
  | None => ch
  end.
Definition json_escape (s : bytes) : bytes :=
  utf8_fold (fun b a => esc_ascii b ++ a) (fun ch a => esc_multi ch ++ a) (fun _ a => esc_ufffd ++ a) [] s.
Definition quote (s : bytes) : bytes := 34 :: json_escape s ++ [34].

(* ---------- string decoder (unquote, between the quotes) ---------- *)
Definition hexval (c : N) : option N :=
  if (48 <=? c) && (c <=? 57) then Some (c - 48)
  else if (97 <=? c) && (c <=? 102) then Some (c - 87)
  else if (65 <=? c) && (c <=? 70) then Some (c - 55)
  else None.
Definition hex4 (a b c d : N) : option N :=
  match hexval a, hexval b, hexval c, hexval d with
  | Some x, Some y, Some z, Some w => Some (x * 4096 + y * 256 + z * 16 + w)
  | _, _, _, _ => None
  end.
Definition utf8_encode (cp : N) : bytes :=
  if cp <? 128 then [cp]
  else if cp <? 2048 then [192 + cp / 64; 128 + cp mod 64]
  else if cp <? 65536 then [224 + cp / 4096; 128 + (cp / 64) mod 64; 128 + cp mod 64]
  else [240 + cp / 262144; 128 + (cp / 4096) mod 64; 128 + (cp / 64) mod 64; 128 + cp mod 64].
Definition is_surr (cp : N) : bool := (55296 <=? cp) && (cp <? 57344).
Definition is_hi (cp : N) : bool := (55296 <=? cp) && (cp <? 56320).
Definition is_lo (cp : N) : bool := (56320 <=? cp) && (cp <? 57344).
Definition simple_esc (e : N) : option N :=
  if e =? 34 then Some 34 else if e =? 92 then Some 92 else if e =? 47 then Some 47
  else if e =? 98 then Some 8 else if e =? 102 then Some 12 else if e =? 110 then Some 10
  else if e =? 114 then Some 13 else if e =? 116 then Some 9 else None.
Definition oapp (p : bytes) (o : option bytes) : option bytes :=
  match o with Some x => Some (p ++ x) | None => None end.
(* the low half of a surrogate pair at the head of s: \uDC00..\uDFFF *)
Definition low_surr (s : bytes) : option N :=
  match s with
  | b :: u :: g1 :: g2 :: g3 :: g4 :: _ =>
    if (b =? 92) && (u =? 117) then
      match hex4 g1 g2 g3 g4 with
      | Some lo => if is_lo lo then Some lo else None
      | None => None
      end
    else None
  | _ => None
  end.

Fixpoint json_unescape (s : bytes) : option bytes :=
  match s with
  | [] => Some []
  | b :: r =>
    if b =? 92 then
      match r with
      | [] => None
      | e :: r1 =>
        if e =? 117 then
          match r1 with
          | h1 :: h2 :: h3 :: h4 :: r5 =>
            match hex4 h1 h2 h3 h4 with
            | None => None
            | Some cp =>
              if is_surr cp then
                match r5 with
                | _ :: _ :: _ :: _ :: _ :: _ :: r11 =>
                  match (if is_hi cp then low_surr r5 else None) with
                  | Some lo => oapp (utf8_encode (65536 + (cp - 55296) * 1024 + (lo - 56320))) (json_unescape r11)
                  | None => oapp repl_char (json_unescape r5)
                  end
                | _ => oapp repl_char (json_unescape r5)
                end
              else oapp (utf8_encode cp) (json_unescape r5)
            end
          | _ => None
          end
        else match simple_esc e with
             | Some c => oapp [c] (json_unescape r1)
             | None => None
             end
      end
    else if (b =? 34) || (b <? 32) then None
    else if b <? 128 then oapp [b] (json_unescape r)
    else
      match r with
      | c1 :: r1 =>
        if is2 b c1 then oapp [b; c1] (json_unescape r1)
        else match r1 with
             | c2 :: r2 =>
               if is3 b c1 c2 then oapp [b; c1; c2] (json_unescape r2)
               else match r2 with
                    | c3 :: r3 =>
                      if is4 b c1 c2 c3 then oapp [b; c1; c2; c3] (json_unescape r3)
                      else oapp repl_char (json_unescape r)
                    | [] => oapp repl_char (json_unescape r)
                    end
             | [] => oapp repl_char (json_unescape r)
             end
      | [] => oapp repl_char (json_unescape r)
      end
  end.

(* the string token at the head of a text: (bytes between the quotes, rest after the closing quote) *)
Fixpoint scan_string_body (s : bytes) : option (bytes * bytes) :=
  match s with
  | [] => None
  | b :: r =>
    if b =? 34 then Some ([], r)
    else if b =? 92 then
      match r with
      | e :: r1 => match scan_string_body r1 with Some (t, rest) => Some (b :: e :: t, rest) | None => None end
      | [] => None
      end
    else match scan_string_body r with Some (t, rest) => Some (b :: t, rest) | None => None end
  end.
Definition scan_string (s : bytes) : option (bytes * bytes) :=
  match s with
  | q :: r => if q =? 34 then scan_string_body r else None
  | [] => None
  end.

(* ---------- compact printer (json.Marshal, members in AST order) ---------- *)
Fixpoint print (j : json) : bytes :=
  match j with
  | JNull => [110; 117; 108; 108]
  | JBool true => [116; 114; 117; 101]
  | JBool false => [102; 97; 108; 115; 101]
  | JNum t => t
  | JStr s => quote s
  | JArr l =>
    91 :: (fix go (l : list json) : bytes :=
             match l with
             | [] => []
             | x :: r => print x ++ match r with [] => [] | _ :: _ => 44 :: go r end
             end) l ++ [93]
  | JObj ms =>
    123 :: (fix go (ms : list (bytes * json)) : bytes :=
              match ms with
              | [] => []
              | (k, v) :: r => quote k ++ 58 :: print v ++ match r with [] => [] | _ :: _ => 44 :: go r end
              end) ms ++ [125]
  end.

(* a JSON number starts with '-' or a digit *)
Definition num_head_ok (t : bytes) : bool :=
  match t with c :: _ => (c =? 45) || ((48 <=? c) && (c <=? 57)) | [] => false end.
Definition top_num_ok (j : json) : bool := match j with JNum t => num_head_ok t | _ => true end.

(* ---------- what Unmarshal-into-a-struct observes ---------- *)
Inductive view :=
| VSyntax
| VObj (ms : list (bytes * bytes * json))   (* decoded key, raw text of the value, AST of the value *)
| VVal (j : json).                          (* a value that is not an object *)

Definition view_ast (v : view) : option json :=
  match v with
  | VSyntax => None
  | VObj ms => Some (JObj (map (fun m => (fst (fst m), snd m)) ms))
  | VVal j => Some j
  end.
(* the view of the compact text [print j] *)
Definition view_of (j : json) : view :=
  match j with
  | JObj ms => VObj (map (fun kv => (fst kv, print (snd kv), snd kv)) ms)
  | _ => VVal j
  end.

Definition is_ws (c : N) : bool := (c =? 32) || (c =? 9) || (c =? 10) || (c =? 13).
Fixpoint first_sig (s : bytes) : option N :=
  match s with
  | [] => None
  | c :: r => if is_ws c then first_sig r else Some c
  end.
Definition lbrace : N := 123.
Definition lbrack : N := 91.
(* raw is the text of a value with AST j without surrounding white space: its first byte tells the kind *)
Definition raw_ok (raw : bytes) (j : json) : bool :=
  match raw with
  | [] => false
  | c :: _ => negb (is_ws c) && Bool.eqb (c =? lbrace) (is_obj j) && Bool.eqb (c =? lbrack) (is_arr j)
  end.
Definition wf_view (data : bytes) (v : view) : bool :=
  match v with
  | VSyntax => true
  | VObj ms =>
    match first_sig data with Some c => c =? lbrace | None => false end &&
    forallb (fun m => raw_ok (snd (fst m)) (snd m)) ms
  | VVal j =>
    negb (is_obj j) &&
    match first_sig data with
    | Some c => negb (c =? lbrace) && Bool.eqb (c =? lbrack) (is_arr j)
    | None => false
    end
  end.

(* field-name matching of the struct decoder: exact or case-folded (ASCII, U+017F -> S, U+212A -> K) *)
Fixpoint fold_key (k : bytes) : bytes :=
  match k with
  | [] => []
  | b :: r =>
    if (97 <=? b) && (b <=? 122) then (b - 32) :: fold_key r
    else
      match r with
      | c1 :: r1 =>
        if (b =? 197) && (c1 =? 191) then 83 :: fold_key r1
        else match r1 with
             | c2 :: r2 =>
               if (b =? 226) && (c1 =? 132) && (c2 =? 170) then 75 :: fold_key r2 else b :: fold_key r
             | [] => b :: fold_key r
             end
      | [] => b :: fold_key r
      end
  end.
Definition key_is (name k : bytes) : bool := beq (fold_key k) (fold_key name).
