(* C18 proofs, part 0: the boolean equality on the JSON AST decides equality
   (so the comparisons of Run_C18 are exact). *)
From GoRes Require Import Codec.Spec Codec.Proofs.
Open Scope N_scope.

Section JsonInd.
  Context (P : json -> Prop).
  Context (Hnull : P JNull) (Hbool : forall b, P (JBool b)) (Hnum : forall t, P (JNum t)) (Hstr : forall s, P (JStr s)).
  Context (Harr : forall l, Forall P l -> P (JArr l)).
  Context (Hobj : forall ms, Forall (fun kv => P (snd kv)) ms -> P (JObj ms)).
  Fixpoint json_ind' (j : json) : P j :=
    match j with
    | JNull => Hnull
    | JBool b => Hbool b
    | JNum t => Hnum t
    | JStr s => Hstr s
    | JArr l =>
      Harr l ((fix go (l : list json) : Forall P l :=
                 match l with [] => Forall_nil P | x :: r => Forall_cons x (json_ind' x) (go r) end) l)
    | JObj ms =>
      Hobj ms ((fix go (ms : list (bytes * json)) : Forall (fun kv => P (snd kv)) ms :=
                  match ms with
                  | [] => Forall_nil _
                  | kv :: r => Forall_cons kv (json_ind' (snd kv)) (go r)
                  end) ms)
    end.
End JsonInd.

Lemma json_eqb_eq_pf : forall a b, json_eqb a b = true <-> a = b.
Proof.
  induction a as [|x|x|x|l IH|ms IH] using json_ind'; intro b; destruct b as [|y|y|y|l'|ms']; cbn [json_eqb];
    split; intro H; try reflexivity; try discriminate.
  - apply Bool.eqb_prop in H. subst. reflexivity.
  - injection H as ->. apply Bool.eqb_reflx.
  - apply beq_eq in H. subst. reflexivity.
  - injection H as ->. apply beq_refl.
  - apply beq_eq in H. subst. reflexivity.
  - injection H as ->. apply beq_refl.
  - f_equal. revert l' H. induction IH as [|x l Hx _ IHl]; intros [|y l'] H; try reflexivity; try discriminate.
    apply andb_true_iff in H. destruct H as [H1 H2]. apply Hx in H1. subst. f_equal. apply IHl. exact H2.
  - injection H as <-. induction IH as [|x l Hx _ IHl]; [reflexivity|].
    apply andb_true_iff. split; [apply Hx; reflexivity | exact IHl].
  - f_equal. revert ms' H. induction IH as [|[k x] ms Hx _ IHl]; intros [|[k' y] ms'] H; try reflexivity; try discriminate.
    rewrite !andb_true_iff in H. destruct H as [[H0 H1] H2]. apply beq_eq in H0. cbn [snd] in Hx. apply Hx in H1.
    subst. f_equal. apply IHl. exact H2.
  - injection H as <-. induction IH as [|[k x] ms Hx _ IHl]; [reflexivity|].
    rewrite !andb_true_iff. cbn [snd] in Hx. repeat split; [apply beq_refl | apply Hx; reflexivity | exact IHl].
Qed.
