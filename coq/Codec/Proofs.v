(* C18 proofs, part 1: byte-list basics and the make/copy offset arithmetic of
   Ref/SoftRef.MarshalJSON and MarshalDataValue, for EVERY byte list. *)
From GoRes Require Import Codec.Spec.
From Coq Require Import String Arith.
Open Scope N_scope.
Local Notation length := List.length.

Lemma beq_eq : forall a b, beq a b = true <-> a = b.
Proof.
  induction a as [|x a IH]; destruct b as [|y b]; simpl; split; intro H; try reflexivity; try discriminate.
  - apply andb_true_iff in H. destruct H as [H1 H2]. apply N.eqb_eq in H1. apply IH in H2. subst. reflexivity.
  - injection H as -> ->. rewrite N.eqb_refl. simpl. apply IH. reflexivity.
Qed.
Lemma beq_refl : forall a, beq a a = true.
Proof. intro a. apply beq_eq. reflexivity. Qed.
Lemma beq_neq : forall a b, beq a b = false <-> a <> b.
Proof.
  intros a b. split.
  - intros H E. apply beq_eq in E. congruence.
  - intro H. destruct (beq a b) eqn:E; [apply beq_eq in E; contradiction | reflexivity].
Qed.
Lemma beq_sym : forall a b, beq a b = beq b a.
Proof.
  intros a b. destruct (beq a b) eqn:E.
  - apply beq_eq in E. subst. symmetry. apply beq_refl.
  - symmetry. apply beq_neq. apply beq_neq in E. congruence.
Qed.

(* ---- copy / index ---- *)
Lemma overlay_exact : forall d1 d2 s, length d1 = length s -> overlay (d1 ++ d2) s = s ++ d2.
Proof.
  induction d1 as [|x d1 IH]; intros d2 s H; destruct s as [|y s]; simpl in *; try discriminate.
  - destruct d2; reflexivity.
  - f_equal. apply IH. congruence.
Qed.
Lemma copy_at_exact : forall pre mid post src,
  length mid = length src -> copy_at (pre ++ mid ++ post) (length pre) src = Ok (pre ++ src ++ post).
Proof.
  intros pre mid post src H. unfold copy_at.
  assert (L : Nat.leb (length pre) (length (pre ++ mid ++ post)) = true).
  { apply Nat.leb_le. rewrite app_length. lia. }
  rewrite L. f_equal.
  rewrite firstn_app, firstn_all, Nat.sub_diag, firstn_O, app_nil_r.
  rewrite skipn_app, skipn_all, Nat.sub_diag. simpl.
  rewrite overlay_exact by assumption. reflexivity.
Qed.
Lemma set_at_exact : forall pre x post c, set_at (pre ++ x :: post) (length pre) c = Ok (pre ++ c :: post).
Proof.
  intros pre x post c. unfold set_at.
  assert (L : Nat.ltb (length pre) (length (pre ++ x :: post)) = true).
  { apply Nat.ltb_lt. rewrite app_length. simpl. lia. }
  rewrite L. f_equal.
  rewrite firstn_app, firstn_all, Nat.sub_diag, firstn_O, app_nil_r.
  replace (S (length pre)) with (length (pre ++ [x])) by (rewrite app_length; simpl; lia).
  replace (pre ++ x :: post) with ((pre ++ [x]) ++ post) by (rewrite <- app_assoc; reflexivity).
  rewrite skipn_app, skipn_all, Nat.sub_diag. reflexivity.
Qed.
Lemma idx_sub_ok : forall a k, (k <= a)%nat -> idx_sub a k = Ok (a - k)%nat.
Proof. intros a k H. unfold idx_sub. apply Nat.leb_le in H. rewrite H. reflexivity. Qed.

Lemma repeat_snoc : forall (x : N) n, repeat x (n + 1) = repeat x n ++ [x].
Proof. intros x n. rewrite repeat_app. reflexivity. Qed.

(* Ref.MarshalJSON: {"rid": ++ q ++ } for every q *)
Lemma ref_layout_pf : forall q, ref_marshal_q q = Ok (s2b "{""rid"":" ++ q ++ [125]).
Proof.
  intro q. unfold ref_marshal_q, make_bytes.
  replace (length q + 8)%nat with (7 + (length q + 1))%nat by lia.
  rewrite repeat_app, repeat_snoc.
  change (copy_at (repeat 0 7 ++ repeat 0 (length q) ++ [0]) 0 ref_prefix)
    with (copy_at ([] ++ repeat 0 7 ++ (repeat 0 (length q) ++ [0])) (length (@nil N)) ref_prefix).
  rewrite copy_at_exact by reflexivity. cbn [obind app].
  change 7%nat with (length ref_prefix).
  rewrite copy_at_exact by apply repeat_length. cbn [obind].
  rewrite idx_sub_ok by (rewrite !app_length; simpl; lia). cbn [obind].
  replace (length (ref_prefix ++ q ++ [0%N]) - 1)%nat with (length (ref_prefix ++ q))
    by (rewrite !app_length; simpl; lia).
  replace (ref_prefix ++ q ++ [0]) with ((ref_prefix ++ q) ++ [0]) by (rewrite <- app_assoc; reflexivity).
  rewrite set_at_exact. rewrite <- app_assoc. reflexivity.
Qed.

(* SoftRef.MarshalJSON: {"rid": ++ q ++ ,"soft":true} for every q *)
Lemma softref_layout_pf : forall q, softref_marshal_q q = Ok (s2b "{""rid"":" ++ q ++ s2b ",""soft"":true}").
Proof.
  intro q. unfold softref_marshal_q, make_bytes.
  replace (length q + 20)%nat with (7 + (length q + 13))%nat by lia.
  rewrite !repeat_app.
  change (copy_at (repeat 0 7 ++ repeat 0 (length q) ++ repeat 0 13) 0 ref_prefix)
    with (copy_at ([] ++ repeat 0 7 ++ (repeat 0 (length q) ++ repeat 0 13)) (length (@nil N)) ref_prefix).
  rewrite copy_at_exact by reflexivity. cbn [obind app].
  change (copy_at (ref_prefix ++ repeat 0 (length q) ++ repeat 0 13) 7 q)
    with (copy_at (ref_prefix ++ repeat 0 (length q) ++ repeat 0 13) (length ref_prefix) q).
  rewrite copy_at_exact by apply repeat_length. cbn [obind].
  rewrite idx_sub_ok by (rewrite !app_length, repeat_length; lia). cbn [obind].
  replace (length (ref_prefix ++ q ++ repeat 0%N 13) - 13)%nat with (length (ref_prefix ++ q))
    by (rewrite !app_length, repeat_length; lia).
  replace (ref_prefix ++ q ++ repeat 0 13) with ((ref_prefix ++ q) ++ repeat 0 13 ++ []) by (rewrite app_nil_r, <- app_assoc; reflexivity).
  rewrite copy_at_exact by reflexivity. rewrite app_nil_r, <- app_assoc. reflexivity.
Qed.

(* MarshalDataValue: data itself, or {"data": ++ data ++ } when it starts with [ or { *)
Lemma wrap_layout_b : forall data c r, data = c :: r ->
  marshal_data_value_b data =
  Ok (if (c =? lbrack) || (c =? lbrace) then s2b "{""data"":" ++ data ++ [125] else data).
Proof.
  intros data c r E. unfold marshal_data_value_b. rewrite E at 1.
  destruct ((c =? lbrack) || (c =? lbrace)); [|reflexivity].
  unfold make_bytes.
  replace (length data + 9)%nat with (8 + (length data + 1))%nat by lia.
  rewrite repeat_app, repeat_snoc.
  change (copy_at (repeat 0 8 ++ repeat 0 (length data) ++ [0]) 0 data_prefix)
    with (copy_at ([] ++ repeat 0 8 ++ (repeat 0 (length data) ++ [0])) (length (@nil N)) data_prefix).
  rewrite copy_at_exact by reflexivity. cbn [obind app].
  change (copy_at (data_prefix ++ repeat 0 (length data) ++ [0]) 8 data)
    with (copy_at (data_prefix ++ repeat 0 (length data) ++ [0]) (length data_prefix) data).
  rewrite copy_at_exact by apply repeat_length. cbn [obind].
  rewrite idx_sub_ok by (rewrite !app_length; simpl; lia). cbn [obind].
  replace (length (data_prefix ++ data ++ [0%N]) - 1)%nat with (length (data_prefix ++ data))
    by (rewrite !app_length; simpl; lia).
  replace (data_prefix ++ data ++ [0]) with ((data_prefix ++ data) ++ [0]) by (rewrite <- app_assoc; reflexivity).
  rewrite set_at_exact. rewrite <- app_assoc. reflexivity.
Qed.
