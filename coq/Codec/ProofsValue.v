(* C18 proofs, part 3: data values, the store value classifier against the
   protocol table, and Value.Equal. *)
From GoRes Require Import Codec.Spec Codec.Proofs.
From Coq Require Import String Arith.
Open Scope N_scope.
Local Notation length := List.length.

(* ---- the first byte of a printed value tells its kind ---- *)
Lemma print_head : forall j, top_num_ok j = true ->
  exists c r, print j = c :: r /\ (c =? lbrace) = is_obj j /\ (c =? lbrack) = is_arr j /\ is_ws c = false.
Proof.
  intros j H. destruct j as [|b|t|s|l|ms].
  - eexists _, _. split; [reflexivity|]. repeat split.
  - destruct b; eexists _, _; (split; [reflexivity|]); repeat split.
  - simpl in H. destruct t as [|c r]; [discriminate|]. exists c, r. split; [reflexivity|].
    cbn [num_head_ok] in H. unfold lbrace, lbrack, is_ws. cbn [is_obj is_arr].
    rewrite orb_true_iff, andb_true_iff, N.eqb_eq, !N.leb_le in H.
    assert (c = 45 \/ (48 <= c /\ c <= 57)) as Hc by tauto.
    repeat split; repeat (apply orb_false_iff; split); apply N.eqb_neq; lia.
  - eexists _, _. split; [reflexivity|]. repeat split.
  - eexists _, _. split; [reflexivity|]. repeat split.
  - eexists _, _. split; [reflexivity|]. repeat split.
Qed.

Lemma print_data_obj : forall j, print (JObj [(s2b "data", j)]) = data_prefix ++ print j ++ [125].
Proof. intro j. cbn [print]. change (quote (s2b "data")) with (s2b """data"""). rewrite app_nil_r. reflexivity. Qed.

Definition wrap_ast (j : json) : json := if is_obj j || is_arr j then JObj [(s2b "data", j)] else j.

(* MarshalDataValue wraps exactly objects and arrays, and UnmarshalDataValue undoes it *)
Lemma data_value_inverse_pf : forall j, top_num_ok j = true ->
  exists t,
    marshal_data_value j = Ok t /\
    t = (if is_obj j || is_arr j then s2b "{""data"":" ++ print j ++ [125] else print j) /\
    t = print (wrap_ast j) /\
    unmarshal_data_value t (view_of (wrap_ast j)) = Ok j.
Proof.
  intros j H. destruct (print_head j H) as (c & r & Ep & Eo & Ea & Ew).
  unfold marshal_data_value. rewrite (wrap_layout_b (print j) c r Ep).
  eexists. split; [reflexivity|].
  rewrite Ea, Eo, (orb_comm (is_arr j)). unfold wrap_ast.
  destruct (is_obj j || is_arr j) eqn:Ek.
  - split; [reflexivity|]. split; [symmetry; apply print_data_obj|].
    unfold unmarshal_data_value. reflexivity.
  - split; [reflexivity|]. split; [reflexivity|].
    apply orb_false_iff in Ek. destruct Ek as [Ek1 Ek2].
    unfold unmarshal_data_value. rewrite Ep. cbn [first_sig]. rewrite Ew, Ea, Eo, Ek1, Ek2.
    destruct j; try discriminate; reflexivity.
Qed.

(* ---- key matching ---- *)
Lemma key_excl : forall n1 n2 k, fold_key n1 <> fold_key n2 -> key_is n1 k = true -> key_is n2 k = false.
Proof.
  intros n1 n2 k Hne H. unfold key_is in *. apply beq_eq in H. apply beq_neq. congruence.
Qed.
Ltac key_false :=
  match goal with
  | H : key_is ?n1 ?k = true |- key_is ?n2 ?k = false =>
    apply (key_excl n1 n2 k); [vm_compute; discriminate | exact H]
  end.

(* ---- look-ups on a member list extended at the end ---- *)
Section Lookups.
Notation member := (bytes * bytes * json)%type.
Lemma last_member_snoc : forall name ms (m : member),
  last_member name (ms ++ [m]) =
  if key_is name (fst (fst m)) then Some (snd (fst m), snd m) else last_member name ms.
Proof.
  intros name ms m. unfold last_member. rewrite rev_app_distr. cbn [rev app find].
  destruct (key_is name (fst (fst m))); reflexivity.
Qed.
Lemma spec_string_field_snoc : forall name ms (m : member),
  spec_string_field name (ms ++ [m]) =
  if key_is name (fst (fst m)) then match snd m with JStr s => Some s | _ => None end
  else spec_string_field name ms.
Proof.
  intros. unfold spec_string_field. rewrite last_member_snoc.
  destruct (key_is name (fst (fst m))); reflexivity.
Qed.
Lemma spec_soft_snoc : forall ms (m : member),
  spec_soft (ms ++ [m]) =
  if key_is n_soft (fst (fst m)) && negb (json_eqb (snd m) JNull) then json_eqb (snd m) (JBool true)
  else spec_soft ms.
Proof.
  intros. unfold spec_soft. rewrite rev_app_distr. cbn [rev app find].
  destruct (key_is n_soft (fst (fst m)) && negb (json_eqb (snd m) JNull)); reflexivity.
Qed.
Lemma spec_types_ok_snoc : forall ms (m : member),
  spec_types_ok (ms ++ [m]) = spec_types_ok ms && spec_types_ok [m].
Proof. intros. unfold spec_types_ok. apply forallb_app. Qed.
Lemma last_member_in : forall name ms raw j,
  last_member name ms = Some (raw, j) -> exists k, In (k, raw, j) ms.
Proof.
  intros name ms raw j H. unfold last_member in H.
  destruct (find _ (rev ms)) as [[[k r] a]|] eqn:E; [|discriminate].
  apply find_some in E. destruct E as [E _]. apply in_rev in E. injection H as <- <-. exists k. exact E.
Qed.
End Lookups.

(* the sequential decode of the valueObject against the look-ups *)
Definition vobj_inv (ms : list (bytes * bytes * json)) (st : vobj) : Prop :=
  o_bad st = negb (spec_types_ok ms) /\
  (spec_types_ok ms = true ->
   o_rid st = spec_string_field n_rid ms /\
   o_action st = spec_string_field n_action ms /\
   o_data st = option_map fst (last_member n_data ms) /\
   o_soft st = spec_soft ms).

Lemma vobj_fold_inv : forall ms, vobj_inv ms (fold_left vobj_step ms vobj0).
Proof.
  intro ms. induction ms as [|m ms IH] using rev_ind.
  - split; [reflexivity|]. intros _. repeat split.
  - rewrite fold_left_app. cbn [fold_left].
    set (st := fold_left vobj_step ms vobj0) in *.
    destruct IH as [Hbad Hok]. destruct m as [[k raw] j].
    unfold vobj_inv. rewrite spec_types_ok_snoc.
    rewrite !spec_string_field_snoc, last_member_snoc, spec_soft_snoc.
    unfold vobj_step. cbn [fst snd spec_types_ok forallb].
    change (s2b "rid") with n_rid. change (s2b "soft") with n_soft.
    change (s2b "action") with n_action. change (s2b "data") with n_data.
    destruct (key_is n_rid k) eqn:Krid.
    { assert (key_is n_soft k = false) as -> by key_false.
      assert (key_is n_action k = false) as -> by key_false.
      assert (key_is n_data k = false) as -> by key_false.
      cbn [orb andb]. rewrite andb_true_r.
      destruct j; cbn [o_bad o_rid o_soft o_action o_data];
        (split; [rewrite ?Hbad, ?andb_true_r, ?andb_false_r; try reflexivity
                | intro T; try (rewrite andb_false_r in T; discriminate);
                  rewrite andb_true_r in T; destruct (Hok T) as (H1 & H2 & H3 & H4);
                  repeat split; assumption]). }
    destruct (key_is n_soft k) eqn:Ksoft.
    { assert (key_is n_action k = false) as -> by key_false.
      assert (key_is n_data k = false) as -> by key_false.
      cbn [orb andb]. rewrite andb_true_r.
      destruct j as [|b| | | |]; cbn [o_bad o_rid o_soft o_action o_data json_eqb negb];
        (split; [rewrite ?Hbad, ?andb_true_r, ?andb_false_r; try reflexivity
                | intro T; try (rewrite andb_false_r in T; discriminate);
                  rewrite andb_true_r in T; destruct (Hok T) as (H1 & H2 & H3 & H4);
                  repeat split; try assumption]).
      destruct b; reflexivity. }
    destruct (key_is n_action k) eqn:Kact.
    { assert (key_is n_data k = false) as -> by key_false.
      cbn [orb andb]. rewrite andb_true_r.
      destruct j; cbn [o_bad o_rid o_soft o_action o_data];
        (split; [rewrite ?Hbad, ?andb_true_r, ?andb_false_r; try reflexivity
                | intro T; try (rewrite andb_false_r in T; discriminate);
                  rewrite andb_true_r in T; destruct (Hok T) as (H1 & H2 & H3 & H4);
                  repeat split; assumption]). }
    cbn [orb andb]. rewrite !andb_true_r.
    destruct (key_is n_data k) eqn:Kdata.
    { cbn [o_bad o_rid o_soft o_action o_data].
      split; [exact Hbad|]. intro T. destruct (Hok T) as (H1 & H2 & H3 & H4). repeat split; assumption. }
    split; [exact Hbad|]. exact Hok.
Qed.

Lemma raw_ok_head : forall raw j, raw_ok raw j = true ->
  exists dc r, raw = dc :: r /\ (dc =? lbrace) = is_obj j /\ (dc =? lbrack) = is_arr j.
Proof.
  intros raw j H. destruct raw as [|dc r]; [discriminate|]. exists dc, r. split; [reflexivity|].
  cbn [raw_ok] in H. rewrite !andb_true_iff in H. destruct H as [[_ H1] H2].
  apply Bool.eqb_prop in H1. apply Bool.eqb_prop in H2. split; assumption.
Qed.

(* the classifier is the protocol table, for every text and view related by wf_view *)
Lemma classify_spec_pf : forall data v, v <> VSyntax -> wf_view data v = true ->
  value_unmarshal data v = classify_table data v.
Proof.
  intros data v Hs Hwf. destruct v as [|ms|j]; [contradiction| |].
  - cbn [wf_view] in Hwf. apply andb_true_iff in Hwf. destruct Hwf as [Hc Hraw].
    unfold value_unmarshal. destruct (first_sig data) as [c|]; [|discriminate]. rewrite Hc.
    pose proof (vobj_fold_inv ms) as [Hbad Hok].
    set (st := fold_left vobj_step ms vobj0) in *.
    unfold value_of_vobj, classify_table. rewrite Hbad.
    destruct (spec_types_ok ms) eqn:T; [|reflexivity]. cbn [negb].
    destruct (Hok eq_refl) as (H1 & H2 & H3 & H4). rewrite H1, H2, H3, H4.
    destruct (spec_string_field n_rid ms) as [rid|].
    { destruct (spec_string_field n_action ms); [reflexivity|].
      destruct (last_member n_data ms) as [[d dj]|]; [reflexivity|]. cbn [option_map isSome orb].
      destruct (is_nil rid); [reflexivity|]. cbn [orb].
      destruct (is_valid_rid rid); reflexivity. }
    destruct (spec_string_field n_action ms) as [a|].
    { destruct (last_member n_data ms) as [[d dj]|]; reflexivity. }
    destruct (last_member n_data ms) as [[d dj]|] eqn:Ed; [|reflexivity]. cbn [option_map].
    destruct (last_member_in _ _ _ _ Ed) as [k Hin].
    rewrite forallb_forall in Hraw. specialize (Hraw _ Hin). cbn [fst snd] in Hraw.
    destruct (raw_ok_head _ _ Hraw) as (dc & r & -> & Eo & Ea). cbn [fst]. rewrite Eo, Ea.
    destruct (is_obj dj || is_arr dj); reflexivity.
  - cbn [wf_view] in Hwf. apply andb_true_iff in Hwf. destruct Hwf as [Hno Hc].
    unfold value_unmarshal, classify_table. destruct (first_sig data) as [c|]; [|discriminate].
    rewrite !andb_true_iff in Hc. destruct Hc as [Hb Ha]. apply negb_true_iff in Hb.
    apply Bool.eqb_prop in Ha. rewrite Hb, Ha. destruct (is_arr j); reflexivity.
Qed.

(* what the table says, spelled out for the shapes the protocol names *)
Lemma classify_shapes_pf :
  (forall data j, wf_view data (VVal j) = true -> is_arr j = false ->
     value_unmarshal data (VVal j) = Ok (MkValue data TPrim [] [])) /\
  (forall data j, wf_view data (VVal j) = true -> is_arr j = true -> value_unmarshal data (VVal j) = Err) /\
  (forall data ms, wf_view data (VObj ms) = true ->
     spec_types_ok ms = true ->
     spec_string_field n_rid ms = None -> spec_string_field n_action ms = None -> last_member n_data ms = None ->
     value_unmarshal data (VObj ms) = Err).
Proof.
  repeat split.
  - intros data j H Ha. rewrite classify_spec_pf by (discriminate || assumption). cbn. rewrite Ha. reflexivity.
  - intros data j H Ha. rewrite classify_spec_pf by (discriminate || assumption). cbn. rewrite Ha. reflexivity.
  - intros data ms H T H1 H2 H3. rewrite classify_spec_pf by (discriminate || assumption).
    cbn [classify_table]. rewrite T, H1, H2, H3. reflexivity.
Qed.

(* ---- Equal ---- *)
Lemma vtype_eqb_eq : forall a b, vtype_eqb a b = true <-> a = b.
Proof. intros a b. destruct a, b; simpl; split; intro H; try reflexivity; discriminate. Qed.

Lemma equal_refl_pf : forall a, value_equal a a = true.
Proof.
  intro a. unfold value_equal. rewrite (proj2 (vtype_eqb_eq _ _) eq_refl). cbn [negb].
  destruct (v_type a); try reflexivity; apply beq_refl.
Qed.
Lemma equal_sym_pf : forall a b, value_equal a b = value_equal b a.
Proof.
  intros a b. unfold value_equal.
  destruct (vtype_eqb (v_type a) (v_type b)) eqn:E.
  - apply vtype_eqb_eq in E. rewrite <- E. rewrite (proj2 (vtype_eqb_eq _ _) eq_refl). cbn [negb].
    destruct (v_type a); try reflexivity; apply beq_sym.
  - destruct (vtype_eqb (v_type b) (v_type a)) eqn:E'; [|reflexivity].
    apply vtype_eqb_eq in E'. rewrite E' in E. rewrite (proj2 (vtype_eqb_eq _ _) eq_refl) in E. discriminate.
Qed.
Lemma equal_inv : forall a b, value_equal a b = true ->
  v_type a = v_type b /\
  match v_type a with
  | TData => v_inner a = v_inner b
  | TPrim => v_raw a = v_raw b
  | TRef | TSoft => v_rid a = v_rid b
  | _ => True
  end.
Proof.
  intros a b H. unfold value_equal in H.
  destruct (vtype_eqb (v_type a) (v_type b)) eqn:E; [|discriminate]. cbn [negb] in H.
  apply vtype_eqb_eq in E. split; [exact E|].
  destruct (v_type a); try exact I; apply beq_eq; exact H.
Qed.
Lemma equal_trans_pf : forall a b c, value_equal a b = true -> value_equal b c = true -> value_equal a c = true.
Proof.
  intros a b c H1 H2. apply equal_inv in H1. apply equal_inv in H2.
  destruct H1 as [T1 P1], H2 as [T2 P2]. rewrite <- T1 in P2.
  unfold value_equal. rewrite <- T2, <- T1. rewrite (proj2 (vtype_eqb_eq _ _) eq_refl). cbn [negb].
  destruct (v_type a); try reflexivity; apply beq_eq; congruence.
Qed.
Lemma equal_implies_json_equal_pf : forall a b, value_equal a b = true -> canon_text a = canon_text b.
Proof.
  intros a b H. apply equal_inv in H. destruct H as [T P]. unfold canon_text. rewrite <- T.
  destruct (v_type a); try reflexivity; congruence.
Qed.

(* ---- wf_view is met by every compact text with white space around it ---- *)
Lemma first_sig_ws : forall lead x, forallb is_ws lead = true -> first_sig (lead ++ x) = first_sig x.
Proof.
  induction lead as [|c lead IH]; intros x H; [reflexivity|].
  cbn [forallb] in H. apply andb_true_iff in H. destruct H as [Hc Hl].
  cbn [app first_sig]. rewrite Hc. apply IH. exact Hl.
Qed.
Lemma raw_ok_print : forall j, top_num_ok j = true -> raw_ok (print j) j = true.
Proof.
  intros j H. destruct (print_head j H) as (c & r & -> & Eo & Ea & Ew).
  cbn [raw_ok]. rewrite Ew, Eo, Ea. cbn [negb andb]. rewrite !Bool.eqb_reflx. reflexivity.
Qed.
Lemma wf_view_print_pf : forall j lead trail,
  top_num_ok j = true -> members_num_ok j = true -> forallb is_ws lead = true ->
  wf_view (lead ++ print j ++ trail) (view_of j) = true.
Proof.
  intros j lead trail H Hm Hl.
  destruct (print_head j H) as (c & r & Ep & Eo & Ea & Ew).
  assert (Fs : first_sig (lead ++ print j ++ trail) = Some c).
  { rewrite first_sig_ws by assumption. rewrite Ep. cbn [app first_sig]. rewrite Ew. reflexivity. }
  destruct j as [|b|t|s|l|ms]; cbn [view_of wf_view is_obj negb andb]; rewrite Fs;
    try (cbn [is_obj is_arr] in *; rewrite Eo, Ea; reflexivity).
  cbn [is_obj] in Eo. rewrite Eo. cbn [andb].
  apply forallb_forall. intros x Hin. apply in_map_iff in Hin. destruct Hin as [[k v] [<- Hin]].
  cbn [fst snd]. apply raw_ok_print. cbn [members_num_ok] in Hm. rewrite forallb_forall in Hm.
  apply (Hm _ Hin).
Qed.
Lemma classify_printed_pf : forall j lead trail,
  top_num_ok j = true -> members_num_ok j = true -> forallb is_ws lead = true ->
  value_unmarshal (lead ++ print j ++ trail) (view_of j) = classify_table (lead ++ print j ++ trail) (view_of j).
Proof.
  intros j lead trail H Hm Hl. apply classify_spec_pf; [destruct j; discriminate | apply wf_view_print_pf; assumption].
Qed.
