(* C18 proofs, part 4: every payload a service publishes for a handler outcome
   parses, on the client side, as exactly one of result / resource / error, of
   the class the outcome calls for, and decodes to the supplied data. *)
From GoRes Require Import Codec.Spec Codec.Proofs Codec.ProofsValue.
From Coq Require Import String Arith.
Open Scope N_scope.
Local Notation length := List.length.

Lemma response_partition_pf : forall r : response, exactly_one (has_flags r) = true.
Proof.
  intro r. unfold has_flags, has_result, has_resource, has_error, exactly_one.
  destruct (isSome (r_error r)), (is_nil (r_resource r)); reflexivity.
Qed.

Ltac keys :=
  repeat match goal with
  | |- context [key_is (s2b ?a) (s2b ?b)] =>
    let v := eval vm_compute in (key_is (s2b a) (s2b b)) in change (key_is (s2b a) (s2b b)) with v
  end.

Definition mview (kv : bytes * json) : bytes * bytes * json := (fst kv, print (snd kv), snd kv).

Lemma parse_obj : forall ms,
  parse_response (print (JObj ms)) (view_of (JObj ms)) =
  let st := fold_left resp_step (map mview ms) presp0 in
  if p_bad st then MkResponse (p_result st) (p_resource st) (Some PEUnmarshal)
  else match p_error st with
       | Some e => MkResponse (p_result st) (p_resource st) (Some (PEDecoded e))
       | None =>
         if is_nil (p_resource st) && negb (isSome (p_result st)) then invalid_response
         else MkResponse (p_result st) (p_resource st) None
       end.
Proof. intro ms. reflexivity. Qed.

Lemma meta_ignored : forall m st, fold_left resp_step (map mview (meta_members m)) st = st.
Proof.
  intros m st. destruct m as [m|]; [|reflexivity].
  cbn [meta_members map fold_left mview fst snd]. unfold resp_step. cbn [fst snd]. keys. reflexivity.
Qed.

Lemma success_state : forall j m,
  fold_left resp_step (map mview ((s2b "result", j) :: meta_members m)) presp0 = MkResp (Some (print j, j)) [] None false.
Proof.
  intros j m. cbn [map fold_left]. rewrite meta_ignored. unfold resp_step, mview. cbn [fst snd]. keys. reflexivity.
Qed.
Lemma parse_success : forall j m,
  parse_response (print (success_ast j m)) (view_of (success_ast j m)) = MkResponse (Some (print j, j)) [] None.
Proof.
  intros j m. unfold success_ast. rewrite parse_obj. cbv zeta. rewrite success_state. reflexivity.
Qed.

Lemma ref_unmarshal_rid : forall rid, ref_unmarshal_ast (JObj [(s2b "rid", JStr rid)]) = Some rid.
Proof. intro rid. unfold ref_unmarshal_ast. cbn [fold_left]. unfold ref_step. cbn [fst snd]. keys. reflexivity. Qed.

Lemma resource_state : forall rid m,
  fold_left resp_step (map mview ((s2b "resource", JObj [(s2b "rid", JStr rid)]) :: meta_members m)) presp0 =
  MkResp None rid None false.
Proof.
  intros rid m. cbn [map fold_left]. rewrite meta_ignored. unfold resp_step, mview. cbn [fst snd]. keys. cbn iota.
  rewrite ref_unmarshal_rid. reflexivity.
Qed.
Lemma parse_resource : forall rid m, is_nil rid = false ->
  parse_response (print (resource_ast rid m)) (view_of (resource_ast rid m)) = MkResponse None rid None.
Proof.
  intros rid m H. unfold resource_ast. rewrite parse_obj. cbv zeta. rewrite resource_state.
  cbn [p_bad p_error p_resource p_result]. rewrite H. reflexivity.
Qed.

Lemma err_fold : forall e, fold_left err_step match err_ast e with JObj ms => ms | _ => [] end (err0, false) = (norm_err e, false).
Proof.
  intros [c msg d]. unfold err_ast. cbn [e_code e_msg e_data app].
  destruct d as [d|]; cbn [fold_left]; unfold err_step; cbn [fst snd]; keys; cbn iota; cbn [fst snd e_code e_msg e_data];
    [destruct d|]; reflexivity.
Qed.

Definition err_or_internal (e : option rerror) : rerror := match e with Some e => e | None => err_internal end.
Lemma error_state : forall e m,
  fold_left resp_step (map mview ((s2b "error", err_ast e) :: meta_members m)) presp0 =
  MkResp None [] (Some (norm_err e)) false.
Proof.
  intros e m. cbn [map fold_left]. rewrite meta_ignored. unfold resp_step, mview. cbn [fst snd]. keys. cbn iota.
  pose proof (err_fold e) as F. unfold err_ast in *. cbn [p_error presp0]. rewrite F. reflexivity.
Qed.
Lemma parse_error : forall e m,
  parse_response (print (error_ast e m)) (view_of (error_ast e m)) =
  MkResponse None [] (Some (PEDecoded (norm_err (err_or_internal e)))).
Proof.
  intros e m. unfold error_ast. fold (err_or_internal e). rewrite parse_obj. cbv zeta. rewrite error_state. reflexivity.
Qed.

(* the static payloads are the compact texts of their ASTs *)
Lemma published_is_print_pf : forall m h, published m h = print (published_ast m h).
Proof.
  intros m h. unfold published, published_ast.
  destruct h as [[j|]|rid|rid|e|msg| | |msg|msg|get call| | |v q|v q|e|msg|]; try reflexivity;
    try (destruct m; reflexivity);
    try (destruct (is_valid_rid rid); reflexivity);
    try (destruct (is_nil msg); destruct m; reflexivity).
  destruct (negb get && is_nil call); destruct m; reflexivity.
Qed.

Lemma valid_rid_not_nil : forall rid, is_valid_rid rid = true -> is_nil rid = false.
Proof. intros rid H. destruct rid; [discriminate | reflexivity]. Qed.

Inductive shape := ShResult (j : json) | ShResource (rid : bytes) | ShError (e : rerror).
Definition shape_of (h : handler_outcome) : shape :=
  match h with
  | HOk None => ShResult JNull
  | HOk (Some j) => ShResult j
  | HResource rid =>
    if is_valid_rid rid then ShResource rid else ShError (internal_error (s2b "res: invalid resource ID: " ++ rid))
  | HNew rid =>
    if is_valid_rid rid then ShResult (JObj [(s2b "rid", JStr rid)])
    else ShError (internal_error (s2b "res: invalid reference RID: " ++ rid))
  | HError e => ShError (err_or_internal e)
  | HErrorOther msg => ShError (internal_error msg)
  | HNotFound => ShError err_not_found
  | HMethodNotFound => ShError err_method_not_found
  | HInvalidParams msg => ShError (if is_nil msg then err_invalid_params else MkErr (s2b "system.invalidParams") msg None)
  | HInvalidQuery msg => ShError (if is_nil msg then err_invalid_query else MkErr (s2b "system.invalidQuery") msg None)
  | HAccess get call => if negb get && is_nil call then ShError err_access_denied else ShResult (access_ast get call)
  | HAccessDenied => ShError err_access_denied
  | HAccessGranted => ShResult (access_ast true [42])
  | HModel v q => ShResult (get_ast "model" v q)
  | HCollection v q => ShResult (get_ast "collection" v q)
  | HPanicError e => ShError e
  | HPanicString msg => ShError (internal_error msg)
  | HNoReply => ShError (internal_error (s2b "missing response"))
  end.
Definition shape_response (s : shape) : response :=
  match s with
  | ShResult j => MkResponse (Some (print j, j)) [] None
  | ShResource rid => MkResponse None rid None
  | ShError e => MkResponse None [] (Some (PEDecoded (norm_err e)))
  end.

Lemma client_parse_shape : forall m h, client_parse m h = shape_response (shape_of h).
Proof.
  intros m h. unfold client_parse. rewrite published_is_print_pf. unfold published_ast, shape_of.
  destruct h as [[j|]|rid|rid|e|msg| | |msg|msg|get call| | |v q|v q|e|msg|];
    try apply parse_success; try apply (parse_error (Some _)); try apply parse_error.
  - destruct (is_valid_rid rid) eqn:V; [apply parse_resource, valid_rid_not_nil, V | apply (parse_error (Some _))].
  - destruct (is_valid_rid rid); [apply parse_success | apply (parse_error (Some _))].
  - destruct (negb get && is_nil call); [apply (parse_error (Some _)) | apply parse_success].
Qed.

Lemma class_supplied_pf : forall m h, class_of (has_flags (client_parse m h)) = Some (expected_class h).
Proof.
  intros m h. rewrite client_parse_shape. unfold shape_of, expected_class.
  destruct h as [[j|]|rid|rid|e|msg| | |msg|msg|get call| | |v q|v q|e|msg|]; try reflexivity.
  - destruct (is_valid_rid rid) eqn:V; [|reflexivity].
    cbn. unfold has_flags, has_result, has_resource, has_error. cbn. rewrite (valid_rid_not_nil _ V). reflexivity.
  - destruct (is_valid_rid rid); reflexivity.
  - destruct (negb get && is_nil call); reflexivity.
Qed.

Lemma print_obj_not_nil : forall ms, is_nil (print (JObj ms)) = false.
Proof. intro ms. reflexivity. Qed.

Lemma decode_result_pf : forall m res,
  match res with Some j => top_num_ok j = true | None => True end ->
  parse_result (client_parse m (HOk res)) = Ok (supplied_result res).
Proof.
  intros m res H. rewrite client_parse_shape. destruct res as [j|]; [|reflexivity].
  cbn [shape_of shape_response]. unfold parse_result. cbn [r_error r_resource r_result isSome is_nil negb].
  destruct (print_head j H) as (c & r & -> & _). cbn [is_nil]. destruct j; reflexivity.
Qed.
Lemma decode_resource_pf : forall m rid, is_valid_rid rid = true ->
  client_parse m (HResource rid) = MkResponse None rid None.
Proof. intros m rid V. rewrite client_parse_shape. cbn [shape_of]. rewrite V. reflexivity. Qed.
Lemma norm_err_idem : forall e, norm_err (norm_err e) = norm_err e.
Proof. intros [c msg [[]|]]; reflexivity. Qed.
Lemma decode_error_pf : forall m h e, supplied_error h = Some e ->
  r_error (client_parse m h) = Some (PEDecoded e) /\ r_result (client_parse m h) = None /\ r_resource (client_parse m h) = [].
Proof.
  intros m h e H. rewrite client_parse_shape.
  destruct h as [[j|]|rid|rid|e'|msg| | |msg|msg|get call| | |v q|v q|e'|msg|]; cbn [supplied_error] in H; try discriminate;
    cbn [shape_of].
  - destruct (is_valid_rid rid); [discriminate|]. injection H as <-. repeat split.
  - destruct e' as [e'|]; injection H as <-; repeat split.
  - injection H as <-. repeat split.
  - injection H as <-. repeat split.
  - injection H as <-. repeat split.
  - injection H as <-. destruct (is_nil msg); repeat split.
  - injection H as <-. destruct (is_nil msg); repeat split.
  - destruct (negb get && is_nil call); [|discriminate]. injection H as <-. repeat split.
  - injection H as <-. repeat split.
  - injection H as <-. repeat split.
  - injection H as <-. repeat split.
  - injection H as <-. repeat split.
Qed.

Lemma decode_get_pf : forall m v q,
  parse_model (client_parse m (HModel v q)) = Ok (v, q) /\
  parse_collection (client_parse m (HCollection v q)) = Ok (v, q).
Proof.
  intros m v q. rewrite !client_parse_shape. cbn [shape_of shape_response].
  unfold parse_model, parse_collection, get_result. cbn [r_error r_resource r_result isSome is_nil negb].
  unfold get_ast. rewrite !print_obj_not_nil.
  split; destruct q as [|c q]; cbn [is_nil fold_left obind]; unfold get_step; cbn [fst snd]; keys; reflexivity.
Qed.
Lemma decode_access_pf : forall m get call, negb get && is_nil call = false ->
  access_result (client_parse m (HAccess get call)) = Ok (get, call) /\
  access_result (client_parse m HAccessGranted) = Ok (true, [42]).
Proof.
  intros m get call H. rewrite !client_parse_shape. cbn [shape_of shape_response]. rewrite H.
  unfold access_result. cbn [shape_response r_error r_resource r_result isSome is_nil negb].
  unfold access_ast. rewrite !print_obj_not_nil.
  split; [|cbn [is_nil app fold_left]; unfold acc_step; cbn [fst snd]; keys; reflexivity].
  destruct get, call as [|c call]; try discriminate;
    cbn [is_nil app fold_left]; unfold acc_step; cbn [fst snd]; keys; reflexivity.
Qed.
Lemma decode_new_pf : forall m rid, is_valid_rid rid = true ->
  exists j, parse_result (client_parse m (HNew rid)) = Ok (Some j) /\ ref_unmarshal_ast j = Some rid.
Proof.
  intros m rid V. rewrite client_parse_shape. cbn [shape_of]. rewrite V.
  exists (JObj [(s2b "rid", JStr rid)]). split; [reflexivity | apply ref_unmarshal_rid].
Qed.
