(* Engine D (C10): the relations the theorems are stated with.  No proofs. *)
From GoRes Require Export Diff.Model.
Local Open Scope nat_scope.

Section Spec.
Variable V : Type.
Variable veq : V -> V -> bool.

(* Value.Equal as a relation, and what the theorems may assume about it *)
Definition veqP (x y : V) : Prop := veq x y = true.
Definition veq_refl : Prop := forall x, veq x x = true.
Definition veq_sym : Prop := forall x y, veq x y = true -> veq y x = true.
Definition veq_trans : Prop := forall x y z, veq x y = true -> veq y z = true -> veq x z = true.
Definition veq_equivalence : Prop := veq_refl /\ veq_sym /\ veq_trans.

Definition opt_veq (x y : option V) : Prop :=
  match x, y with
  | Some a, Some b => veq a b = true
  | None, None => True
  | _, _ => False
  end.
(* same finite map up to Equal *)
Definition model_equiv (a b : amapV V) : Prop := forall k, opt_veq (vlookup k a) (vlookup k b).
(* same list up to Equal *)
Definition coll_equiv (a b : list V) : Prop := Forall2 veqP a b.
Definition rv_equiv (x y : rv V) : Prop :=
  match x, y with
  | RM a, RM b => model_equiv a b
  | RC a, RC b => coll_equiv a b
  | RBad, RBad => True
  | _, _ => False
  end.
(* what a client holds vs. what a get serves: "missing" is its own state *)
Definition cstate_equiv (x y : cstate V) : Prop :=
  match x, y with
  | CMissing, CMissing => True
  | CPresent a, CPresent b => rv_equiv a b
  | _, _ => False
  end.

(* a value of the shape the handler's resource type serves; a Go map has no duplicate keys *)
Definition rv_typed (t : rtype) (v : rv V) : Prop :=
  match t, v with
  | TModel, RM m => NoDup (map fst m)
  | TCollection, RC _ => True
  | _, _ => False
  end.

(* the single resource [rid] backed by store id [id] is served by this handler:
   - s.Resource(rid) resolves to it,
   - the default (if any) has the handler's type (onRegister panics otherwise),
   - without a transformer rid = id; with one, RIDToID(rid) = id, IDToRID(id, _) = rid
     and Transform yields values of the handler's type,
   - with a transformer stored values are arbitrary, without one they have the handler's type *)
Definition cfg_ok (cfg : config V) (id rid : bytes) : Prop :=
  c_served cfg rid = true /\ id <> [] /\
  (forall d, c_def cfg = Some d -> rv_typed (c_typ cfg) d) /\
  match c_trans cfg with
  | None => rid = id
  | Some t =>
    tr_rid_to_id t rid = id /\ rid <> [] /\
    (forall v, tr_id_to_rid t id v = rid) /\
    (forall v v', tr_transform t id v = Some v' -> rv_typed (c_typ cfg) v')
  end.
Definition raw_ok (cfg : config V) (v : rv V) : Prop :=
  match c_trans cfg with Some _ => True | None => rv_typed (c_typ cfg) v end.
Definition oraw_ok (cfg : config V) (o : option (rv V)) : Prop :=
  match o with Some v => raw_ok cfg v | None => True end.
Definition op_ok (cfg : config V) (o : op V) : Prop :=
  match o with OCreate v | OUpdate v => raw_ok cfg v | ODelete => True end.

(* what a get serves for the resource when the store holds [st] under [id] *)
Definition view (cfg : config V) (id rid : bytes) (st : option (rv V)) : cstate V :=
  client_of (get_resource V cfg rid (one_store id st)).

End Spec.

Arguments veqP {V}. Arguments opt_veq {V}. Arguments model_equiv {V}. Arguments coll_equiv {V}.
Arguments rv_equiv {V}. Arguments cstate_equiv {V}. Arguments rv_typed {V}.
Arguments cfg_ok {V}. Arguments raw_ok {V}. Arguments oraw_ok {V}. Arguments op_ok {V}. Arguments view {V}.
Arguments veq_refl {V}. Arguments veq_sym {V}. Arguments veq_trans {V}. Arguments veq_equivalence {V}.

(* any pair of table comparisons that answers consistently inside the table *)
Definition oracle_ok (ge lt : list nat -> nat -> nat -> nat -> option bool) : Prop :=
  forall c m n i j, length c = (m + 1) * (n + 1) -> 0 < i <= m -> 0 < j <= n ->
    exists g, ge c (m + 1) i j = Some g /\ lt c (m + 1) i j = Some (negb g).
