(* Engine D (property C10): executable model of /repo/store/storehandler.go
   (modelDiff, collectionDiff, changeHandler, getResource), of the part of
   resource.go it publishes through (ChangeEvent drops an empty change map;
   Add/RemoveEvent panic on a negative index), of mockstore's write transactions,
   and the reference client that applies published events.

   The element type [V] stands for store.Value and [veq] for Value.Equal.
   Indices are [nat]; the one place where Go computes with a possibly negative
   intermediate (add[1]-rems+add[2]+l-i) is evaluated in Z and a negative result
   is the AddEvent panic.  Slice accesses are [nth_error]; an out-of-range access
   is the explicit outcome DPanic / BPanic (never a default value).
   NO proofs in this file. *)
From GoRes Require Export Base.Bytes.
From Coq Require Import ZArith.
Local Open Scope nat_scope.

Section Diff.
Variable V : Type.
Variable veq : V -> V -> bool.            (* a.Equal(b) *)

(* ---------- values, events ---------- *)
Definition amapV := list (bytes * V).     (* a model: map[string]Value, head wins *)
(* what a resource holds / serves.  RBad = a Go value outside the domain of the property: it does not
   marshal (json.Marshal error), or its JSON is not an object/array of valid RES values.  Both diffs
   fail on it (error logged, nothing published) and a get cannot serve it as a resource. *)
Inductive rv := RM (m : amapV) | RC (c : list V) | RBad.
Inductive mval := MDelete | MSet (v : V). (* a value of a change event; MDelete = {"action":"delete"} *)
Inductive event :=
| EChange (ch : list (bytes * mval))
| ERemove (idx : nat)
| EAdd (v : V) (idx : nat)
| ECreate (data : rv)     (* data = what changeHandler hands to CreateEvent (not on the wire) *)
| EDelete.

Fixpoint vlookup (k : bytes) (m : amapV) : option V :=
  match m with
  | [] => None
  | (k', v) :: m' => if beq k k' then Some v else vlookup k m'
  end.

(* ---------- modelDiff ---------- *)
(* for k := range beforeMap { if _, ok := afterMap[k]; !ok { ch[k] = DeleteValue } }
   for k, v := range afterMap { ov, ok := beforeMap[k]; if !ok || !v.Equal(ov) { ch[k] = v } } *)
Definition model_diff (a b : amapV) : list (bytes * mval) :=
  flat_map (fun kv => match vlookup (fst kv) b with
                      | None => [(fst kv, MDelete)]
                      | Some _ => []
                      end) a ++
  flat_map (fun kv => match vlookup (fst kv) a with
                      | Some ov => if veq (snd kv) ov then [] else [(fst kv, MSet (snd kv))]
                      | None => [(fst kv, MSet (snd kv))]
                      end) b.

(* resource.ChangeEvent: "if len(changed) == 0 { return }" *)
Definition change_event (ch : list (bytes * mval)) : list event :=
  if is_nil ch then [] else [EChange ch].

(* ---------- collectionDiff ---------- *)
Inductive diff_result := DOk (es : list event) | DOutOfFuel | DPanic.

(* for s < m && s < n && a[s].Equal(b[s]) { s++ } *)
Fixpoint common_prefix (a b : list V) : nat :=
  match a, b with
  | x :: a', y :: b' => if veq x y then S (common_prefix a' b') else O
  | _, _ => O
  end.

(* the flat LCS table c, len w*(n+1), cell (i,j) at i+w*j *)
Definition tget (c : list nat) (k : nat) : option nat := nth_error c k.
Fixpoint tset (c : list nat) (k v : nat) : option (list nat) :=
  match c, k with
  | [], _ => None
  | _ :: c', O => Some (v :: c')
  | x :: c', S k' => match tset c' k' v with Some r => Some (x :: r) | None => None end
  end.

(* inner loop "for j = 0; j < n; j++" for a fixed i, x = aa[i]; bb is the rest bb[j:] *)
Fixpoint fill_row (w i : nat) (x : V) (bb : list V) (j : nat) (c : list nat) : option (list nat) :=
  match bb with
  | [] => Some c
  | y :: bb' =>
    let cell :=
      if veq x y then
        match tget c (i + w * j) with Some d => Some (d + 1) | None => None end
      else
        match tget c ((i + 1) + w * j), tget c (i + w * (j + 1)) with
        | Some v1, Some v2 => Some (if v1 <? v2 then v2 else v1)
        | _, _ => None
        end in
    match cell with
    | None => None
    | Some v =>
      match tset c ((i + 1) + w * (j + 1)) v with
      | None => None
      | Some c' => fill_row w i x bb' (S j) c'
      end
    end
  end.
(* outer loop "for i = 0; i < m; i++"; aa is the rest aa[i:] *)
Fixpoint fill (w : nat) (aa : list V) (i : nat) (bb : list V) (c : list nat) : option (list nat) :=
  match aa with
  | [] => Some c
  | x :: aa' =>
    match fill_row w i x bb 0 c with
    | None => None
    | Some c' => fill w aa' (S i) bb c'
    end
  end.

(* c[i+w*n] `cmp` c[m+w*j]  with m = i-1, n = j-1 *)
Definition tbl_cmp (cmp : nat -> nat -> bool) (c : list nat) (w i j : nat) : option bool :=
  match tget c (i + w * (j - 1)), tget c ((i - 1) + w * j) with
  | Some x, Some y => Some (cmp x y)
  | _, _ => None
  end.
Definition tbl_ge := tbl_cmp (fun x y => y <=? x).
Definition tbl_lt := tbl_cmp (fun x y => x <? y).

(* One iteration of the back-track loop appends to this log (discovery order, i.e.
   from the back of the lists to the front):
     SKeep            case 1 (aa[m].Equal(bb[n]))
     SAdd n idx rems  case 2: adds = append(adds, [3]int{n, idx, rems})
     SRem idx         case 3: r.RemoveEvent(idx) after idx-- *)
Inductive step := SKeep | SAdd (n idx rems : nat) | SRem (idx : nat).
Inductive bt_result := BOk (st : list step) | BFuel | BPanic.
Definition bcons (s : step) (r : bt_result) : bt_result :=
  match r with BOk l => BOk (s :: l) | e => e end.

(* The loop "Loop: for { m = i-1; n = j-1; switch {...} }".  The two table
   comparisons are the arguments ge/lt (collection_diff passes tbl_ge/tbl_lt of
   the filled table); None = index out of range.  Go's short-circuit evaluation
   order is kept, so a comparison is only evaluated when Go evaluates it. *)
Fixpoint backtrack (ge lt : nat -> nat -> option bool) (aa bb : list V)
         (fuel i j idx rems : nat) : bt_result :=
  match fuel with
  | O => BFuel
  | S f =>
    let m := i - 1 in
    let n := j - 1 in
    match (if (0 <? i) && (0 <? j) then
             match nth_error aa m, nth_error bb n with
             | Some x, Some y => Some (veq x y)
             | _, _ => None
             end
           else Some false) with
    | None => BPanic
    | Some true => bcons SKeep (backtrack ge lt aa bb f (i - 1) (j - 1) (idx - 1) rems)
    | Some false =>
      match (if 0 <? j then (if i =? 0 then Some true else ge i j) else Some false) with
      | None => BPanic
      | Some true => bcons (SAdd n idx rems) (backtrack ge lt aa bb f i (j - 1) idx rems)
      | Some false =>
        match (if 0 <? i then (if j =? 0 then Some true else lt i j) else Some false) with
        | None => BPanic
        | Some true => bcons (SRem (idx - 1)) (backtrack ge lt aa bb f (i - 1) j (idx - 1) (rems + 1))
        | Some false => BOk []
        end
      end
    end
  end.

Fixpoint rems_of (st : list step) : list nat :=
  match st with
  | [] => []
  | SRem idx :: r => idx :: rems_of r
  | _ :: r => rems_of r
  end.
Fixpoint adds_of (st : list step) : list (nat * nat * nat) :=
  match st with
  | [] => []
  | SAdd n idx rems :: r => (n, idx, rems) :: adds_of r
  | _ :: r => adds_of r
  end.

(* "l := len(adds)-1; for i := l; i >= 0; i-- { add := adds[i];
      r.AddEvent(bb[add[0]], add[1]-rems+add[2]+l-i) }"
   The argument is adds reversed (adds[l] first) and k stands for l-i.
   None = bb index out of range, or AddEvent's "idx less than zero" panic. *)
Fixpoint emit_adds (bb : list V) (rems k : nat) (radds : list (nat * nat * nat)) : option (list event) :=
  match radds with
  | [] => Some []
  | (n, idx, r) :: rest =>
    match nth_error bb n with
    | None => None
    | Some v =>
      let z := (Z.of_nat idx - Z.of_nat rems + Z.of_nat r + Z.of_nat k)%Z in
      if (z <? 0)%Z then None else
      match emit_adds bb rems (S k) rest with
      | None => None
      | Some es => Some (EAdd v (Z.to_nat z) :: es)
      end
    end
  end.

Definition collection_diff_with (ge lt : list nat -> nat -> nat -> nat -> option bool)
           (a b : list V) : diff_result :=
  let s := common_prefix a b in
  let a1 := skipn s a in
  let b1 := skipn s b in
  if is_nil a1 && is_nil b1 then DOk [] else            (* s == m && s == n *)
  let t := common_prefix (rev a1) (rev b1) in           (* trailing matches, within a[s:], b[s:] *)
  let aa := firstn (length a1 - t) a1 in
  let bb := firstn (length b1 - t) b1 in
  let m := length aa in
  let n := length bb in
  let w := m + 1 in
  match fill w aa 0 bb (repeat 0 (w * (n + 1))) with
  | None => DPanic
  | Some c =>
    match tget c (w * (n + 1) - 1) with                 (* addCount := n - c[w*(n+1)-1] (capacity only) *)
    | None => DPanic
    | Some _ =>
      match backtrack (ge c w) (lt c w) aa bb (m + n + 1) m n (m + s) 0 with
      | BFuel => DOutOfFuel
      | BPanic => DPanic
      | BOk st =>
        let rems := length (rems_of st) in
        match emit_adds bb rems 0 (rev (adds_of st)) with
        | None => DPanic
        | Some adds => DOk (map ERemove (rems_of st) ++ adds)
        end
      end
    end
  end.
Definition collection_diff : list V -> list V -> diff_result := collection_diff_with tbl_ge tbl_lt.

(* ---------- changeHandler / getResource ---------- *)
Inductive rtype := TModel | TCollection.
Record transformer := Tr {
  tr_rid_to_id : bytes -> bytes;             (* RIDToID (path params are a function of the rid) *)
  tr_id_to_rid : bytes -> rv -> bytes;       (* IDToRID(id, v, pattern of the handler) *)
  tr_transform : bytes -> rv -> option rv    (* Transform; None = it returned an error *)
}.
Record config := Cfg {
  c_typ : rtype;
  c_trans : option transformer;
  c_def : option rv;                         (* Handler.Default (marshalled) *)
  c_served : bytes -> bool                   (* s.Resource(rid) finds this handler *)
}.

Inductive handler_result := HOk (evs : list (bytes * event)) | HFuel | HPanic.

Definition or_else (x d : option rv) : option rv := match x with Some _ => x | None => d end.

Definition change_handler (cfg : config) (id : bytes) (before after : option rv) : handler_result :=
  let '(before, after, rid) :=
    match c_trans cfg with
    | Some t =>
      let before := match before with Some v => tr_transform t id v | None => c_def cfg end in
      let after := match after with Some v => tr_transform t id v | None => c_def cfg end in
      let rid := match after with
                 | Some v => tr_id_to_rid t id v
                 | None => match before with Some v => tr_id_to_rid t id v | None => id end
                 end in
      (before, after, rid)
    | None =>
      match c_def cfg with
      | Some _ => (or_else before (c_def cfg), or_else after (c_def cfg), id)
      | None => (before, after, id)
      end
    end in
  if (match c_trans cfg with Some _ => true | None => false end) && is_nil rid then HOk [] else
  if negb (c_served cfg rid) then HOk [] else
  match before, after with
  | None, None => HOk []
  | None, Some v => HOk [(rid, ECreate v)]
  | Some _, None => HOk [(rid, EDelete)]
  | Some bv, Some av =>
    match c_typ cfg, bv, av with
    | TModel, RM a, RM b => HOk (map (pair rid) (change_event (model_diff a b)))
    | TCollection, RC a, RC b =>
      match collection_diff a b with
      | DOk es => HOk (map (pair rid) es)
      | DOutOfFuel => HFuel
      | DPanic => HPanic
      end
    | _, _, _ => HOk []     (* json.Unmarshal into the other shape fails: logged, nothing published *)
    end
  end.

Inductive get_result := GMissing | GValue (v : rv).
Definition get_resource (cfg : config) (rid : bytes) (store : bytes -> option rv) : get_result :=
  let id := match c_trans cfg with Some t => tr_rid_to_id t rid | None => rid end in
  if (match c_trans cfg with Some _ => true | None => false end) && is_nil id then GMissing else
  match store id with
  | None => match c_def cfg with Some d => GValue d | None => GMissing end
  | Some v =>
    match c_trans cfg with
    | Some t => match tr_transform t id v with Some v' => GValue v' | None => GMissing end
    | None => GValue v
    end
  end.

(* getResource when the store's Value() may fail with an error that is not (and does not wrap)
   ErrNotFound for the ids [rerr] says: "r.Error(err)".  The RIDToID = "" answer comes first. *)
Inductive get_result_e := GE (g : get_result) | GError.
Definition get_resource_e (cfg : config) (rid : bytes) (rerr : bytes -> bool) (store : bytes -> option rv)
  : get_result_e :=
  let id := match c_trans cfg with Some t => tr_rid_to_id t rid | None => rid end in
  if (match c_trans cfg with Some _ => true | None => false end) && is_nil id then GE GMissing else
  if rerr id then GError else GE (get_resource cfg rid store).

(* ---------- mockstore write transactions on one id ---------- *)
Inductive op := OCreate (v : rv) | OUpdate (v : rv) | ODelete.
Definition one_store (id : bytes) (st : option rv) : bytes -> option rv :=
  fun k => if is_nil k then None else if beq k id then st else None.

(* (new content, op returned nil, what the OnChange callback published) *)
Definition store_step (cfg : config) (id : bytes) (st : option rv) (o : op)
  : option rv * bool * handler_result :=
  match o, st with
  | OCreate v, None => (Some v, true, change_handler cfg id None (Some v))
  | OUpdate v, Some old => (Some v, true, change_handler cfg id (Some old) (Some v))
  | ODelete, Some old => (None, true, change_handler cfg id (Some old) None)
  | _, _ => (st, false, HOk [])
  end.

Fixpoint run_history (cfg : config) (id : bytes) (st : option rv) (ops : list op)
  : option rv * handler_result :=
  match ops with
  | [] => (st, HOk [])
  | o :: r =>
    match store_step cfg id st o with
    | (st', _, HOk e1) =>
      match run_history cfg id st' r with
      | (st'', HOk e2) => (st'', HOk (e1 ++ e2))
      | x => x
      end
    | (st', _, bad) => (st', bad)
    end
  end.

(* ---------- reference client ---------- *)
Definition remove_at (i : nat) (l : list V) : list V := firstn i l ++ skipn (S i) l.
Definition insert_at (i : nat) (v : V) (l : list V) : list V := firstn i l ++ v :: skipn i l.

Fixpoint aset (k : bytes) (v : V) (m : amapV) : amapV :=
  match m with
  | [] => [(k, v)]
  | (k', v') :: m' => if beq k k' then (k, v) :: m' else (k', v') :: aset k v m'
  end.
Definition adel (k : bytes) (m : amapV) : amapV := filter (fun kv => negb (beq k (fst kv))) m.
Definition apply_change (ch : list (bytes * mval)) (m : amapV) : amapV :=
  fold_left (fun m ka => match snd ka with MDelete => adel (fst ka) m | MSet v => aset (fst ka) v m end) ch m.

(* collection events on a list; None = index out of range at the moment it is applied *)
Definition apply_coll (e : event) (l : list V) : option (list V) :=
  match e with
  | ERemove i => if i <? length l then Some (remove_at i l) else None
  | EAdd v i => if i <=? length l then Some (insert_at i v l) else None
  | _ => None
  end.
Fixpoint apply_colls (es : list event) (l : list V) : option (list V) :=
  match es with
  | [] => Some l
  | e :: r => match apply_coll e l with Some l' => apply_colls r l' | None => None end
  end.

Inductive cstate := CMissing | CPresent (v : rv).
Definition client_of (g : get_result) : cstate :=
  match g with GMissing => CMissing | GValue v => CPresent v end.

(* None = the event cannot be applied: index out of range, change on a collection,
   add/remove on a model, create of a resource the client holds, delete/change/add/remove
   of a resource reported missing *)
Definition apply_event (e : event) (c : cstate) : option cstate :=
  match e, c with
  | ECreate d, CMissing => Some (CPresent d)
  | EDelete, CPresent _ => Some CMissing
  | EChange ch, CPresent (RM m) => Some (CPresent (RM (apply_change ch m)))
  | ERemove _, CPresent (RC l) | EAdd _ _, CPresent (RC l) =>
    match apply_coll e l with Some l' => Some (CPresent (RC l')) | None => None end
  | _, _ => None
  end.
Fixpoint apply_events (es : list event) (c : cstate) : option cstate :=
  match es with
  | [] => Some c
  | e :: r => match apply_event e c with Some c' => apply_events r c' | None => None end
  end.

End Diff.

Arguments RM {V}. Arguments RC {V}. Arguments RBad {V}.
Arguments MDelete {V}. Arguments MSet {V}.
Arguments EChange {V}. Arguments ERemove {V}. Arguments EAdd {V}. Arguments ECreate {V}. Arguments EDelete {V}.
Arguments DOk {V}. Arguments DOutOfFuel {V}. Arguments DPanic {V}.
Arguments HOk {V}. Arguments HFuel {V}. Arguments HPanic {V}.
Arguments GMissing {V}. Arguments GValue {V}. Arguments GE {V}. Arguments GError {V}.
Arguments OCreate {V}. Arguments OUpdate {V}. Arguments ODelete {V}.
Arguments CMissing {V}. Arguments CPresent {V}.
Arguments Tr {V}. Arguments Cfg {V}.
Arguments tr_rid_to_id {V}. Arguments tr_id_to_rid {V}. Arguments tr_transform {V}.
Arguments c_typ {V}. Arguments c_trans {V}. Arguments c_def {V}. Arguments c_served {V}.
Arguments vlookup {V}. Arguments change_event {V}. Arguments remove_at {V}. Arguments insert_at {V}.
Arguments aset {V}. Arguments adel {V}. Arguments apply_change {V}.
Arguments apply_coll {V}. Arguments apply_colls {V}. Arguments apply_event {V}. Arguments apply_events {V}.
Arguments client_of {V}. Arguments one_store {V}. Arguments or_else {V}.
Arguments emit_adds {V}.

(* ---------- the concrete value type used for execution ----------
   store.Value by Type: primitive (canonical JSON text), reference (rid),
   soft reference (rid), data value (JSON text of the data member).
   jv_eqb is Value.Equal. *)
Inductive jv := JPrim (raw : bytes) | JRef (rid : bytes) | JSoft (rid : bytes) | JData (raw : bytes).
Definition jv_eqb (a b : jv) : bool :=
  match a, b with
  | JPrim x, JPrim y | JRef x, JRef y | JSoft x, JSoft y | JData x, JData y => beq x y
  | _, _ => false
  end.

(* ---------- registration: store.Handler.SetOption + storeHandler.onRegister ----------
   s.Handle(pattern, <type option>, store.Handler{Store, Transformer, Default}).  The documented panics are
   explicit outcomes.  SetOption runs while the options are applied, i.e. before the handler is added to the
   Mux; onRegister runs after the Mux has stored the handler, so a (recovered) onRegister panic leaves a
   registered handler whose type was never recorded: a get on it answers errInvalidResourceType. *)
Inductive reg_type := RTUnset | RTModel | RTCollection | RTOther.
Inductive reg_default := DNone | DUnmarshalable | DObject | DArray | DOtherJson.   (* DOtherJson: string, number, null, ... *)
Inductive reg_outcome :=
| RegOk | RegPanicNoStore | RegPanicDefaultMarshal | RegPanicDefaultKind | RegPanicTypeUnset | RegPanicTypeInvalid.
Definition register (has_store : bool) (d : reg_default) (t : reg_type) : reg_outcome :=
  if negb has_store then RegPanicNoStore else
  match d with
  | DUnmarshalable => RegPanicDefaultMarshal
  | _ =>
    match t with
    | RTModel => match d with DArray | DOtherJson => RegPanicDefaultKind | _ => RegOk end
    | RTCollection => match d with DObject | DOtherJson => RegPanicDefaultKind | _ => RegOk end
    | RTUnset => RegPanicTypeUnset
    | RTOther => RegPanicTypeInvalid
    end
  end.
(* a get on the pattern afterwards, the store holding a value of the type's shape *)
Inductive reg_get := RGServed | RGNoHandler | RGInvalidType.
Definition get_after_register (o : reg_outcome) : reg_get :=
  match o with
  | RegOk => RGServed
  | RegPanicNoStore | RegPanicDefaultMarshal => RGNoHandler
  | RegPanicDefaultKind | RegPanicTypeUnset | RegPanicTypeInvalid => RGInvalidType
  end.
