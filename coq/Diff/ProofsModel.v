(* C10: modelDiff.  Applying the change event of model_diff a b to (anything
   equivalent to) a gives b as a finite map; removed keys are delete actions;
   nothing is published when nothing differs. *)
From GoRes Require Import Diff.Spec.
From Coq Require Import Lia Arith.
Local Open Scope nat_scope.

Lemma beq_eq (a b : bytes) : beq a b = true <-> a = b.
Proof.
  revert b. induction a as [|x a IH]; intros [|y b]; cbn; split; intros H; try discriminate; try reflexivity.
  - apply andb_true_iff in H. destruct H as [H1 H2].
    apply N.eqb_eq in H1. apply IH in H2. congruence.
  - injection H as -> ->. rewrite N.eqb_refl. cbn. apply IH. reflexivity.
Qed.

Lemma beq_refl (a : bytes) : beq a a = true.
Proof. apply beq_eq. reflexivity. Qed.

Lemma beq_neq (a b : bytes) : beq a b = false <-> a <> b.
Proof.
  split.
  - intros H E. apply beq_eq in E. congruence.
  - intros H. destruct (beq a b) eqn:E; [|reflexivity]. apply beq_eq in E. contradiction.
Qed.

Section Model.
Variable V : Type.
Variable veq : V -> V -> bool.
Notation mval := (mval V).
Notation amapV := (amapV V).

Lemma vlookup_aset k k' v (m : amapV) :
  vlookup k (aset k' v m) = if beq k k' then Some v else vlookup k m.
Proof.
  induction m as [|[k2 v2] m IH]; cbn [aset vlookup].
  - reflexivity.
  - destruct (beq k' k2) eqn:E2; cbn [vlookup].
    + apply beq_eq in E2. subst k2. destruct (beq k k'); reflexivity.
    + destruct (beq k k2) eqn:E1.
      * apply beq_eq in E1. subst k2.
        destruct (beq k k') eqn:E3; [|reflexivity].
        apply beq_eq in E3. subst k'. rewrite beq_refl in E2. discriminate.
      * exact IH.
Qed.

Lemma vlookup_adel k k' (m : amapV) :
  vlookup k (adel k' m) = if beq k k' then None else vlookup k m.
Proof.
  unfold adel. induction m as [|[k2 v2] m IH]; cbn [filter vlookup fst].
  - destruct (beq k k'); reflexivity.
  - destruct (beq k' k2) eqn:E2; cbn [negb vlookup].
    + apply beq_eq in E2. subst k2. rewrite IH. destruct (beq k k'); reflexivity.
    + destruct (beq k k2) eqn:E1.
      * apply beq_eq in E1. subst k2.
        destruct (beq k k') eqn:E3; [|reflexivity].
        apply beq_eq in E3. subst k'. rewrite beq_refl in E2. discriminate.
      * exact IH.
Qed.

(* the last action a change list holds for k *)
Fixpoint act (k : bytes) (ch : list (bytes * mval)) : option mval :=
  match ch with
  | [] => None
  | (k', a) :: r =>
    match act k r with
    | Some x => Some x
    | None => if beq k k' then Some a else None
    end
  end.

Lemma act_app k (l1 l2 : list (bytes * mval)) :
  act k (l1 ++ l2) = match act k l2 with Some x => Some x | None => act k l1 end.
Proof.
  induction l1 as [|[k' a] l1 IH]; cbn [app act].
  - destruct (act k l2); reflexivity.
  - rewrite IH. destruct (act k l2); reflexivity.
Qed.

Lemma vlookup_apply_change k (ch : list (bytes * mval)) (m : amapV) :
  vlookup k (apply_change ch m) =
  match act k ch with
  | Some MDelete => None
  | Some (MSet v) => Some v
  | None => vlookup k m
  end.
Proof.
  unfold apply_change. revert m. induction ch as [|[k' a] ch IH]; intros m; cbn [fold_left act fst snd].
  - reflexivity.
  - rewrite IH. destruct (act k ch) as [x|]; [reflexivity|].
    destruct a as [|v]; [rewrite vlookup_adel|rewrite vlookup_aset]; destruct (beq k k'); reflexivity.
Qed.

Lemma vlookup_notin k (m : amapV) : ~ In k (map fst m) -> vlookup k m = None.
Proof.
  induction m as [|[k' v] m IH]; cbn; intros H; [reflexivity|].
  destruct (beq k k') eqn:E.
  - apply beq_eq in E. subst. exfalso. apply H. left. reflexivity.
  - apply IH. intros H'. apply H. right. exact H'.
Qed.

Lemma vlookup_in k v (m : amapV) : NoDup (map fst m) -> In (k, v) m -> vlookup k m = Some v.
Proof.
  induction m as [|[k' v'] m IH]; cbn; intros Hnd Hin; [contradiction|].
  inversion Hnd as [|? ? Hnot Hnd']; subst.
  destruct Hin as [E|Hin].
  - injection E as -> ->. rewrite beq_refl. reflexivity.
  - destruct (beq k k') eqn:E.
    + apply beq_eq in E. subst. exfalso. apply Hnot.
      change k' with (fst (k', v)). apply in_map. exact Hin.
    + apply IH; assumption.
Qed.

Lemma vlookup_some_in k v (m : amapV) : vlookup k m = Some v -> In (k, v) m.
Proof.
  induction m as [|[k' v'] m IH]; cbn; intros H; [discriminate|].
  destruct (beq k k') eqn:E.
  - apply beq_eq in E. injection H as ->. subst. left. reflexivity.
  - right. apply IH. exact H.
Qed.

Lemma in_vlookup k v (m : amapV) : In (k, v) m -> exists v', vlookup k m = Some v'.
Proof.
  induction m as [|[k' v'] m IH]; cbn; intros H; [contradiction|].
  destruct (beq k k') eqn:E; [eauto|].
  destruct H as [H|H]; [|apply IH; exact H].
  injection H as -> ->. rewrite beq_refl in E. discriminate.
Qed.

(* a flat_map that emits at most one entry per pair, under the pair's own key *)
Lemma act_flat_map k (g : bytes * V -> list (bytes * mval)) (h : bytes * V -> option mval) (b : amapV) :
  (forall kv, g kv = match h kv with Some a => [(fst kv, a)] | None => [] end) ->
  NoDup (map fst b) ->
  act k (flat_map g b) = match vlookup k b with Some v => h (k, v) | None => None end.
Proof.
  intros Hg. induction b as [|[k' v] b IH]; cbn [flat_map map fst vlookup]; intros Hnd.
  - reflexivity.
  - inversion Hnd as [|? ? Hnot Hnd']; subst.
    rewrite act_app, (IH Hnd'), Hg. cbn [fst].
    destruct (beq k k') eqn:E.
    + apply beq_eq in E. subst k'. rewrite (vlookup_notin k b Hnot).
      destruct (h (k, v)); cbn [act]; [rewrite beq_refl|]; reflexivity.
    + destruct (vlookup k b) as [w|].
      * destruct (h (k, w)); [reflexivity|].
        destruct (h (k', v)); cbn [act]; [rewrite E|]; reflexivity.
      * destruct (h (k', v)); cbn [act]; [rewrite E|]; reflexivity.
Qed.

Definition h_del (b : amapV) (kv : bytes * V) : option mval :=
  match vlookup (fst kv) b with None => Some MDelete | Some _ => None end.
Definition h_set (a : amapV) (kv : bytes * V) : option mval :=
  match vlookup (fst kv) a with
  | Some ov => if veq (snd kv) ov then None else Some (MSet (snd kv))
  | None => Some (MSet (snd kv))
  end.

Lemma act_model_diff k (a b : amapV) :
  NoDup (map fst a) -> NoDup (map fst b) ->
  act k (model_diff V veq a b) =
  match vlookup k b with
  | Some v =>
    match vlookup k a with
    | Some ov => if veq v ov then None else Some (MSet v)
    | None => Some (MSet v)
    end
  | None => match vlookup k a with Some _ => Some MDelete | None => None end
  end.
Proof.
  intros Ha Hb. unfold model_diff. rewrite act_app.
  rewrite (act_flat_map k _ (h_set a) b); [|intros kv; unfold h_set; destruct (vlookup (fst kv) a); [destruct (veq (snd kv) v)|]; reflexivity|exact Hb].
  rewrite (act_flat_map k _ (h_del b) a); [|intros kv; unfold h_del; destruct (vlookup (fst kv) b); reflexivity|exact Ha].
  unfold h_set, h_del. cbn [fst snd].
  destruct (vlookup k b) as [v|].
  - destruct (vlookup k a) as [ov|]; [|reflexivity].
    destruct (veq v ov); reflexivity.
  - destruct (vlookup k a); reflexivity.
Qed.

(* the client may hold anything equivalent to a *)
Lemma model_apply_pf (a b m : amapV) :
  veq_equivalence veq -> NoDup (map fst a) -> NoDup (map fst b) ->
  model_equiv veq m a -> model_equiv veq (apply_change (model_diff V veq a b) m) b.
Proof.
  intros (Hrefl & Hsym & Htrans) Ha Hb Hm k.
  rewrite vlookup_apply_change, (act_model_diff k a b Ha Hb).
  specialize (Hm k). unfold opt_veq in *.
  destruct (vlookup k b) as [v|]; destruct (vlookup k a) as [ov|].
  - destruct (veq v ov) eqn:E.
    + destruct (vlookup k m) as [mv|]; [|contradiction].
      apply Htrans with ov; [exact Hm|]. apply Hsym. exact E.
    + apply Hrefl.
  - apply Hrefl.
  - exact I.
  - exact Hm.
Qed.

Lemma model_equiv_refl (a : amapV) : veq_refl veq -> model_equiv veq a a.
Proof. intros Hrefl k. unfold opt_veq. destruct (vlookup k a); [apply Hrefl|exact I]. Qed.

Lemma flat_map_nil {A B} (g : A -> list B) (l : list A) :
  (forall x, In x l -> g x = []) -> flat_map g l = [].
Proof.
  induction l as [|x l IH]; cbn; intros H; [reflexivity|].
  rewrite (H x (or_introl eq_refl)). cbn. apply IH. intros y Hy. apply H. right. exact Hy.
Qed.

Lemma model_diff_nil_iff (a b : amapV) :
  NoDup (map fst a) -> NoDup (map fst b) ->
  (model_diff V veq a b = [] <-> model_equiv veq b a).
Proof.
  intros Ha Hb. split.
  - intros H k. pose proof (act_model_diff k a b Ha Hb) as Hact. rewrite H in Hact. cbn [act] in Hact.
    unfold opt_veq. destruct (vlookup k b) as [v|]; destruct (vlookup k a) as [ov|]; try discriminate; try exact I.
    destruct (veq v ov); [reflexivity|discriminate].
  - intros H. unfold model_diff.
    rewrite (flat_map_nil _ a).
    2:{ intros [k v] Hin. cbn [fst]. destruct (in_vlookup k v a Hin) as [v' Hv'].
        specialize (H k). rewrite Hv' in H. unfold opt_veq in H.
        destruct (vlookup k b); [reflexivity|contradiction]. }
    rewrite (flat_map_nil _ b).
    2:{ intros [k v] Hin. cbn [fst snd].
        specialize (H k). rewrite (vlookup_in k v b Hb Hin) in H. unfold opt_veq in H.
        destruct (vlookup k a) as [ov|]; [|contradiction]. rewrite H. reflexivity. }
    reflexivity.
Qed.

Lemma model_diff_delete_iff (a b : amapV) k :
  In (k, MDelete) (model_diff V veq a b) <-> (vlookup k a <> None /\ vlookup k b = None).
Proof.
  unfold model_diff. rewrite in_app_iff, !in_flat_map. split.
  - intros [((k1 & v1) & Hin & Hg)|((k1 & v1) & Hin & Hg)]; cbn [fst snd] in Hg.
    + destruct (vlookup k1 b) eqn:E; cbn in Hg; [contradiction|].
      destruct Hg as [Hg|[]]. injection Hg as ->.
      split; [|exact E]. destruct (in_vlookup k v1 a Hin) as [v' Hv']. congruence.
    + exfalso. destruct (vlookup k1 a) as [ov|]; [destruct (veq v1 ov)|]; cbn in Hg;
        repeat (destruct Hg as [Hg|Hg]; try discriminate); try contradiction.
  - intros [Hka Hkb]. left. destruct (vlookup k a) as [v|] eqn:E; [|congruence].
    exists (k, v). split; [apply vlookup_some_in; exact E|].
    cbn [fst]. rewrite Hkb. left. reflexivity.
Qed.

Lemma model_diff_set_value (a b : amapV) k v :
  NoDup (map fst b) -> In (k, MSet v) (model_diff V veq a b) -> vlookup k b = Some v.
Proof.
  intros Hb. unfold model_diff. rewrite in_app_iff, !in_flat_map.
  intros [((k1 & v1) & Hin & Hg)|((k1 & v1) & Hin & Hg)]; cbn [fst snd] in Hg.
  - exfalso. destruct (vlookup k1 b); cbn in Hg; [contradiction|].
    destruct Hg as [Hg|[]]. discriminate.
  - assert (E : (k1, MSet v1) = (k, MSet v)).
    { destruct (vlookup k1 a) as [ov|]; [destruct (veq v1 ov)|]; cbn in Hg;
        [contradiction| |]; (destruct Hg as [Hg|[]]; exact Hg). }
    injection E as -> ->. apply vlookup_in; assumption.
Qed.

Theorem model_script_correct_pf (a b : amapV) :
  veq_equivalence veq -> NoDup (map fst a) -> NoDup (map fst b) ->
  model_equiv veq (apply_change (model_diff V veq a b) a) b /\
  (forall k, In (k, MDelete) (model_diff V veq a b) <-> (vlookup k a <> None /\ vlookup k b = None)) /\
  (forall k v, In (k, MSet v) (model_diff V veq a b) -> vlookup k b = Some v) /\
  (model_diff V veq a b = [] <-> model_equiv veq b a) /\
  change_event (@nil (bytes * mval)) = [].
Proof.
  intros Heq Ha Hb. split; [|split; [|split; [|split]]].
  - apply model_apply_pf; try assumption. apply model_equiv_refl. apply Heq.
  - intros k. apply model_diff_delete_iff.
  - intros k v. apply model_diff_set_value. exact Hb.
  - apply model_diff_nil_iff; assumption.
  - reflexivity.
Qed.

End Model.
