(* C10: changeHandler / getResource and the coherence of a client over a whole
   history of store mutations.  Lemmas <name>_pf are what Props/C10.v states. *)
From GoRes Require Import Diff.Spec.
From GoRes Require Export Diff.ProofsColl Diff.ProofsModel.
From Coq Require Import Lia Arith.
Local Open Scope nat_scope.

Lemma Forall2_firstn {A B} (R : A -> B -> Prop) n l l' : Forall2 R l l' -> Forall2 R (firstn n l) (firstn n l').
Proof. intros H. revert n. induction H; intros [|n]; cbn; constructor; auto. Qed.
Lemma Forall2_skipn {A B} (R : A -> B -> Prop) n l l' : Forall2 R l l' -> Forall2 R (skipn n l) (skipn n l').
Proof. intros H. revert n. induction H; intros [|n]; cbn; try constructor; auto. Qed.
Lemma Forall2_trans {A} (R : A -> A -> Prop) :
  (forall x y z, R x y -> R y z -> R x z) -> forall l1 l2 l3, Forall2 R l1 l2 -> Forall2 R l2 l3 -> Forall2 R l1 l3.
Proof.
  intros HR l1 l2 l3 H. revert l3. induction H; intros l3 H3; inversion H3; subst; constructor; eauto.
Qed.
Lemma Forall2_refl_all {A} (R : A -> A -> Prop) : (forall x, R x x) -> forall l, Forall2 R l l.
Proof. intros HR. induction l; constructor; auto. Qed.

Section Handler.
Variable V : Type.
Variable veq : V -> V -> bool.
Hypothesis Heq : veq_equivalence veq.
Notation veqP := (@veqP V veq).
Notation rv := (rv V).
Notation event := (event V).
Notation cstate := (cstate V).

Let Hrefl : veq_refl veq := proj1 Heq.
Let Hsym : veq_sym veq := proj1 (proj2 Heq).
Let Htrans : veq_trans veq := proj2 (proj2 Heq).

(* ---------- the reference client on collections ---------- *)
Lemma apply_coll_rel (e : event) (l a r : list V) :
  Forall2 veqP l a -> apply_coll e a = Some r ->
  exists r', apply_coll e l = Some r' /\ Forall2 veqP r' r.
Proof.
  intros Hla He. pose proof (Forall2_len _ _ _ Hla) as Hlen.
  destruct e as [ch|i|v i|d|]; cbn [apply_coll] in *; try discriminate; rewrite Hlen.
  - destruct (i <? length a); [|discriminate]. injection He as <-.
    eexists. split; [reflexivity|]. unfold remove_at.
    apply Forall2_app; [apply Forall2_firstn|apply Forall2_skipn]; exact Hla.
  - destruct (i <=? length a); [|discriminate]. injection He as <-.
    eexists. split; [reflexivity|]. unfold insert_at.
    apply Forall2_app; [apply Forall2_firstn; exact Hla|].
    constructor; [apply Hrefl|apply Forall2_skipn; exact Hla].
Qed.

Lemma apply_colls_rel (es : list event) (l a r : list V) :
  Forall2 veqP l a -> apply_colls es a = Some r ->
  exists r', apply_colls es l = Some r' /\ Forall2 veqP r' r.
Proof.
  revert l a. induction es as [|e es IH]; intros l a Hla H; cbn [apply_colls] in *.
  - injection H as <-. eauto.
  - destruct (apply_coll e a) as [a'|] eqn:Ea; [|discriminate].
    destruct (apply_coll_rel e l a a' Hla Ea) as (l' & El & Hl'). rewrite El.
    eapply IH; eassumption.
Qed.

Lemma apply_events_colls (es : list event) (l r : list V) :
  apply_colls es l = Some r -> apply_events es (CPresent (RC l)) = Some (CPresent (RC r)).
Proof.
  revert l. induction es as [|e es IH]; intros l H; cbn [apply_colls apply_events] in *.
  - congruence.
  - destruct (apply_coll e l) as [l'|] eqn:El; [|discriminate].
    assert (Hev : apply_event e (CPresent (RC l)) = Some (CPresent (RC l'))).
    { destruct e; try (cbn [apply_coll] in El; discriminate); cbn [apply_event]; rewrite El; reflexivity. }
    rewrite Hev. apply IH. exact H.
Qed.

Lemma apply_events_app (e1 e2 : list event) (c : cstate) :
  apply_events (e1 ++ e2) c = match apply_events e1 c with Some c' => apply_events e2 c' | None => None end.
Proof.
  revert c. induction e1 as [|e e1 IH]; intros c; cbn; [reflexivity|].
  destruct (apply_event e c); [apply IH|reflexivity].
Qed.

Lemma rv_equiv_refl (v : rv) : rv_equiv veq v v.
Proof.
  destruct v as [m|c|]; cbn.
  - apply model_equiv_refl. exact Hrefl.
  - apply Forall2_refl_all. exact Hrefl.
  - exact I.
Qed.

(* ---------- what the handler substitutes = what get serves ---------- *)
Definition eff (cfg : config V) (id : bytes) (x : option rv) : option rv :=
  match c_trans cfg with
  | Some t => match x with Some v => tr_transform t id v | None => c_def cfg end
  | None => match c_def cfg with Some _ => or_else x (c_def cfg) | None => x end
  end.

Definition cl (o : option rv) : cstate := match o with Some v => CPresent v | None => CMissing end.

Lemma is_nil_false {A} (l : list A) : l <> [] -> is_nil l = false.
Proof. destruct l; [congruence|reflexivity]. Qed.

Lemma view_eff cfg id rid st : cfg_ok cfg id rid -> view cfg id rid st = cl (eff cfg id st).
Proof.
  intros (Hserved & Hid & Hdef & Htr). unfold view, get_resource, eff, one_store.
  destruct (c_trans cfg) as [t|].
  - destruct Htr as (Hrid & Hridne & _ & _). rewrite Hrid.
    rewrite (is_nil_false id Hid), beq_refl. cbn [andb].
    destruct st as [v|].
    + destruct (tr_transform t id v); reflexivity.
    + destruct (c_def cfg); reflexivity.
  - subst rid. cbn [andb]. rewrite (is_nil_false id Hid), beq_refl.
    destruct st as [v|]; destruct (c_def cfg); reflexivity.
Qed.

Lemma eff_typed cfg id rid x v :
  cfg_ok cfg id rid -> oraw_ok cfg x -> eff cfg id x = Some v -> rv_typed (c_typ cfg) v.
Proof.
  intros (_ & _ & Hdef & Htr) Hx. unfold eff, oraw_ok, raw_ok in *.
  destruct (c_trans cfg) as [t|].
  - destruct Htr as (_ & _ & _ & Htyped). destruct x as [w|]; intros H.
    + eapply Htyped. exact H.
    + apply Hdef. exact H.
  - destruct (c_def cfg) as [d|] eqn:Ed.
    + destruct x as [w|]; cbn [or_else]; intros H; injection H as <-; [exact Hx|apply Hdef; reflexivity].
    + destruct x as [w|]; intros H; [injection H as <-; exact Hx|discriminate].
Qed.

Lemma change_handler_eff cfg id rid x y :
  cfg_ok cfg id rid ->
  change_handler V veq cfg id x y =
  match eff cfg id x, eff cfg id y with
  | None, None => HOk []
  | None, Some v => HOk [(rid, ECreate v)]
  | Some _, None => HOk [(rid, EDelete)]
  | Some bv, Some av =>
    match c_typ cfg, bv, av with
    | TModel, RM a, RM b => HOk (map (pair rid) (change_event (model_diff V veq a b)))
    | TCollection, RC a, RC b =>
      match collection_diff V veq a b with
      | DOk es => HOk (map (pair rid) es)
      | DOutOfFuel => HFuel
      | DPanic => HPanic
      end
    | _, _, _ => HOk []
    end
  end.
Proof.
  intros (Hserved & Hid & Hdef & Htr). unfold change_handler, eff.
  destruct (c_trans cfg) as [t|].
  - destruct Htr as (_ & Hridne & Hto & _).
    set (bx := match x with Some v => tr_transform t id v | None => c_def cfg end).
    set (ay := match y with Some v => tr_transform t id v | None => c_def cfg end).
    destruct ay as [av|]; [|destruct bx as [bv|]].
    + rewrite Hto, (is_nil_false rid Hridne), Hserved. cbn [andb negb]. reflexivity.
    + rewrite Hto, (is_nil_false rid Hridne), Hserved. cbn [andb negb]. reflexivity.
    + rewrite (is_nil_false id Hid). cbn [andb]. destruct (negb (c_served cfg id)); reflexivity.
  - subst rid. cbn [andb]. destruct (c_def cfg) as [d|]; rewrite Hserved; cbn [negb]; reflexivity.
Qed.

(* ---------- one call of the change handler keeps any equivalent client coherent ---------- *)
Lemma handler_coherent cfg id rid x y :
  cfg_ok cfg id rid -> oraw_ok cfg x -> oraw_ok cfg y ->
  exists evs,
    change_handler V veq cfg id x y = HOk evs /\
    Forall (fun e => fst e = rid) evs /\
    forall c, cstate_equiv veq c (view cfg id rid x) ->
      exists c', apply_events (map snd evs) c = Some c' /\ cstate_equiv veq c' (view cfg id rid y).
Proof.
  intros Hok Hx Hy.
  rewrite (change_handler_eff cfg id rid x y Hok), !(view_eff cfg id rid _ Hok).
  pose proof (eff_typed cfg id rid x) as Tx. pose proof (eff_typed cfg id rid y) as Ty.
  destruct (eff cfg id x) as [bv|]; destruct (eff cfg id y) as [av|]; cbn [cl].
  - specialize (Tx bv Hok Hx eq_refl). specialize (Ty av Hok Hy eq_refl).
    destruct (c_typ cfg); destruct bv as [a|a|]; try contradiction; destruct av as [b|b|]; try contradiction;
      cbn [rv_typed] in Tx, Ty.
    + (* model *)
      eexists. split; [reflexivity|]. split.
      { apply Forall_forall. intros e He. apply in_map_iff in He. destruct He as (e0 & <- & _). reflexivity. }
      intros c Hc. destruct c as [|[m|l|]]; cbn in Hc; try contradiction.
      pose proof (model_apply_pf V veq a b m Heq Tx Ty Hc) as Hres.
      rewrite map_map. cbn [snd]. rewrite map_id.
      unfold change_event. destruct (model_diff V veq a b) as [|p ch] eqn:Ed; cbn [is_nil apply_events apply_event].
      * eexists. split; [reflexivity|]. exact Hres.
      * eexists. split; [reflexivity|]. exact Hres.
    + (* collection *)
      destruct (collection_script_correct_pf V veq Hrefl a b) as (es & r & Hd & Hap & Hrb).
      rewrite Hd. eexists. split; [reflexivity|]. split.
      { apply Forall_forall. intros e He. apply in_map_iff in He. destruct He as (e0 & <- & _). reflexivity. }
      intros c Hc. destruct c as [|[m|l|]]; cbn in Hc; try contradiction.
      destruct (apply_colls_rel es l a r Hc Hap) as (r' & Hl & Hr').
      rewrite map_map. cbn [snd]. rewrite map_id.
      rewrite (apply_events_colls es l r' Hl).
      eexists. split; [reflexivity|]. cbn.
      eapply Forall2_trans; [exact Htrans|exact Hr'|exact Hrb].
  - eexists. split; [reflexivity|]. split; [repeat constructor|].
    intros c Hc. destruct c as [|cv]; cbn in Hc; [contradiction|].
    cbn. eexists. split; [reflexivity|exact I].
  - eexists. split; [reflexivity|]. split; [repeat constructor|].
    intros c Hc. destruct c as [|cv]; cbn in Hc; [|contradiction].
    cbn. eexists. split; [reflexivity|]. apply rv_equiv_refl.
  - eexists. split; [reflexivity|]. split; [constructor|].
    intros c Hc. cbn. eauto.
Qed.

(* a mutation that does not alter the served representation publishes nothing *)
Theorem unchanged_publishes_nothing_pf cfg id rid x y :
  cfg_ok cfg id rid -> oraw_ok cfg x -> oraw_ok cfg y ->
  cstate_equiv veq (view cfg id rid x) (view cfg id rid y) ->
  change_handler V veq cfg id x y = HOk [].
Proof.
  intros Hok Hx Hy.
  rewrite (change_handler_eff cfg id rid x y Hok), !(view_eff cfg id rid _ Hok).
  pose proof (eff_typed cfg id rid x) as Tx. pose proof (eff_typed cfg id rid y) as Ty.
  destruct (eff cfg id x) as [bv|]; destruct (eff cfg id y) as [av|]; cbn [cl cstate_equiv]; try contradiction;
    [|reflexivity].
  specialize (Tx bv Hok Hx eq_refl). specialize (Ty av Hok Hy eq_refl).
  destruct (c_typ cfg); destruct bv as [a|a|]; try contradiction; destruct av as [b|b|]; try contradiction;
    cbn [rv_typed rv_equiv] in *; intros He.
  - assert (Hd : model_diff V veq a b = []).
    { apply model_diff_nil_iff; try assumption.
      intros k. specialize (He k). unfold opt_veq in *.
      destruct (vlookup k a), (vlookup k b); try contradiction; try exact I. apply Hsym. exact He. }
    rewrite Hd. reflexivity.
  - apply (no_events_iff_equal_pf V veq Hrefl) in He. rewrite He. reflexivity.
Qed.

(* create / delete are announced exactly when get switches between missing and present,
   on the resource id; otherwise only change/add/remove events on that id *)
Definition is_diff_event (e : event) : Prop :=
  match e with ECreate _ | EDelete => False | _ => True end.

Theorem create_delete_on_rid_pf cfg id rid x y :
  cfg_ok cfg id rid -> oraw_ok cfg x -> oraw_ok cfg y ->
  exists evs, change_handler V veq cfg id x y = HOk evs /\
  match view cfg id rid x, view cfg id rid y with
  | CMissing, CMissing => evs = []
  | CMissing, CPresent v => evs = [(rid, ECreate v)]
  | CPresent _, CMissing => evs = [(rid, EDelete)]
  | CPresent _, CPresent _ => Forall (fun e => fst e = rid /\ is_diff_event (snd e)) evs
  end.
Proof.
  intros Hok Hx Hy.
  rewrite (change_handler_eff cfg id rid x y Hok), !(view_eff cfg id rid _ Hok).
  pose proof (eff_typed cfg id rid x) as Tx. pose proof (eff_typed cfg id rid y) as Ty.
  destruct (eff cfg id x) as [bv|]; destruct (eff cfg id y) as [av|]; cbn [cl]; try (eexists; split; reflexivity).
  specialize (Tx bv Hok Hx eq_refl). specialize (Ty av Hok Hy eq_refl).
  destruct (c_typ cfg); destruct bv as [a|a|]; try contradiction; destruct av as [b|b|]; try contradiction.
  - eexists. split; [reflexivity|]. unfold change_event.
    destruct (is_nil (model_diff V veq a b)); repeat constructor.
  - destruct (collection_script_correct_pf V veq Hrefl a b) as (es & r & Hd & Hap & _).
    rewrite Hd. eexists. split; [reflexivity|].
    clear Hd Tx Ty. revert a Hap. induction es as [|e es IH]; intros a Hap; cbn [map]; constructor.
    + split; [reflexivity|]. cbn [apply_colls] in Hap. destruct e; cbn in Hap; try discriminate; exact I.
    + cbn [apply_colls] in Hap. destruct (apply_coll e a) as [a'|]; [|discriminate]. eapply IH. exact Hap.
Qed.

(* ---------- whole histories ---------- *)
Lemma step_coherent cfg id rid st o :
  cfg_ok cfg id rid -> oraw_ok cfg st -> op_ok cfg o ->
  exists st' ok evs,
    store_step V veq cfg id st o = (st', ok, HOk evs) /\ oraw_ok cfg st' /\
    Forall (fun e => fst e = rid) evs /\
    forall c, cstate_equiv veq c (view cfg id rid st) ->
      exists c', apply_events (map snd evs) c = Some c' /\ cstate_equiv veq c' (view cfg id rid st').
Proof.
  intros Hok Hst Ho.
  assert (Hnoop : exists st' ok evs, (st, false, @HOk V []) = (st', ok, HOk evs) /\ oraw_ok cfg st' /\
            Forall (fun e => fst e = rid) evs /\
            forall c, cstate_equiv veq c (view cfg id rid st) ->
              exists c', apply_events (map snd evs) c = Some c' /\ cstate_equiv veq c' (view cfg id rid st')).
  { exists st, false, []. split; [reflexivity|]. split; [exact Hst|]. split; [constructor|]. intros c Hc. cbn. eauto. }
  destruct o as [v|v|]; destruct st as [old|]; cbn [store_step]; try exact Hnoop.
  - destruct (handler_coherent cfg id rid None (Some v) Hok I Ho) as (evs & H1 & H2 & H3).
    rewrite H1. exists (Some v), true, evs. repeat split; assumption.
  - destruct (handler_coherent cfg id rid (Some old) (Some v) Hok Hst Ho) as (evs & H1 & H2 & H3).
    rewrite H1. exists (Some v), true, evs. repeat split; assumption.
  - destruct (handler_coherent cfg id rid (Some old) None Hok Hst I) as (evs & H1 & H2 & H3).
    rewrite H1. exists None, true, evs. repeat split; assumption.
Qed.

Theorem coherent_pf cfg id rid st0 ops :
  cfg_ok cfg id rid -> oraw_ok cfg st0 -> Forall (op_ok cfg) ops ->
  exists st' evs c',
    run_history V veq cfg id st0 ops = (st', HOk evs) /\
    Forall (fun e => fst e = rid) evs /\
    apply_events (map snd evs) (view cfg id rid st0) = Some c' /\
    cstate_equiv veq c' (view cfg id rid st').
Proof.
  intros Hok Hst Hops.
  assert (G : forall c, cstate_equiv veq c (view cfg id rid st0) ->
    exists st' evs c', run_history V veq cfg id st0 ops = (st', HOk evs) /\
      Forall (fun e => fst e = rid) evs /\
      apply_events (map snd evs) c = Some c' /\ cstate_equiv veq c' (view cfg id rid st')).
  { revert st0 Hst. induction Hops as [|o ops Ho _ IH]; intros st0 Hst c Hc; cbn [run_history].
    - exists st0, [], c. repeat split; [constructor|exact Hc].
    - destruct (step_coherent cfg id rid st0 o Hok Hst Ho) as (st1 & ok & e1 & Hs & Hst1 & Hr1 & Hc1).
      rewrite Hs. destruct (Hc1 c Hc) as (c1 & Ha1 & He1).
      destruct (IH st1 Hst1 c1 He1) as (st2 & e2 & c2 & Hr & Hr2 & Ha2 & He2).
      rewrite Hr. exists st2, (e1 ++ e2), c2. split; [reflexivity|]. split; [apply Forall_app; split; assumption|].
      split; [|exact He2]. rewrite map_app, apply_events_app, Ha1. exact Ha2. }
  apply G.
  destruct (view cfg id rid st0) as [|v]; cbn; [exact I|apply rv_equiv_refl].
Qed.

End Handler.

(* jv_eqb (the value type the correspondence harness uses) is an equivalence; it is Leibniz equality *)
Lemma jv_eqb_eq (a b : jv) : jv_eqb a b = true <-> a = b.
Proof.
  destruct a, b; cbn; split; intros H; try discriminate; try (apply beq_eq in H; congruence);
    injection H as ->; apply beq_refl.
Qed.
Lemma jv_equivalence_pf : veq_equivalence jv_eqb.
Proof.
  split; [|split].
  - intros x. apply jv_eqb_eq. reflexivity.
  - intros x y H. apply jv_eqb_eq in H. apply jv_eqb_eq. congruence.
  - intros x y z H1 H2. apply jv_eqb_eq in H1, H2. apply jv_eqb_eq. congruence.
Qed.

(* with Leibniz equality "equal up to Equal" is equality *)
Lemma Forall2_jv_eq (r b : list jv) : Forall2 (veqP jv_eqb) r b -> r = b.
Proof.
  induction 1 as [|x y r b Hxy _ IH]; [reflexivity|].
  apply jv_eqb_eq in Hxy. congruence.
Qed.
Theorem collection_script_correct_jv_pf (a b : list jv) :
  exists es, collection_diff jv jv_eqb a b = DOk es /\ apply_colls es a = Some b.
Proof.
  destruct (collection_script_correct_pf jv jv_eqb (proj1 jv_equivalence_pf) a b) as (es & r & H1 & H2 & H3).
  apply Forall2_jv_eq in H3. subst r. eauto.
Qed.
