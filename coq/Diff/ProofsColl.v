(* C10: collectionDiff.  The remove/add script turns a into b (up to Equal) with
   every index in range when applied - for ANY answers of the two LCS-table
   comparisons (oracle_ok), hence independently of the table being optimal. *)
From GoRes Require Import Diff.Spec.
From Coq Require Import ZArith Lia Arith.
Local Open Scope nat_scope.

(* ---------- generic list facts ---------- *)
Lemma Forall2_len {A B} (R : A -> B -> Prop) l l' : Forall2 R l l' -> length l = length l'.
Proof. induction 1; cbn; congruence. Qed.

Lemma Forall2_snoc {A B} (R : A -> B -> Prop) l l' x y :
  Forall2 R l l' -> R x y -> Forall2 R (l ++ [x]) (l' ++ [y]).
Proof. intros H1 H2. apply Forall2_app; auto. Qed.

Lemma Forall2_rev {A B} (R : A -> B -> Prop) l l' : Forall2 R l l' -> Forall2 R (rev l) (rev l').
Proof. induction 1; cbn; [constructor|]. apply Forall2_snoc; auto. Qed.

Lemma firstn_S_nth {A} (l : list A) j y :
  nth_error l j = Some y -> firstn (S j) l = firstn j l ++ [y].
Proof.
  revert j. induction l as [|x l IH]; intros [|j] H; cbn in *; try discriminate.
  - congruence.
  - f_equal. apply IH. exact H.
Qed.

Lemma nth_error_lt {A} (l : list A) j : j < length l -> exists y, nth_error l j = Some y.
Proof.
  intros H. destruct (nth_error l j) eqn:E; [eauto|].
  apply nth_error_None in E. lia.
Qed.

Lemma nth_error_bound {A} (l : list A) j y : nth_error l j = Some y -> j < length l.
Proof. intros H. apply nth_error_Some. congruence. Qed.

Section Coll.
Variable V : Type.
Variable veq : V -> V -> bool.
Notation veqP := (@veqP V veq).
Notation event := (event V).

Lemma remove_at_app (p : list V) x t : remove_at (length p) (p ++ x :: t) = p ++ t.
Proof.
  unfold remove_at. induction p as [|y p IH]; cbn; [reflexivity|].
  f_equal. exact IH.
Qed.

Lemma insert_at_app (p : list V) v t : insert_at (length p) v (p ++ t) = p ++ v :: t.
Proof.
  unfold insert_at. induction p as [|y p IH]; cbn.
  - destruct t; reflexivity.
  - f_equal. exact IH.
Qed.

Lemma apply_colls_app (e1 e2 : list event) l :
  apply_colls (e1 ++ e2) l =
  match apply_colls e1 l with Some l' => apply_colls e2 l' | None => None end.
Proof.
  revert l. induction e1 as [|e e1 IH]; intros l; cbn; [reflexivity|].
  destruct (apply_coll e l); [apply IH|reflexivity].
Qed.

Lemma apply_remove_app (p : list V) x t :
  apply_coll (ERemove (length p)) (p ++ x :: t) = Some (p ++ t).
Proof.
  cbn [apply_coll]. rewrite app_length. cbn [length].
  destruct (length p <? length p + S (length t)) eqn:E.
  - rewrite remove_at_app. reflexivity.
  - apply Nat.ltb_ge in E. lia.
Qed.

Lemma apply_add_app (p : list V) v t :
  apply_coll (EAdd v (length p)) (p ++ t) = Some (p ++ v :: t).
Proof.
  cbn [apply_coll]. rewrite app_length.
  destruct (length p <=? length p + length t) eqn:E.
  - rewrite insert_at_app. reflexivity.
  - apply Nat.leb_gt in E. lia.
Qed.

(* ---------- prefix trim ---------- *)
Lemma common_prefix_spec (a b : list V) :
  Forall2 veqP (firstn (common_prefix V veq a b) a) (firstn (common_prefix V veq a b) b) /\
  common_prefix V veq a b <= length a /\ common_prefix V veq a b <= length b.
Proof.
  revert b. induction a as [|x a IH]; intros [|y b]; cbn; try (repeat split; (lia || constructor)).
  destruct (veq x y) eqn:E; cbn.
  - destruct (IH b) as (H1 & H2 & H3). repeat split; try lia. constructor; assumption.
  - repeat split; (lia || constructor).
Qed.

Lemma common_prefix_all (a b : list V) :
  Forall2 veqP a b -> common_prefix V veq a b = length a.
Proof.
  induction 1 as [|x y a b Hxy _ IH]; cbn; [reflexivity|].
  unfold Spec.veqP in Hxy. rewrite Hxy, IH. reflexivity.
Qed.

(* ---------- the back-track yields an alignment ---------- *)
Section Trace.
Variable s : nat.
Variables aa bb : list V.

(* trace i j rems st K B: st is a possible log of the loop started at (i, j) with idx = s+i
   and the given rems; K = the elements of aa[:i] it keeps, B = what aa[:i] becomes (= bb[:j] up to Equal) *)
Inductive trace : nat -> nat -> nat -> list step -> list V -> list V -> Prop :=
| T0 : forall rems, trace 0 0 rems [] [] []
| TKeep : forall i j rems st K B x y,
    nth_error aa i = Some x -> nth_error bb j = Some y -> veq x y = true ->
    trace i j rems st K B -> trace (S i) (S j) rems (SKeep :: st) (K ++ [x]) (B ++ [x])
| TAdd : forall i j rems st K B y,
    nth_error bb j = Some y ->
    trace i j rems st K B -> trace i (S j) rems (SAdd j (s + i) rems :: st) K (B ++ [y])
| TRem : forall i j rems st K B x,
    nth_error aa i = Some x ->
    trace i j (S rems) st K B -> trace (S i) j rems (SRem (s + i) :: st) K B.

Lemma bt_trace (ge lt : nat -> nat -> option bool) :
  (forall i j, 0 < i <= length aa -> 0 < j <= length bb ->
     exists g, ge i j = Some g /\ lt i j = Some (negb g)) ->
  forall fuel i j rems, i <= length aa -> j <= length bb -> i + j < fuel ->
  exists st K B, backtrack V veq ge lt aa bb fuel i j (s + i) rems = BOk st /\ trace i j rems st K B.
Proof.
  intros Hor. induction fuel as [|f IH]; intros i j rems Hi Hj Hf; [lia|].
  cbn [backtrack].
  destruct i as [|i'], j as [|j'].
  - cbn. exists [], [], []. split; [reflexivity|constructor].
  - (* only adds remain *)
    replace (S j' - 1) with j' by lia.
    change (0 <? 0) with false. cbn [andb].
    change (0 <? S j') with true. change (0 =? 0) with true. cbv iota.
    destruct (IH 0 j' rems) as (st & K & B & Hbt & Htr); try lia.
    destruct (nth_error_lt bb j') as [y Hy]; [lia|].
    rewrite Hbt. cbn [bcons].
    exists (SAdd j' (s + 0) rems :: st), K, (B ++ [y]). split; [reflexivity|].
    apply TAdd; assumption.
  - (* only removes remain *)
    replace (S i' - 1) with i' by lia.
    change (0 <? 0) with false. rewrite andb_false_r. cbv iota.
    change (0 <? S i') with true. change (0 =? 0) with true. cbv iota.
    replace (s + S i' - 1) with (s + i') by lia. replace (rems + 1) with (S rems) by lia.
    destruct (IH i' 0 (S rems)) as (st & K & B & Hbt & Htr); try lia.
    destruct (nth_error_lt aa i') as [x Hx]; [lia|].
    rewrite Hbt. cbn [bcons].
    exists (SRem (s + i') :: st), K, B. split; [reflexivity|].
    apply TRem with (x := x); assumption.
  - replace (S i' - 1) with i' by lia. replace (S j' - 1) with j' by lia.
    change (0 <? S i') with true. change (0 <? S j') with true. cbn [andb].
    change (S i' =? 0) with false. change (S j' =? 0) with false. cbv iota.
    destruct (nth_error_lt aa i') as [x Hx]; [lia|].
    destruct (nth_error_lt bb j') as [y Hy]; [lia|].
    rewrite Hx, Hy.
    replace (s + S i' - 1) with (s + i') by lia. replace (rems + 1) with (S rems) by lia.
    destruct (veq x y) eqn:Exy.
    + destruct (IH i' j' rems) as (st & K & B & Hbt & Htr); try lia.
      rewrite Hbt. cbn [bcons].
      exists (SKeep :: st), (K ++ [x]), (B ++ [x]). split; [reflexivity|].
      apply TKeep with (y := y); assumption.
    + destruct (Hor (S i') (S j')) as (g & Hge & Hlt); try lia.
      rewrite Hge. destruct g.
      * destruct (IH (S i') j' rems) as (st & K & B & Hbt & Htr); try lia.
        rewrite Hbt. cbn [bcons].
        exists (SAdd j' (s + S i') rems :: st), K, (B ++ [y]). split; [reflexivity|].
        apply TAdd; assumption.
      * rewrite Hlt. cbn [negb].
        destruct (IH i' (S j') (S rems)) as (st & K & B & Hbt & Htr); try lia.
        rewrite Hbt. cbn [bcons].
        exists (SRem (s + i') :: st), K, B. split; [reflexivity|].
        apply TRem with (x := x); assumption.
Qed.

Fixpoint nkeep (st : list step) : nat :=
  match st with [] => 0 | SKeep :: r => S (nkeep r) | _ :: r => nkeep r end.

Lemma trace_counts i j rems st K B :
  trace i j rems st K B ->
  i = nkeep st + length (rems_of st) /\ j = nkeep st + length (adds_of st) /\
  length B = j /\ i <= length aa /\ j <= length bb.
Proof.
  induction 1 as [r|i j r st K B x y Hx Hy Hxy _ IH|i j r st K B y Hy _ IH|i j r st K B x Hx _ IH];
    cbn [nkeep rems_of adds_of length].
  - repeat split; lia.
  - apply nth_error_bound in Hx. apply nth_error_bound in Hy.
    rewrite app_length. cbn [length]. lia.
  - apply nth_error_bound in Hy. rewrite app_length. cbn [length]. lia.
  - apply nth_error_bound in Hx. lia.
Qed.

Lemma trace_B i j rems st K B :
  veq_refl veq -> trace i j rems st K B -> Forall2 veqP B (firstn j bb).
Proof.
  intros Hrefl.
  induction 1 as [r|i j r st K B x y Hx Hy Hxy _ IH|i j r st K B y Hy _ IH|i j r st K B x Hx _ IH].
  - constructor.
  - rewrite (firstn_S_nth bb j y Hy). apply Forall2_snoc; assumption.
  - rewrite (firstn_S_nth bb j y Hy). apply Forall2_snoc; [assumption|apply Hrefl].
  - assumption.
Qed.

(* the adds as they should be: bb[n] at s+n, front to back *)
Fixpoint adds_spec (st : list step) : list event :=
  match st with
  | [] => []
  | SAdd n _ _ :: r => adds_spec r ++ match nth_error bb n with Some y => [EAdd y (s + n)] | None => [] end
  | _ :: r => adds_spec r
  end.

Lemma emit_adds_app (bb' : list V) R k (l1 l2 : list (nat * nat * nat)) :
  emit_adds bb' R k (l1 ++ l2) =
  match emit_adds bb' R k l1, emit_adds bb' R (k + length l1) l2 with
  | Some x, Some y => Some (x ++ y)
  | _, _ => None
  end.
Proof.
  revert k. induction l1 as [|[[n idx] r] l1 IH]; intros k; cbn [emit_adds app length].
  - rewrite Nat.add_0_r. destruct (emit_adds bb' R k l2); reflexivity.
  - destruct (nth_error bb' n); [|reflexivity].
    destruct (Z.ltb _ 0); [reflexivity|].
    rewrite IH. replace (S k + length l1) with (k + S (length l1)) by lia.
    destruct (emit_adds bb' R (S k) l1); [|reflexivity].
    destruct (emit_adds bb' R (k + S (length l1)) l2); reflexivity.
Qed.

(* (4) the transliterated index arithmetic gives exactly those indices *)
Lemma trace_emit i j rems st K B :
  trace i j rems st K B ->
  emit_adds bb (rems + length (rems_of st)) 0 (rev (adds_of st)) = Some (adds_spec st).
Proof.
  induction 1 as [r|i j r st K B x y Hx Hy Hxy Htr IH|i j r st K B y Hy Htr IH|i j r st K B x Hx Htr IH];
    cbn [adds_of rems_of rev adds_spec length].
  - reflexivity.
  - exact IH.
  - rewrite emit_adds_app, IH. cbn [emit_adds]. rewrite Hy.
    apply trace_counts in Htr. destruct Htr as (Hi & Hj & _).
    rewrite rev_length.
    set (z := (Z.of_nat (s + i) - Z.of_nat (r + length (rems_of st)) + Z.of_nat r +
               Z.of_nat (0 + length (adds_of st)))%Z).
    assert (Hz : z = Z.of_nat (s + j)) by (unfold z; lia).
    rewrite Hz. destruct (Z.ltb_spec (Z.of_nat (s + j)) 0) as [Hneg|_]; [lia|].
    rewrite Nat2Z.id. reflexivity.
  - replace (r + S (length (rems_of st))) with (S r + length (rems_of st)) by lia. exact IH.
Qed.

Variable pre : list V.
Hypothesis Hpre : length pre = s.

(* (2) the removes, applied in the order they are published, stay in range *)
Lemma trace_removes i j rems st K B :
  trace i j rems st K B ->
  forall T, apply_colls (map ERemove (rems_of st)) (pre ++ firstn i aa ++ T) = Some (pre ++ K ++ T).
Proof.
  induction 1 as [r|i j r st K B x y Hx Hy Hxy Htr IH|i j r st K B y Hy Htr IH|i j r st K B x Hx Htr IH];
    intros T; cbn [rems_of map].
  - reflexivity.
  - rewrite (firstn_S_nth aa i x Hx). rewrite <- !app_assoc. cbn [app]. apply IH.
  - apply IH.
  - cbn [apply_colls].
    rewrite (firstn_S_nth aa i x Hx). rewrite <- app_assoc. cbn [app].
    assert (Hlen : s + i = length (pre ++ firstn i aa)).
    { rewrite app_length, Hpre. apply trace_counts in Htr.
      rewrite firstn_length_le; lia. }
    rewrite app_assoc, Hlen, apply_remove_app, <- app_assoc. apply IH.
Qed.

(* (3) the adds stay in range and rebuild bb[:j] *)
Lemma trace_adds i j rems st K B :
  trace i j rems st K B ->
  forall T, apply_colls (adds_spec st) (pre ++ K ++ T) = Some (pre ++ B ++ T).
Proof.
  induction 1 as [r|i j r st K B x y Hx Hy Hxy Htr IH|i j r st K B y Hy Htr IH|i j r st K B x Hx Htr IH];
    intros T; cbn [adds_spec].
  - reflexivity.
  - rewrite <- !app_assoc. cbn [app]. apply IH.
  - rewrite Hy, apply_colls_app, IH. cbn [apply_colls].
    assert (Hlen : s + j = length (pre ++ B)).
    { rewrite app_length, Hpre. apply trace_counts in Htr. lia. }
    rewrite app_assoc, Hlen, apply_add_app, <- !app_assoc. reflexivity.
  - apply IH.
Qed.

End Trace.

(* ---------- the table: every access of fill and of the back-track is in range ---------- *)
Lemma tset_ok (c : list nat) k v : k < length c -> exists c', tset c k v = Some c' /\ length c' = length c.
Proof.
  revert k. induction c as [|x c IH]; intros k Hk; cbn in Hk; [lia|].
  destruct k as [|k]; cbn [tset].
  - eexists. split; [reflexivity|reflexivity].
  - destruct (IH k) as (c' & H1 & H2); [lia|]. rewrite H1.
    eexists. split; [reflexivity|]. cbn. congruence.
Qed.

Lemma tget_ok (c : list nat) k : k < length c -> exists d, tget c k = Some d.
Proof. apply nth_error_lt. Qed.

Lemma fill_row_ok m n i x (bb : list V) j c :
  length c = (m + 1) * (n + 1) -> i < m -> j + length bb = n ->
  exists c', fill_row V veq (m + 1) i x bb j c = Some c' /\ length c' = length c.
Proof.
  revert j c. induction bb as [|y bb IH]; intros j c Hc Hi Hj; cbn [fill_row].
  - eauto.
  - cbn [length] in Hj.
    destruct (tget_ok c (i + (m + 1) * j)) as [d0 Hd0]; [nia|].
    destruct (tget_ok c (i + 1 + (m + 1) * j)) as [d1 Hd1]; [nia|].
    destruct (tget_ok c (i + (m + 1) * (j + 1))) as [d2 Hd2]; [nia|].
    rewrite Hd0, Hd1, Hd2.
    assert (Hcell : exists v, (if veq x y then Some (d0 + 1) else Some (if d1 <? d2 then d2 else d1)) = Some v)
      by (destruct (veq x y); eauto).
    destruct Hcell as [v Hv]. rewrite Hv.
    destruct (tset_ok c (i + 1 + (m + 1) * (j + 1)) v) as (c1 & Hs & Hl); [nia|].
    rewrite Hs.
    destruct (IH (S j) c1) as (c' & H1 & H2); try lia.
    exists c'. split; [exact H1|lia].
Qed.

Lemma fill_ok m n (aa bb : list V) i c :
  length c = (m + 1) * (n + 1) -> i + length aa = m -> length bb = n ->
  exists c', fill V veq (m + 1) aa i bb c = Some c' /\ length c' = length c.
Proof.
  revert i c. induction aa as [|x aa IH]; intros i c Hc Hi Hb; cbn [fill].
  - eauto.
  - cbn [length] in Hi.
    destruct (fill_row_ok m n i x bb 0 c) as (c1 & H1 & H2); try lia.
    rewrite H1.
    destruct (IH (S i) c1) as (c' & H3 & H4); try lia.
    exists c'. split; [exact H3|lia].
Qed.

Lemma tbl_oracle_ok : oracle_ok tbl_ge tbl_lt.
Proof.
  intros c m n i j Hc Hi Hj. unfold tbl_ge, tbl_lt, tbl_cmp.
  destruct (tget_ok c (i + (m + 1) * (j - 1))) as [x Hx]; [nia|].
  destruct (tget_ok c (i - 1 + (m + 1) * j)) as [y Hy]; [nia|].
  rewrite Hx, Hy. exists (y <=? x). split; [reflexivity|].
  rewrite Nat.ltb_antisym. reflexivity.
Qed.

(* ---------- (5) trim + composition ---------- *)
Theorem collection_script_correct_any_oracle_pf :
  veq_refl veq ->
  forall ge lt, oracle_ok ge lt ->
  forall a b, exists es r,
    collection_diff_with V veq ge lt a b = DOk es /\
    apply_colls es a = Some r /\ Forall2 veqP r b.
Proof.
  intros Hrefl ge lt Hor a b. unfold collection_diff_with.
  destruct (common_prefix_spec a b) as (Hpre & Hsa & Hsb).
  set (s := common_prefix V veq a b) in *.
  set (a1 := skipn s a). set (b1 := skipn s b).
  assert (Ha : a = firstn s a ++ a1) by (symmetry; apply firstn_skipn).
  assert (Hb : b = firstn s b ++ b1) by (symmetry; apply firstn_skipn).
  destruct (is_nil a1 && is_nil b1) eqn:Enil.
  - exists [], a. split; [reflexivity|]. split; [reflexivity|].
    apply andb_true_iff in Enil. destruct Enil as [E1 E2].
    destruct a1; [|discriminate]. destruct b1; [|discriminate].
    rewrite app_nil_r in Ha, Hb. rewrite Ha, Hb. exact Hpre.
  - clear Enil.
    destruct (common_prefix_spec (rev a1) (rev b1)) as (Hsuf & Hta & Htb).
    set (t := common_prefix V veq (rev a1) (rev b1)) in *.
    rewrite rev_length in Hta, Htb.
    set (aa := firstn (length a1 - t) a1). set (bb := firstn (length b1 - t) b1).
    set (posta := skipn (length a1 - t) a1). set (postb := skipn (length b1 - t) b1).
    assert (Ha1 : a1 = aa ++ posta) by (symmetry; apply firstn_skipn).
    assert (Hb1 : b1 = bb ++ postb) by (symmetry; apply firstn_skipn).
    assert (Hpost : Forall2 veqP posta postb).
    { rewrite !firstn_rev in Hsuf.
      replace (length a1 - (length a1 - t)) with t in Hsuf by lia.
      replace (length b1 - (length b1 - t)) with t in Hsuf by lia.
      apply Forall2_rev in Hsuf. rewrite !rev_involutive in Hsuf.
      exact Hsuf. }
    set (m := length aa). set (n := length bb).
    destruct (fill_ok m n aa bb 0 (repeat 0 ((m + 1) * (n + 1)))) as (c & Hfill & Hclen);
      [apply repeat_length|reflexivity|reflexivity|].
    rewrite repeat_length in Hclen.
    rewrite Hfill.
    destruct (tget_ok c ((m + 1) * (n + 1) - 1)) as [d Hd]; [nia|].
    rewrite Hd.
    destruct (bt_trace s aa bb (ge c (m + 1)) (lt c (m + 1))) with (fuel := m + n + 1) (i := m) (j := n) (rems := 0)
      as (st & K & B & Hbt & Htr); try (unfold m, n; lia).
    { intros i j Hi Hj. exact (Hor c m n i j Hclen Hi Hj). }
    replace (m + s) with (s + m) by lia. rewrite Hbt.
    assert (Hlp : length (firstn s a) = s) by (apply firstn_length_le; exact Hsa).
    pose proof (trace_emit s aa bb _ _ _ _ _ _ Htr) as Hemit. cbn [plus] in Hemit.
    rewrite Hemit.
    exists (map ERemove (rems_of st) ++ adds_spec s bb st), (firstn s a ++ B ++ posta).
    split; [reflexivity|]. split.
    + rewrite apply_colls_app.
      pose proof (trace_removes s aa bb (firstn s a) Hlp _ _ _ _ _ _ Htr posta) as Hrem.
      unfold m in Hrem. rewrite firstn_all in Hrem.
      rewrite Ha at 1. rewrite Ha1 at 1. rewrite Hrem.
      apply (trace_adds s aa bb (firstn s a) Hlp _ _ _ _ _ _ Htr).
    + rewrite Hb, Hb1.
      apply Forall2_app; [exact Hpre|].
      apply Forall2_app; [|exact Hpost].
      pose proof (trace_B s aa bb _ _ _ _ _ _ Hrefl Htr) as HB.
      unfold n in HB. rewrite firstn_all in HB. exact HB.
Qed.

Theorem collection_script_correct_pf :
  veq_refl veq ->
  forall a b, exists es r,
    collection_diff V veq a b = DOk es /\ apply_colls es a = Some r /\ Forall2 veqP r b.
Proof.
  intros Hrefl a b. apply collection_script_correct_any_oracle_pf; [exact Hrefl|apply tbl_oracle_ok].
Qed.

Theorem no_events_iff_equal_pf :
  veq_refl veq ->
  forall a b, collection_diff V veq a b = DOk [] <-> Forall2 veqP a b.
Proof.
  intros Hrefl a b. split.
  - intros H. destruct (collection_script_correct_pf Hrefl a b) as (es & r & H1 & H2 & H3).
    rewrite H in H1. injection H1 as <-. cbn in H2. injection H2 as <-. exact H3.
  - intros H. unfold collection_diff, collection_diff_with.
    rewrite (common_prefix_all a b H).
    rewrite skipn_all. rewrite (Forall2_len _ _ _ H) at 1. rewrite skipn_all. reflexivity.
Qed.

End Coll.
