(* Proofs of the C09 statements (imported by Props/C09.v). *)
From GoRes Require Import Pattern.Spec Pattern.Lemmas Pattern.Lemmas2 Pattern.Proofs.
From GoRes Require Import Subs.Spec Subs.ProofsTok Subs.ProofsElim.
From Coq Require Import Lia Arith.
Open Scope N_scope.

(* ---- ownership patterns ---- *)
Lemma owned_ok_toks : forall p, owned_pattern_ok p = true ->
  nats_valid_toks (tokens p) = true /\ forallb (fun t => negb (starts_dollar t)) (tokens p) = true /\
  forallb stok (tokens p) = true.
Proof.
  intros p H. unfold owned_pattern_ok, nats_valid_subject, no_dollar in H.
  apply andb_true_iff in H. destruct H as [V D]. split; [exact V|]. split; [exact D|].
  apply valid_stoks; assumption.
Qed.

Lemma owned_ok_nonnil : forall p, owned_pattern_ok p = true -> p <> [].
Proof. intros p H E. subst p. discriminate H. Qed.

Definition rtype_ok (t : bytes) : bool := nodot t && lit_tok t && negb (starts_dollar t).

Lemma rtype_parts : forall t, rtype_ok t = true -> nodot t = true /\ lit_tok t = true /\ starts_dollar t = false.
Proof.
  intros t H. unfold rtype_ok in H. apply andb_true_iff in H. destruct H as [H C].
  apply andb_true_iff in H. destruct H as [A B]. apply negb_true_iff in C. auto.
Qed.

Definition method_suffix (t : bytes) (ts : list bytes) : list bytes :=
  if negb (ends_gt ts) && negb (beq t t_get) then [[star]] else [].

Lemma req_pattern_toks : forall t p, rtype_ok t = true -> owned_pattern_ok p = true ->
  tokens (req_pattern t p) = t :: tokens p ++ method_suffix t (tokens p).
Proof.
  intros t p T O. destruct (rtype_parts t T) as (ND & _ & _).
  destruct (owned_ok_toks p O) as (_ & _ & S).
  assert (Base : tokens (t ++ dot :: p) = t :: tokens p).
  { rewrite tokens_app_dot, (tokens_single t ND). reflexivity. }
  unfold req_pattern, method_suffix.
  replace (last_is_gt (t ++ dot :: p)) with (ends_gt (tokens p)).
  - destruct (negb (ends_gt (tokens p)) && negb (beq t t_get)).
    + rewrite tokens_app_dot, Base. reflexivity.
    + rewrite Base, app_nil_r. reflexivity.
  - rewrite <- (pattern_last_gt p S). change (t ++ dot :: p) with (t ++ [dot] ++ p).
    rewrite app_assoc. symmetry. apply last_is_gt_app. apply owned_ok_nonnil, O.
Qed.

Lemma access_pattern_toks : forall p, tokens (access_pattern p) = t_access :: tokens p.
Proof. intros p. unfold access_pattern. rewrite tokens_app_dot. reflexivity. Qed.

Lemma forallb_app_b : forall (f : bytes -> bool) a b, forallb f (a ++ b) = forallb f a && forallb f b.
Proof. induction a as [|x a IH]; intros b; cbn [app forallb]; [reflexivity|]. rewrite IH, andb_assoc. reflexivity. Qed.

Lemma req_pattern_ok : forall t p, rtype_ok t = true -> owned_pattern_ok p = true ->
  owned_pattern_ok (req_pattern t p) = true.
Proof.
  intros t p T O. destruct (rtype_parts t T) as (_ & L & D).
  destruct (owned_ok_toks p O) as (V & ND & _).
  unfold owned_pattern_ok, nats_valid_subject, no_dollar. rewrite (req_pattern_toks t p T O).
  unfold method_suffix. destruct (ends_gt (tokens p)) eqn:E; cbn [negb andb].
  - rewrite app_nil_r. apply andb_true_iff. split.
    + apply valid_cons_lit; assumption.
    + cbn [forallb]. rewrite D, ND. reflexivity.
  - destruct (negb (beq t t_get)).
    + apply andb_true_iff. split.
      * apply valid_cons_lit; [exact L|]. apply valid_snoc_star; assumption.
      * cbn [forallb]. rewrite D, forallb_app_b, ND. reflexivity.
    + rewrite app_nil_r. apply andb_true_iff. split.
      * apply valid_cons_lit; assumption.
      * cbn [forallb]. rewrite D, ND. reflexivity.
Qed.

Lemma access_pattern_ok : forall p, owned_pattern_ok p = true -> owned_pattern_ok (access_pattern p) = true.
Proof.
  intros p O. destruct (owned_ok_toks p O) as (V & ND & _).
  unfold owned_pattern_ok, nats_valid_subject, no_dollar. rewrite access_pattern_toks.
  apply andb_true_iff. split.
  - apply valid_cons_lit; [reflexivity|exact V].
  - cbn [forallb]. rewrite ND. reflexivity.
Qed.

Lemma default_ownership_ok : forall name p, name_ok name = true -> In p (default_ownership name) ->
  owned_pattern_ok p = true.
Proof.
  intros name p N I. unfold default_ownership in I. unfold name_ok in N.
  destruct name as [|c name]; cbn [is_nil orb] in *.
  - destruct I as [<-|[]]. reflexivity.
  - set (n := c :: name) in *. apply andb_true_iff in N. destruct N as [C D].
    unfold nats_concrete in C. unfold no_dollar in D.
    destruct I as [<-|[<-|[]]]; unfold owned_pattern_ok, nats_valid_subject, no_dollar.
    + rewrite D, andb_true_r. apply lits_valid; [apply tokens_nonnil|exact C].
    + rewrite tokens_app_dot. change (tokens [gt]) with [[gt]]. apply andb_true_iff. split.
      * apply lits_snoc_gt_valid, C.
      * rewrite forallb_app_b, D. reflexivity.
Qed.

Lemma owned_list_ok : forall name e h p, name_ok name = true -> olist_ok e = true ->
  In p (owned name e h) -> owned_pattern_ok p = true.
Proof.
  intros name e h p N E I. unfold owned in I. destruct e as [l|].
  - cbn [olist_ok] in E. rewrite forallb_forall in E. apply E, I.
  - destruct h; [|destruct I]. eapply default_ownership_ok; eassumption.
Qed.

Lemma cfg_ok_parts : forall c, cfg_ok c = true ->
  name_ok (c_name c) = true /\ olist_ok (c_res c) = true /\ olist_ok (c_acc c) = true.
Proof.
  intros c H. unfold cfg_ok in H. apply andb_true_iff in H. destruct H as [H C].
  apply andb_true_iff in H. destruct H as [A B]. auto.
Qed.

Lemma owned_res_ok : forall c p, cfg_ok c = true -> In p (owned_res c) -> owned_pattern_ok p = true.
Proof. intros c p H I. destruct (cfg_ok_parts c H) as (N & R & _). eapply owned_list_ok; eassumption. Qed.
Lemma owned_acc_ok : forall c p, cfg_ok c = true -> In p (owned_acc c) -> owned_pattern_ok p = true.
Proof. intros c p H I. destruct (cfg_ok_parts c H) as (N & _ & A). eapply owned_list_ok; eassumption. Qed.

Lemma in_patterns_of : forall res acc s, In s (patterns_of res acc) ->
  (exists t p, In t [t_get; t_call; t_auth] /\ In p res /\ s = req_pattern t p) \/
  (exists p, In p acc /\ s = access_pattern p).
Proof.
  intros res acc s H. unfold patterns_of in H. apply in_app_or in H. destruct H as [H|H].
  - left. apply in_flat_map in H. destruct H as (t & It & H). apply in_map_iff in H.
    destruct H as (p & <- & Ip). exists t, p. auto.
  - right. apply in_map_iff in H. destruct H as (p & <- & Ip). exists p. auto.
Qed.

Lemma req_in_patterns : forall res acc t p, In t [t_get; t_call; t_auth] -> In p res ->
  In (req_pattern t p) (patterns_of res acc).
Proof.
  intros res acc t p It Ip. unfold patterns_of. apply in_or_app. left.
  apply in_flat_map. exists t. split; [exact It|]. apply in_map, Ip.
Qed.

Lemma access_in_patterns : forall res acc p, In p acc -> In (access_pattern p) (patterns_of res acc).
Proof. intros res acc p Ip. unfold patterns_of. apply in_or_app. right. apply in_map, Ip. Qed.

Lemma rtypes_ok : forall t, In t [t_get; t_call; t_auth] -> rtype_ok t = true.
Proof. intros t [<-|[<-|[<-|[]]]]; reflexivity. Qed.

Lemma all_patterns_ok : forall c s, cfg_ok c = true -> In s (all_patterns c) -> owned_pattern_ok s = true.
Proof.
  intros c s H I. unfold all_patterns in I. apply in_patterns_of in I.
  destruct I as [(t & p & It & Ip & ->)|(p & Ip & ->)].
  - apply req_pattern_ok; [apply rtypes_ok, It|eapply owned_res_ok; eassumption].
  - apply access_pattern_ok. eapply owned_acc_ok; eassumption.
Qed.

(* ---- Matches on these patterns is NATS covering ---- *)
Lemma matches_covers : forall a b, owned_pattern_ok a = true -> owned_pattern_ok b = true ->
  matches a b = nats_covers a b.
Proof.
  intros a b A B. rewrite matches_tokenwise_pf. unfold nats_covers.
  destruct (owned_ok_toks a A) as (_ & _ & SA). destruct (owned_ok_toks b B) as (_ & _ & SB).
  apply tmatch_ncovers; assumption.
Qed.

Lemma patterns_refl : forall c, cfg_ok c = true -> forall p, In p (all_patterns c) -> matches p p = true.
Proof.
  intros c H p I. assert (O := all_patterns_ok c p H I). rewrite (matches_covers p p O O).
  unfold nats_covers. apply ncovers_refl. apply (owned_ok_toks p O).
Qed.

Lemma patterns_trans : forall c, cfg_ok c = true -> forall x y z,
  In x (all_patterns c) -> In y (all_patterns c) -> In z (all_patterns c) ->
  matches x y = true -> matches y z = true -> matches x z = true.
Proof.
  intros c H x y z Ix Iy Iz. assert (X := all_patterns_ok c x H Ix). assert (Y := all_patterns_ok c y H Iy).
  assert (Z := all_patterns_ok c z H Iz).
  rewrite (matches_covers x y X Y), (matches_covers y z Y Z), (matches_covers x z X Z).
  unfold nats_covers. apply ncovers_trans.
Qed.

(* whatever a pattern of the list receives, a subscription receives *)
Lemma subscription_for : forall c pat s, cfg_ok c = true -> In pat (all_patterns c) -> nats_match pat s = true ->
  exists sub, In sub (subscriptions c) /\ nats_match sub s = true.
Proof.
  intros c pat s H I M.
  destruct (eliminate_covers (all_patterns c) (patterns_refl c H) (patterns_trans c H) pat I) as (q & Iq & Mq).
  exists q. split; [exact Iq|].
  assert (Q : owned_pattern_ok q = true) by (apply (all_patterns_ok c q H), eliminate_incl, Iq).
  rewrite (matches_covers q pat Q (all_patterns_ok c pat H I)) in Mq.
  unfold nats_covers in Mq. unfold nats_match in *. eapply ncovers_sound; eassumption.
Qed.

(* ---- request subjects against request patterns ---- *)
Lemma subj_plain_toks : forall t name, nodot t = true -> tokens (subj_plain t name) = t :: tokens name.
Proof. intros t name N. unfold subj_plain. rewrite tokens_app_dot, (tokens_single t N). reflexivity. Qed.

Lemma subj_method_toks : forall t name m, nodot t = true -> nodot m = true ->
  tokens (subj_method t name m) = t :: tokens name ++ [m].
Proof.
  intros t name m N M. unfold subj_method. rewrite tokens_app_dot, tokens_app_dot, (tokens_single t N), (tokens_single m M).
  reflexivity.
Qed.

Lemma get_pattern_matches : forall p name, owned_pattern_ok p = true -> nats_match p name = true ->
  nats_match (req_pattern t_get p) (subj_plain t_get name) = true.
Proof.
  intros p name O M. unfold nats_match. rewrite (req_pattern_toks t_get p eq_refl O), (subj_plain_toks t_get name eq_refl).
  unfold method_suffix. change (beq t_get t_get) with true. rewrite andb_false_r, app_nil_r.
  rewrite nmatch_cons_lit by reflexivity. exact M.
Qed.

Lemma access_pattern_matches : forall p name, nats_match p name = true ->
  nats_match (access_pattern p) (subj_plain t_access name) = true.
Proof.
  intros p name M. unfold nats_match. rewrite access_pattern_toks, (subj_plain_toks t_access name eq_refl).
  rewrite nmatch_cons_lit by reflexivity. exact M.
Qed.

Lemma method_pattern_matches : forall t p name m, t = t_call \/ t = t_auth -> owned_pattern_ok p = true ->
  method_ok m = true -> nats_match p name = true ->
  nats_match (req_pattern t p) (subj_method t name m) = true.
Proof.
  intros t p name m T O MO M.
  assert (TO : rtype_ok t = true) by (destruct T as [->| ->]; reflexivity).
  assert (TG : beq t t_get = false) by (destruct T as [->| ->]; reflexivity).
  destruct (rtype_parts t TO) as (ND & L & _).
  unfold method_ok in MO. apply andb_true_iff in MO. destruct MO as [_ MD].
  destruct (owned_ok_toks p O) as (V & _ & _).
  unfold nats_match in *. rewrite (req_pattern_toks t p TO O), (subj_method_toks t name m ND MD).
  rewrite nmatch_cons_lit by (apply lit_not_gt, L).
  unfold method_suffix. rewrite TG. cbn [negb]. rewrite andb_true_r.
  destruct (ends_gt (tokens p)) eqn:E; cbn [negb].
  - rewrite app_nil_r. apply nmatch_gt_snoc; assumption.
  - apply nmatch_snoc_star; [apply valid_no_gt; assumption|exact M].
Qed.

(* ---- coverage ---- *)
Lemma coverage_pf : forall c, cfg_ok c = true ->
  (forall p name, In p (owned_res c) -> nats_concrete name = true -> nats_match p name = true ->
     (exists sub, In sub (subscriptions c) /\ nats_match sub (subj_plain t_get name) = true) /\
     (forall t m, t = t_call \/ t = t_auth -> method_ok m = true ->
        exists sub, In sub (subscriptions c) /\ nats_match sub (subj_method t name m) = true)) /\
  (forall p name, In p (owned_acc c) -> nats_concrete name = true -> nats_match p name = true ->
     exists sub, In sub (subscriptions c) /\ nats_match sub (subj_plain t_access name) = true).
Proof.
  intros c H. split.
  - intros p name Ip _ M. assert (O := owned_res_ok c p H Ip). split.
    + apply (subscription_for c (req_pattern t_get p)); [exact H| |apply get_pattern_matches; assumption].
      apply req_in_patterns; [left; reflexivity|exact Ip].
    + intros t m T MO. apply (subscription_for c (req_pattern t p)); [exact H| |apply method_pattern_matches; assumption].
      apply req_in_patterns; [|exact Ip]. destruct T as [->| ->]; cbn [In]; auto.
  - intros p name Ip _ M. apply (subscription_for c (access_pattern p)); [exact H| |apply access_pattern_matches, M].
    apply access_in_patterns, Ip.
Qed.

(* ---- non-redundancy ---- *)
Lemma nonredundant_pf : forall c, cfg_ok c = true ->
  forall i j a b, nth_error (subscriptions c) i = Some a -> nth_error (subscriptions c) j = Some b -> i <> j ->
  nats_covers b a = false.
Proof.
  intros c H i j a b Na Nb D.
  assert (A : owned_pattern_ok a = true).
  { apply (all_patterns_ok c a H), eliminate_incl. eapply nth_error_In; exact Na. }
  assert (B : owned_pattern_ok b = true).
  { apply (all_patterns_ok c b H), eliminate_incl. eapply nth_error_In; exact Nb. }
  rewrite <- (matches_covers b a B A). exact (eliminate_pairwise (all_patterns c) i j a b Na Nb D).
Qed.

Lemma filter_pos : forall (f : bytes -> bool) l, (1 <= length (filter f l))%nat -> exists x, In x l /\ f x = true.
Proof.
  intros f l H. destruct (filter f l) as [|x r] eqn:E; [cbn in H; lia|].
  assert (I : In x (filter f l)) by (rewrite E; left; reflexivity).
  apply filter_In in I. exists x. exact I.
Qed.

Lemma filter_pos_intro : forall (f : bytes -> bool) l x, In x l -> f x = true -> (1 <= length (filter f l))%nat.
Proof.
  intros f l x I F. assert (J : In x (filter f l)) by (apply filter_In; auto).
  destruct (filter f l); [destruct J|cbn [length]; lia].
Qed.

(* the number of subscriptions a subject is delivered on: at least one and at most as many as there
   are entries of the pattern list that match it *)
Lemma delivered_bounds_pf : forall c s, cfg_ok c = true -> (1 <= match_count s (all_patterns c))%nat ->
  (1 <= match_count s (subscriptions c) <= match_count s (all_patterns c))%nat.
Proof.
  intros c s H P. unfold match_count in *. split.
  - destruct (filter_pos _ _ P) as (pat & I & M).
    destruct (subscription_for c pat s H I M) as (sub & Is & Ms).
    eapply filter_pos_intro; eassumption.
  - unfold subscriptions, eliminate. apply eliminate_go_count.
Qed.

Lemma delivered_once_pf : forall c s, cfg_ok c = true -> match_count s (all_patterns c) = 1%nat ->
  match_count s (subscriptions c) = 1%nat.
Proof. intros c s H E. assert (B := delivered_bounds_pf c s H). rewrite E in B. lia. Qed.

(* ---- validity of the subscribed subjects ---- *)
Lemma subjects_valid_pf : forall c, cfg_ok c = true ->
  forall s, In s (subscriptions c) -> nats_valid_subject s = true.
Proof.
  intros c H s I. assert (O : owned_pattern_ok s = true) by (apply (all_patterns_ok c s H), eliminate_incl, I).
  unfold owned_pattern_ok in O. apply andb_true_iff in O. apply O.
Qed.

(* ---- system.reset ---- *)
Lemma reset_nth_pf : forall c n o, o_res o = Some (owned_res c) -> o_acc o = Some (owned_acc c) ->
  reset_nth c o n = reset_event (owned_res c) (owned_acc c).
Proof.
  induction n as [|n IH]; intros [r a] R A; cbn [o_res o_acc] in R, A; subst r a.
  - reflexivity.
  - cbn [reset_nth]. apply IH; reflexivity.
Qed.

Definition payload_lists (p : option (list bytes) * option (list bytes)) : list bytes * list bytes :=
  (olist (fst p), olist (snd p)).

Lemma reset_exact_pf : forall c n,
  match reset_nth c (served_ownership c) n with
  | None => owned_res c = [] /\ owned_acc c = []
  | Some p => payload_lists p = (owned_res c, owned_acc c) /\ fst p <> Some [] /\ snd p <> Some [] /\
              ~ (owned_res c = [] /\ owned_acc c = [])
  end.
Proof.
  intros c n. rewrite (reset_nth_pf c n (served_ownership c)) by reflexivity.
  unfold reset_event. destruct (owned_res c) as [|r rs], (owned_acc c) as [|a az]; cbn [is_nil andb].
  - auto.
  - unfold payload_lists; cbn. repeat split; try discriminate. intros [_ E]; discriminate E.
  - unfold payload_lists; cbn. repeat split; try discriminate. intros [E _]; discriminate E.
  - unfold payload_lists; cbn. repeat split; try discriminate. intros [E _]; discriminate E.
Qed.

Lemma no_resources_pf : forall c, subscribe c = NoResources <-> (owned_res c = [] /\ owned_acc c = []).
Proof.
  intros c. unfold subscribe. destruct (owned_res c) as [|r rs], (owned_acc c) as [|a az]; cbn [is_nil andb]; split;
    try discriminate; auto; intros [E1 E2]; discriminate.
Qed.

(* ---- default ownership ---- *)
Lemma default_lists_pf : forall c,
  (c_res c = None -> owned_res c = if c_has_res c then default_ownership (c_name c) else []) /\
  (c_acc c = None -> owned_acc c = if c_has_acc c then default_ownership (c_name c) else []) /\
  (forall l, c_res c = Some l -> owned_res c = l) /\ (forall l, c_acc c = Some l -> owned_acc c = l).
Proof.
  intros c. unfold owned_res, owned_acc, owned. repeat split.
  - intros ->. reflexivity.
  - intros ->. reflexivity.
  - intros l ->. reflexivity.
  - intros l ->. reflexivity.
Qed.

Lemma default_spec_pf : forall name r, name_ok name = true ->
  existsb (fun p => nats_match p r) (default_ownership name) = is_nil name || is_prefix (tokens name) (tokens r).
Proof.
  intros name r N. unfold default_ownership. destruct name as [|c name]; cbn [is_nil orb].
  - cbn [existsb]. unfold nats_match. change (tokens [gt]) with [[gt]].
    destruct (tokens r) as [|s ss] eqn:E; [exfalso; eapply tokens_nonnil; exact E|reflexivity].
  - set (n := c :: name) in *. unfold name_ok in N. cbn [is_nil orb] in N. apply andb_true_iff in N.
    destruct N as [C _]. unfold nats_concrete in C. cbn [existsb]. rewrite orb_false_r.
    unfold nats_match. rewrite tokens_app_dot. change (tokens [gt]) with [[gt]].
    apply nmatch_lits_prefix, C.
Qed.

(* ---- queue group ---- *)
Lemma queue_group_irrelevant_pf : forall c q,
  map fst (subscribe_calls (with_queue c q)) = subscriptions c /\
  forall x, In x (subscribe_calls (with_queue c q)) -> snd x = q.
Proof.
  intros c q. unfold subscribe_calls. split.
  - rewrite map_map. cbn [fst]. rewrite map_id. reflexivity.
  - intros x I. apply in_map_iff in I. destruct I as (s & <- & _). reflexivity.
Qed.

(* ---- the code before the fixes ---- *)
Lemma coverage_v0_refuted_pf : exists c p name,
  cfg_ok c = true /\ In p (owned_res c) /\ nats_concrete name = true /\ nats_match p name = true /\
  existsb (fun sub => nats_match sub (subj_plain t_get name)) (subscriptions_v0 c) = false.
Proof.
  exists (Cfg [115] (Some [[116; 46; 62]; [116; 46; 62]]) (Some []) true false []), [116; 46; 62], [116; 46; 120].
  split; [reflexivity|]. split; [left; reflexivity|]. split; [reflexivity|]. split; vm_compute; reflexivity.
Qed.

Lemma subjects_valid_v0_refuted_pf : exists c s,
  cfg_ok c = true /\ In s (subscriptions_v0 c) /\ nats_valid_subject s = false.
Proof.
  exists (Cfg [] None None true true []), [103; 101; 116; 46].
  split; [reflexivity|]. split; [vm_compute; auto 10|reflexivity].
Qed.

(* ---- "under a single owned pattern => delivered once" fails for call / auth ----
   owned resources a.* and a.b.> : no resource name is matched by both, the name a.b is matched by
   a.* only, yet the request subject call.a.b.m is matched by both subscriptions call.a.*.* and
   call.a.b.> (neither of which covers the other). *)
Lemma delivered_once_method_refuted_pf : exists c name m,
  cfg_ok c = true /\ nats_concrete name = true /\ method_ok m = true /\
  (forall n p q, nth_error (owned_res c) 0 = Some p -> nth_error (owned_res c) 1 = Some q ->
     nats_match p n = true -> nats_match q n = true -> False) /\
  length (owned_res c) = 2%nat /\
  match_count name (owned_res c) = 1%nat /\
  match_count (subj_plain t_get name) (subscriptions c) = 1%nat /\
  match_count (subj_method t_call name m) (all_patterns c) = 2%nat /\
  match_count (subj_method t_call name m) (subscriptions c) = 2%nat.
Proof.
  exists (Cfg [] (Some [[97; 46; 42]; [97; 46; 98; 46; 62]]) (Some []) true false []), [97; 46; 98], [109].
  split; [reflexivity|]. split; [reflexivity|]. split; [reflexivity|]. split.
  - intros n p q Hp Hq. cbn in Hp, Hq. injection Hp as <-. injection Hq as <-.
    unfold nats_match. change (tokens [97; 46; 42]) with [[97]; [star]].
    change (tokens [97; 46; 98; 46; 62]) with [[97]; [98]; [gt]].
    destruct (tokens n) as [|s1 [|s2 [|s3 r]]]; cbn [nmatch];
      change (beq [97] [gt]) with false; change (beq [star] [gt]) with false; change (beq [98] [gt]) with false;
      cbn iota; intros A B; rewrite ?andb_false_r in A; rewrite ?andb_false_r in B; discriminate.
  - repeat split; vm_compute; reflexivity.
Qed.

(* ---- handler layouts ---- *)
Lemma layout_kinds_pf : forall name res acc l q,
  (c_has_res (cfg_layout name res acc l q) = true <-> exists h, In h l /\ h_res h = true) /\
  (c_has_acc (cfg_layout name res acc l q) = true <-> exists h, In h l /\ h_acc h = true).
Proof.
  intros name res acc l q. cbn [cfg_layout c_has_res c_has_acc]. unfold layout_has_res, layout_has_acc.
  split; apply existsb_exists.
Qed.

Lemma default_layout_pf : forall name l q,
  owned_res (cfg_layout name None None l q) = (if existsb h_res l then default_ownership name else []) /\
  owned_acc (cfg_layout name None None l q) = (if existsb h_acc l then default_ownership name else []) /\
  reset_payload (cfg_layout name None None l q) =
    reset_event (if existsb h_res l then default_ownership name else [])
                (if existsb h_acc l then default_ownership name else []).
Proof. intros name l q. repeat split. Qed.

(* a service that keeps the default ownership: as soon as SOME registered handler - wherever it sits in
   the mux tree - has a method of a kind, every request of that kind for the service name or anything
   below it (anything at all for the empty name) reaches a subscription *)
Lemma default_layout_coverage_pf : forall name l q r, name_ok name = true -> nats_concrete r = true ->
  is_nil name || is_prefix (tokens name) (tokens r) = true ->
  ((exists h, In h l /\ h_res h = true) ->
     (exists sub, In sub (subscriptions (cfg_layout name None None l q)) /\ nats_match sub (subj_plain t_get r) = true) /\
     (forall t m, t = t_call \/ t = t_auth -> method_ok m = true ->
        exists sub, In sub (subscriptions (cfg_layout name None None l q)) /\ nats_match sub (subj_method t r m) = true)) /\
  ((exists h, In h l /\ h_acc h = true) ->
     exists sub, In sub (subscriptions (cfg_layout name None None l q)) /\ nats_match sub (subj_plain t_access r) = true).
Proof.
  intros name l q r N C P. set (c := cfg_layout name None None l q).
  assert (OK : cfg_ok c = true) by (unfold cfg_ok; cbn; rewrite N; reflexivity).
  rewrite <- (default_spec_pf name r N) in P. apply existsb_exists in P. destruct P as (p & Ip & Mp).
  destruct (coverage_pf c OK) as [CR CA]. split.
  - intros Hh. apply (CR p r); [|exact C|exact Mp].
    destruct (default_layout_pf name l q) as (E & _ & _). fold c in E. rewrite E.
    apply existsb_exists in Hh. rewrite Hh. exact Ip.
  - intros Hh. apply (CA p r); [|exact C|exact Mp].
    destruct (default_layout_pf name l q) as (_ & E & _). fold c in E. rewrite E.
    apply existsb_exists in Hh. rewrite Hh. exact Ip.
Qed.

(* ---- reconnect / disconnect ---- *)
Lemma reconnect_exact_pf : forall c,
  handle_reconnect c (Some (served_ownership c)) =
    (match reset_event (owned_res c) (owned_acc c) with Some p => [EReset p] | None => [] end) ++ [EOnReconnect] /\
  handle_disconnect = [EOnDisconnect] /\
  handle_reconnect c None = [ERefused; EOnReconnect].
Proof. intros c. repeat split. Qed.
