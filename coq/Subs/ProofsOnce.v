(* A get / access request whose resource name falls under exactly one entry of the owned list is
   delivered on exactly one subscription. *)
From GoRes Require Import Pattern.Spec Pattern.Lemmas Pattern.Lemmas2.
From GoRes Require Import Subs.Spec Subs.ProofsTok Subs.ProofsElim Subs.Proofs Subs.ProofsSem.
From Coq Require Import Lia Arith.
Open Scope N_scope.

Lemma count_map_ext : forall (f h : bytes -> bool) (g : bytes -> bytes) l,
  (forall p, In p l -> f (g p) = h p) -> length (filter f (map g l)) = length (filter h l).
Proof.
  induction l as [|x l IH]; intros H; [reflexivity|]. cbn [map filter].
  rewrite (H x (or_introl eq_refl)). assert (I := IH (fun p Hp => H p (or_intror Hp))).
  destruct (h x); cbn [length]; rewrite I; reflexivity.
Qed.

Lemma count_map_none : forall (f : bytes -> bool) (g : bytes -> bytes) l,
  (forall p, In p l -> f (g p) = false) -> length (filter f (map g l)) = 0%nat.
Proof.
  intros f g l H. rewrite (count_map_ext f (fun _ => false) g l H). clear H.
  induction l as [|x l IH]; [reflexivity|exact IH].
Qed.

Lemma nmatch_head_diff : forall t u ps ss, beq t [gt] = false -> beq t [star] = false -> beq t u = false ->
  nmatch (t :: ps) (u :: ss) = false.
Proof. intros t u ps ss G S D. cbn [nmatch]. rewrite G, S, D. reflexivity. Qed.

Lemma match_count_app : forall s a b, match_count s (a ++ b) = (match_count s a + match_count s b)%nat.
Proof. intros s a b. unfold match_count. rewrite filter_app, app_length. reflexivity. Qed.

Lemma all_patterns_split : forall c,
  all_patterns c = map (req_pattern t_get) (owned_res c) ++ map (req_pattern t_call) (owned_res c) ++
                   map (req_pattern t_auth) (owned_res c) ++ map access_pattern (owned_acc c).
Proof.
  intros c. unfold all_patterns, patterns_of. cbn [flat_map]. rewrite app_nil_r, <- !app_assoc. reflexivity.
Qed.

Lemma req_wrong_head : forall c t u s rest, cfg_ok c = true -> rtype_ok t = true -> beq t u = false ->
  tokens s = u :: rest -> match_count s (map (req_pattern t) (owned_res c)) = 0%nat.
Proof.
  intros c t u s rest H T D E. unfold match_count. apply count_map_none. intros p Ip.
  unfold nats_match. rewrite (req_pattern_toks t p T (owned_res_ok c p H Ip)), E.
  destruct (rtype_parts t T) as (_ & L & _).
  apply nmatch_head_diff; [apply lit_not_gt, L|apply lit_not_star, L|exact D].
Qed.

Lemma access_wrong_head : forall c u s rest, beq t_access u = false ->
  tokens s = u :: rest -> match_count s (map access_pattern (owned_acc c)) = 0%nat.
Proof.
  intros c u s rest D E. unfold match_count. apply count_map_none. intros p Ip.
  unfold nats_match. rewrite access_pattern_toks, E. apply nmatch_head_diff; [reflexivity|reflexivity|exact D].
Qed.

Lemma get_count : forall c name, cfg_ok c = true ->
  match_count (subj_plain t_get name) (all_patterns c) = match_count name (owned_res c).
Proof.
  intros c name H. rewrite all_patterns_split, !match_count_app.
  assert (E : tokens (subj_plain t_get name) = t_get :: tokens name) by (apply subj_plain_toks; reflexivity).
  rewrite (req_wrong_head c t_call t_get _ _ H eq_refl eq_refl E).
  rewrite (req_wrong_head c t_auth t_get _ _ H eq_refl eq_refl E).
  rewrite (access_wrong_head c t_get _ _ eq_refl E).
  rewrite !Nat.add_0_r. unfold match_count. apply count_map_ext. intros p Ip.
  assert (O := owned_res_ok c p H Ip).
  unfold nats_match. rewrite (req_pattern_toks t_get p eq_refl O), E.
  unfold method_suffix. change (beq t_get t_get) with true. rewrite andb_false_r, app_nil_r.
  apply nmatch_cons_lit. reflexivity.
Qed.

Lemma access_count : forall c name, cfg_ok c = true ->
  match_count (subj_plain t_access name) (all_patterns c) = match_count name (owned_acc c).
Proof.
  intros c name H. rewrite all_patterns_split, !match_count_app.
  assert (E : tokens (subj_plain t_access name) = t_access :: tokens name) by (apply subj_plain_toks; reflexivity).
  rewrite (req_wrong_head c t_get t_access _ _ H eq_refl eq_refl E).
  rewrite (req_wrong_head c t_call t_access _ _ H eq_refl eq_refl E).
  rewrite (req_wrong_head c t_auth t_access _ _ H eq_refl eq_refl E).
  cbn [Nat.add]. unfold match_count. apply count_map_ext. intros p Ip.
  unfold nats_match. rewrite access_pattern_toks, E. apply nmatch_cons_lit. reflexivity.
Qed.

Lemma delivered_once_plain_pf : forall c name, cfg_ok c = true ->
  (match_count name (owned_res c) = 1%nat -> match_count (subj_plain t_get name) (subscriptions c) = 1%nat) /\
  (match_count name (owned_acc c) = 1%nat -> match_count (subj_plain t_access name) (subscriptions c) = 1%nat).
Proof.
  intros c name H. split; intros E; apply delivered_once_pf; try exact H.
  - rewrite get_count; assumption.
  - rewrite access_count; assumption.
Qed.

(* each subscription receives some subject that any given other subscription does not receive *)
Lemma nonredundant_semantic_pf : forall c, cfg_ok c = true ->
  forall i j a b, nth_error (subscriptions c) i = Some a -> nth_error (subscriptions c) j = Some b -> i <> j ->
  exists s, nats_concrete s = true /\ nats_match a s = true /\ nats_match b s = false.
Proof.
  intros c H i j a b Na Nb D.
  apply nats_covers_complete_pf.
  - apply (subjects_valid_pf c H). eapply nth_error_In; exact Nb.
  - apply (subjects_valid_pf c H). eapply nth_error_In; exact Na.
  - apply (nonredundant_pf c H i j a b Na Nb D).
Qed.
