(* NATS subject semantics the property C09 refers to, and the request subjects of the RES
   service protocol.

   nats.go v1.10.0 badSubject: a subject is rejected when it contains ' ' '\t' '\r' '\n' or has an
   empty token.  nats-server v2.1.8 sublist.go: the token "*" matches exactly one token, the token
   ">" (only accepted as the last token) matches one or more tokens, every other token is literal.
   [nats_valid_subject] additionally demands that '*' and '>' occur only as whole tokens (what the
   property asks of a subscribed subject). *)
From GoRes Require Export Subs.Model.

Definition ws (c : N) : bool := (c =? 32) || (c =? 9) || (c =? 13) || (c =? 10).
Definition tok_char_ok (c : N) : bool := negb (ws c) && negb (c =? star) && negb (c =? gt).
(* a literal token: non-empty, no whitespace, no wildcard character *)
Definition lit_tok (t : bytes) : bool := negb (is_nil t) && forallb tok_char_ok t.
(* one token of a subscription subject; [last] = it is the final token *)
Definition nats_tok (last : bool) (t : bytes) : bool :=
  lit_tok t || beq t [star] || (last && beq t [gt]).
Fixpoint nats_valid_toks (ts : list bytes) : bool :=
  match ts with
  | [] => false
  | [t] => nats_tok true t
  | t :: r => nats_tok false t && nats_valid_toks r
  end.
Definition nats_valid_subject (s : bytes) : bool := nats_valid_toks (tokens s).

(* a subject a message can be published on: literal tokens only *)
Definition nats_concrete (s : bytes) : bool := forallb lit_tok (tokens s).

(* subscription token list against subject token list *)
Fixpoint nmatch (ps ss : list bytes) : bool :=
  match ps, ss with
  | [], [] => true
  | p :: ps', s :: ss' =>
    if beq p [gt] then is_nil ps'
    else (beq p [star] || beq p s) && nmatch ps' ss'
  | _, _ => false
  end.
Definition nats_match (sub subj : bytes) : bool := nmatch (tokens sub) (tokens subj).

(* subscription [ps] receives everything subscription [qs] receives (token-wise; the
   equivalence with the semantic reading is nats_covers_sound / nats_covers_complete) *)
Fixpoint ncovers (ps qs : list bytes) : bool :=
  match ps, qs with
  | [], [] => true
  | p :: ps', q :: qs' =>
    if beq p [gt] then is_nil ps'
    else if beq q [gt] then false
    else (beq p [star] || beq p q) && ncovers ps' qs'
  | _, _ => false
  end.
Definition nats_covers (a b : bytes) : bool := ncovers (tokens a) (tokens b).

Definition match_count (s : bytes) (subs : list bytes) : nat :=
  length (filter (fun sub => nats_match sub s) subs).

(* ---- what may be put into an ownership list / used as a service name ----
   Ownership patterns are RES resource patterns restricted to the wildcards '*' and '>'
   (what system.reset and NATS understand): valid NATS wildcard subjects in which no token
   starts with '$' (a "$tag" token is a placeholder for Pattern.Matches but a literal for NATS). *)
Definition starts_dollar (t : bytes) : bool := match t with c :: _ => c =? dollar | [] => false end.
Definition no_dollar (s : bytes) : bool := forallb (fun t => negb (starts_dollar t)) (tokens s).
Definition owned_pattern_ok (p : bytes) : bool := nats_valid_subject p && no_dollar p.
(* service name: empty, or literal tokens none of which starts with '$' (implied by mux.go isValidPath) *)
Definition name_ok (n : bytes) : bool := is_nil n || (nats_concrete n && no_dollar n).
Definition olist_ok (l : option (list bytes)) : bool :=
  match l with Some x => forallb owned_pattern_ok x | None => true end.
Definition cfg_ok (c : config) : bool := name_ok (c_name c) && olist_ok (c_res c) && olist_ok (c_acc c).

(* ---- request subjects ---- *)
(* "get.<name>" ; "access.<name>" *)
Definition subj_plain (t name : bytes) : bytes := t ++ dot :: name.
(* "call.<name>.<method>" ; "auth.<name>.<method>" *)
Definition subj_method (t name method : bytes) : bytes := t ++ dot :: name ++ dot :: method.
(* a method is one literal token *)
Definition method_ok (m : bytes) : bool := lit_tok m && forallb (fun c => negb (c =? dot)) m.

(* resource names below a service name: the name itself or name + "." + anything *)
Fixpoint is_prefix (a b : list bytes) : bool :=
  match a, b with
  | [], _ => true
  | x :: a', y :: b' => beq x y && is_prefix a' b'
  | _, _ => false
  end.

(* the same configuration with another queue group *)
Definition with_queue (c : config) (q : bytes) : config :=
  Cfg (c_name c) (c_res c) (c_acc c) (c_has_res c) (c_has_acc c) q.
