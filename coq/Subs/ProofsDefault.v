(* Default ownership: every request for the service name or anything below it is delivered on EXACTLY
   one subscription; requests outside the ownership on none. *)
From GoRes Require Import Pattern.Spec Pattern.Lemmas Pattern.Lemmas2.
From GoRes Require Import Subs.Spec Subs.ProofsTok Subs.ProofsElim Subs.Proofs Subs.ProofsOnce.
From Coq Require Import Lia Arith.
Open Scope N_scope.

(* ---- small facts ---- *)
Lemma lits_ends_gt : forall ts, forallb lit_tok ts = true -> ends_gt ts = false.
Proof.
  unfold ends_gt. induction ts as [|t r IH]; intros L; [reflexivity|].
  cbn [forallb] in L. apply andb_true_iff in L. destruct L as [L1 L2].
  destruct r as [|u r]; [apply lit_not_gt, L1|]. rewrite last_cons2. apply IH, L2.
Qed.

Lemma nmatch_nil_r : forall ps, ps <> [] -> nmatch ps [] = false.
Proof. intros [|p ps] H; [contradiction|reflexivity]. Qed.

Lemma nmatch_nil_l : forall ss, ss <> [] -> nmatch [] ss = false.
Proof. intros [|s ss] H; [contradiction|reflexivity]. Qed.

Lemma snoc_nonnil : forall (a : list bytes) x, a ++ [x] <> [].
Proof. intros [|y a] x; discriminate. Qed.

(* a literal pattern prefix followed by "*" against a name followed by a method token *)
Lemma nmatch_star_method : forall tn tr m, forallb lit_tok tn = true ->
  nmatch (tn ++ [[star]]) (tr ++ [m]) = nmatch tn tr.
Proof.
  induction tn as [|t tn IH]; intros tr m L.
  - destruct tr as [|x tr]; [reflexivity|]. cbn [app nmatch]. change (beq [star] [gt]) with false. cbn iota.
    change (beq [star] [star]) with true. cbn [orb andb]. apply nmatch_nil_l, snoc_nonnil.
  - cbn [forallb] in L. apply andb_true_iff in L. destruct L as [L1 L2].
    destruct tr as [|x tr]; cbn [app nmatch]; rewrite (lit_not_gt t L1).
    + rewrite (nmatch_nil_r (tn ++ [[star]]) (snoc_nonnil _ _)). apply andb_false_r.
    + rewrite (IH tr m L2). reflexivity.
Qed.

(* ... followed by ">" *)
Lemma nmatch_gt_method : forall tn tr m, forallb lit_tok tn = true ->
  nmatch (tn ++ [[gt]]) (tr ++ [m]) = is_prefix tn tr.
Proof.
  induction tn as [|t tn IH]; intros tr m L.
  - destruct tr as [|x tr]; reflexivity.
  - cbn [forallb] in L. apply andb_true_iff in L. destruct L as [L1 L2].
    destruct tr as [|x tr]; cbn [app nmatch is_prefix]; rewrite (lit_not_gt t L1), (lit_not_star t L1); cbn [orb].
    + rewrite (nmatch_nil_r (tn ++ [[gt]]) (snoc_nonnil _ _)). apply andb_false_r.
    + rewrite (IH tr m L2). reflexivity.
Qed.

Lemma nmatch_lits_exclusive : forall tn tr, forallb lit_tok tn = true ->
  nmatch tn tr = true -> nmatch (tn ++ [[gt]]) tr = false.
Proof.
  induction tn as [|t tn IH]; intros tr L M.
  - destruct tr; [reflexivity|discriminate M].
  - cbn [forallb] in L. apply andb_true_iff in L. destruct L as [L1 L2].
    destruct tr as [|x tr]; [discriminate M|]. cbn [app nmatch] in *. rewrite (lit_not_gt t L1) in *.
    apply andb_true_iff in M. destruct M as [M1 M2]. rewrite M1, (IH tr L2 M2). reflexivity.
Qed.

Lemma ncovers_lits_prefix : forall ts a b, forallb lit_tok ts = true ->
  ncovers (ts ++ a) (ts ++ b) = ncovers a b.
Proof.
  induction ts as [|t ts IH]; intros a b L; [reflexivity|].
  cbn [forallb] in L. apply andb_true_iff in L. destruct L as [L1 L2].
  cbn [app ncovers]. rewrite (lit_not_gt t L1), beq_refl, orb_true_r. cbn [andb]. apply IH, L2.
Qed.

Lemma filter_none : forall (f : bytes -> bool) l, (forall x, In x l -> f x = false) -> length (filter f l) = 0%nat.
Proof.
  induction l as [|x l IH]; intros H; [reflexivity|]. cbn [filter]. rewrite (H x (or_introl eq_refl)).
  apply IH. intros y Hy. apply H. right. exact Hy.
Qed.

Lemma count_le_one : forall (f : bytes -> bool) l,
  (forall i j a b, nth_error l i = Some a -> nth_error l j = Some b -> i <> j -> f a = true -> f b = true -> False) ->
  (length (filter f l) <= 1)%nat.
Proof.
  induction l as [|x l IH]; intros H; [cbn; lia|]. cbn [filter].
  assert (IH' : (length (filter f l) <= 1)%nat).
  { apply IH. intros i j a b Na Nb D. apply (H (S i) (S j) a b Na Nb). intros E. apply D. injection E. auto. }
  destruct (f x) eqn:F; [|exact IH']. cbn [length].
  rewrite filter_none; [lia|]. intros y Hy. destruct (f y) eqn:Fy; [exfalso|reflexivity].
  destruct (In_nth_error _ _ Hy) as [k Nk]. apply (H 0%nat (S k) x y eq_refl Nk); [discriminate|exact F|exact Fy].
Qed.

(* ---- the patterns of a service with a non-empty name and the default ownership ---- *)
Section Named.
  Variable name : bytes.
  Variable l : layout.
  Variable q : bytes.
  Hypothesis NE : is_nil name = false.
  Hypothesis NOK : name_ok name = true.

  Let c := cfg_layout name None None l q.
  Let tn := tokens name.

  Lemma tn_lits : forallb lit_tok tn = true.
  Proof.
    unfold tn. unfold name_ok in NOK. rewrite NE in NOK. cbn [orb] in NOK.
    apply andb_true_iff in NOK. destruct NOK as [C _]. exact C.
  Qed.

  Lemma named_cfg_ok : cfg_ok c = true.
  Proof. unfold cfg_ok, c. cbn. rewrite NOK. reflexivity. Qed.

  Lemma named_owned_in : forall p, In p (owned_res c) \/ In p (owned_acc c) -> p = name \/ p = name ++ [dot; gt].
  Proof.
    intros p H. destruct (default_layout_pf name l q) as (ER & EA & _). fold c in ER, EA.
    rewrite ER, EA in H. unfold default_ownership in H. rewrite NE in H.
    destruct H as [H|H].
    - destruct (existsb h_res l); [|destruct H]. destruct H as [<-|[<-|[]]]; auto.
    - destruct (existsb h_acc l); [|destruct H]. destruct H as [<-|[<-|[]]]; auto.
  Qed.

  Lemma name_owned_ok : owned_pattern_ok name = true /\ owned_pattern_ok (name ++ [dot; gt]) = true.
  Proof.
    split; apply (default_ownership_ok name _ NOK); unfold default_ownership; rewrite NE; cbn [In]; auto.
  Qed.

  (* every pattern is: type token, the name's tokens, and a tail that is ">" , "*" (call / auth) or
     nothing (get / access) *)
  Definition tail_ok (t : bytes) (X : list bytes) : Prop :=
    X = [[gt]] \/ (X = [[star]] /\ (t = t_call \/ t = t_auth)) \/ (X = [] /\ (t = t_get \/ t = t_access)).

  Lemma pattern_form : forall a, In a (all_patterns c) ->
    exists t X, tokens a = t :: tn ++ X /\ In t [t_get; t_call; t_auth; t_access] /\ tail_ok t X.
  Proof.
    intros a H. unfold all_patterns in H. apply in_patterns_of in H.
    destruct name_owned_ok as [O1 O2].
    destruct H as [(t & p & It & Ip & ->)|(p & Ip & ->)].
    - exists t. assert (T := rtypes_ok t It).
      assert (It4 : In t [t_get; t_call; t_auth; t_access]).
      { destruct It as [<-|[<-|[<-|[]]]]; cbn [In]; auto. }
      destruct (named_owned_in p (or_introl Ip)) as [-> | ->].
      + rewrite (req_pattern_toks t name T O1). fold tn. unfold method_suffix.
        rewrite (lits_ends_gt tn tn_lits). cbn [negb andb].
        destruct It as [<-|[<-|[<-|[]]]].
        * exists []. split; [reflexivity|]. split; [exact It4|]. right. right. auto.
        * exists [[star]]. split; [reflexivity|]. split; [exact It4|]. right. left. auto.
        * exists [[star]]. split; [reflexivity|]. split; [exact It4|]. right. left. auto.
      + rewrite (req_pattern_toks t _ T O2). rewrite tokens_app_dot. change (tokens [gt]) with [[gt]]. fold tn.
        unfold method_suffix. rewrite ends_gt_snoc. change (beq [gt] [gt]) with true. cbn [negb andb].
        exists [[gt]]. rewrite app_nil_r. split; [reflexivity|]. split; [exact It4|]. left. reflexivity.
    - exists t_access. rewrite access_pattern_toks.
      destruct (named_owned_in p (or_intror Ip)) as [-> | ->].
      + exists []. fold tn. rewrite app_nil_r. split; [reflexivity|]. split; [cbn [In]; auto|]. right. right. auto.
      + rewrite tokens_app_dot. change (tokens [gt]) with [[gt]]. fold tn.
        exists [[gt]]. split; [reflexivity|]. split; [cbn [In]; auto|]. left. reflexivity.
  Qed.

  Lemma rtype4_lit : forall t, In t [t_get; t_call; t_auth; t_access] -> lit_tok t = true.
  Proof. intros t [<-|[<-|[<-|[<-|[]]]]]; reflexivity. Qed.

  Lemma nmatch_typed : forall t u X Y, In t [t_get; t_call; t_auth; t_access] ->
    nmatch (t :: X) (u :: Y) = beq t u && nmatch X Y.
  Proof.
    intros t u X Y It. cbn [nmatch]. rewrite (lit_not_gt t (rtype4_lit t It)), (lit_not_star t (rtype4_lit t It)).
    reflexivity.
  Qed.

  (* ---- subjects outside the ownership ---- *)
  Section Outside.
    Variable r : bytes.
    Hypothesis OUT : is_prefix tn (tokens r) = false.

    Lemma out_plain : nmatch tn (tokens r) = false /\ nmatch (tn ++ [[gt]]) (tokens r) = false.
    Proof.
      assert (H := nmatch_lits_prefix tn (tokens r) tn_lits). rewrite OUT in H.
      apply orb_false_iff in H. exact H.
    Qed.

    Lemma outside_plain_nomatch : forall u a, u = t_get \/ u = t_access -> In a (all_patterns c) ->
      nats_match a (subj_plain u r) = false.
    Proof.
      intros u a U Ia. destruct (pattern_form a Ia) as (t & X & E & It & TX).
      unfold nats_match. rewrite E.
      assert (ND : nodot u = true) by (destruct U as [->| ->]; reflexivity).
      rewrite (subj_plain_toks u r ND), (nmatch_typed t u _ _ It).
      destruct (beq t u) eqn:B; [|reflexivity]. cbn [andb]. apply beq_eq in B. subst u.
      destruct out_plain as [P1 P2].
      destruct TX as [->|[[-> T]|[-> T]]].
      - exact P2.
      - exfalso. destruct T as [->| ->], U as [U|U]; discriminate U.
      - rewrite app_nil_r. exact P1.
    Qed.

    Lemma outside_method_nomatch : forall u m a, u = t_call \/ u = t_auth -> method_ok m = true ->
      In a (all_patterns c) -> nats_match a (subj_method u r m) = false.
    Proof.
      intros u m a U MO Ia. destruct (pattern_form a Ia) as (t & X & E & It & TX).
      unfold method_ok in MO. apply andb_true_iff in MO. destruct MO as [_ MD].
      unfold nats_match. rewrite E.
      assert (ND : nodot u = true) by (destruct U as [->| ->]; reflexivity).
      rewrite (subj_method_toks u r m ND MD), (nmatch_typed t u _ _ It).
      destruct (beq t u) eqn:B; [|reflexivity]. cbn [andb]. apply beq_eq in B. subst u.
      destruct out_plain as [P1 P2].
      destruct TX as [->|[[-> T]|[-> T]]].
      - rewrite (nmatch_gt_method tn (tokens r) m tn_lits). exact OUT.
      - rewrite (nmatch_star_method tn (tokens r) m tn_lits). exact P1.
      - exfalso. destruct T as [->| ->], U as [U|U]; discriminate U.
    Qed.

    Lemma subs_count_zero : forall s, (forall a, In a (all_patterns c) -> nats_match a s = false) ->
      match_count s (subscriptions c) = 0%nat.
    Proof.
      intros s H. unfold match_count. apply filter_none. intros x Hx. apply H, eliminate_incl, Hx.
    Qed.
  End Outside.

  (* ---- subjects under the ownership ---- *)
  Section Inside.
    Variable r : bytes.
    Hypothesis INS : is_prefix tn (tokens r) = true.

    Lemma inside_owned_count : match_count r [name; name ++ [dot; gt]] = 1%nat.
    Proof.
      unfold match_count. cbn [filter]. unfold nats_match. rewrite tokens_app_dot. change (tokens [gt]) with [[gt]].
      fold tn. assert (H := nmatch_lits_prefix tn (tokens r) tn_lits). rewrite INS in H.
      destruct (nmatch tn (tokens r)) eqn:A.
      - rewrite (nmatch_lits_exclusive tn (tokens r) tn_lits A). reflexivity.
      - cbn [orb] in H. rewrite H. reflexivity.
    Qed.

    (* two patterns that both match a call / auth request are comparable *)
    Lemma method_comparable : forall u m a b, u = t_call \/ u = t_auth -> method_ok m = true ->
      In a (all_patterns c) -> In b (all_patterns c) ->
      nats_match a (subj_method u r m) = true -> nats_match b (subj_method u r m) = true ->
      nats_covers a b = true \/ nats_covers b a = true.
    Proof.
      intros u m a b U MO Ia Ib Ma Mb.
      destruct (pattern_form a Ia) as (t & X & E & It & TX).
      destruct (pattern_form b Ib) as (t' & X' & E' & It' & TX').
      unfold method_ok in MO. apply andb_true_iff in MO. destruct MO as [_ MD].
      assert (ND : nodot u = true) by (destruct U as [->| ->]; reflexivity).
      unfold nats_match in Ma, Mb. rewrite E, (subj_method_toks u r m ND MD), (nmatch_typed t u _ _ It) in Ma.
      rewrite E', (subj_method_toks u r m ND MD), (nmatch_typed t' u _ _ It') in Mb.
      apply andb_true_iff in Ma. destruct Ma as [Ba _]. apply andb_true_iff in Mb. destruct Mb as [Bb _].
      apply beq_eq in Ba. apply beq_eq in Bb. subst t t'.
      unfold nats_covers. rewrite E, E'.
      assert (H : forall A B, ncovers (u :: tn ++ A) (u :: tn ++ B) = ncovers A B).
      { intros A B. cbn [ncovers]. rewrite (lit_not_gt u (rtype4_lit u It)), beq_refl, orb_true_r. cbn [andb].
        apply ncovers_lits_prefix, tn_lits. }
      rewrite !H.
      assert (XS : X = [[gt]] \/ X = [[star]]).
      { destruct TX as [->|[[-> _]|[_ T]]]; auto. exfalso. destruct T as [->| ->], U as [U|U]; discriminate U. }
      assert (XS' : X' = [[gt]] \/ X' = [[star]]).
      { destruct TX' as [->|[[-> _]|[_ T]]]; auto. exfalso. destruct T as [->| ->], U as [U|U]; discriminate U. }
      destruct XS as [->| ->], XS' as [->| ->]; cbn; auto.
    Qed.

    Lemma inside_method_le_one : forall u m, u = t_call \/ u = t_auth -> method_ok m = true ->
      (match_count (subj_method u r m) (subscriptions c) <= 1)%nat.
    Proof.
      intros u m U MO. unfold match_count. apply count_le_one. intros i j a b Na Nb D Ma Mb.
      assert (Ia : In a (all_patterns c)) by (apply eliminate_incl; eapply nth_error_In; exact Na).
      assert (Ib : In b (all_patterns c)) by (apply eliminate_incl; eapply nth_error_In; exact Nb).
      assert (N1 := nonredundant_pf c named_cfg_ok i j a b Na Nb D).
      assert (N2 := nonredundant_pf c named_cfg_ok j i b a Nb Na (fun e => D (eq_sym e))).
      destruct (method_comparable u m a b U MO Ia Ib Ma Mb) as [H|H]; congruence.
    Qed.
  End Inside.
End Named.

(* ---- the empty service name: the subscriptions are get.> call.> auth.> access.> ---- *)
Lemma subs_empty_name : forall hr ha q,
  subscriptions (Cfg [] None None hr ha q) =
    (if hr then [t_get ++ [dot; gt]; t_call ++ [dot; gt]; t_auth ++ [dot; gt]] else []) ++
    (if ha then [t_access ++ [dot; gt]] else []).
Proof. intros [|] [|] q; reflexivity. Qed.

Lemma gt_sub_match : forall t s u Y, nodot t = true -> lit_tok t = true -> tokens s = u :: Y -> Y <> [] ->
  nats_match (t ++ [dot; gt]) s = beq t u.
Proof.
  intros t s u Y ND L E NY. unfold nats_match. rewrite tokens_app_dot, (tokens_single t ND), E.
  change (tokens [gt]) with [[gt]]. cbn [app nmatch]. rewrite (lit_not_gt t L), (lit_not_star t L). cbn [orb].
  destruct Y as [|y Y]; [contradiction|]. cbn [nmatch]. apply andb_true_r.
Qed.

Lemma empty_name_count : forall hr ha q s u Y, tokens s = u :: Y -> Y <> [] ->
  match_count s (subscriptions (Cfg [] None None hr ha q)) =
    ((if hr then N.to_nat (N.b2n (beq t_get u)) + N.to_nat (N.b2n (beq t_call u)) + N.to_nat (N.b2n (beq t_auth u)) else 0) +
     (if ha then N.to_nat (N.b2n (beq t_access u)) else 0))%nat.
Proof.
  intros hr ha q s u Y E NY. rewrite subs_empty_name. unfold match_count. rewrite filter_app, app_length.
  f_equal.
  - destruct hr; [|reflexivity]. cbn [filter].
    rewrite (gt_sub_match t_get s u Y eq_refl eq_refl E NY), (gt_sub_match t_call s u Y eq_refl eq_refl E NY),
      (gt_sub_match t_auth s u Y eq_refl eq_refl E NY).
    destruct (beq t_get u), (beq t_call u), (beq t_auth u); reflexivity.
  - destruct ha; [|reflexivity]. cbn [filter]. rewrite (gt_sub_match t_access s u Y eq_refl eq_refl E NY).
    destruct (beq t_access u); reflexivity.
Qed.

(* ---- the theorems ---- *)
Lemma default_layout_delivered_once_pf : forall name l q r, name_ok name = true -> nats_concrete r = true ->
  is_nil name || is_prefix (tokens name) (tokens r) = true ->
  ((exists h, In h l /\ h_res h = true) ->
     match_count (subj_plain t_get r) (subscriptions (cfg_layout name None None l q)) = 1%nat /\
     (forall t m, t = t_call \/ t = t_auth -> method_ok m = true ->
        match_count (subj_method t r m) (subscriptions (cfg_layout name None None l q)) = 1%nat)) /\
  ((exists h, In h l /\ h_acc h = true) ->
     match_count (subj_plain t_access r) (subscriptions (cfg_layout name None None l q)) = 1%nat).
Proof.
  intros name l q r N C P. destruct (is_nil name) eqn:NE.
  - (* the empty name *)
    destruct name; [|discriminate NE]. unfold cfg_layout.
    assert (NR : tokens r <> []) by apply tokens_nonnil.
    split.
    + intros Hh. apply existsb_exists in Hh. unfold layout_has_res. rewrite Hh. split.
      * rewrite (empty_name_count true _ q _ t_get (tokens r) (subj_plain_toks t_get r eq_refl) NR).
        destruct (layout_has_acc l); reflexivity.
      * intros t m T MO. unfold method_ok in MO. apply andb_true_iff in MO. destruct MO as [_ MD].
        assert (ND : nodot t = true) by (destruct T as [->| ->]; reflexivity).
        rewrite (empty_name_count true _ q _ t (tokens r ++ [m]) (subj_method_toks t r m ND MD) (snoc_nonnil _ _)).
        destruct T as [->| ->]; destruct (layout_has_acc l); reflexivity.
    + intros Hh. apply existsb_exists in Hh. unfold layout_has_acc. rewrite Hh.
      rewrite (empty_name_count _ true q _ t_access (tokens r) (subj_plain_toks t_access r eq_refl) NR).
      destruct (layout_has_res l); reflexivity.
  - cbn [orb] in P. set (c := cfg_layout name None None l q).
    assert (OK := named_cfg_ok name l q N). fold c in OK.
    destruct (default_layout_pf name l q) as (ER & EA & _). fold c in ER, EA.
    unfold default_ownership in ER, EA. rewrite NE in ER, EA.
    destruct (delivered_once_plain_pf c r OK) as [DG DA].
    split.
    + intros Hh. assert (Hh' := Hh). apply existsb_exists in Hh'. rewrite Hh' in ER. split.
      * apply DG. rewrite ER. apply (inside_owned_count name NE N r P).
      * intros t m T MO. apply Nat.le_antisymm.
        -- apply (inside_method_le_one name l q NE N r t m T MO).
        -- destruct (default_layout_coverage_pf name l q r N C) as [CR _]; [rewrite NE; exact P|].
           destruct (CR Hh) as [_ CM]. destruct (CM t m T MO) as (sub & Is & Ms).
           unfold match_count. eapply filter_pos_intro; eassumption.
    + intros Hh. apply existsb_exists in Hh. rewrite Hh in EA.
      apply DA. rewrite EA. apply (inside_owned_count name NE N r P).
Qed.

(* requests for resources outside the default ownership of a named service reach no subscription,
   whatever handlers are registered *)
Lemma default_layout_outside_pf : forall name l q r, name_ok name = true -> is_nil name = false ->
  is_prefix (tokens name) (tokens r) = false ->
  match_count (subj_plain t_get r) (subscriptions (cfg_layout name None None l q)) = 0%nat /\
  match_count (subj_plain t_access r) (subscriptions (cfg_layout name None None l q)) = 0%nat /\
  (forall t m, t = t_call \/ t = t_auth -> method_ok m = true ->
     match_count (subj_method t r m) (subscriptions (cfg_layout name None None l q)) = 0%nat).
Proof.
  intros name l q r N NE OUT. repeat split.
  - apply subs_count_zero. intros a Ia. apply (outside_plain_nomatch name l q NE N r OUT t_get a); auto.
  - apply subs_count_zero. intros a Ia. apply (outside_plain_nomatch name l q NE N r OUT t_access a); auto.
  - intros t m T MO. apply subs_count_zero. intros a Ia.
    apply (outside_method_nomatch name l q NE N r OUT t m a T MO Ia).
Qed.
