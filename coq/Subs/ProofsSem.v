(* The token-wise covering test is complete: when [ncovers ps qs] is false some concrete subject is
   matched by qs and not by ps (fresh-token instance of qs).  Also: Pattern.Matches and NATS matching
   agree on concrete names, and mux.go's isValidPath implies [name_ok]. *)
From GoRes Require Import Pattern.Spec Pattern.Lemmas Pattern.Lemmas2 Pattern.Proofs.
From GoRes Require Import Subs.Spec Subs.ProofsTok.
From Coq Require Import Lia Arith.
Open Scope N_scope.

Definition fresh (w : bytes) (ps : list bytes) : bool := forallb (fun t => negb (beq t w)) ps.
Definition inst1 (w q : bytes) : bytes := if beq q [star] || beq q [gt] then w else q.
Definition inst (w : bytes) (qs : list bytes) : list bytes := map (inst1 w) qs.

Fixpoint cex (w : bytes) (ps qs : list bytes) : list bytes :=
  match ps, qs with
  | _, [] => []
  | [], _ => inst w qs
  | p :: ps', q :: qs' =>
    if beq q [gt] then (if is_nil ps' then [w; w] else [w])
    else if beq p [star] || beq p q then inst1 w q :: cex w ps' qs'
    else inst w qs
  end.

Definition vnil (ts : list bytes) : Prop := ts = [] \/ nats_valid_toks ts = true.

Lemma vnil_tail : forall t ts, vnil (t :: ts) -> vnil ts /\ (ts <> [] -> t <> [gt]).
Proof.
  intros t ts [H|H]; [discriminate H|]. destruct ts as [|u r].
  - split; [left; reflexivity|]. intros C. contradiction.
  - rewrite nats_valid_cons in H. apply andb_true_iff in H. destruct H as [H1 H2].
    split; [right; exact H2|]. intros _ E. subst t. discriminate H1.
Qed.

Lemma vnil_head : forall t ts, vnil (t :: ts) -> nats_tok true t = true.
Proof.
  intros t ts [H|H]; [discriminate H|]. destruct ts as [|u r]; [exact H|].
  rewrite nats_valid_cons in H. apply andb_true_iff in H. destruct H as [H1 _]. apply nats_tok_weaken, H1.
Qed.

Lemma inst_match : forall w qs, vnil qs -> nmatch qs (inst w qs) = true.
Proof.
  induction qs as [|q qs IH]; intros V; [reflexivity|].
  destruct (vnil_tail q qs V) as [V' G]. cbn [inst map nmatch].
  destruct (beq q [gt]) eqn:QG.
  - destruct qs as [|u r]; [reflexivity|]. exfalso. apply G; [discriminate|apply beq_eq, QG].
  - unfold inst1. rewrite QG, orb_false_r. destruct (beq q [star]) eqn:QS; cbn [orb].
    + apply IH, V'.
    + rewrite beq_refl. apply IH, V'.
Qed.

Lemma cex_spec : forall w ps qs, vnil ps -> vnil qs -> fresh w ps = true -> ncovers ps qs = false ->
  nmatch qs (cex w ps qs) = true /\ nmatch ps (cex w ps qs) = false.
Proof.
  induction ps as [|p ps IH]; intros qs VP VQ F C.
  - destruct qs as [|q qs]; [discriminate C|]. cbn [cex]. split; [apply inst_match, VQ|reflexivity].
  - destruct qs as [|q qs]; [split; reflexivity|].
    destruct (vnil_tail p ps VP) as [VP' GP]. destruct (vnil_tail q qs VQ) as [VQ' GQ].
    cbn [fresh forallb] in F. apply andb_true_iff in F. destruct F as [F1 F2]. apply negb_true_iff in F1.
    cbn [ncovers] in C. cbn [cex].
    destruct (beq p [gt]) eqn:PG.
    { destruct ps as [|u r]; [discriminate C|]. exfalso. apply GP; [discriminate|apply beq_eq, PG]. }
    destruct (beq q [gt]) eqn:QG.
    { assert (QN : qs = []).
      { destruct qs as [|u r]; [reflexivity|]. exfalso. apply GQ; [discriminate|apply beq_eq, QG]. }
      subst qs. destruct ps as [|u r]; cbn [is_nil].
      - split; [cbn [nmatch]; rewrite QG; reflexivity|]. cbn [nmatch]. rewrite PG, andb_false_r. reflexivity.
      - split; [cbn [nmatch]; rewrite QG; reflexivity|]. cbn [nmatch]. rewrite PG, andb_false_r. reflexivity. }
    destruct (beq p [star] || beq p q) eqn:HD; cbn [andb] in C.
    + destruct (IH qs VP' VQ' F2 C) as [A B]. split.
      * cbn [nmatch]. rewrite QG, A, andb_true_r. unfold inst1. rewrite QG, orb_false_r.
        destruct (beq q [star]); [reflexivity|]. rewrite beq_refl. reflexivity.
      * cbn [nmatch]. rewrite PG, B, andb_false_r. reflexivity.
    + split; [apply inst_match, VQ|].
      apply orb_false_iff in HD. destruct HD as [PS PQ].
      cbn [inst map nmatch]. rewrite PG, PS. cbn [orb]. unfold inst1. rewrite QG, orb_false_r.
      destruct (beq q [star]); [rewrite F1|rewrite PQ]; reflexivity.
Qed.

Lemma inst1_lit : forall w q, lit_tok w = true -> nats_tok true q = true -> lit_tok (inst1 w q) = true.
Proof.
  intros w q W Q. unfold inst1. destruct (beq q [star]) eqn:S; [exact W|].
  destruct (beq q [gt]) eqn:G; [exact W|]. cbn [orb]. unfold nats_tok in Q. rewrite S, G in Q.
  cbn [andb] in Q. rewrite !orb_false_r in Q. exact Q.
Qed.

Lemma inst_lits : forall w qs, lit_tok w = true -> vnil qs -> forallb lit_tok (inst w qs) = true.
Proof.
  induction qs as [|q qs IH]; intros W V; [reflexivity|]. destruct (vnil_tail q qs V) as [V' _].
  cbn [inst map forallb]. rewrite (inst1_lit w q W (vnil_head q qs V)). apply IH; assumption.
Qed.

Lemma cex_lits : forall w ps qs, lit_tok w = true -> vnil qs -> forallb lit_tok (cex w ps qs) = true.
Proof.
  induction ps as [|p ps IH]; intros qs W V.
  - destruct qs as [|q qs]; [reflexivity|]. cbn [cex]. apply inst_lits; assumption.
  - destruct qs as [|q qs]; [reflexivity|]. destruct (vnil_tail q qs V) as [V' _]. cbn [cex].
    destruct (beq q [gt]).
    + destruct (is_nil ps); cbn [forallb]; rewrite W; reflexivity.
    + destruct (beq p [star] || beq p q).
      * cbn [forallb]. rewrite (inst1_lit w q W (vnil_head q qs V)). apply IH; assumption.
      * apply inst_lits; assumption.
Qed.

Lemma inst1_nodot : forall w q, nodot w = true -> nodot q = true -> nodot (inst1 w q) = true.
Proof. intros w q W Q. unfold inst1. destruct (beq q [star] || beq q [gt]); assumption. Qed.

Lemma inst_nodot : forall w qs, nodot w = true -> forallb nodot qs = true -> forallb nodot (inst w qs) = true.
Proof.
  induction qs as [|q qs IH]; intros W Q; [reflexivity|]. cbn [forallb] in Q. apply andb_true_iff in Q.
  destruct Q as [Q1 Q2]. cbn [inst map forallb]. rewrite (inst1_nodot w q W Q1). apply IH; assumption.
Qed.

Lemma cex_nodot : forall w ps qs, nodot w = true -> forallb nodot qs = true -> forallb nodot (cex w ps qs) = true.
Proof.
  induction ps as [|p ps IH]; intros qs W Q.
  - destruct qs as [|q qs]; [reflexivity|]. cbn [cex]. apply inst_nodot; assumption.
  - destruct qs as [|q qs]; [reflexivity|]. cbn [cex].
    assert (Q' := Q). cbn [forallb] in Q'. apply andb_true_iff in Q'. destruct Q' as [Q1 Q2].
    destruct (beq q [gt]).
    + destruct (is_nil ps); cbn [forallb]; rewrite W; reflexivity.
    + destruct (beq p [star] || beq p q).
      * cbn [forallb]. rewrite (inst1_nodot w q W Q1). apply IH; assumption.
      * apply inst_nodot; assumption.
Qed.

Lemma cex_nonnil : forall w ps q qs, is_nil (cex w ps (q :: qs)) = false.
Proof.
  intros w [|p ps] q qs; [reflexivity|]. cbn [cex]. destruct (beq q [gt]).
  - destruct (is_nil ps); reflexivity.
  - destruct (beq p [star] || beq p q); reflexivity.
Qed.

(* a fresh literal token: longer than every token of ps *)
Fixpoint maxlen (ts : list bytes) : nat :=
  match ts with [] => O | t :: r => Nat.max (length t) (maxlen r) end.
Definition wtok (n : nat) : bytes := repeat 97 (S n).

Lemma beq_len : forall a b, beq a b = true -> length a = length b.
Proof. intros a b H. apply beq_eq in H. subst b. reflexivity. Qed.

Lemma wtok_fresh : forall ps n, (maxlen ps <= n)%nat -> fresh (wtok n) ps = true.
Proof.
  induction ps as [|p ps IH]; intros n H; [reflexivity|]. cbn [maxlen] in H. cbn [fresh forallb].
  apply andb_true_iff. split; [|apply IH; lia].
  apply negb_true_iff. destruct (beq p (wtok n)) eqn:E; [|reflexivity].
  apply beq_len in E. unfold wtok in E. rewrite repeat_length in E. lia.
Qed.

Lemma wtok_lit : forall n, lit_tok (wtok n) = true.
Proof.
  intros n. unfold lit_tok, wtok. cbn [repeat is_nil negb andb].
  change (forallb tok_char_ok (repeat 97 (S n)) = true). induction (S n) as [|k IH]; [reflexivity|].
  cbn [repeat forallb]. rewrite IH. reflexivity.
Qed.

Lemma wtok_nodot : forall n, nodot (wtok n) = true.
Proof.
  intros n. unfold nodot, wtok. induction (S n) as [|k IH]; [reflexivity|].
  cbn [repeat forallb]. rewrite IH. reflexivity.
Qed.

Lemma nats_covers_complete_pf : forall a b, nats_valid_subject a = true -> nats_valid_subject b = true ->
  nats_covers a b = false ->
  exists s, nats_concrete s = true /\ nats_match b s = true /\ nats_match a s = false.
Proof.
  intros a b VA VB C. unfold nats_valid_subject in VA, VB. unfold nats_covers in C.
  set (w := wtok (maxlen (tokens a))).
  set (ss := cex w (tokens a) (tokens b)).
  assert (F : fresh w (tokens a) = true) by (apply wtok_fresh; apply Nat.le_refl).
  destruct (cex_spec w (tokens a) (tokens b) (or_intror VA) (or_intror VB) F C) as [MB MA].
  assert (TS : tokens (join ss) = ss).
  { apply tokens_join.
    - unfold ss. destruct (tokens b) as [|q qs] eqn:E; [discriminate VB|]. apply cex_nonnil.
    - apply cex_nodot; [apply wtok_nodot|apply tokens_nodot]. }
  exists (join ss). unfold nats_concrete, nats_match. rewrite TS. split; [|split; assumption].
  apply cex_lits; [apply wtok_lit|right; exact VB].
Qed.

Lemma nats_covers_sound_pf : forall a b s, nats_covers a b = true -> nats_match b s = true -> nats_match a s = true.
Proof. intros a b s C M. unfold nats_covers, nats_match in *. eapply ncovers_sound; eassumption. Qed.

(* ---- Pattern.Matches against a concrete name is NATS matching ---- *)
Lemma tmatch_nmatch : forall ps ss, forallb stok ps = true -> forallb lit_tok ss = true ->
  tmatch ps ss = nmatch ps ss.
Proof.
  induction ps as [|p ps IH]; intros [|s ss] SP LS; try reflexivity.
  cbn [forallb] in SP, LS. apply andb_true_iff in SP. destruct SP as [SP1 SP2].
  apply andb_true_iff in LS. destruct LS as [LS1 LS2].
  cbn [tmatch nmatch]. rewrite (IH ss SP2 LS2), (lit_nonnil s LS1), (lit_starts_gt s LS1). cbn [andb negb].
  destruct (stok_cases p SP1) as [->| ->|L D].
  - reflexivity.
  - cbn [kind]. change (gt =? dollar) with false. change (gt =? star) with false. change (gt =? gt) with true.
    cbn iota. change (beq [gt] [gt]) with true. cbn iota. cbn [andb]. rewrite andb_true_r. reflexivity.
  - rewrite (lit_kind p L D), (lit_not_gt p L), (lit_not_star p L). reflexivity.
Qed.

Lemma matches_nats_match_pf : forall p name, owned_pattern_ok p = true -> nats_concrete name = true ->
  matches p name = nats_match p name.
Proof.
  intros p name O C. rewrite matches_tokenwise_pf. unfold nats_match, nats_concrete in *.
  unfold owned_pattern_ok, nats_valid_subject, no_dollar in O. apply andb_true_iff in O. destruct O as [V D].
  apply tmatch_nmatch; [apply valid_stoks; assumption|exact C].
Qed.

(* ---- mux.go isValidPath implies name_ok ---- *)
Lemma char_ok_tok : forall c, char_ok c = true -> negb (ws c) = true.
Proof.
  intros c H. unfold char_ok in H. apply negb_true_iff in H. apply orb_false_iff in H. destruct H as [H _].
  apply orb_false_iff in H. destruct H as [H _]. apply N.ltb_ge in H.
  unfold ws. apply negb_true_iff.
  destruct (N.eqb_spec c 32) as [->|_]; [lia|]. destruct (N.eqb_spec c 9) as [->|_]; [lia|].
  destruct (N.eqb_spec c 13) as [->|_]; [lia|]. destruct (N.eqb_spec c 10) as [->|_]; [lia|]. reflexivity.
Qed.

Lemma plain_char_tok : forall c, plain_char c = true -> tok_char_ok c = true.
Proof.
  intros c H. unfold plain_char in H. apply andb_true_iff in H. destruct H as [H G].
  apply andb_true_iff in H. destruct H as [H S]. unfold tok_char_ok. rewrite (char_ok_tok c H), S, G. reflexivity.
Qed.

Lemma klit_valid_lit : forall l t, tok_valid l t = true -> kind t = KLit ->
  lit_tok t = true /\ starts_dollar t = false.
Proof.
  intros l [|c r] V K; [discriminate V|]. cbn [tok_valid kind] in *.
  destruct (c =? dollar) eqn:D; [discriminate K|]. destruct (c =? star) eqn:S; [discriminate K|].
  destruct (c =? gt) eqn:G; [discriminate K|]. apply andb_true_iff in V. destruct V as [V1 V2].
  split; [|exact D]. unfold lit_tok. cbn [is_nil negb andb forallb]. apply andb_true_iff. split.
  - unfold tok_char_ok. rewrite (char_ok_tok c V1), S, G. reflexivity.
  - clear -V2. induction r as [|x r IH]; [reflexivity|]. cbn [forallb] in *. apply andb_true_iff in V2.
    destruct V2 as [A B]. rewrite (plain_char_tok x A). apply IH, B.
Qed.

Lemma toks_valid_lits : forall ts, toks_valid ts = true ->
  forallb (fun t => match kind t with KLit => true | _ => false end) ts = true ->
  forallb lit_tok ts = true /\ forallb (fun t => negb (starts_dollar t)) ts = true.
Proof.
  induction ts as [|t r IH]; intros V K; [split; reflexivity|].
  cbn [forallb] in K. apply andb_true_iff in K. destruct K as [K1 K2].
  assert (KT : kind t = KLit) by (destruct (kind t); try discriminate K1; reflexivity).
  rewrite toks_valid_cons in V. apply andb_true_iff in V. destruct V as [V1 V2].
  destruct (klit_valid_lit _ t V1 KT) as [L D].
  assert (R : forallb lit_tok r = true /\ forallb (fun t => negb (starts_dollar t)) r = true).
  { destruct r as [|u r]; [split; reflexivity|]. apply IH; [exact V2|exact K2]. }
  destruct R as [R1 R2]. cbn [forallb]. rewrite L, D, R1, R2. split; reflexivity.
Qed.

Lemma valid_path_name_ok_pf : forall name, is_valid_path name = true -> name_ok name = true.
Proof.
  intros name H. rewrite valid_path_spec_pf in H. unfold name_ok.
  destruct (is_nil name) eqn:E; [reflexivity|]. cbn [orb] in *.
  apply andb_true_iff in H. destruct H as [V K]. unfold tvalid in V. rewrite E in V. cbn [orb] in V.
  destruct (toks_valid_lits _ V K) as [L D]. unfold nats_concrete, no_dollar. rewrite L, D. reflexivity.
Qed.
