(* Token-level facts: NATS matching / covering, and Pattern.Matches on NATS-style patterns. *)
From GoRes Require Import Pattern.Spec Pattern.Lemmas Pattern.Lemmas2 Subs.Spec.
From Coq Require Import Lia.
Open Scope N_scope.

(* ---- tokens of concatenations ---- *)
Lemma toks_app_dot : forall a b, toks (a ++ dot :: b) = toks a ++ toks b.
Proof.
  induction a as [|c a IH]; intros b.
  - cbn [app toks]. rewrite N.eqb_refl. reflexivity.
  - cbn [app toks]. rewrite IH. destruct (c =? dot); [reflexivity|].
    rewrite (toks_eta a). reflexivity.
Qed.

Lemma tokens_app_dot : forall a b, tokens (a ++ dot :: b) = tokens a ++ tokens b.
Proof. intros a b. rewrite !tokens_toks. apply toks_app_dot. Qed.

Lemma tokens_nonnil : forall s, tokens s <> [].
Proof. intros s. rewrite tokens_toks, toks_eta. discriminate. Qed.

Lemma tokens_single : forall t, nodot t = true -> tokens t = [t].
Proof. intros t H. rewrite tokens_toks. apply toks_single, H. Qed.

Lemma tokens_join : forall ts, is_nil ts = false -> forallb nodot ts = true -> tokens (join ts) = ts.
Proof. intros ts A B. rewrite tokens_toks. apply toks_join; assumption. Qed.

Lemma tokens_nodot : forall s, forallb nodot (tokens s) = true.
Proof. intros s. rewrite tokens_toks. apply toks_nodot. Qed.

(* ---- shapes of tokens ---- *)
Lemma lit_not_gt : forall t, lit_tok t = true -> beq t [gt] = false.
Proof.
  intros [|c r] H; [reflexivity|]. unfold lit_tok in H. cbn [is_nil negb andb forallb] in H.
  apply andb_true_iff in H. destruct H as [H _]. unfold tok_char_ok in H.
  apply andb_true_iff in H. destruct H as [_ H]. apply negb_true_iff in H.
  cbn [beq]. rewrite H. reflexivity.
Qed.

Lemma lit_not_star : forall t, lit_tok t = true -> beq t [star] = false.
Proof.
  intros [|c r] H; [reflexivity|]. unfold lit_tok in H. cbn [is_nil negb andb forallb] in H.
  apply andb_true_iff in H. destruct H as [H _]. unfold tok_char_ok in H.
  apply andb_true_iff in H. destruct H as [H _]. apply andb_true_iff in H. destruct H as [_ H].
  apply negb_true_iff in H. cbn [beq]. rewrite H. reflexivity.
Qed.

Lemma lit_nonnil : forall t, lit_tok t = true -> is_nil t = false.
Proof. intros [|c r] H; [discriminate H|reflexivity]. Qed.

Lemma lit_starts_gt : forall t, lit_tok t = true -> starts_gt t = false.
Proof.
  intros [|c r] H; [reflexivity|]. unfold lit_tok in H. cbn [is_nil negb andb forallb] in H.
  apply andb_true_iff in H. destruct H as [H _]. unfold tok_char_ok in H.
  apply andb_true_iff in H. destruct H as [_ H]. apply negb_true_iff in H. exact H.
Qed.

Lemma lit_kind : forall t, lit_tok t = true -> starts_dollar t = false -> kind t = KLit.
Proof.
  intros [|c r] H D; [reflexivity|]. unfold lit_tok in H. cbn [is_nil negb andb forallb] in H.
  apply andb_true_iff in H. destruct H as [H _]. unfold tok_char_ok in H.
  apply andb_true_iff in H. destruct H as [H G]. apply andb_true_iff in H. destruct H as [_ S].
  apply negb_true_iff in G. apply negb_true_iff in S. cbn [starts_dollar] in D.
  cbn [kind]. rewrite D, S, G. reflexivity.
Qed.

(* a token of a NATS-style pattern without $-tokens *)
Definition stok (t : bytes) : bool := (lit_tok t && negb (starts_dollar t)) || beq t [star] || beq t [gt].

Inductive stok_shape (t : bytes) : Prop :=
  | ShStar : t = [star] -> stok_shape t
  | ShGt : t = [gt] -> stok_shape t
  | ShLit : lit_tok t = true -> starts_dollar t = false -> stok_shape t.

Lemma stok_cases : forall t, stok t = true -> stok_shape t.
Proof.
  intros t H. unfold stok in H. apply orb_true_iff in H. destruct H as [H|H].
  - apply orb_true_iff in H. destruct H as [H|H].
    + apply andb_true_iff in H. destruct H as [L D]. apply negb_true_iff in D. apply ShLit; assumption.
    + apply ShStar, beq_eq, H.
  - apply ShGt, beq_eq, H.
Qed.

Lemma stok_nonnil : forall t, stok t = true -> is_nil t = false.
Proof. intros t H. destruct (stok_cases t H) as [->| ->|L _]; [reflexivity|reflexivity|apply lit_nonnil, L]. Qed.

Lemma stok_starts_gt : forall t, stok t = true -> starts_gt t = beq t [gt].
Proof.
  intros t H. destruct (stok_cases t H) as [->| ->|L _]; [reflexivity|reflexivity|].
  rewrite (lit_starts_gt t L), (lit_not_gt t L). reflexivity.
Qed.

(* ---- validity ---- *)
Lemma nats_tok_false_not_gt : forall t, nats_tok false t = true -> beq t [gt] = false.
Proof.
  intros t H. unfold nats_tok in H. cbn [andb] in H. rewrite orb_false_r in H.
  apply orb_true_iff in H. destruct H as [H|H]; [apply lit_not_gt, H|].
  apply beq_eq in H. subst t. reflexivity.
Qed.

Lemma nats_tok_weaken : forall t, nats_tok false t = true -> nats_tok true t = true.
Proof.
  intros t H. unfold nats_tok in *. cbn [andb] in *. rewrite orb_false_r in H. rewrite H. reflexivity.
Qed.

Lemma nats_valid_cons : forall t u r, nats_valid_toks (t :: u :: r) = nats_tok false t && nats_valid_toks (u :: r).
Proof. reflexivity. Qed.

Lemma nats_valid_nonnil : forall ts, nats_valid_toks ts = true -> ts <> [].
Proof. intros [|t r] H; [discriminate H|discriminate]. Qed.

Lemma valid_stoks : forall ts, nats_valid_toks ts = true ->
  forallb (fun t => negb (starts_dollar t)) ts = true -> forallb stok ts = true.
Proof.
  induction ts as [|t r IH]; intros V D; [reflexivity|].
  cbn [forallb] in D. apply andb_true_iff in D. destruct D as [D1 D2].
  assert (T : nats_tok true t = true /\ (r = [] \/ nats_valid_toks r = true)).
  { destruct r as [|u r]; [split; [exact V|left; reflexivity]|].
    rewrite nats_valid_cons in V. apply andb_true_iff in V. destruct V as [V1 V2].
    split; [apply nats_tok_weaken, V1|right; exact V2]. }
  destruct T as [T1 T2]. cbn [forallb]. apply andb_true_iff. split.
  - unfold nats_tok in T1. cbn [andb] in T1. unfold stok. rewrite D1, andb_true_r. exact T1.
  - destruct T2 as [->|T2]; [reflexivity|]. apply IH; assumption.
Qed.

Definition ends_gt (ts : list bytes) : bool := beq (last ts []) [gt].

Lemma last_cons2 : forall (t u : bytes) r, last (t :: u :: r) [] = last (u :: r) [].
Proof. reflexivity. Qed.

Lemma valid_no_gt : forall ts, nats_valid_toks ts = true -> ends_gt ts = false ->
  forallb (fun t => negb (beq t [gt])) ts = true.
Proof.
  induction ts as [|t r IH]; intros V E; [reflexivity|]. destruct r as [|u r].
  - unfold ends_gt in E. cbn [last] in E. cbn [forallb]. rewrite E. reflexivity.
  - rewrite nats_valid_cons in V. apply andb_true_iff in V. destruct V as [V1 V2].
    unfold ends_gt in E. rewrite last_cons2 in E.
    change (forallb (fun t0 => negb (beq t0 [gt])) (t :: u :: r))
      with (negb (beq t [gt]) && forallb (fun t0 => negb (beq t0 [gt])) (u :: r)).
    rewrite (nats_tok_false_not_gt t V1). cbn [negb andb]. apply IH; assumption.
Qed.

Lemma valid_snoc_star : forall ts, nats_valid_toks ts = true -> ends_gt ts = false ->
  nats_valid_toks (ts ++ [[star]]) = true.
Proof.
  induction ts as [|t r IH]; intros V E; [discriminate V|]. destruct r as [|u r].
  - unfold ends_gt in E. cbn [last] in E. cbn [app]. rewrite nats_valid_cons.
    apply andb_true_iff. split; [|reflexivity].
    cbn [nats_valid_toks] in V. unfold nats_tok in *. cbn [andb] in *. rewrite E, orb_false_r in V.
    rewrite V. reflexivity.
  - rewrite nats_valid_cons in V. apply andb_true_iff in V. destruct V as [V1 V2].
    unfold ends_gt in E. rewrite last_cons2 in E.
    change ((t :: u :: r) ++ [[star]]) with (t :: (u :: r) ++ [[star]]).
    change ((u :: r) ++ [[star]]) with (u :: (r ++ [[star]])) at 1.
    rewrite nats_valid_cons. apply andb_true_iff. split; [exact V1|].
    change (u :: r ++ [[star]]) with ((u :: r) ++ [[star]]). apply IH; assumption.
Qed.

Lemma valid_cons_lit : forall t ts, lit_tok t = true -> nats_valid_toks ts = true -> nats_valid_toks (t :: ts) = true.
Proof.
  intros t [|u r] L V; [discriminate V|]. rewrite nats_valid_cons. apply andb_true_iff. split; [|exact V].
  unfold nats_tok. rewrite L. reflexivity.
Qed.

Lemma lits_valid : forall ts, ts <> [] -> forallb lit_tok ts = true -> nats_valid_toks ts = true.
Proof.
  induction ts as [|t r IH]; intros NE L; [contradiction|].
  cbn [forallb] in L. apply andb_true_iff in L. destruct L as [L1 L2]. destruct r as [|u r].
  - cbn [nats_valid_toks]. unfold nats_tok. rewrite L1. reflexivity.
  - apply valid_cons_lit; [exact L1|]. apply IH; [discriminate|exact L2].
Qed.

Lemma lits_snoc_gt_valid : forall ts, forallb lit_tok ts = true -> nats_valid_toks (ts ++ [[gt]]) = true.
Proof.
  induction ts as [|t r IH]; intros L; [reflexivity|].
  cbn [forallb] in L. apply andb_true_iff in L. destruct L as [L1 L2].
  cbn [app]. apply valid_cons_lit; [exact L1|]. apply IH, L2.
Qed.

Lemma ends_gt_snoc : forall ts t, ends_gt (ts ++ [t]) = beq t [gt].
Proof.
  intros ts t. unfold ends_gt. f_equal. induction ts as [|x r IH]; [reflexivity|].
  cbn [app]. destruct r as [|y r]; [reflexivity|]. cbn [app] in *. rewrite last_cons2. exact IH.
Qed.

(* ---- covering is a preorder and is sound for matching ---- *)
Lemma ncovers_refl : forall ts, nats_valid_toks ts = true -> ncovers ts ts = true.
Proof.
  induction ts as [|t r IH]; intros V; [reflexivity|]. cbn [ncovers]. destruct r as [|u r].
  - destruct (beq t [gt]); [reflexivity|]. rewrite beq_refl, orb_true_r. reflexivity.
  - rewrite nats_valid_cons in V. apply andb_true_iff in V. destruct V as [V1 V2].
    rewrite (nats_tok_false_not_gt t V1), beq_refl, orb_true_r. cbn [andb]. apply IH, V2.
Qed.

Lemma ncovers_trans : forall a b c, ncovers a b = true -> ncovers b c = true -> ncovers a c = true.
Proof.
  induction a as [|p a IH]; intros [|q b] [|r c] AB BC; cbn [ncovers] in *; try discriminate; try reflexivity.
  destruct (beq p [gt]) eqn:PG; [exact AB|].
  destruct (beq q [gt]) eqn:QG; [discriminate AB|].
  destruct (beq r [gt]) eqn:RG; [discriminate BC|].
  apply andb_true_iff in AB. destruct AB as [AB1 AB2]. apply andb_true_iff in BC. destruct BC as [BC1 BC2].
  apply andb_true_iff. split; [|apply (IH b c); assumption].
  apply orb_true_iff in AB1. destruct AB1 as [E|E]; [rewrite E; reflexivity|].
  apply beq_eq in E. subst q. exact BC1.
Qed.

Lemma ncovers_sound : forall ps qs ss, ncovers ps qs = true -> nmatch qs ss = true -> nmatch ps ss = true.
Proof.
  induction ps as [|p ps IH]; intros [|q qs] [|s ss] C M; cbn [ncovers nmatch] in *; try discriminate; try reflexivity.
  destruct (beq p [gt]) eqn:PG; [exact C|].
  destruct (beq q [gt]) eqn:QG; [discriminate C|].
  apply andb_true_iff in C. destruct C as [C1 C2]. apply andb_true_iff in M. destruct M as [M1 M2].
  apply andb_true_iff. split; [|apply (IH qs ss); assumption].
  apply orb_true_iff in C1. destruct C1 as [E|E]; [rewrite E; reflexivity|].
  apply beq_eq in E. subst q. exact M1.
Qed.

(* ---- Pattern.Matches on NATS-style patterns is NATS covering ---- *)
Lemma tmatch_ncovers : forall ps qs, forallb stok ps = true -> forallb stok qs = true ->
  tmatch ps qs = ncovers ps qs.
Proof.
  induction ps as [|p ps IH]; intros [|q qs] SP SQ; try reflexivity.
  cbn [forallb] in SP, SQ. apply andb_true_iff in SP. destruct SP as [SP1 SP2].
  apply andb_true_iff in SQ. destruct SQ as [SQ1 SQ2].
  cbn [tmatch ncovers]. rewrite (IH qs SP2 SQ2).
  rewrite (stok_nonnil q SQ1), (stok_starts_gt q SQ1). cbn [andb negb].
  destruct (stok_cases p SP1) as [->| ->|L D].
  - cbn [kind]. change (star =? dollar) with false. change (star =? star) with true. cbn iota.
    change (beq [star] [gt]) with false. cbn iota.
    destruct (beq q [gt]); reflexivity.
  - cbn [kind]. change (gt =? dollar) with false. change (gt =? star) with false. change (gt =? gt) with true.
    cbn iota. change (beq [gt] [gt]) with true. cbn iota. cbn [andb]. rewrite andb_true_r. reflexivity.
  - rewrite (lit_kind p L D), (lit_not_gt p L), (lit_not_star p L). cbn [orb].
    destruct (beq q [gt]) eqn:QG; [|reflexivity].
    apply beq_eq in QG. subst q. rewrite (lit_not_gt p L). reflexivity.
Qed.

(* ---- matching lemmas used for coverage ---- *)
Lemma nmatch_cons_lit : forall t ps ss, beq t [gt] = false -> nmatch (t :: ps) (t :: ss) = nmatch ps ss.
Proof. intros t ps ss G. cbn [nmatch]. rewrite G, beq_refl, orb_true_r. reflexivity. Qed.

Lemma nmatch_snoc_star : forall ps ss m, forallb (fun t => negb (beq t [gt])) ps = true ->
  nmatch ps ss = true -> nmatch (ps ++ [[star]]) (ss ++ [m]) = true.
Proof.
  induction ps as [|p ps IH]; intros [|s ss] m G M; cbn [nmatch] in M; try discriminate.
  - reflexivity.
  - cbn [forallb] in G. apply andb_true_iff in G. destruct G as [G1 G2]. apply negb_true_iff in G1.
    cbn [app nmatch]. rewrite G1 in *. apply andb_true_iff in M. destruct M as [M1 M2].
    rewrite M1. cbn [andb]. apply IH; assumption.
Qed.

Lemma nmatch_gt_snoc : forall ps ss m, nats_valid_toks ps = true -> ends_gt ps = true ->
  nmatch ps ss = true -> nmatch ps (ss ++ [m]) = true.
Proof.
  induction ps as [|p ps IH]; intros [|s ss] m V E M; cbn [nmatch] in M; try discriminate.
  cbn [app nmatch]. destruct (beq p [gt]) eqn:PG; [exact M|].
  apply andb_true_iff in M. destruct M as [M1 M2]. rewrite M1. cbn [andb].
  destruct ps as [|u r].
  - unfold ends_gt in E. cbn [last] in E. rewrite E in PG. discriminate.
  - rewrite nats_valid_cons in V. apply andb_true_iff in V. destruct V as [_ V2].
    unfold ends_gt in E. rewrite last_cons2 in E. apply IH; assumption.
Qed.

(* literal token lists *)
Lemma nmatch_lits_prefix : forall ts ss, forallb lit_tok ts = true ->
  nmatch ts ss || nmatch (ts ++ [[gt]]) ss = is_prefix ts ss.
Proof.
  induction ts as [|t ts IH]; intros ss L.
  - destruct ss; reflexivity.
  - cbn [forallb] in L. apply andb_true_iff in L. destruct L as [L1 L2].
    destruct ss as [|s ss]; [reflexivity|].
    cbn [app nmatch is_prefix]. rewrite (lit_not_gt t L1), (lit_not_star t L1). cbn [orb].
    rewrite <- (IH ss L2). destruct (beq t s); reflexivity.
Qed.

(* ---- the last byte of a pattern ---- *)
Lemma last_is_gt_app : forall a b, b <> [] -> last_is_gt (a ++ b) = last_is_gt b.
Proof.
  induction a as [|c a IH]; intros b NE; [reflexivity|].
  cbn [app]. destruct (a ++ b) eqn:E.
  - destruct a; [cbn [app] in E; contradiction|discriminate E].
  - rewrite <- E. cbn [last_is_gt]. rewrite E. rewrite <- E. apply IH, NE.
Qed.

Lemma last_is_gt_join : forall ts, forallb (fun t => negb (is_nil t)) ts = true ->
  last_is_gt (join ts) = last_is_gt (last ts []).
Proof.
  induction ts as [|t r IH]; intros NE; [reflexivity|]. destruct r as [|u r]; [reflexivity|].
  cbn [forallb] in NE. apply andb_true_iff in NE. destruct NE as [_ NE].
  change (join (t :: u :: r)) with (t ++ dot :: join (u :: r)).
  rewrite last_is_gt_app by discriminate. rewrite last_cons2.
  assert (J : join (u :: r) <> []).
  { cbn [forallb] in NE. apply andb_true_iff in NE. destruct NE as [U _].
    destruct u as [|c u]; [discriminate U|]. destruct r; cbn [join app]; discriminate. }
  change (dot :: join (u :: r)) with ([dot] ++ join (u :: r)). rewrite last_is_gt_app by exact J.
  apply IH. exact NE.
Qed.

Lemma lit_last_not_gt : forall t, forallb tok_char_ok t = true -> last_is_gt t = false.
Proof.
  induction t as [|c t IH]; intros H; [reflexivity|].
  cbn [forallb] in H. apply andb_true_iff in H. destruct H as [H1 H2].
  destruct t as [|d t].
  - cbn [last_is_gt]. unfold tok_char_ok in H1. apply andb_true_iff in H1. destruct H1 as [_ H1].
    apply negb_true_iff in H1. exact H1.
  - change (last_is_gt (c :: d :: t)) with (last_is_gt (d :: t)). apply IH, H2.
Qed.

Lemma stok_last_is_gt : forall t, stok t = true -> last_is_gt t = beq t [gt].
Proof.
  intros t H. destruct (stok_cases t H) as [->| ->|L _]; [reflexivity|reflexivity|].
  rewrite (lit_not_gt t L). unfold lit_tok in L. apply andb_true_iff in L. destruct L as [_ L].
  apply lit_last_not_gt, L.
Qed.

Lemma forallb_last : forall (f : bytes -> bool) ts, ts <> [] -> forallb f ts = true -> f (last ts []) = true.
Proof.
  induction ts as [|t r IH]; intros NE H; [contradiction|].
  cbn [forallb] in H. apply andb_true_iff in H. destruct H as [H1 H2].
  destruct r as [|u r]; [exact H1|]. rewrite last_cons2. apply IH; [discriminate|exact H2].
Qed.

(* for a NATS-style pattern the last byte is '>' iff the last token is ">" *)
Lemma pattern_last_gt : forall p, forallb stok (tokens p) = true -> last_is_gt p = ends_gt (tokens p).
Proof.
  intros p S. rewrite <- (join_toks p) at 1. rewrite <- tokens_toks.
  rewrite last_is_gt_join.
  - unfold ends_gt. apply stok_last_is_gt. apply forallb_last; [apply tokens_nonnil|exact S].
  - clear -S. induction (tokens p) as [|t r IH]; [reflexivity|].
    cbn [forallb] in *. apply andb_true_iff in S. destruct S as [S1 S2].
    rewrite (stok_nonnil t S1). cbn [negb andb]. apply IH, S2.
Qed.
