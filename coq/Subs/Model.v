(* Executable model of the subscription / ownership part of service.go:
   setDefaultOwnership + defaultOwnership, subscribe (pattern list construction and
   the overlap elimination through Pattern.Matches), reset / ResetAll / handleReconnect.
   A Go string is a byte list; a nil []string is [None], a non-nil one [Some l]. *)
From GoRes Require Export Pattern.Model.

(* request type prefixes: "get" "call" "auth" "access" *)
Definition t_get : bytes := [103; 101; 116].
Definition t_call : bytes := [99; 97; 108; 108].
Definition t_auth : bytes := [97; 117; 116; 104].
Definition t_access : bytes := [97; 99; 99; 101; 115; 115].

Record config := Cfg {
  c_name : bytes;                     (* NewService(name): Mux.path *)
  c_res : option (list bytes);        (* SetOwnedResources(resources, _); None = nil (the default) *)
  c_acc : option (list bytes);        (* SetOwnedResources(_, access) *)
  c_has_res : bool;                   (* Contains(Get != nil || len(Call) > 0 || len(Auth) > 0 || New != nil): see layout_has_res *)
  c_has_acc : bool;                   (* Contains(Access != nil): see layout_has_acc *)
  c_queue : bytes                     (* queue group; [] = ChanSubscribe instead of ChanQueueSubscribe *)
}.

(* The registered handlers, one entry per Handle / AddHandler call anywhere in the service's mux tree
   (directly, below other handlers, on placeholder / wildcard patterns, inside mounted muxes, on the
   root pattern ""): the full pattern below the service name, whether the handler has a Get, Call,
   Auth or New method, and whether it has an Access method.  setDefaultOwnership asks Mux.Contains
   whether SOME registered handler passes the test; the model takes that reading (the property's
   "handler kinds actually registered"), the correspondence harness compares it with the real
   traversal. *)
Record hreg := HReg { h_pat : bytes; h_res : bool; h_acc : bool }.
Definition layout := list hreg.
Definition layout_has_res (l : layout) : bool := existsb h_res l.
Definition layout_has_acc (l : layout) : bool := existsb h_acc l.
(* the configuration of a service with these registrations *)
Definition cfg_layout (name : bytes) (res acc : option (list bytes)) (l : layout) (queue : bytes) : config :=
  Cfg name res acc (layout_has_res l) (layout_has_acc l) queue.

(* defaultOwnership *)
Definition default_ownership (name : bytes) : list bytes :=
  if is_nil name then [[gt]] else [name; name ++ [dot; gt]].

(* setDefaultOwnership: one list *)
Definition owned (name : bytes) (explicit : option (list bytes)) (has_handler : bool) : list bytes :=
  match explicit with
  | Some l => l
  | None => if has_handler then default_ownership name else []
  end.
Definition owned_res (c : config) : list bytes := owned (c_name c) (c_res c) (c_has_res c).
Definition owned_acc (c : config) : list bytes := owned (c_name c) (c_acc c) (c_has_acc c).

(* the owned patterns resolved by setDefaultOwnership (ownedResources / ownedAccess): serve() resolves
   them on each Serve from the configured lists and the handlers registered at that time; the
   configured lists (resetResources / resetAccess) are not written *)
Record ownership := Own { o_res : option (list bytes); o_acc : option (list bytes) }.
Definition initial_ownership (c : config) : ownership := Own None None.
Definition set_default_ownership (c : config) (o : ownership) : ownership :=
  Own (Some (owned (c_name c) (c_res c) (c_has_res c))) (Some (owned (c_name c) (c_acc c) (c_has_acc c))).
Definition olist (l : option (list bytes)) : list bytes := match l with Some x => x | None => [] end.

(* pattern[len(pattern)-1] == '>' *)
Fixpoint last_is_gt (s : bytes) : bool :=
  match s with
  | [] => false
  | [c] => c =? gt
  | _ :: r => last_is_gt r
  end.

(* one entry of the first loop of subscribe: t + "." + p, plus ".*" unless it ends in '>' or t is get *)
Definition req_pattern (t p : bytes) : bytes :=
  let pat := t ++ dot :: p in
  if negb (last_is_gt pat) && negb (beq t t_get) then pat ++ [dot; star] else pat.
Definition access_pattern (p : bytes) : bytes := t_access ++ dot :: p.

Definition patterns_of (res acc : list bytes) : list bytes :=
  flat_map (fun t => map (req_pattern t) res) [t_get; t_call; t_auth] ++ map access_pattern acc.

(* the overlap elimination: pattern i is skipped iff some j <> i has
   Matches(p_j, p_i) && (j < i || !Matches(p_i, p_j)) *)
Fixpoint skipped_go (i : nat) (p : bytes) (j : nat) (qs : list bytes) : bool :=
  match qs with
  | [] => false
  | q :: qs' =>
    (negb (Nat.eqb i j) && matches q p && (Nat.ltb j i || negb (matches p q))) || skipped_go i p (S j) qs'
  end.
Definition skipped (all : list bytes) (i : nat) (p : bytes) : bool := skipped_go i p 0%nat all.
Fixpoint eliminate_go (all : list bytes) (i : nat) (rest : list bytes) : list bytes :=
  match rest with
  | [] => []
  | p :: r => (if skipped all i p then [] else [p]) ++ eliminate_go all (S i) r
  end.
Definition eliminate (ps : list bytes) : list bytes := eliminate_go ps 0%nat ps.

Definition all_patterns (c : config) : list bytes := patterns_of (owned_res c) (owned_acc c).

(* the subjects subscribe() asks the connection for, in order (no connection error) *)
Definition subscriptions (c : config) : list bytes := eliminate (all_patterns c).

(* (subject, queue) of every ChanSubscribe ([] queue) / ChanQueueSubscribe call *)
Definition subscribe_calls (c : config) : list (bytes * bytes) :=
  map (fun s => (s, c_queue c)) (subscriptions c).

Inductive sub_outcome :=
  | NoResources                         (* errors.New("res: no resources to serve") *)
  | Subscribed (calls : list (bytes * bytes)).
Definition subscribe (c : config) : sub_outcome :=
  if is_nil (owned_res c) && is_nil (owned_acc c) then NoResources else Subscribed (subscribe_calls c).

(* reset(): the system.reset payload; a list is omitted (None) when empty; nothing is sent when both are *)
Definition reset_event (res acc : list bytes) : option (option (list bytes) * option (list bytes)) :=
  if is_nil res && is_nil acc then None
  else Some (if is_nil res then None else Some res, if is_nil acc then None else Some acc).

(* ResetAll (also what serve calls after subscribing and what handleReconnect calls) *)
Definition reset_all (c : config) (o : ownership) : ownership * option (option (list bytes) * option (list bytes)) :=
  (o, reset_event (olist (o_res o)) (olist (o_acc o))).

(* What the connection and the OnReconnect / OnDisconnect callbacks see, in order.
   handleReconnect = ResetAll, then the OnReconnect callback; handleDisconnect = the OnDisconnect
   callback, nothing is published.  On a service that is not started ([None]: before Serve, after
   Shutdown) ResetAll logs "Failed to reset: service not started" and publishes nothing; the
   callback is called all the same. *)
Inductive svc_event :=
  | EReset (p : option (list bytes) * option (list bytes))   (* system.reset published *)
  | ERefused                                                 (* ResetAll refused: service not started *)
  | EOnReconnect
  | EOnDisconnect.
Definition reset_all_events (c : config) (o : option ownership) : list svc_event :=
  match o with
  | Some ow => match snd (reset_all c ow) with Some p => [EReset p] | None => [] end
  | None => [ERefused]
  end.
Definition handle_reconnect (c : config) (o : option ownership) : list svc_event :=
  reset_all_events c o ++ [EOnReconnect].
Definition handle_disconnect : list svc_event := [EOnDisconnect].
(* a script of operations on the service: 0 = ResetAll, 1 = reconnect, 2 = disconnect *)
Definition op_events (c : config) (o : option ownership) (op : N) : list svc_event :=
  if op =? 0 then reset_all_events c o else if op =? 1 then handle_reconnect c o else handle_disconnect.
Definition script_events (c : config) (o : option ownership) (script : list N) : list svc_event :=
  flat_map (op_events c o) script.

(* owned patterns while serving: resolved by serve() before subscribing *)
Definition served_ownership (c : config) : ownership := set_default_ownership c (initial_ownership c).

(* the payload of the n-th ResetAll after Serve (0 = the one sent on start) *)
Fixpoint reset_nth (c : config) (o : ownership) (n : nat) : option (option (list bytes) * option (list bytes)) :=
  match n with
  | O => snd (reset_all c o)
  | S n' => reset_nth c (fst (reset_all c o)) n'
  end.
Definition reset_payload (c : config) : option (option (list bytes) * option (list bytes)) :=
  reset_nth c (served_ownership c) 0.

(* ---- the loop as it was before the fix: i <> j && Matches(p_j, p_i); access list not de-overlapped ---- *)
Fixpoint skipped_v0_go (i : nat) (p : bytes) (j : nat) (qs : list bytes) : bool :=
  match qs with
  | [] => false
  | q :: qs' => (negb (Nat.eqb i j) && matches q p) || skipped_v0_go i p (S j) qs'
  end.
Fixpoint eliminate_v0_go (all : list bytes) (i : nat) (rest : list bytes) : list bytes :=
  match rest with
  | [] => []
  | p :: r => (if skipped_v0_go i p 0%nat all then [] else [p]) ++ eliminate_v0_go all (S i) r
  end.
Definition default_ownership_v0 (name : bytes) : list bytes := [name; name ++ (if is_nil name then [gt] else [dot; gt])].
Definition owned_v0 (name : bytes) (explicit : option (list bytes)) (has_handler : bool) : list bytes :=
  match explicit with Some l => l | None => if has_handler then default_ownership_v0 name else [] end.
Definition subscriptions_v0 (c : config) : list bytes :=
  let res := owned_v0 (c_name c) (c_res c) (c_has_res c) in
  let acc := owned_v0 (c_name c) (c_acc c) (c_has_acc c) in
  let ps := flat_map (fun t => map (req_pattern t) res) [t_get; t_call; t_auth] in
  map access_pattern acc ++ eliminate_v0_go ps 0%nat ps.
