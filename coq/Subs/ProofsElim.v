(* The overlap-elimination loop of subscribe(), for a pattern list on which Matches is a
   preorder: every pattern is covered by a kept one, kept ones are pairwise non-covering. *)
From GoRes Require Import Subs.Model.
From Coq Require Import Lia Arith.

(* ---- generic list facts ---- *)
Lemma filter_len_mono : forall (f g : bytes -> bool) l,
  (forall x, In x l -> f x = true -> g x = true) -> (length (filter f l) <= length (filter g l))%nat.
Proof.
  induction l as [|x l IH]; intros H; [apply Nat.le_refl|]. cbn [filter].
  assert (IH' := IH (fun y Hy => H y (or_intror Hy))).
  destruct (f x) eqn:F.
  - rewrite (H x (or_introl eq_refl) F). cbn [length]. lia.
  - destruct (g x); cbn [length]; lia.
Qed.

Lemma filter_len_strict : forall (f g : bytes -> bool) l y,
  (forall x, In x l -> f x = true -> g x = true) -> In y l -> f y = false -> g y = true ->
  (length (filter f l) < length (filter g l))%nat.
Proof.
  induction l as [|x l IH]; intros y H Hy Fy Gy; [destruct Hy|]. cbn [filter].
  assert (M := filter_len_mono f g l (fun z Hz => H z (or_intror Hz))).
  destruct Hy as [->|Hy].
  - rewrite Fy, Gy. cbn [length]. lia.
  - assert (S := IH y (fun z Hz => H z (or_intror Hz)) Hy Fy Gy).
    destruct (f x) eqn:F.
    + rewrite (H x (or_introl eq_refl) F). cbn [length]. lia.
    + destruct (g x); cbn [length]; lia.
Qed.

Lemma filter_len_le : forall (f : bytes -> bool) l, (length (filter f l) <= length l)%nat.
Proof. induction l as [|x l IH]; cbn [filter length]; [lia|]. destruct (f x); cbn [length]; lia. Qed.

(* ---- the loop ---- *)
Lemma skipped_go_true : forall i p qs j, skipped_go i p j qs = true ->
  exists k q, nth_error qs k = Some q /\ i <> (j + k)%nat /\ matches q p = true /\
              ((j + k < i)%nat \/ matches p q = false).
Proof.
  induction qs as [|q qs IH]; intros j H; cbn [skipped_go] in H; [discriminate|].
  apply orb_true_iff in H. destruct H as [H|H].
  - apply andb_true_iff in H. destruct H as [H H3]. apply andb_true_iff in H. destruct H as [H1 H2].
    exists 0%nat, q. rewrite Nat.add_0_r. split; [reflexivity|].
    apply negb_true_iff, Nat.eqb_neq in H1. split; [exact H1|]. split; [exact H2|].
    apply orb_true_iff in H3. destruct H3 as [H3|H3].
    + left. apply Nat.ltb_lt, H3.
    + right. apply negb_true_iff, H3.
  - destruct (IH _ H) as (k & q' & N & D & M & C). exists (S k), q'.
    replace (j + S k)%nat with (S j + k)%nat by lia. auto.
Qed.

Lemma skipped_go_intro : forall i p qs j k q, nth_error qs k = Some q -> i <> (j + k)%nat -> matches q p = true ->
  ((j + k < i)%nat \/ matches p q = false) -> skipped_go i p j qs = true.
Proof.
  induction qs as [|q0 qs IH]; intros j k q N D M C; [destruct k; discriminate|].
  cbn [skipped_go]. destruct k as [|k].
  - cbn [nth_error] in N. injection N as ->. rewrite Nat.add_0_r in *.
    apply orb_true_iff. left. rewrite M.
    assert (E : Nat.eqb i j = false) by (apply Nat.eqb_neq; exact D). rewrite E. cbn [negb andb].
    destruct C as [C|C].
    + apply Nat.ltb_lt in C. rewrite C. reflexivity.
    + rewrite C. apply orb_true_r.
  - cbn [nth_error] in N. apply orb_true_iff. right.
    apply (IH (S j) k q N); [lia|exact M|]. destruct C as [C|C]; [left; lia|right; exact C].
Qed.

Lemma skipped_true : forall all i p, skipped all i p = true ->
  exists k q, nth_error all k = Some q /\ i <> k /\ matches q p = true /\ ((k < i)%nat \/ matches p q = false).
Proof. intros all i p H. apply skipped_go_true in H. exact H. Qed.

Lemma skipped_intro : forall all i p k q, nth_error all k = Some q -> i <> k -> matches q p = true ->
  ((k < i)%nat \/ matches p q = false) -> skipped all i p = true.
Proof. intros all i p k q N D M C. apply (skipped_go_intro i p all 0%nat k q); assumption. Qed.

Lemma eliminate_go_in : forall all rest o s, In s (eliminate_go all o rest) ->
  exists k, nth_error rest k = Some s /\ skipped all (o + k) s = false.
Proof.
  induction rest as [|p r IH]; intros o s H; cbn [eliminate_go] in H; [destruct H|].
  apply in_app_or in H. destruct H as [H|H].
  - destruct (skipped all o p) eqn:E; [destruct H|]. destruct H as [<-|[]].
    exists 0%nat. rewrite Nat.add_0_r. split; [reflexivity|exact E].
  - destruct (IH _ _ H) as (k & N & K). exists (S k). split; [exact N|].
    replace (o + S k)%nat with (S o + k)%nat by lia. exact K.
Qed.

Lemma eliminate_go_intro : forall all rest o k s, nth_error rest k = Some s -> skipped all (o + k) s = false ->
  In s (eliminate_go all o rest).
Proof.
  induction rest as [|p r IH]; intros o k s N K; [destruct k; discriminate|].
  cbn [eliminate_go]. apply in_or_app. destruct k as [|k].
  - cbn [nth_error] in N. injection N as ->. rewrite Nat.add_0_r in K. rewrite K. left. left. reflexivity.
  - right. apply (IH (S o) k s N). replace (S o + k)%nat with (o + S k)%nat by lia. exact K.
Qed.

Lemma eliminate_go_count : forall (f : bytes -> bool) all rest o,
  (length (filter f (eliminate_go all o rest)) <= length (filter f rest))%nat.
Proof.
  induction rest as [|p r IH]; intros o; cbn [eliminate_go]; [apply Nat.le_refl|].
  assert (I := IH (S o)). destruct (skipped all o p); cbn [app filter]; destruct (f p); cbn [length]; lia.
Qed.

Section Loop.
  Variable P : list bytes.
  Hypothesis Rrefl : forall p, In p P -> matches p p = true.
  Hypothesis Rtrans : forall a b c, In a P -> In b P -> In c P ->
    matches a b = true -> matches b c = true -> matches a c = true.

  Definition cnt (p : bytes) : nat := length (filter (fun x => matches p x) P).

  Lemma cnt_le : forall p, (cnt p <= length P)%nat.
  Proof. intros p. apply filter_len_le. Qed.

  (* every pattern is covered by a kept one *)
  Lemma cover_aux : forall a i p, nth_error P i = Some p -> (length P - cnt p)%nat = a ->
    exists k q, nth_error P k = Some q /\ skipped P k q = false /\ matches q p = true.
  Proof.
    induction a as [a IHa] using lt_wf_ind.
    induction i as [i IHi] using lt_wf_ind. intros p N A.
    assert (Ip : In p P) by (eapply nth_error_In; exact N).
    destruct (skipped P i p) eqn:SK.
    - destruct (skipped_true _ _ _ SK) as (k & q & Nq & D & M & C).
      assert (Iq : In q P) by (eapply nth_error_In; exact Nq).
      assert (Mono : (cnt p <= cnt q)%nat).
      { apply filter_len_mono. intros x Ix Hx. apply (Rtrans q p x); assumption. }
      assert (Lq := cnt_le q).
      destruct (matches p q) eqn:PQ.
      + (* equivalent patterns: the earlier one *)
        assert (K : (k < i)%nat) by (destruct C as [C|C]; [exact C|discriminate]).
        destruct (Nat.eq_dec (length P - cnt q) a) as [E|E].
        * destruct (IHi k K q Nq E) as (k' & q' & N' & S' & M').
          exists k', q'. split; [exact N'|]. split; [exact S'|].
          apply (Rtrans q' q p); try assumption. eapply nth_error_In; exact N'.
        * assert (Lt : (length P - cnt q < a)%nat) by lia.
          destruct (IHa _ Lt k q Nq eq_refl) as (k' & q' & N' & S' & M').
          exists k', q'. split; [exact N'|]. split; [exact S'|].
          apply (Rtrans q' q p); try assumption. eapply nth_error_In; exact N'.
      + (* strictly more general pattern *)
        assert (St : (cnt p < cnt q)%nat).
        { apply (filter_len_strict _ _ P q); [|exact Iq|exact PQ|apply Rrefl; exact Iq].
          intros x Ix Hx. apply (Rtrans q p x); assumption. }
        assert (Lt : (length P - cnt q < a)%nat) by lia.
        destruct (IHa _ Lt k q Nq eq_refl) as (k' & q' & N' & S' & M').
        exists k', q'. split; [exact N'|]. split; [exact S'|].
        apply (Rtrans q' q p); try assumption. eapply nth_error_In; exact N'.
    - exists i, p. split; [exact N|]. split; [exact SK|]. apply Rrefl, Ip.
  Qed.

  Lemma eliminate_covers : forall p, In p P -> exists q, In q (eliminate P) /\ matches q p = true.
  Proof.
    intros p Ip. destruct (In_nth_error _ _ Ip) as [i N].
    destruct (cover_aux _ i p N eq_refl) as (k & q & Nq & S & M).
    exists q. split; [|exact M]. unfold eliminate. apply (eliminate_go_intro P P 0%nat k q Nq). exact S.
  Qed.

  (* kept patterns do not cover one another (no transitivity needed) *)
  Lemma kept_noncovering : forall i j a b, nth_error P i = Some a -> nth_error P j = Some b -> i <> j ->
    skipped P i a = false -> skipped P j b = false -> matches b a = false.
  Proof.
    intros i j a b Na Nb D Sa Sb. destruct (matches b a) eqn:BA; [exfalso|reflexivity].
    destruct (matches a b) eqn:AB.
    - destruct (Nat.lt_ge_cases j i) as [L|L].
      + rewrite (skipped_intro P i a j b Nb D BA (or_introl L)) in Sa. discriminate.
      + assert (L' : (i < j)%nat) by lia.
        rewrite (skipped_intro P j b i a Na (fun e => D (eq_sym e)) AB (or_introl L')) in Sb. discriminate.
    - rewrite (skipped_intro P i a j b Nb D BA (or_intror AB)) in Sa. discriminate.
  Qed.
End Loop.

(* pairwise non-covering, by position *)
Definition pairwise_nc (l : list bytes) : Prop :=
  forall i j a b, nth_error l i = Some a -> nth_error l j = Some b -> i <> j -> matches b a = false.

Lemma pairwise_nc_cons : forall a l,
  (forall b, In b l -> matches b a = false /\ matches a b = false) -> pairwise_nc l -> pairwise_nc (a :: l).
Proof.
  intros a l H PW i j x y Nx Ny D. destruct i as [|i], j as [|j]; cbn [nth_error] in *.
  - exfalso. apply D. reflexivity.
  - injection Nx as <-. apply H. eapply nth_error_In; exact Ny.
  - injection Ny as <-. apply H. eapply nth_error_In; exact Nx.
  - apply (PW i j x y Nx Ny). intros e. apply D. f_equal. exact e.
Qed.

Lemma eliminate_go_pairwise : forall P rest o,
  (forall k, nth_error rest k = nth_error P (o + k)) -> pairwise_nc (eliminate_go P o rest).
Proof.
  induction rest as [|p r IH]; intros o Inv; cbn [eliminate_go].
  - intros i j a b Na. destruct i; discriminate.
  - assert (Inv' : forall k, nth_error r k = nth_error P (S o + k)).
    { intros k. replace (S o + k)%nat with (o + S k)%nat by lia. rewrite <- (Inv (S k)). reflexivity. }
    destruct (skipped P o p) eqn:SK; cbn [app]; [apply IH, Inv'|].
    apply pairwise_nc_cons; [|apply IH, Inv'].
    intros b Hb. destruct (eliminate_go_in _ _ _ _ Hb) as (k & Nb & Kb).
    assert (Np : nth_error P o = Some p) by (rewrite <- (Nat.add_0_r o), <- Inv; reflexivity).
    assert (Nb' : nth_error P (S o + k) = Some b) by (rewrite <- Inv'; exact Nb).
    split.
    + apply (kept_noncovering P o (S o + k)%nat p b Np Nb'); [lia|exact SK|exact Kb].
    + apply (kept_noncovering P (S o + k)%nat o b p Nb' Np); [lia|exact Kb|exact SK].
Qed.

Lemma eliminate_pairwise : forall P, pairwise_nc (eliminate P).
Proof. intros P. unfold eliminate. apply eliminate_go_pairwise. intros k. reflexivity. Qed.

Lemma eliminate_incl : forall P s, In s (eliminate P) -> In s P.
Proof.
  intros P s H. unfold eliminate in H. destruct (eliminate_go_in _ _ _ _ H) as (k & N & _).
  eapply nth_error_In; exact N.
Qed.
