From stdpp Require Import gmap.
From Coq Require Import NArith.
From GoRes Require Export Run.Run_Sched.
Definition violations (cs : list scase) : list (N * N) :=
  run_idx (fun c => if mon_mutex c nil (sc_trace c) then [] else [1%N]) 0%N cs.
