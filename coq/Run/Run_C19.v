(* Evaluators used by the generated cases_C19_*.v files.
   One case = one call of resprot.SendRequest against a scripted connection (or a real
   service): the script (number of callbacks, failing step, timeout, arrivals) plus what the
   harness observed.  resprot.ParseResponse is not modelled here (C18): the harness supplies,
   for every scripted payload, a canonical summary of ParseResponse(payload) computed with the
   real function, and the summary of the Response that SendRequest returned.  The summaries of
   the timeout error and of the internal error of a failing step are computed HERE from the model
   (code system.internalError, message = prefix ++ text of the injected error), never by calling
   res.InternalError in the harness.
   [mismatches]: model vs implementation.  [violations]: the property's decidable form on
   the implementation's outputs. *)
From GoRes Require Export Client.Spec.
Open Scope Z_scope.

Record ccase := CC {
  c_ncb : nat;                      (* number of onTimeoutExtend callbacks *)
  c_fail : fail;                    (* scripted failing step with the error value it fails with,
                                       described by the harness from how it BUILT the error *)
  c_T : Z;                          (* timeout argument, ns *)
  c_cbd : Z;                        (* how long every extension callback blocks, ns (0: returns at once) *)
  c_race : bool;                    (* race script: the timer and messages are MEANT to be ready together
                                       (slow callbacks, arrivals at the deadline); compared with [wait_nd] *)
  c_arr : list (Z * bytes);         (* arrivals after the publish: ns since the publish, payload *)
  c_parse : list (bytes * bytes);   (* payload -> summary of resprot.ParseResponse(payload) *)
  g_resp : bytes;                   (* summary of the returned Response *)
  g_coarse : bytes;                 (* the same with the Message replaced by * when the code is system.internalError *)
  g_cbs : list (nat * Z);           (* callback invocations in order: (index, duration ns) *)
  g_subscribed : bool;              (* ChanSubscribe returned a subscription *)
  g_published : bool;               (* PublishRequest was called and succeeded *)
  g_released : bool;                (* every subscription handed out is no longer valid *)
  g_live : N;                       (* subscriptions of this call still live afterwards *)
  g_elapsed : Z;                    (* wall time of the call, ns (compared to a coarse bound only) *)
  g_pubok : bool                    (* the published subject, reply inbox and payload were the expected ones *)
}.

Definition margin : Z := 120000000.      (* 3 grid steps of 40 ms *)
Definition tolerance : Z := 100000000.   (* elapsed time is compared to +-100 ms *)

Definition race_window : Z := 40000000.   (* ready within 40 ms of each other: either may be chosen *)

Definition cb_eqb (a b : nat * Z) : bool := Nat.eqb (fst a) (fst b) && (snd a =? snd b).
Fixpoint list_eqb {A} (e : A -> A -> bool) (a b : list A) : bool :=
  match a, b with
  | [], [] => true
  | x :: a', y :: b' => e x y && list_eqb e a' b'
  | _, _ => false
  end.
Definition cbs_eqb := list_eqb cb_eqb.

(* c_parse is produced by a reference parser in the harness (encoding/json into the harness' own
   struct + the one-member rule), NOT by resprot.ParseResponse.  Where the reference reports an
   invalid response its entry is in the coarse form (the decoder's wording is not compared), so a
   returned response matches an expectation if either of its two summaries equals it. *)
Definition resp_is (c : ccase) (e : bytes) : bool := beq e (g_resp c) || beq e (g_coarse c).

Definition parse_of (c : ccase) (p : bytes) : bytes :=
  match alookup p (c_parse c) with Some s => s | None => [0%N] end.

(* the harness' summary of a Response whose only member is Error{Code, Message} (Data nil):
   R<nil>|S:|E:<code>|<message>|null -- computed here, not by the code under test *)
Definition err_summary (cm : bytes * bytes) : bytes :=
  [82; 60; 110; 105; 108; 62; 124; 83; 58; 124; 69; 58]%N ++ fst cm ++ [124%N] ++ snd cm ++ [124; 110; 117; 108; 108]%N.
Definition tmo_summary : bytes := err_summary (code_timeout, msg_timeout).
Definition int_summary (c : ccase) : bytes :=
  match fail_err (c_fail c) with Some e => err_summary (internal_error e) | None => [0%N] end.

Definition expected_summary (c : ccase) (o : outcome) : bytes :=
  match o with
  | OResponse p => parse_of c p
  | _ => match res_error o with Some cm => err_summary cm | None => [0%N] end
  end.

(* every timer-vs-message decision the model takes on this script is at least [margin] away
   from a tie (the timer really fires at max now dl): scripts violating this are harness bugs *)
Fixpoint separated (now dl : Z) (arr : list (Z * bytes)) : bool :=
  match arr with
  | [] => true
  | (t0, p) :: rest =>
    let t := Z.max now t0 in
    (margin <=? Z.abs (Z.max now dl - t)) &&
    (if dl <=? t then true
     else if negb (is_pre p) then true
     else match pre_timeout p with
          | Some d => separated t (t + d) rest
          | None => separated t dl rest
          end)
  end.

(* field codes: 1 response  2 callbacks  3 subscribed/published  4 released  5 elapsed time
   6 script not separated by the margin (the harness generated a racy script)
   7 race script: (response, callbacks, elapsed) is none of the results wait_nd allows *)
(* race scripts: the observation must be one of the results [wait_nd] allows *)
Definition race_match (c : ccase) (r : loopres) : bool :=
  (match l_out r with
   | OResponse p => resp_is c (parse_of c p)
   | o => beq (expected_summary c o) (g_resp c)
   end) &&
  cbs_eqb (l_cbs r) (g_cbs c) &&
  (Z.abs (g_elapsed c - l_time r) <=? tolerance + race_window).

Definition check_race (c : ccase) : list N :=
  (if existsb (race_match c) (wait_nd race_window (c_cbd c) (c_ncb c) 0 (c_T c) (c_arr c)) then [] else [7%N]) ++
  (if g_subscribed c && g_published c then [] else [3%N]) ++
  (if g_released c then [] else [4%N]).

Definition check_det (c : ccase) : list N :=
  let r := send (c_ncb c) (c_fail c) (c_T c) (c_arr c) in
  ((if (match r_out r with
        | OResponse _ => resp_is c (expected_summary c (r_out r))
        | _ => beq (expected_summary c (r_out r)) (g_resp c)
        end) then [] else [1%N]) ++
   (if cbs_eqb (r_cbs r) (g_cbs c) then [] else [2%N]) ++
   (if Bool.eqb (r_subscribed r) (g_subscribed c) && Bool.eqb (r_published r) (g_published c) then [] else [3%N]) ++
   (if Bool.eqb (r_released r) (g_released c) then [] else [4%N]) ++
   (if Z.abs (g_elapsed c - r_time r) <=? tolerance then [] else [5%N]) ++
   (match c_fail c with FNone => if separated 0 (c_T c) (c_arr c) then [] else [6%N] | _ => [] end)).

Definition check_case (c : ccase) : list N :=
  match c_race c, c_fail c with
  | true, FNone => check_race c
  | _, _ => check_det c
  end.

(* ---- the property on the implementation's outputs ---- *)
(* the leading run of pre-responses and the first real response, if any *)
Fixpoint split_pre (arr : list (Z * bytes)) : list (Z * bytes) * option (Z * bytes) :=
  match arr with
  | [] => ([], None)
  | (t0, p) :: rest =>
    if is_pre p then let (l, o) := split_pre rest in ((t0, p) :: l, o) else ([], Some (t0, p))
  end.

(* how far a run of pre-responses is received: (received part, clock, deadline) *)
Fixpoint recv_run (now dl : Z) (pre : list (Z * bytes)) : list (Z * bytes) * Z * Z :=
  match pre with
  | [] => ([], now, dl)
  | (t0, p) :: rest =>
    let t := Z.max now t0 in
    if dl <=? t then ([], now, dl)
    else
      let '(l, n', d') := recv_run t (match pre_timeout p with Some d => t + d | None => dl end) rest in
      ((t0, p) :: l, n', d')
  end.

(* violation codes:
   1 no failing step, yet the result is neither the timeout error nor the parsed FIRST real response
   2 a subscription was handed out and is still live after the return
   3 first real response returned, but the callbacks are not: each callback once per valid
     timeout pre-response before it, in order, with the announced duration
   4 a failing step: result is not the internal error, or a callback ran, or the call waited
   5 timeout returned although the first real response arrived before the current deadline
   6 a response returned although it (or a pre-response before it) arrived after the deadline
   7 timeout returned, but the callbacks are not those of the pre-responses received in time
   9 race script, timeout returned: the callbacks are not those of an initial part of the
     pre-responses (codes 1 and 3 apply to race scripts unchanged: whichever way a tie goes, the
     result is the timeout error or the parsed first real response, never a pre-response parsed
     as a response)
   8 the request was published with an unexpected subject / reply inbox / payload *)
Definition viol_case (c : ccase) : list N :=
  let ncb := c_ncb c in
  let '(pre, first) := split_pre (c_arr c) in
  let '(got, now', dl') := recv_run 0 (c_T c) pre in
  let all_pre_in_time := Nat.eqb (length got) (length pre) in
  let first_in_time := match first with Some (t0, _) => all_pre_in_time && (Z.max now' t0 <? dl') | None => false end in
  let is_first := match first with Some (_, p) => resp_is c (parse_of c p) | None => false end in
  let is_tmo := beq (g_resp c) tmo_summary in
  let det := negb (c_race c) in     (* codes 5 6 7 presuppose decisions away from a tie *)
  (match c_fail c with
   | FNone =>
     (if is_first || is_tmo then [] else [1%N]) ++
     (if is_first && negb is_tmo && negb (cbs_eqb (g_cbs c) (notes ncb pre)) then [3%N] else []) ++
     (if det && is_tmo && negb is_first && first_in_time then [5%N] else []) ++
     (if det && is_first && negb is_tmo && negb first_in_time then [6%N] else []) ++
     (if det && is_tmo && negb is_first && negb first_in_time && negb (cbs_eqb (g_cbs c) (notes ncb got)) then [7%N] else []) ++
     (if negb det && is_tmo && negb is_first &&
         negb (existsb (fun k => cbs_eqb (g_cbs c) (notes ncb (firstn k pre))) (seq 0 (S (length pre)))) then [9%N] else []) ++
     (if g_pubok c then [] else [8%N])
   | _ =>
     (if beq (g_resp c) (int_summary c) && is_nil (g_cbs c) && (g_elapsed c <=? tolerance) then [] else [4%N])
   end ++
   (if g_subscribed c && (negb (g_released c) || negb (g_live c =? 0)%N) then [2%N] else [])).

Fixpoint run_idx {A} (f : A -> list N) (i : N) (cs : list A) : list (N * N) :=
  match cs with
  | [] => []
  | c :: r => map (fun k => (i, k)) (f c) ++ run_idx f (i + 1)%N r
  end.
Definition mismatches (cs : list ccase) : list (N * N) := run_idx check_case 0%N cs.
Definition violations (cs : list ccase) : list (N * N) := run_idx viol_case 0%N cs.
