(* Evaluators for the generated cases_C20_*.v files.  One case = one resource served by
   one of the two BadgerDB middlewares through a real res.Service, a sequence of events
   sent with the Resource event methods, and what was observed after every event.
   [mismatches]: the model run on the same events differs from an observation.
   [violations]: property C20 decided on the implementation's observations alone. *)
From GoRes Require Export Legacy.Spec.
Open Scope N_scope.

(* handler configuration; the index set is given by the property each index keys on *)
Record ccfg := CC {
  cc_pkg : pkg; cc_type : rtype; cc_ty : ty; cc_def : option res; cc_idx : option (list key);
  cc_map : bool                 (* resbadger.Model.WithMap(std_map) *)
}.
Definition to_cfg (x : ccfg) : cfg :=
  Cfg (cc_pkg x) (cc_type x) (cc_ty x) (cc_def x) (option_map (map field_key) (cc_idx x))
      (if cc_map x then Some std_map else None).

Record sobs := SO {
  so_ev : event;
  g_panic : bool;               (* the event method panicked *)
  g_pub : list pubmsg;          (* messages published on event.<rid>.* during the call *)
  g_call : list lcall;          (* listener invocations during the call *)
  g_get : gres;                 (* response to a get request sent afterwards *)
  g_value : gres;               (* Resource.Value() afterwards *)
  g_stored : option res;        (* raw database entry afterwards *)
  g_idx : list ent;             (* index entries of the resource afterwards *)
  g_icalls : list icall;        (* index listener calls (Listen / ListenIndex) during the call *)
  g_fetch : list (N * N)        (* per index: how often IndexQuery.FetchCollection (no prefix, no limit) lists the resource *)
}.
Record lcase := LC {
  lc_cfg : ccfg;
  lc_init : option res;         (* entry written to the database before serving *)
  lc_get0 : gres;
  lc_value0 : gres;
  lc_steps : list sobs;
  lc_reget : gres;              (* get after closing and reopening database and service *)
  lc_restored : option res;
  lc_reidx : list ent;
  (* Model.RebuildIndexes on a database holding this resource only, after the events:
     (Type option set, outcome 0 ok / 1 error / 2 panic, index entries afterwards) *)
  lc_rebuild : option (bool * N * list ent)
}.

(* ---- comparisons ---- *)
Definition aeqb (a b : act jval) : bool :=
  match a, b with Put x, Put y => jeqb x y | Del, Del => true | _, _ => false end.
Definition oaeqb (a b : option (act jval)) : bool :=
  match a, b with Some x, Some y => aeqb x y | None, None => true | _, _ => false end.
Definition rmeqb (a b : revmap) : bool :=
  forallb (fun kv => oaeqb (rget (fst kv) a) (rget (fst kv) b)) (a ++ b).
Definition pubeqb (a b : pubmsg) : bool :=
  match a, b with
  | PChange x, PChange y => rmeqb x y
  | PAdd v i, PAdd w j => jeqb v w && (i =? j)
  | PRemove i, PRemove j => i =? j
  | PCreate, PCreate => true
  | PDelete, PDelete => true
  | _, _ => false
  end.
Definition calleqb (a b : lcall) : bool :=
  match a, b with
  | LChange n o, LChange n' o' => rmeqb n n' && rmeqb o o'
  | LAdd v i, LAdd w j => jeqb v w && (i =? j)
  | LRemove i, LRemove j => i =? j
  | LCreate d, LCreate d' => reqb d d'
  | LDelete d, LDelete d' => veqb d d'
  | _, _ => false
  end.
Fixpoint list_eqb {A} (f : A -> A -> bool) (a b : list A) : bool :=
  match a, b with [], [] => true | x :: a', y :: b' => f x y && list_eqb f a' b' | _, _ => false end.
Definition otl {A} (o : option A) : list A := match o with Some x => [x] | None => [] end.
Definition ents_eqb (a b : list ent) : bool :=
  forallb (fun e => existsb (ent_eqb e) b) a && forallb (fun e => existsb (ent_eqb e) a) b.

Definition oreqb (a b : option res) : bool := veqb a b.
Definition iceqb (a b : icall) : bool :=
  match a, b with
  | IC n b1 a1, IC m b2 a2 =>
    match n, m with Some x, Some y => x =? y | None, None => true | _, _ => false end && oreqb b1 b2 && oreqb a1 a2
  end.
Definition fetch_counts (c : cfg) (l : list ent) : list (N * N) :=
  match idxs c with
  | None => []
  | Some ks => map (fun i => (N.of_nat i, len (filter (fun e => fst e =? N.of_nat i) l))) (seq 0 (length ks))
  end.
Definition nn_eqb (a b : list (N * N)) : bool :=
  list_eqb (fun x y => (fst x =? fst y) && (snd x =? snd y)) a b.
Definition rb_code (r : rbres) : N := match r with RbOk _ => 0 | RbErr => 1 | RbPanic => 2 end.
Definition rb_ents (r : rbres) : list ent := match r with RbOk l => l | _ => [] end.

(* ---- correspondence.  field codes:
   1 first get / Value   2 panicked   3 published   4 listener calls   5 get   6 Value
   7 stored entry        8 index entries   9 get after reopen   10 stored / index entries after reopen
   11 index listener calls   12 FetchCollection   13 RebuildIndexes outcome / entries *)
Fixpoint check_steps (c : cfg) (s : state) (l : list sobs) : list N * state :=
  match l with
  | [] => ([], s)
  | o :: l' =>
    let m := fire c s (so_ev o) in
    let s' := o_state m in
    let d :=
      (if Bool.eqb (o_panic m) (g_panic o) then [] else [2]) ++
      (if list_eqb pubeqb (otl (o_pub m)) (g_pub o) then [] else [3]) ++
      (if list_eqb calleqb (otl (o_call m)) (g_call o) then [] else [4]) ++
      (if geqb (get_resource c s') (g_get o) then [] else [5]) ++
      (if geqb (value_resource c s') (g_value o) then [] else [6]) ++
      (if veqb (st_val s') (g_stored o) then [] else [7]) ++
      (if ents_eqb (st_idx s') (g_idx o) then [] else [8]) ++
      (if list_eqb iceqb (idx_calls c s (so_ev o)) (g_icalls o) then [] else [11]) ++
      (if nn_eqb (fetch_counts c (st_idx s')) (g_fetch o) then [] else [12]) in
    let (r, sf) := check_steps c s' l' in (d ++ r, sf)
  end.
Definition check_case (x : lcase) : list N :=
  let c := to_cfg (lc_cfg x) in
  let s0 := St (lc_init x) [] in
  (if geqb (get_resource c s0) (lc_get0 x) && geqb (value_resource c s0) (lc_value0 x) then [] else [1]) ++
  let (r, sf) := check_steps c s0 (lc_steps x) in
  r ++
  (if geqb (get_resource c (reopen sf)) (lc_reget x) then [] else [9]) ++
  (if veqb (st_val (reopen sf)) (lc_restored x) && ents_eqb (st_idx (reopen sf)) (lc_reidx x) then [] else [10]) ++
  match lc_rebuild x with
  | None => []
  | Some (ts, k, l) =>
    let r := rebuild c ts sf in
    if (rb_code r =? k) && ents_eqb (rb_ents r) l then [] else [13]
  end.

(* ---- the property on the implementation's outputs only.  codes:
   1 a published event is not applicable to the view a client folded so far, or the folded view differs from the next get
   2 nothing was published but the served value or the stored entry changed
   3 after reopening, get / the stored entry / the index entries differ from those before closing
   4 old values handed to a change listener are not the previously served values of exactly the changed properties,
     or the data handed to a delete listener is not the previously stored entry
   5 an event that cannot be applied published something, called a listener, or changed the stored entry
   6 Value() differs from get (events of the handler's Type)
   7 published without calling the listener or the reverse, more than one message, or the listener saw other new values
   (8, 9 unused: a delete / an add published for a resource reported as not found is NOT a violation of C20:
    the served value still equals the fold; the harness only tags such cases)
   12 the index entries after Model.RebuildIndexes are not the keys of the stored value
   13 an index listener was not called with (previous value, new value) of the event
   10 index entries differ from the keys of the stored value (handler without Default, no empty keys in the case,
      Type interface-valued or all events of the handler's Type) *)
Definition view_of_g (g : gres) : option view :=
  match g with GOk r => Some (Some r) | GNotFound => Some None | GErr => None end.
Definition jchanged_j (m0 : jmodel) (k : key) (a : act jval) : bool :=
  match a, mget k m0 with
  | Put _, None => true
  | Put v, Some ov => negb (jeqb v ov)
  | Del, Some _ => true
  | Del, None => false
  end.
Definition old_ok (prev : view) (newv oldv' : revmap) : bool :=
  match prev with
  | Some (RModel m0) =>
    forallb (fun kx => aeqb (snd kx) (oldv m0 (fst kx)) &&
                       match rget (fst kx) newv with Some _ => true | None => false end) oldv' &&
    forallb (fun ka => negb (jchanged_j m0 (fst ka) (snd ka)) ||
                       match rget (fst ka) oldv' with Some _ => true | None => false end) newv
  | _ => false
  end.
(* the delete data is compared when default, entry and events are of the handler's Type (into a
   float64 Type encoding/json turns a stored null into 0) *)
Definition call_ok (typed : bool) (prev : view) (pstored : option res) (l : lcall) : bool :=
  match l with
  | LChange n o => old_ok prev n o
  | LDelete d => negb typed || veqb d pstored
  | _ => true
  end.
Definition pub_call_ok (p : list pubmsg) (l : list lcall) (e : event) : bool :=
  match p, l with
  | [], [] => true
  | [PChange v], [LChange n _] => rmeqb v n
  | [PAdd v i], [LAdd w j] => jeqb v w && (i =? j)
  | [PRemove i], [LRemove j] => i =? j
  | [PCreate], [LCreate d] => match e with ECreate d' => reqb d d' | _ => false end
  | [PDelete], [LDelete _] => true
  | _, _ => false
  end.

(* [cl]: the view a client has folded from the first get and the published events
   (re-synchronised with the get after a reported difference); [prev]: the previous get *)
(* what the fold is compared with: the get response; for a handler with a Map callback (get serves the
   mapped value by design) the stored entry, else the Default *)
Definition is_mapped (c : cfg) : bool := match maps c with Some _ => true | None => false end.
Definition now_view (c : cfg) (g : gres) (st : option res) : option view :=
  if is_mapped c then Some (served (c_def c) st) else view_of_g g.
(* index listener calls: a change is announced with (previously served value, new stored value), a create
   with (nothing, the data), a delete with (previously stored value, nothing) *)
Definition icall_ok (pv : view) (pstored : option res) (o : sobs) (x : icall) : bool :=
  match x, so_ev o with
  | IC _ b a, EChange _ => veqb b pv && veqb a (g_stored o)
  | IC _ b a, ECreate d => veqb b None && veqb a (Some d)
  | IC _ b a, EDelete => veqb b pstored && veqb a None
  | _, _ => false
  end.
Definition loose_ty (c : cfg) (typed : bool) : bool := typed || match c_ty c with TyAny => true | _ => false end.

Fixpoint viol_steps (c : cfg) (typed : bool) (cl prev : option view) (pstored : option res) (l : list sobs) : list N :=
  match l with
  | [] => []
  | o :: l' =>
    let now := now_view c (g_get o) (g_stored o) in
    let cl' :=
      match cl, g_pub o with
      | Some cv, p :: _ => spec_step (c_def c) cv (sev_of_pub p (so_ev o))
      | _, _ => cl
      end in
    let d :=
      match prev, now with
      | Some pv, Some nv =>
        (match g_pub o with
         | [] => if veqb pv nv && veqb pstored (g_stored o) then [] else [2]
         | _ :: _ =>
           match cl, cl' with
           | Some _, Some v' => if veqb v' nv then [] else [1]
           | Some _, None => [1]
           | None, _ => []
           end
         end) ++
        (if forallb (call_ok typed pv pstored) (g_call o) then [] else [4]) ++
        (if unappliable pv (so_ev o) &&
            negb (is_nil (g_pub o) && is_nil (g_call o) && veqb pstored (g_stored o)) then [5] else []) ++
        (if loose_ty c typed && negb (forallb (icall_ok pv pstored o) (g_icalls o)) then [13] else [])
      | Some _, None => [1]          (* the get request failed / served something that is no resource value *)
      | _, _ => []
      end ++
      (if typed && negb (is_mapped c) && negb (geqb (g_value o) (g_get o)) then [6] else []) ++
      (if pub_call_ok (g_pub o) (g_call o) (so_ev o) then [] else [7]) in
    let ok := match cl', now with Some a, Some b => veqb a b | _, _ => false end in
    d ++ viol_steps c typed (if ok then cl' else now) now (g_stored o) l'
  end.
(* index consistency, decided where Legacy/Proofs proves it *)
Definition no_empty_key (l : list ent) : bool := forallb (fun e => negb (is_nil (snd e))) l.
Definition idx_checkable (c : cfg) (ks : list keyfn) (l : list sobs) : bool :=
  match c_def c with Some _ => false | None => true end &&
  forallb (fun o => no_empty_key (idx_spec ks (g_stored o)) && no_empty_key (g_idx o) &&
                    match so_ev o with ECreate d => no_empty_key (idx_entries 0 ks d) | _ => true end) l.
Definition viol_idx (c : cfg) (typed : bool) (l : list sobs) : list N :=
  match idxs c with
  | Some ks =>
    if (typed || match c_ty c with TyAny => true | _ => false end) && idx_checkable c ks l && negb (forallb (fun o => ents_eqb (g_idx o) (idx_spec ks (g_stored o))) l)
    then [10] else []
  | None => []
  end.
Fixpoint last_obs (l : list sobs) (g : gres) (st : option res) (ix : list ent) : gres * option res * list ent :=
  match l with
  | [] => (g, st, ix)
  | o :: l' => last_obs l' (g_get o) (g_stored o) (g_idx o)
  end.
Definition viol_case (x : lcase) : list N :=
  let c := to_cfg (lc_cfg x) in
  let typed := well_typed c (St (lc_init x) []) (map so_ev (lc_steps x)) in
  let v0 := now_view c (lc_get0 x) (lc_init x) in
  (if typed && negb (is_mapped c) && negb (geqb (lc_value0 x) (lc_get0 x)) then [6] else []) ++
  viol_steps c typed v0 v0 (lc_init x) (lc_steps x) ++
  viol_idx c typed (lc_steps x) ++
  let '(g, st, ix) := last_obs (lc_steps x) (lc_get0 x) (lc_init x) [] in
  (if geqb g (lc_reget x) && veqb st (lc_restored x) && ents_eqb ix (lc_reidx x) then [] else [3]) ++
  (* after a successful RebuildIndexes the entries are the keys of the stored value (every index has a
     non-empty key for it; Type interface-valued or events of the Type) *)
  match lc_rebuild x, idxs c with
  | Some (_, 0, l), Some ks =>
    let want := idx_spec ks st in
    if loose_ty c typed && (len want =? len ks) && no_empty_key want && negb (ents_eqb l want) then [12] else []
  | _, _ => []
  end.

Fixpoint run_idx {A} (f : A -> list N) (i : N) (cs : list A) : list (N * N) :=
  match cs with
  | [] => []
  | c :: r => map (fun k => (i, k)) (f c) ++ run_idx f (i + 1) r
  end.
Definition mismatches (cs : list lcase) : list (N * N) := run_idx check_case 0 cs.
Definition violations (cs : list lcase) : list (N * N) := run_idx viol_case 0 cs.
