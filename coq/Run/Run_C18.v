(* Evaluators used by the generated cases_C18_*.v files.
   [mismatches]: the model of Codec/Model.v (and the encoding/json model of
   Codec/Json.v) against what the real code returned on the same input.
   [violations]: the decidable form of property C18 evaluated on the
   implementation's outputs only (the failing-input search). *)
From GoRes Require Export Codec.Spec.
Open Scope N_scope.

(* ---- comparisons ---- *)
Definition obytes_eqb (a b : option bytes) : bool :=
  match a, b with Some x, Some y => beq x y | None, None => true | _, _ => false end.
Definition member_eqb (a b : bytes * bytes * json) : bool :=
  beq (fst (fst a)) (fst (fst b)) && beq (snd (fst a)) (snd (fst b)) && json_eqb (snd a) (snd b).
Fixpoint list_eqb {A} (f : A -> A -> bool) (a b : list A) : bool :=
  match a, b with
  | [], [] => true
  | x :: a', y :: b' => f x y && list_eqb f a' b'
  | _, _ => false
  end.
Definition view_eqb (a b : view) : bool :=
  match a, b with
  | VSyntax, VSyntax => true
  | VObj x, VObj y => list_eqb member_eqb x y
  | VVal x, VVal y => json_eqb x y
  | _, _ => false
  end.
Definition outcome_eqb {A} (f : A -> A -> bool) (a b : outcome A) : bool :=
  match a, b with
  | Ok x, Ok y => f x y
  | Err, Err => true
  | Panic, Panic => true
  | _, _ => false
  end.
Definition value_eqb (a b : value) : bool :=
  beq (v_raw a) (v_raw b) && vtype_eqb (v_type a) (v_type b) && beq (v_rid a) (v_rid b) && beq (v_inner a) (v_inner b).
Definition rerror_eqb (a b : rerror) : bool :=
  beq (e_code a) (e_code b) && beq (e_msg a) (e_msg b) && ojson_eqb (e_data a) (e_data b).
Definition perror_eqb (a b : perror) : bool :=
  match a, b with
  | PEInvalid, PEInvalid => true
  | PEUnmarshal, PEUnmarshal => true
  | PEDecoded x, PEDecoded y => rerror_eqb x y
  | _, _ => false
  end.
Definition operror_eqb (a b : option perror) : bool :=
  match a, b with Some x, Some y => perror_eqb x y | None, None => true | _, _ => false end.
Definition oresult_eqb (a b : option (bytes * json)) : bool :=
  match a, b with
  | Some x, Some y => beq (fst x) (fst y) && json_eqb (snd x) (snd y)
  | None, None => true
  | _, _ => false
  end.
(* after an unmarshal error only the error is compared (Result/Resource are partially filled garbage) *)
Definition response_eqb (a b : response) : bool :=
  operror_eqb (r_error a) (r_error b) &&
  match r_error a with
  | Some PEUnmarshal => true
  | _ => oresult_eqb (r_result a) (r_result b) && beq (r_resource a) (r_resource b)
  end.
Definition jq_eqb (a b : json * bytes) : bool := json_eqb (fst a) (fst b) && beq (snd a) (snd b).
Definition acc_eqb (a b : bool * bytes) : bool := Bool.eqb (fst a) (fst b) && beq (snd a) (snd b).

Record gparse := MkG {
  gp_resp : response;                       (* resprot.ParseResponse(payload) *)
  gp_has : bool * bool * bool;              (* HasResult, HasResource, HasError *)
  gp_result : outcome (option json);        (* ParseResult(&raw) *)
  gp_model : outcome (json * bytes);        (* ParseModel *)
  gp_coll : outcome (json * bytes);         (* ParseCollection *)
  gp_access : outcome (bool * bytes);       (* AccessResult *)
  gp_typed : bool * bool * bool }.          (* no error from ParseResult(&string), ParseModel(&[]RawMessage), ParseCollection(&map[string]RawMessage) *)

Inductive ccase :=
(* json.Marshal(s) without its quotes; utf8.ValidString(s); Unmarshal(Marshal(s)) *)
| CStr (s : bytes) (g_esc : bytes) (g_valid : bool) (g_back : bytes)
(* json.Unmarshal('"' + body + '"', &string) *)
| CUnq (body : bytes) (g : option bytes)
(* Ref(rid)/SoftRef(rid): json.Marshal(string(rid)), MarshalJSON outputs, Unmarshal(Marshal) results *)
| CRef (rid : bytes) (g_q g_ref g_soft : bytes) (g_ref_back g_soft_back : option bytes) (g_valid : bool * bool)
(* Value.MarshalJSON of a Value built field by field (the zero Value, store.DeleteValue, ...) *)
| CValM (a : value) (g_marshal : bytes)
(* MarshalDataValue(v) for a v that json.Marshal rejects *)
| CDVErr (g : outcome bytes)
(* Ref.UnmarshalJSON(text) *)
| CRefU (text : bytes) (v : view) (g : option bytes)
(* resprot.MarshalDataValue(j), the parser's view of it, UnmarshalDataValue of it *)
| CDV (j : json) (g_m : bytes) (v : view) (g_back : outcome json)
(* resprot.UnmarshalDataValue(text, &raw) *)
| CDVU (text : bytes) (v : view) (g : outcome json)
(* three texts: Value.UnmarshalJSON directly, via json.Unmarshal, the 3x3 Equal matrix (row-major) of the
   directly parsed values (false where one failed), reparse: Unmarshal(Marshal(v)).Equal(v) *)
| CVal (t1 : bytes) (v1 : view) (t2 : bytes) (v2 : view) (t3 : bytes) (v3 : view)
       (g_direct : list (outcome value)) (g_via : list (outcome value)) (g_eq : list bool) (g_reparse : list bool)
(* reuse: text A was decoded first into the same store.Value (mode 0: UnmarshalJSON directly, 1: json.Unmarshal,
   2: element of the same []Value, 3: entry of the same map[string]Value), then text B resp. C.
   g_vals = [reused<-B; fresh<-B; fresh<-C; reused<-C], g_marshal their MarshalJSON, g_eq the 4x4 Equal matrix
   (row-major, false where a decode failed) *)
| CReuse (mode : N) (ta tb : bytes) (vb : view) (tc : bytes) (vc : view)
         (g_vals : list (outcome value)) (g_marshal : list bytes) (g_eq : list bool)
(* a handler outcome on a real service: published payload, parser's view of it, client-side parse *)
| CResp (m : option rmeta) (h : handler_outcome) (g_payload : bytes) (v : view) (g : gparse)
(* resprot.ParseResponse on an arbitrary text *)
| CRespU (text : bytes) (v : view) (g : gparse).

Definition chk (b : bool) (code : N) : list N := if b then [] else [code].

Definition model_parse (data : bytes) (v : view) : gparse :=
  let r := parse_response data v in
  MkG r (has_flags r) (parse_result r) (parse_model r) (parse_collection r) (access_result r)
      (match parse_result r with Ok None => true | Ok (Some (JStr _)) => true | _ => false end,
       match parse_model r with Ok (JArr _, _) | Ok (JNull, _) => true | _ => false end,
       match parse_collection r with Ok (JObj _, _) | Ok (JNull, _) => true | _ => false end).
Definition bool3_eqb (a b : bool * bool * bool) : bool :=
  Bool.eqb (fst (fst a)) (fst (fst b)) && Bool.eqb (snd (fst a)) (snd (fst b)) && Bool.eqb (snd a) (snd b).
Definition check_parse (data : bytes) (v : view) (g : gparse) : list N :=
  let m := model_parse data v in
  chk (wf_view data v || is_nil data) 20 ++
  chk (response_eqb (gp_resp m) (gp_resp g)) 21 ++
  chk (bool3_eqb (gp_has m) (gp_has g)) 22 ++
  chk (outcome_eqb ojson_eqb (gp_result m) (gp_result g)) 23 ++
  chk (outcome_eqb jq_eqb (gp_model m) (gp_model g)) 24 ++
  chk (outcome_eqb jq_eqb (gp_coll m) (gp_coll g)) 25 ++
  chk (outcome_eqb acc_eqb (gp_access m) (gp_access g)) 26 ++
  chk (bool3_eqb (gp_typed m) (gp_typed g)) 31.

(* the fields of a Value that mean something for its type (RID of a non-reference and Inner of a
   non-data value are left-overs that Equal and MarshalJSON never read) *)
Definition value_proj_eqb (a b : value) : bool :=
  vtype_eqb (v_type a) (v_type b) && beq (v_raw a) (v_raw b) &&
  match v_type a with
  | TRef | TSoft => beq (v_rid a) (v_rid b)
  | TData => beq (v_inner a) (v_inner b)
  | _ => true
  end.
Definition nth_o {A} (l : list A) (n : nat) (d : A) : A := nth n l d.

(* field codes: 1 json_escape 2 utf8_valid 3 escape/unescape back 4 json_unescape
   5 Ref.MarshalJSON 6 SoftRef.MarshalJSON 7 Ref round trip 8 SoftRef round trip 9 Ref.UnmarshalJSON
   10 MarshalDataValue 11 view of marshalled data value 12 UnmarshalDataValue
   13 wf_view (trusted parser assumption) 14 Value.UnmarshalJSON direct 15 via json.Unmarshal 16 Equal
   17 published payload 18 parser's view of the payload
   20 wf_view of a response 21 ParseResponse 22 Has* 23 ParseResult 24 ParseModel 25 ParseCollection 26 AccessResult *)
Definition check_case (c : ccase) : list N :=
  match c with
  | CStr s g_esc g_valid g_back =>
    chk (beq (json_escape s) g_esc) 1 ++
    chk (Bool.eqb (utf8_valid s) g_valid) 2 ++
    chk (obytes_eqb (json_unescape (json_escape s)) (Some g_back)) 3
  | CUnq body g =>
    chk (obytes_eqb (match scan_string (34 :: body ++ [34]) with
                     | Some (b, []) => if beq b body then json_unescape body else None
                     | _ => None
                     end) g) 4
  | CValM a g_marshal => chk (beq (value_marshal a) g_marshal) 30
  | CDVErr g => chk (outcome_eqb beq (marshal_data_value_enc Err) g) 10
  | CRef rid g_q g_ref g_soft g_ref_back g_soft_back g_valid =>
    chk (Bool.eqb (is_valid_rid rid) (fst g_valid) && Bool.eqb (is_valid_rid rid) (snd g_valid)) 29 ++
    chk (beq (quote rid) g_q) 1 ++
    chk (outcome_eqb beq (ref_marshal rid) (Ok g_ref)) 5 ++
    chk (outcome_eqb beq (softref_marshal rid) (Ok g_soft)) 6 ++
    chk (obytes_eqb (ref_unmarshal (parse_ref_text g_ref)) g_ref_back) 7 ++
    chk (obytes_eqb (ref_unmarshal (parse_ref_text g_soft)) g_soft_back) 8
  | CRefU text v g =>
    chk (wf_view text v) 13 ++
    chk (obytes_eqb (ref_unmarshal v) g) 9
  | CDV j g_m v g_back =>
    chk (outcome_eqb beq (marshal_data_value j) (Ok g_m)) 10 ++
    chk (view_eqb (view_of (if is_obj j || is_arr j then JObj [([100;97;116;97], j)] else j)) v) 11 ++
    chk (outcome_eqb json_eqb (unmarshal_data_value g_m v) g_back) 12
  | CDVU text v g =>
    chk (wf_view text v) 13 ++
    chk (outcome_eqb json_eqb (unmarshal_data_value text v) g) 12
  | CVal t1 v1 t2 v2 t3 v3 g_direct g_via g_eq g_reparse =>
    let ts := [(t1, v1); (t2, v2); (t3, v3)] in
    let md := map (fun tv => value_unmarshal (fst tv) (snd tv)) ts in
    let mv := map (fun tv => json_unmarshal_value (fst tv) (snd tv)) ts in
    let eqm := flat_map (fun a => map (fun b =>
                 match a, b with Ok x, Ok y => value_equal x y | _, _ => false end) md) md in
    chk (forallb (fun tv => wf_view (fst tv) (snd tv) || negb (isSome (first_sig (fst tv)))) ts) 13 ++
    chk (list_eqb (outcome_eqb value_eqb) md g_direct) 14 ++
    chk (list_eqb (outcome_eqb value_eqb) mv g_via) 15 ++
    chk (list_eqb Bool.eqb eqm g_eq) 16
  | CReuse mode ta tb vb tc vc g_vals g_marshal g_eq =>
    (* the model: decoding is a function of the text only *)
    let mb := value_unmarshal tb vb in
    let mc := value_unmarshal tc vc in
    let ms := [mb; mb; mc; mc] in
    let eqm := flat_map (fun a => map (fun b =>
                 match a, b with Ok x, Ok y => value_equal x y | _, _ => false end) ms) ms in
    chk (wf_view tb vb && wf_view tc vc) 13 ++
    chk (list_eqb (outcome_eqb value_proj_eqb) ms g_vals) 27 ++
    chk (outcome_eqb value_eqb mb (nth_o g_vals 1 Panic) && outcome_eqb value_eqb mc (nth_o g_vals 2 Panic)) 14 ++
    chk (list_eqb Bool.eqb eqm g_eq) 28
  | CResp m h g_payload v g =>
    chk (beq (published m h) g_payload) 17 ++
    chk (view_eqb (view_of (published_ast m h)) v) 18 ++
    check_parse g_payload v g
  | CRespU text v g => check_parse text v g
  end.

(* ---- property C18 on the implementation's outputs only ----
   1 Unmarshal(Marshal(string)) differs from the valid UTF-8 string
   2 Ref marshals to something else than {"rid":<json string>} / SoftRef ... ,"soft":true}
   3 Unmarshal(Marshal(ref)) differs from the id (valid UTF-8)
   4 UnmarshalDataValue(MarshalDataValue(j)) is not j
   5 a marshalled data value is not j itself (primitive) or {"data":j} (object/array)
   6 the classification of a JSON text is not the protocol's (kind + payload)
   7 Equal is not reflexive  8 not symmetric  9 not transitive
   10 Equal holds but the canonical JSON differs
   11 a parsed response is not exactly one of result / resource / error
   12 the response is not of the class the handler's outcome calls for
   13 the decoded result / resource id / error is not what the handler supplied
   14 a value re-parsed from its own MarshalJSON is not Equal to itself
   16 a store.Value decoded into a previously used Value / slice element / map entry differs observably
      (type, meaningful payload, MarshalJSON, Equal against others) from a fresh decode of the same text
   15 the error object in the published payload is not the handler's error field for field (code, message, data) *)
Definition okv (o : outcome value) : option value := match o with Ok x => Some x | _ => None end.
Definition oclass_eqb (a : option rclass) (b : rclass) : bool :=
  match a with Some x => rclass_eqb x b | None => false end.

Definition viol_case (c : ccase) : list N :=
  match c with
  | CStr s g_esc g_valid g_back => if g_valid && negb (beq g_back s) then [1] else []
  | CUnq _ _ => []
  | CValM _ _ => []
  | CDVErr _ => []
  | CRef rid g_q g_ref g_soft g_ref_back g_soft_back g_valid =>
    (if beq g_ref (ref_prefix ++ g_q ++ [125]) && beq g_soft (ref_prefix ++ g_q ++ softref_suffix)
     then [] else [2]) ++
    (if utf8_valid rid && negb (obytes_eqb g_ref_back (Some rid) && obytes_eqb g_soft_back (Some rid)) then [3] else [])
  | CRefU _ _ _ => []
  | CDV j g_m v g_back =>
    (if outcome_eqb json_eqb g_back (Ok j) then [] else [4]) ++
    (if beq g_m (if is_obj j || is_arr j then data_prefix ++ print j ++ [125] else print j) then [] else [5])
  | CDVU _ _ _ => []
  | CVal t1 v1 t2 v2 t3 v3 g_direct g_via g_eq g_reparse =>
    let ts := [(t1, v1); (t2, v2); (t3, v3)] in
    let table := map (fun tv => classify_table (fst tv) (snd tv)) ts in
    let valid := forallb (fun tv => negb (view_eqb (snd tv) VSyntax) && wf_view (fst tv) (snd tv)) ts in
    let e (i j : nat) := nth_o g_eq (i * 3 + j) false in
    let idx := [0; 1; 2]%nat in
    let okd (i : nat) := isSome (okv (nth_o g_direct i Err)) in
    (if valid && negb (list_eqb (outcome_eqb value_eqb) table g_direct) then [6] else []) ++
    (if forallb (fun i => negb (okd i) || e i i) idx then [] else [7]) ++
    (if forallb (fun i => forallb (fun j => Bool.eqb (e i j) (e j i)) idx) idx then [] else [8]) ++
    (if forallb (fun i => forallb (fun j => forallb (fun k => negb (e i j && e j k) || e i k) idx) idx) idx then [] else [9]) ++
    (if forallb (fun i => forallb (fun j =>
          negb (e i j) ||
          match okv (nth_o g_direct i Err), okv (nth_o g_direct j Err) with
          | Some a, Some b => beq (canon_text a) (canon_text b)
          | _, _ => false
          end) idx) idx then [] else [10]) ++
    (if forallb (fun i => negb (okd i) || nth_o g_reparse i false) idx then [] else [14])
  | CReuse mode ta tb vb tc vc g_vals g_marshal g_eq =>
    let e (i j : nat) := nth_o g_eq (i * 4 + j) false in
    let idx := [0; 1; 2; 3]%nat in
    let fr (i : nat) : nat := match i with O => 1 | 1 => 1 | _ => 2 end%nat in   (* the fresh decode of the same text *)
    let gv (i : nat) := nth_o g_vals i Err in
    let okd (i : nat) := isSome (okv (gv i)) in
    (* 16: a reused Value is observably the fresh decode of the same text *)
    (if forallb (fun i => outcome_eqb value_proj_eqb (gv i) (gv (fr i)) &&
                          (negb (okd i) || beq (nth_o g_marshal i []) (nth_o g_marshal (fr i) []))) idx &&
        forallb (fun i => forallb (fun j => Bool.eqb (e i j) (e (fr i) (fr j))) idx) idx
     then [] else [16]) ++
    (if forallb (fun i => negb (okd i) || e i i) idx then [] else [7]) ++
    (if forallb (fun i => forallb (fun j => Bool.eqb (e i j) (e j i)) idx) idx then [] else [8]) ++
    (if forallb (fun i => forallb (fun j => forallb (fun k => negb (e i j && e j k) || e i k) idx) idx) idx then [] else [9]) ++
    (if forallb (fun i => forallb (fun j =>
          negb (e i j) ||
          match okv (gv i), okv (gv j) with
          | Some a, Some b => beq (canon_text a) (canon_text b)
          | _, _ => false
          end) idx) idx then [] else [10])
  | CResp m h g_payload v g =>
    let r := gp_resp g in
    (if exactly_one (gp_has g) then [] else [11]) ++
    (if oclass_eqb (class_of (gp_has g)) (expected_class h) then [] else [12]) ++
    (if match h with
        | HOk res => outcome_eqb ojson_eqb (gp_result g) (Ok (supplied_result res))
        | HNew rid =>
          negb (is_valid_rid rid) ||
          match gp_result g with Ok (Some j) => obytes_eqb (ref_unmarshal_ast j) (Some rid) | _ => false end
        | HAccessGranted => outcome_eqb acc_eqb (gp_access g) (Ok (true, [42]))
        | HAccess get call => (negb get && is_nil call) || outcome_eqb acc_eqb (gp_access g) (Ok (get, call))
        | HModel j q => outcome_eqb jq_eqb (gp_model g) (Ok (j, q))
        | HCollection j q => outcome_eqb jq_eqb (gp_coll g) (Ok (j, q))
        | HResource rid => negb (is_valid_rid rid) || beq (r_resource r) rid
        | _ => true
        end &&
        match supplied_error h with
        | Some e => operror_eqb (r_error r) (Some (PEDecoded e))
        | None => true
        end
     then [] else [13]) ++
    (* the error object on the wire, as encoding/json reads the payload back, field for field *)
    (match supplied_error h with
     | Some e =>
       if match v with
          | VObj ms =>
            match find (fun mm => beq (fst (fst mm)) [101;114;114;111;114]) ms with
            | Some mm => json_eqb (snd mm) (err_ast e)
            | None => false
            end
          | _ => false
          end then [] else [15]
     | None => []
     end)
  | CRespU text v g => if exactly_one (gp_has g) then [] else [11]
  end.

Fixpoint run_idx {A} (f : A -> list N) (i : N) (cs : list A) : list (N * N) :=
  match cs with
  | [] => []
  | c :: r => map (fun k => (i, k)) (f c) ++ run_idx f (i + 1) r
  end.
Definition mismatches (cs : list ccase) : list (N * N) := run_idx check_case 0 cs.
Definition violations (cs : list ccase) : list (N * N) := run_idx viol_case 0 cs.
