(* Evaluators used by the generated cases_C17_*.v files: [mismatches] is the
   correspondence check (model vs. what the Go implementation returned on the
   same input), [violations] evaluates the property's decidable form on the
   implementation's own outputs (the failing-input search). *)
From GoRes Require Export Pattern.Spec.

Record pcase := PC {
  cp : bytes;                 (* pattern *)
  cs : bytes;                 (* name (or second pattern) *)
  ctag : bytes; cval : bytes; (* ReplaceTag arguments *)
  g_valid_p : bool;           (* Pattern(p).IsValid() *)
  g_matches : bool;           (* Pattern(p).Matches(s) *)
  g_values : option amap;     (* Pattern(p).Values(s), sorted by key *)
  g_repl : bytes;             (* Pattern(p).ReplaceTags(values) (p when values = nil) *)
  g_repl_matches : bool;      (* g_repl.Matches(s) *)
  g_repltag : bytes;          (* Pattern(p).ReplaceTag(tag,val) *)
  g_idx : option N;           (* Pattern(p).IndexWildcard() *)
  g_rid_s : bool;             (* IsValidRID(s) *)
  g_part_s : bool;            (* isValidPart(s) *)
  g_path_p : bool;            (* isValidPath(p) *)
  g_id_back : option bytes;   (* IDTransformer: RIDToID(IDToRID(val)) through Values; None = no match/absent *)
  g_cover_cex : bool;         (* harness found a short name n with s.Matches(n) && !p.Matches(n) *)
  g_valid_s : bool;           (* Pattern(s).IsValid() *)
  g_path_s : bool;            (* isValidPath(s) *)
  g_reg : bool;               (* NewMux("svc").Handle(p) did not panic (false when p is empty: not tried) *)
  g_routed : bool;            (* ... and GetHandler("svc." ++ s) found the handler *)
  g_nosep : bool              (* ... and GetHandler("svc" ++ s) found a handler (s non-empty, not starting with '.') *)
}.

Definition oamap_eq (a b : option amap) : bool :=
  match a, b with
  | Some x, Some y => amap_eq x y
  | None, None => true
  | _, _ => false
  end.
Definition on_eq (a b : option N) : bool :=
  match a, b with Some x, Some y => x =? y | None, None => true | _, _ => false end.

Definition vals_or_empty (o : option amap) : amap := match o with Some m => m | None => [] end.

(* field codes: 1 valid 2 matches 3 values 4 replace_tags 5 repl_matches 6 replace_tag
   7 index_wildcard 8 rid 9 part 10 path 11 id round trip 12 IsValid of the name 13 isValidPath of the name
   14 registration of the pattern on a Mux accepted *)
Definition check_case (c : pcase) : list N :=
  let mv := values (cp c) (cs c) in
  let rp := replace_tags (vals_or_empty mv) (cp c) in
  (if Bool.eqb (is_valid (cp c)) (g_valid_p c) then [] else [1]) ++
  (if Bool.eqb (matches (cp c) (cs c)) (g_matches c) then [] else [2]) ++
  (if oamap_eq mv (g_values c) then [] else [3]) ++
  (if beq rp (g_repl c) then [] else [4]) ++
  (if Bool.eqb (matches rp (cs c)) (g_repl_matches c) then [] else [5]) ++
  (if beq (replace_tag (ctag c) (cval c) (cp c)) (g_repltag c) then [] else [6]) ++
  (if on_eq (index_wildcard (cp c)) (g_idx c) then [] else [7]) ++
  (if Bool.eqb (is_valid_rid (cs c)) (g_rid_s c) then [] else [8]) ++
  (if Bool.eqb (is_valid_part (cs c)) (g_part_s c) then [] else [9]) ++
  (if Bool.eqb (is_valid_path (cp c)) (g_path_p c) then [] else [10]) ++
  (if obeq (rid_to_id (ctag c) (cp c) (id_to_rid (ctag c) (cp c) (cval c))) (g_id_back c) then [] else [11]) ++
  (if Bool.eqb (is_valid (cs c)) (g_valid_s c) then [] else [12]) ++
  (if Bool.eqb (is_valid_path (cs c)) (g_path_s c) then [] else [13]) ++
  (if Bool.eqb (negb (is_nil (cp c)) && is_valid (cp c) && nodupb (tag_names (cp c))) (g_reg c) then [] else [14]).

(* property C17 evaluated on the implementation's outputs only.
   codes: 1 matches<>values  2 substituted-back pattern does not match
          3 substituted-back pattern <> name (no anonymous wildcards)
          4 Matches(p,q) true but some name of q does not match p
          5 id -> rid -> id is not the identity
          6 a string accepted as a name part is rejected as a resource id (validators disagree; theorem
            valid_part_is_valid_rid)
          7 a string without query part and without $-tokens accepted as a resource id is rejected as a pattern
            or as a path, so it could never be registered or routed (theorem valid_rid_is_valid_pattern) *)

Definition viol_case (c : pcase) : list N :=
  let okp := g_valid_p c in
  let oks := no_gt_start (cs c) in
  (if okp && oks && negb (Bool.eqb (g_matches c) (isSome (g_values c))) then [1] else []) ++
  (if okp && oks && isSome (g_values c) && nodupb (tag_names (cp c)) && negb (g_repl_matches c) then [2] else []) ++
  (if okp && oks && isSome (g_values c) && nodupb (tag_names (cp c)) && no_anon (cp c)
      && negb (beq (g_repl c) (cs c)) then [3] else []) ++
  (if okp && g_matches c && g_cover_cex c then [4] else []) ++
  (if okp && is_valid_part (cval c) && existsb (beq (ctag c)) (tag_names (cp c))
      && nodupb (tag_names (cp c)) && negb (obeq (g_id_back c) (Some (cval c))) then [5] else []) ++
  (if g_part_s c && negb (g_rid_s c) then [6] else []) ++
  (if g_rid_s c && no_qmark (cs c) && no_dollar_tokens (cs c) && negb (g_valid_s c && g_path_s c) then [7] else []) ++
  (* 8: the registered pattern is routed to for a plain resource name exactly when it matches the name;
     9: a name that only starts with the Mux path (no '.' after it) was routed *)
  (if g_reg c && g_rid_s c && no_qmark (cs c) && negb (Bool.eqb (g_routed c) (g_matches c)) then [8] else []) ++
  (if g_nosep c then [9] else []) ++
  (* 10: a pattern in which a tag occurs more than once: when replacing EVERY occurrence of each tag by the value
     Values extracted for it gives the name (the occurrences captured the same token), ReplaceTags applied to that
     map must return the name too *)
  (if okp && oks && isSome (g_values c) && negb (nodupb (tag_names (cp c))) && no_anon (cp c)
      && beq (replace_tags (vals_or_empty (g_values c)) (cp c)) (cs c)
      && negb (beq (g_repl c) (cs c)) then [10] else []) ++
  (* 11: a pattern that Pattern.IsValid rejects was accepted at registration (Mux.Handle did not panic) *)
  (if g_reg c && negb okp then [11] else []).

Fixpoint run_idx {A} (f : A -> list N) (i : N) (cs : list A) : list (N * N) :=
  match cs with
  | [] => []
  | c :: r => map (fun k => (i, k)) (f c) ++ run_idx f (i + 1) r
  end.
Definition mismatches (cs : list pcase) : list (N * N) := run_idx check_case 0 cs.
Definition violations (cs : list pcase) : list (N * N) := run_idx viol_case 0 cs.
