(* Evaluators used by the generated cases_C09_*.v files.
   [mismatches]: the model's subscribe calls / reset payloads against what the recording
   connection saw from the real Service.  [violations]: property C09's decidable form on the
   RECORDED subscriptions and payloads only. *)
From GoRes Require Export Subs.Spec.

(* ---- recorded observations ---- *)
Definition payload := (option (list bytes) * option (list bytes))%type.

Inductive scase :=
  (* a service configuration, served on the recording connection *)
  | SC (name : bytes) (res acc : option (list bytes))
       (handlers : layout)                      (* every Handle call: full pattern below the service name, has Get/Call/Auth/New, has Access *)
       (queue : bytes)
       (g_err : N)                              (* Serve outcome: 0 serving, 1 "no resources to serve", 2 subscribe error from the connection, 3 other *)
       (g_subs : list (bytes * bytes * bool))   (* every ChanSubscribe / ChanQueueSubscribe in order: subject, queue ([] = ChanSubscribe), rejected by the connection *)
       (g_resets : list payload)                (* system.reset payloads in order: start, then one per extra ResetAll / reconnect *)
       (g_extra : N)                            (* number of ResetAll / reconnect triggers after start *)
       (g_script : list N)                      (* operations performed while serving: 0 ResetAll, 1 reconnect, 2 disconnect *)
       (g_trace : list svc_event)               (* while serving, in order: system.reset publishes and OnReconnect / OnDisconnect callback calls *)
       (g_off : list N)                         (* the same operations performed while NOT started (before Serve, after Shutdown) *)
       (g_off_trace : list svc_event)           (* what they caused *)
       (g_other : N)                            (* publishes on other subjects / undecodable payloads *)
  (* differential of the NATS semantics against an embedded nats-server *)
  | NC (sub subj : bytes) (srv_valid_sub : bool) (delivered : N).

(* ---- comparison helpers ---- *)
Fixpoint lbeq (a b : list bytes) : bool :=
  match a, b with
  | [], [] => true
  | x :: a', y :: b' => beq x y && lbeq a' b'
  | _, _ => false
  end.
Definition olbeq (a b : option (list bytes)) : bool :=
  match a, b with Some x, Some y => lbeq x y | None, None => true | _, _ => false end.
Definition payload_eq (a b : payload) : bool := olbeq (fst a) (fst b) && olbeq (snd a) (snd b).
Fixpoint payloads_eq (a b : list payload) : bool :=
  match a, b with
  | [], [] => true
  | x :: a', y :: b' => payload_eq x y && payloads_eq a' b'
  | _, _ => false
  end.

Fixpoint remove1 (x : bytes * bytes) (l : list (bytes * bytes)) : option (list (bytes * bytes)) :=
  match l with
  | [] => None
  | y :: r => if beq (fst x) (fst y) && beq (snd x) (snd y) then Some r
              else match remove1 x r with Some r' => Some (y :: r') | None => None end
  end.
(* same multiset *)
Fixpoint mseq (a b : list (bytes * bytes)) : bool :=
  match a with
  | [] => is_nil b
  | x :: a' => match remove1 x b with Some b' => mseq a' b' | None => false end
  end.

(* nats.go badSubject *)
Definition bad_subject (s : bytes) : bool :=
  existsb ws s || existsb is_nil (tokens s).

(* a token that contains a wildcard character without being a wildcard *)
Definition mixed_tok (t : bytes) : bool :=
  negb (beq t [star]) && negb (beq t [gt]) && existsb (fun c => (c =? star) || (c =? gt)) t.

(* the calls the model expects on a connection that rejects bad subjects: subscribe() returns at
   the first error, so everything up to and including the first rejected subject *)
Fixpoint until_bad (calls : list (bytes * bytes)) : list (bytes * bytes) * bool :=
  match calls with
  | [] => ([], false)
  | c :: r => if bad_subject (fst c) then ([c], true) else let (l, b) := until_bad r in (c :: l, b)
  end.

Definition cfg_of (name : bytes) (res acc : option (list bytes)) (l : layout) (queue : bytes) : config :=
  cfg_layout name res acc l queue.

(* payloads of the ResetAll on start and of the n further ones *)
Definition expected_resets (c : config) (n : nat) : list payload :=
  flat_map (fun i => match reset_nth c (served_ownership c) i with Some p => [p] | None => [] end) (seq 0 (S n)).

Definition ev_eq (a b : svc_event) : bool :=
  match a, b with
  | EReset p, EReset q => payload_eq p q
  | ERefused, ERefused | EOnReconnect, EOnReconnect | EOnDisconnect, EOnDisconnect => true
  | _, _ => false
  end.
Fixpoint trace_eq (a b : list svc_event) : bool :=
  match a, b with
  | [], [] => true
  | x :: a', y :: b' => ev_eq x y && trace_eq a' b'
  | _, _ => false
  end.

(* the shape the property prescribes: a reconnect is one system.reset (when anything is owned)
   followed by the OnReconnect callback, a disconnect is the OnDisconnect callback and no publish; a
   service that is not started publishes nothing.  1 reset, 2 OnReconnect, 3 OnDisconnect *)
Definition ev_shape (e : svc_event) : list N :=
  match e with EReset _ => [1] | ERefused => [] | EOnReconnect => [2] | EOnDisconnect => [3] end.
Definition op_shape (serving : bool) (op : N) : list N :=
  let r := if serving then [1] else [] in
  if op =? 0 then r else if op =? 1 then r ++ [2] else [3].
Fixpoint nlist_eq (a b : list N) : bool :=
  match a, b with
  | [], [] => true
  | x :: a', y :: b' => (x =? y) && nlist_eq a' b'
  | _, _ => false
  end.

(* field codes: 1 Serve outcome  2 subscribe calls (multiset of subject, queue)  3 rejected flags
   4 reset payloads  5 unexpected publishes  6 nats validity (server)  7 nats delivery (server)
   8 ordered trace of resets and OnReconnect / OnDisconnect callbacks (while serving and while not started) *)
Definition check_case (k : scase) : list N :=
  match k with
  | SC name res acc l queue g_err g_subs g_resets g_extra g_script g_trace g_off g_off_trace g_other =>
    let c := cfg_of name res acc l queue in
    (if trace_eq (script_events c None g_off) g_off_trace then [] else [8]) ++
    match subscribe c with
    | NoResources =>
      (if g_err =? 1 then [] else [1]) ++
      (if is_nil g_subs then [] else [2]) ++
      (if is_nil g_resets then [] else [4]) ++
      (if g_other =? 0 then [] else [5]) ++
      (if is_nil g_trace then [] else [8])
    | Subscribed calls =>
      let (exp, failed) := until_bad calls in
      (if g_err =? (if failed then 2 else 0) then [] else [1]) ++
      (if mseq exp (map (fun x => (fst (fst x), snd (fst x))) g_subs) then [] else [2]) ++
      (if forallb (fun x => Bool.eqb (snd x) (bad_subject (fst (fst x)))) g_subs then [] else [3]) ++
      (if payloads_eq (if failed then [] else expected_resets c (N.to_nat g_extra)) g_resets
       then [] else [4]) ++
      (if g_other =? 0 then [] else [5]) ++
      (if failed then (if is_nil g_trace then [] else [8])
       else if trace_eq (reset_all_events c (Some (served_ownership c)) ++
                         script_events c (Some (served_ownership c)) g_script) g_trace
            && (g_extra =? N.of_nat (length (filter (fun op => op <? 2) g_script)))
       then [] else [8])
    end
  | NC sub subj srv_valid delivered =>
    (* the server accepts a wildcard character inside a longer token as a literal; the specification
       deliberately does not ("'*' and '>' only as whole tokens") *)
    (if (if existsb mixed_tok (tokens sub) then negb (nats_valid_subject sub)
         else Bool.eqb (nats_valid_subject sub) srv_valid) then [] else [6]) ++
    (if negb srv_valid || (N.b2n (nats_match sub subj) =? delivered) then [] else [7])
  end.

(* ---- the property on the recorded observations ---- *)
(* all names of 1..n tokens over the alphabet *)
Fixpoint names_upto (alpha : list bytes) (n : nat) : list (list bytes) :=
  match n with
  | O => []
  | S n' => map (fun t => [t]) alpha ++
            flat_map (fun r => map (fun t => t :: r) alpha) (names_upto alpha n')
  end.
Definition probe_names : list (list bytes) := names_upto [[97]; [98]; [99]] 4.
Definition probe_method : bytes := [109].

(* On token lists (subscriptions and owned patterns tokenised once; a probe name is its token list,
   so that tokens (subj_plain t name) = t :: tokens name and tokens (subj_method t name m) =
   t :: tokens name ++ [m]). *)
Definition counts_zero (recorded : list (list bytes)) (s : list bytes) : bool :=
  negb (existsb (fun sub => nmatch sub s) recorded).

(* some owned pattern matches the name, but no recorded subscription matches the request subject *)
Definition uncovered (recorded res acc : list bytes) : bool :=
  let rt := map tokens recorded in
  let rest := map tokens res in
  let acct := map tokens acc in
  existsb (fun name =>
    (existsb (fun p => nmatch p name) rest &&
       (counts_zero rt (t_get :: name) ||
        counts_zero rt (t_call :: name ++ [probe_method]) ||
        counts_zero rt (t_auth :: name ++ [probe_method]))) ||
    (existsb (fun p => nmatch p name) acct && counts_zero rt (t_access :: name)))
  probe_names.

Definition count_toks (subs : list (list bytes)) (s : list bytes) : nat :=
  length (filter (fun sub => nmatch sub s) subs).

(* a probe request subject that is matched by exactly one entry of the pre-elimination pattern list
   of the owned lists (so that it falls under a single owned pattern after the RES subject mapping;
   call.a.b.m under the owned resources a.* and a.b.> falls under two and is NOT flagged) but by a
   number of recorded subscriptions other than one *)
Definition not_once (recorded res acc : list bytes) : bool :=
  let rt := map tokens recorded in
  let pre := map tokens (patterns_of res acc) in
  let bad := fun s => Nat.eqb (count_toks pre s) 1 && negb (Nat.eqb (count_toks rt s) 1) in
  existsb (fun name =>
    bad (t_get :: name) || bad (t_call :: name ++ [probe_method]) ||
    bad (t_auth :: name ++ [probe_method]) || bad (t_access :: name))
  probe_names.

(* a recorded subscription is covered by another recorded one *)
Fixpoint redundant_go (before after : list bytes) : bool :=
  match after with
  | [] => false
  | s :: r => existsb (fun q => nats_covers q s) before || existsb (fun q => nats_covers q s) r ||
              redundant_go (before ++ [s]) r
  end.
Definition redundant (recorded : list bytes) : bool := redundant_go [] recorded.

(* the lists the service owns according to the property: explicit lists as given; the default is the
   service name and everything below it (everything for the empty name), per registered handler kind *)
Definition spec_owned (name : bytes) (explicit : option (list bytes)) (has : bool) : list bytes :=
  match explicit with
  | Some l => l
  | None => if has then (if is_nil name then [[gt]] else [name; name ++ [dot; gt]]) else []
  end.

Definition payload_exact (res acc : list bytes) (p : payload) : bool :=
  lbeq (olist (fst p)) res && lbeq (olist (snd p)) acc &&
  negb (match fst p with Some [] => true | _ => false end) &&
  negb (match snd p with Some [] => true | _ => false end).

(* violation codes: 1 an owned request subject no recorded subscription matches
   2 a recorded subscription is covered by another one  3 a recorded subject is not a valid NATS subject
   4 a system.reset payload differs from the owned lists (or is missing / superfluous)
   5 the queue group of a subscription is not the configured one
   6 a request subject matched by exactly one entry of the pre-elimination pattern list is matched by
     a number of recorded subscriptions other than one
   7 callbacks / resets out of shape: a reconnect is not exactly one system.reset followed by one
     OnReconnect call, a disconnect not exactly one OnDisconnect call without publish, or a service
     that is not started published a reset *)
Definition viol_case (k : scase) : list N :=
  match k with
  | SC name res acc l queue g_err g_subs g_resets g_extra g_script g_trace g_off g_off_trace g_other =>
    let c := cfg_of name res acc l queue in
    if negb (cfg_ok c) then [] else
    (* "for the handler kinds actually registered": some registered handler has the kind *)
    let ores := spec_owned name res (existsb h_res l) in
    let oacc := spec_owned name acc (existsb h_acc l) in
    let recorded := map (fun x => fst (fst x)) (filter (fun x => negb (snd x)) g_subs) in
    let attempted := map (fun x => fst (fst x)) g_subs in
    let serving := negb (is_nil ores && is_nil oacc) in
    (if serving && uncovered recorded ores oacc then [1] else []) ++
    (if redundant recorded then [2] else []) ++
    (if forallb nats_valid_subject attempted then [] else [3]) ++
    (if serving
     then (if Nat.eqb (length g_resets) (S (N.to_nat g_extra)) && forallb (payload_exact ores oacc) g_resets then [] else [4])
     else (if is_nil g_resets then [] else [4])) ++
    (if forallb (fun x => beq (snd (fst x)) queue) g_subs then [] else [5]) ++
    (if serving && not_once recorded ores oacc then [6] else []) ++
    (if nlist_eq (flat_map ev_shape g_trace)
                 (if serving then [1] ++ flat_map (op_shape true) g_script else []) &&
        nlist_eq (flat_map ev_shape g_off_trace) (flat_map (op_shape false) g_off)
     then [] else [7])
  | NC _ _ _ _ => []
  end.

Fixpoint run_idx {A} (f : A -> list N) (i : N) (cs : list A) : list (N * N) :=
  match cs with
  | [] => []
  | c :: r => map (fun k => (i, k)) (f c) ++ run_idx f (i + 1) r
  end.
Definition mismatches (cs : list scase) : list (N * N) := run_idx check_case 0 cs.
Definition violations (cs : list scase) : list (N * N) := run_idx viol_case 0 cs.
