(* Evaluators used by the generated cases_C06_*.v files.
   One case = one list of operations performed on real res.Mux values (with which of them
   panicked) + a list of lookups with what GetHandler returned.
   [mismatches]: the trie model replays the same ops and answers the same lookups.
   [violations]: the property's decidable form on the implementation's outputs only, computed
   from the harness's own list of registered full patterns with the token-wise [best] of
   Mux/Spec.v - the trie model is not used there. *)
From GoRes Require Export Mux.Spec.

Record lookup := LK { lk_mux : nat; lk_name : bytes; lk_obs : lres }.   (* LPanic = GetHandler panicked *)
(* one Handle / AddListener call as performed (also those inside Route callbacks), in order *)
Record reg := RG { rg_mux : nat; rg_pat : bytes; rg_hid : N; rg_grp : bytes; rg_par : bool; rg_ok : bool; rg_onreg : bool;
  rg_clean : bool   (* the Handle call returned normally (false with rg_ok = true: a Handler.Listeners entry panicked after the handler was placed) *) }.
Record lreg := LR { lr_mux : nat; lr_pat : bytes; lr_lid : N; lr_ok : bool }.
Record mcase := MC {
  c_ops : list (xop * bool * list event); (* operation, panicked in the implementation, OnRegister callbacks it fired *)
  c_lookups : list lookup;
  c_valid : list bool;                   (* per mux id: ValidateListeners() == nil *)
  c_paths : list bytes;                  (* per mux id: Path() *)
  c_abs : list (nat * list bytes);       (* per mux id, harness bookkeeping: top-level ancestor, literal tokens from its root *)
  c_regs : list reg;
  c_lregs : list lreg;
  c_registered : list bool;              (* per mux id: registered to a service (harness bookkeeping) *)
  c_contains : list (nat * N * bool)     (* Mux.Contains(handler id) as answered by the implementation *)
}.

Fixpoint lbeq (a b : list bytes) : bool :=
  match a, b with
  | [], [] => true
  | x :: a', y :: b' => beq x y && lbeq a' b'
  | _, _ => false
  end.
Fixpoint nleq (a b : list N) : bool :=
  match a, b with
  | [], [] => true
  | x :: a', y :: b' => (x =? y) && nleq a' b'
  | _, _ => false
  end.
Fixpoint bleq (a b : list bool) : bool :=
  match a, b with
  | [], [] => true
  | x :: a', y :: b' => Bool.eqb x y && bleq a' b'
  | _, _ => false
  end.

(* ---- correspondence ----
   codes: 1 which ops panicked  2 hit/none/panic or handler identity  3 params  4 group
          5 listeners  6 ValidateListeners  7 location of a mux (mount bookkeeping) / registered flag
          8 OnRegister callbacks fired by an operation (as a multiset of (full pattern, handler id))   9 Mux.Contains *)
Definition ev_eq (a b : event) : bool := beq (fst a) (fst b) && (snd a =? snd b).
Definition ev_count (e : event) (l : list event) : nat := length (filter (ev_eq e) l).
Definition ev_same (a b : list event) : bool :=
  Nat.eqb (length a) (length b) && forallb (fun e => Nat.eqb (ev_count e a) (ev_count e b)) a.
Fixpoint evl_same (a b : list (list event)) : bool :=
  match a, b with
  | [], [] => true
  | x :: a', y :: b' => ev_same x y && evl_same a' b'
  | _, _ => false
  end.
Definition cmp_lookup (m o : lres) : list N :=
  match m, o with
  | LNone, LNone | LPanic, LPanic => []
  | LHit h1 l1 p1 g1, LHit h2 l2 p2 g2 =>
    (if h1 =? h2 then [] else [2]) ++ (if amap_eq p1 p2 && Nat.eqb (length p1) (length p2) then [] else [3]) ++
    (if beq g1 g2 then [] else [4]) ++ (if nleq l1 l2 then [] else [5])
  | _, _ => [2]
  end.
Definition loc_eq (a : option (nat * list bytes)) (b : nat * list bytes) : bool :=
  match a with Some (t, p) => Nat.eqb t (fst b) && lbeq p (snd b) | None => false end.
Definition check_case (c : mcase) : list N :=
  let '(xs, fl) := xreplay (XS [] [] []) (map (fun x => fst (fst x)) (c_ops c)) in
  let st := xs_st xs in
  (if bleq (map fst fl) (map (fun x => snd (fst x)) (c_ops c)) then [] else [1]) ++
  (if evl_same (map snd fl) (map snd (c_ops c)) then [] else [8]) ++
  flat_map (fun l => cmp_lookup (get_handler st (lk_mux l) (lk_name l)) (lk_obs l)) (c_lookups c) ++
  (if bleq (map (validate_listeners st) (seq 0 (length (c_valid c)))) (c_valid c) then [] else [6]) ++
  (if forallb (fun kb => loc_eq (top_of st (fst kb)) (snd kb)) (combine (seq 0 (length (c_abs c))) (c_abs c))
      && Nat.eqb (length st) (length (c_abs c)) && bleq (xs_reg xs) (c_registered c)
      && lbeq (map (path_of st) (seq 0 (length (c_paths c)))) (c_paths c) then [] else [7]) ++
  (if forallb (fun x => Bool.eqb (mux_contains st (fst (fst x)) (snd (fst x))) (snd x)) (c_contains c) then [] else [9]).

(* ---- the property on the implementation's outputs ----
   codes: 1 wrong handler / hit instead of nothing / nothing instead of hit
          2 params are not the name's tokens at the $ positions   3 group is not the substituted template
          4 lookup panicked   5 a documented-valid, non-conflicting pattern was rejected
          6 an invalid or conflicting pattern was accepted   7 listeners are not those of the matched pattern
          8 OnRegister was not called exactly once, with the full pattern, for every accepted handler that
            carries it and whose mux ended up below a registered one (and for no other)
          9 NewMux accepted an invalid path or rejected a documented-valid one
          10 two accepted registrations (handler / listener) on one node name different placeholders or the
             same names at different positions *)
Fixpoint strip_toks (pre l : list bytes) : option (list bytes) :=
  match pre, l with
  | [], _ => Some l
  | a :: pre', b :: l' => if beq a b then strip_toks pre' l' else None
  | _ :: _, [] => None
  end.
Definition abs_of (c : mcase) (k : nat) : nat * list bytes := nth k (c_abs c) (k, []).
(* full token list of a registration, from the root of its top-level mux *)
Definition full_toks (c : mcase) (k : nat) (pat : bytes) : list bytes := snd (abs_of c k) ++ split_pattern pat.
Fixpoint pteq (a b : list ptok) : bool :=
  match a, b with
  | [], [] => true
  | PLit x :: a', PLit y :: b' => beq x y && pteq a' b'
  | PAnon :: a', PAnon :: b' | PFull :: a', PFull :: b' => pteq a' b'
  | PParam x :: a', PParam y :: b' => beq x y && pteq a' b'
  | _, _ => false
  end.
Definition same_place (c : mcase) (k1 : nat) (p1 : bytes) (k2 : nat) (p2 : bytes) : bool :=
  Nat.eqb (fst (abs_of c k1)) (fst (abs_of c k2)) &&
  pteq (skel (map ptok_of (full_toks c k1 p1))) (skel (map ptok_of (full_toks c k2 p2))).

(* candidates for a lookup on mux k: accepted registrations of the same tree at or below k's root *)
Definition cands (c : mcase) (k : nat) : list (list ptok * reg) :=
  let '(t, pre) := abs_of c k in
  flat_map (fun r =>
    if rg_ok r && Nat.eqb (fst (abs_of c (rg_mux r))) t then
      match strip_toks pre (full_toks c (rg_mux r) (rg_pat r)) with
      | Some rel => [(map ptok_of rel, r)]
      | None => []
      end
    else []) (c_regs c).
Definition listeners_of (c : mcase) (r : reg) : list N :=
  flat_map (fun l => if lr_ok l && same_place c (lr_mux l) (lr_pat l) (rg_mux r) (rg_pat r) then [lr_lid l] else [])
           (c_lregs c).

Definition viol_lookup (c : mcase) (l : lookup) : list N :=
  let k := lk_mux l in
  match lk_obs l with
  | LPanic => [4]
  | obs =>
    if negb (nth k (c_valid c) false) then [] else
    let exp := match spec_strip (nth k (c_paths c) []) (lk_name l) with
               | None => None
               | Some rest => match best_of fst (cands c k) rest with
                              | Some (p, r) => Some (p, r, rest)
                              | None => None end
               end in
    match exp, obs with
    | None, LNone => []
    | Some (p, r, rest), LHit hid ls ps g =>
      if negb (hid =? rg_hid r) then [1] else
      let vals := pvalues p rest in
      (if amap_eq vals ps && Nat.eqb (length vals) (length ps) then [] else [2]) ++
      (if obeq (group_spec_of (rg_par r) (rg_grp r) (lk_name l) vals) (Some g) then [] else [3]) ++
      (if nleq (listeners_of c r) ls then [] else [7])
    | _, _ => [1]
    end
  end.

(* registration: what the documentation calls a valid pattern (+ a valid group template) *)
Definition group_ok (par : bool) (grp pat : bytes) : bool :=
  par || isSome (group_spec_of false grp [] (map (fun n => (n, [])) (placeholder_names (ptoks pat)))).
Definition doc_valid (r : reg) : bool :=
  tvalid (rg_pat r) && nodupb (placeholder_names (ptoks (rg_pat r))) && group_ok (rg_par r) (rg_grp r) (rg_pat r).
Fixpoint viol_regs (c : mcase) (seen : list reg) (seenl : list lreg) (rs : list reg) : list N :=
  match rs with
  | [] => []
  | r :: rest =>
    let dup := existsb (fun q => same_place c (rg_mux q) (rg_pat q) (rg_mux r) (rg_pat r)) seen in
    let lis := existsb (fun q => same_place c (lr_mux q) (lr_pat q) (rg_mux r) (rg_pat r)) seenl in
    (if doc_valid r && negb dup && negb lis && negb (rg_ok r) then [5] else []) ++
    (if (negb (doc_valid r) || dup) && rg_ok r then [6] else []) ++
    viol_regs c (if rg_ok r then r :: seen else seen) seenl rest
  end.
Definition expected_events (c : mcase) : list event :=
  flat_map (fun r =>
    let t := fst (abs_of c (rg_mux r)) in
    if rg_ok r && rg_clean r && rg_onreg r && nth t (c_registered c) false
    then [(join (split_pattern (nth t (c_paths c) []) ++ full_toks c (rg_mux r) (rg_pat r)), rg_hid r)]
    else []) (c_regs c).
(* the named placeholders of a full pattern with their positions: two registrations on one node
   conflict unless these agree *)
Fixpoint psig (i : nat) (toks : list bytes) : list (bytes * nat) :=
  match toks with
  | [] => []
  | t :: r => match kind t with KParam n => (n, i) :: psig (S i) r | _ => psig (S i) r end
  end.
Fixpoint psig_eq (a b : list (bytes * nat)) : bool :=
  match a, b with
  | [], [] => true
  | (n1, i1) :: a', (n2, i2) :: b' => beq n1 n2 && Nat.eqb i1 i2 && psig_eq a' b'
  | _, _ => false
  end.
(* accepted registrations (Handle or AddListener) at one node with different named placeholders *)
Definition viol_conflicts (c : mcase) : list N :=
  let places := map (fun r => (rg_mux r, rg_pat r)) (filter rg_ok (c_regs c)) ++
                map (fun l => (lr_mux l, lr_pat l)) (filter lr_ok (c_lregs c)) in
  if forallb (fun x => forallb (fun y =>
        negb (same_place c (fst x) (snd x) (fst y) (snd y)) ||
        psig_eq (psig 0 (full_toks c (fst x) (snd x))) (psig 0 (full_toks c (fst y) (snd y)))) places) places
  then [] else [10].

(* a mux path the documentation calls valid: empty, or a valid pattern all of whose tokens are literal
   ('$' '*' '>' only mark a placeholder / wildcard as the FIRST character of a token) *)
Definition doc_valid_path (p : bytes) : bool :=
  is_nil p || (tvalid p && forallb (fun t => match kind t with KLit => true | _ => false end) (tokens p)).
Definition viol_paths (c : mcase) : list N :=
  flat_map (fun x => match fst (fst x) with
                     | XBase (ONew path) =>
                       if Bool.eqb (doc_valid_path path) (snd (fst x)) then [9] else []
                     | _ => [] end) (c_ops c).
Definition viol_case (c : mcase) : list N :=
  flat_map (viol_lookup c) (c_lookups c) ++
  viol_regs c [] (filter lr_ok (c_lregs c)) (c_regs c) ++ viol_paths c ++ viol_conflicts c ++
  (* callbacks of handlers whose Handle call panicked after placing them are not judged *)
  (let unclean := map rg_hid (filter (fun r => rg_ok r && negb (rg_clean r)) (c_regs c)) in
   if ev_same (expected_events c) (filter (fun e => negb (existsb (N.eqb (snd e)) unclean)) (flat_map snd (c_ops c))) then [] else [8]).

Fixpoint run_idx {A} (f : A -> list N) (i : N) (cs : list A) : list (N * N) :=
  match cs with
  | [] => []
  | c :: r => map (fun k => (i, k)) (f c) ++ run_idx f (i + 1) r
  end.
Definition mismatches (cs : list mcase) : list (N * N) := run_idx check_case 0 cs.
Definition violations (cs : list mcase) : list (N * N) := run_idx viol_case 0 cs.
