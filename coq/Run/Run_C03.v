From stdpp Require Import gmap.
From Coq Require Import NArith.
From GoRes Require Export Run.Run_Sched.
Definition violations (cs : list scase) : list (N * N) :=
  run_idx (fun c => mon_shut true nil 0 (sc_trace c)) 0%N cs.
