(* Evaluators used by the generated cases_C10_*.v files.
   A case is one resource served by store.Handler in one configuration
   (model|collection, +-Transformer, +-Default), its initial store content, and a
   history of mockstore write transactions; for every step the harness recorded
   what the REAL service published and what a get returned afterwards.
   [mismatches]: the model's get / success flag / event list differ from the
                 implementation's (exact comparison).
   [violations]: property C10 evaluated on the implementation's outputs only:
                 replay the implementation's events with the reference client. *)
From GoRes Require Export Diff.Model.
Open Scope N_scope.

Definition rvj := rv jv.

(* what the implementation published / answered *)
Inductive iev :=
| IChange (ch : list (bytes * option jv))    (* None = {"action":"delete"} *)
| IRemove (i : N)
| IAdd (v : jv) (i : N)
| ICreate (d : option rvj)                    (* data seen by an event listener (not on the wire) *)
| IDelete
| IBad.                                       (* unparseable subject or payload *)
Inductive ig := IGMissing | IGValue (v : rvj) | IGBad | IGErr.   (* IGErr: an error other than system.notFound *)

Record hstep := HS {
  s_op : N;                       (* 0 Create 1 Update 2 Delete *)
  s_val : option rvj;             (* value written (Create/Update) *)
  s_tval : option rvj;            (* the harness' Transform applied to it; None = error *)
  s_ok : bool;                    (* the write transaction returned nil *)
  s_evs : list (bytes * iev);     (* (rid, event) published during the transaction, in order *)
  s_get : ig                      (* get after the transaction *)
}.
Record hcase := HC {
  h_coll : bool;
  h_trans : N;                    (* 0 none; 1 store.IDTransformer (rid = prefix ++ id); 2 TransformFuncs hiding every id
                                     that starts with '0' (RIDToID / IDToRID return "") and a nil Transform;
                                     3 TransformFuncs(nil, nil, f): rid = id *)
  h_store : N;                    (* 0 mockstore; 1 errors wrapping the sentinels; 2 Value() fails with another error *)
  h_def : option rvj;
  h_prefix : bytes;               (* with a transformer: rid = prefix ++ id (store.IDTransformer) *)
  h_id : bytes;
  h_init : option rvj; h_tinit : option rvj;
  h_get0 : ig;
  h_steps : list hstep
}.

(* ---- equality on observables ---- *)
Fixpoint list_eqb {A B} (eq : A -> B -> bool) (a : list A) (b : list B) : bool :=
  match a, b with
  | [], [] => true
  | x :: a', y :: b' => eq x y && list_eqb eq a' b'
  | _, _ => false
  end.
Definition opt_eqb {A} (eq : A -> A -> bool) (a b : option A) : bool :=
  match a, b with Some x, Some y => eq x y | None, None => true | _, _ => false end.
Definition amapV_eqb (a b : list (bytes * jv)) : bool :=
  (N.of_nat (length a) =? N.of_nat (length b)) &&
  forallb (fun kv => opt_eqb jv_eqb (vlookup (fst kv) a) (vlookup (fst kv) b)) (a ++ b).
Definition rv_eqb (a b : rvj) : bool :=
  match a, b with
  | RM x, RM y => amapV_eqb x y
  | RC x, RC y => list_eqb jv_eqb x y
  | RBad, RBad => true
  | _, _ => false
  end.
Fixpoint chlookup {A} (k : bytes) (m : list (bytes * A)) : option A :=
  match m with [] => None | (k', v) :: m' => if beq k k' then Some v else chlookup k m' end.
Definition ch_eqb (a b : list (bytes * option jv)) : bool :=
  (N.of_nat (length a) =? N.of_nat (length b)) &&
  forallb (fun kv => opt_eqb (opt_eqb jv_eqb) (chlookup (fst kv) a) (chlookup (fst kv) b)) (a ++ b).
Definition mval_opt (m : mval jv) : option jv := match m with MDelete => None | MSet v => Some v end.
Definition opt_mval (o : option jv) : mval jv := match o with None => MDelete | Some v => MSet v end.

Definition ev_eqb (e : event jv) (i : iev) : bool :=
  match e, i with
  | EChange ch, IChange ich => ch_eqb (map (fun kv => (fst kv, mval_opt (snd kv))) ch) ich
  | ERemove k, IRemove j => N.of_nat k =? j
  | EAdd v k, IAdd w j => jv_eqb v w && (N.of_nat k =? j)
  | ECreate d, ICreate (Some d') => rv_eqb d d'
  | EDelete, IDelete => true
  | _, _ => false
  end.
Definition pev_eqb (a : bytes * event jv) (b : bytes * iev) : bool :=
  beq (fst a) (fst b) && ev_eqb (snd a) (snd b).
Definition ig_eqb (a b : ig) : bool :=
  match a, b with
  | IGMissing, IGMissing => true
  | IGValue RBad, (IGErr | IGBad) => true   (* a value that cannot be marshalled / is no resource: error or garbage *)
  | IGValue x, IGValue y => rv_eqb x y
  | IGErr, IGErr => true
  | _, _ => false
  end.
Definition ig_of (g : get_result jv) : ig := match g with GMissing => IGMissing | GValue v => IGValue v end.

(* ---- the handler configuration of a case ---- *)
Definition ttab (c : hcase) : list (rvj * option rvj) :=
  (match h_init c with Some v => [(v, h_tinit c)] | None => [] end) ++
  flat_map (fun s => match s_val s with Some v => [(v, s_tval s)] | None => [] end) (h_steps c).
Definition tlookup (tab : list (rvj * option rvj)) (v : rvj) : option rvj :=
  match find (fun p => rv_eqb (fst p) v) tab with Some p => snd p | None => None end.
Fixpoint strip_prefix (p s : bytes) : bytes :=
  match p, s with
  | [], _ => s
  | x :: p', y :: s' => if x =? y then strip_prefix p' s' else []
  | _ :: _, [] => []
  end.
Definition starts0 (b : bytes) : bool := match b with 48 :: _ => true | _ => false end.
Definition cfg_of (c : hcase) : config jv :=
  let tf := fun (_ : bytes) v => tlookup (ttab c) v in
  Cfg (if h_coll c then TCollection else TModel)
      (match h_trans c with
       | 0 => None
       | 1 => Some (Tr (strip_prefix (h_prefix c)) (fun id _ => h_prefix c ++ id) tf)
       | 2 => Some (Tr (fun rid => let id := strip_prefix (h_prefix c) rid in if starts0 id then [] else id)
                       (fun id _ => if starts0 id then [] else h_prefix c ++ id) tf)
       | _ => Some (Tr (fun rid => rid) (fun id _ => id) tf)
       end)
      (h_def c) (fun _ => true).
Definition rid_of (c : hcase) : bytes :=
  match h_trans c with 1 | 2 => h_prefix c ++ h_id c | _ => h_id c end.
Definition ig_of_e (g : get_result_e jv) : ig := match g with GE g' => ig_of g' | GError => IGErr end.
Definition get_of (c : hcase) (cfg : config jv) (st : option rvj) : ig :=
  ig_of_e (get_resource_e jv cfg (rid_of c) (fun _ => h_store c =? 2) (one_store (h_id c) st)).

Definition op_of (s : hstep) : option (op jv) :=
  match s_op s, s_val s with
  | 0, Some v => Some (OCreate v)
  | 1, Some v => Some (OUpdate v)
  | 2, _ => Some ODelete
  | _, _ => None
  end.

(* ---- correspondence: field codes 1 initial get, 2 write success, 3 events, 4 get after,
        5 the model says panic / out of fuel, 6 malformed case ---- *)
Fixpoint check_steps (getf : option rvj -> ig) (cfg : config jv) (id : bytes) (st : option rvj) (steps : list hstep) : list N :=
  match steps with
  | [] => []
  | s :: r =>
    match op_of s with
    | None => [6]
    | Some o =>
      match store_step jv jv_eqb cfg id st o with
      | (st', ok, HOk evs) =>
        (if Bool.eqb ok (s_ok s) then [] else [2]) ++
        (if list_eqb pev_eqb evs (s_evs s) then [] else [3]) ++
        (if ig_eqb (getf st') (s_get s) then [] else [4]) ++
        check_steps getf cfg id st' r
      | (_, _, _) => [5]
      end
    end
  end.
Definition check_case (c : hcase) : list N :=
  let cfg := cfg_of c in
  (if ig_eqb (get_of c cfg (h_init c)) (h_get0 c) then [] else [1]) ++
  check_steps (get_of c cfg) cfg (h_id c) (h_init c) (h_steps c).

(* ---- property C10 on the implementation's outputs.
   codes: 1 an add/remove index is out of range when applied
          2 event not applicable (create while get served the resource, delete/change/add/remove
            while get reported it missing, change on a collection, add/remove on a model)
          3 client state after applying the published events differs from the fresh get
          4 events published although the served representation did not change
          5 event published on another resource id than the one get serves
          6 unparseable event or get response
          7 get answers an error other than system.notFound (the client can neither fetch the resource
            nor learn that it is missing) ---- *)
Definition cl_of (g : ig) : option (cstate jv) :=
  match g with IGMissing => Some CMissing | IGValue v => Some (CPresent v) | IGBad | IGErr => None end.
Definition cstate_eqb (a b : cstate jv) : bool :=
  match a, b with
  | CMissing, CMissing => true
  | CPresent x, CPresent y => rv_eqb x y
  | _, _ => false
  end.
(* the wire create event carries no data: the client fetches, i.e. takes the next get *)
Definition to_event (after : ig) (i : iev) : option (event jv) :=
  match i with
  | IChange ch => Some (EChange (map (fun kv => (fst kv, opt_mval (snd kv))) ch))
  | IRemove k => Some (ERemove (N.to_nat k))
  | IAdd v k => Some (EAdd v (N.to_nat k))
  | ICreate _ => Some (ECreate (match after with IGValue v => v | _ => RC [] end))
  | IDelete => Some EDelete
  | IBad => None
  end.
Fixpoint replay (rid : bytes) (after : ig) (evs : list (bytes * iev)) (c : cstate jv) : cstate jv + N :=
  match evs with
  | [] => inl c
  | (r, i) :: rest =>
    if negb (beq r rid) then inr 5 else
    match to_event after i with
    | None => inr 6
    | Some e =>
      match apply_event e c with
      | Some c' => replay rid after rest c'
      | None =>
        match e, c with
        | ERemove _, CPresent (RC _) | EAdd _ _, CPresent (RC _) => inr 1
        | _, _ => inr 2
        end
      end
    end
  end.
Fixpoint viol_steps (rid : bytes) (prev : ig) (c : option (cstate jv)) (steps : list hstep) : list N :=
  match steps with
  | [] => []
  | s :: r =>
    let spurious := if ig_eqb prev (s_get s) && negb (is_nil (s_evs s)) then [4] else [] in
    match c, cl_of (s_get s) with
    | Some c0, Some want =>
      match replay rid (s_get s) (s_evs s) c0 with
      | inr code => (* resynchronise on the fresh get so that later steps are still judged *)
        code :: spurious ++ viol_steps rid (s_get s) (Some want) r
      | inl c1 =>
        if cstate_eqb c1 want
        then spurious ++ viol_steps rid (s_get s) (Some c1) r     (* the client keeps ITS state *)
        else 3 :: spurious ++ viol_steps rid (s_get s) (Some want) r
      end
    | _, w => (match s_get s, prev with IGErr, _ | _, IGErr => 7 | _, _ => 6 end) :: viol_steps rid (s_get s) w r
    end
  end.
(* outside the property's domain: a store whose reads fail (no get can be compared), and histories that
   store a value which is no resource (RBad); those cases only carry the correspondence obligation *)
Definition is_bad (o : option rvj) : bool := match o with Some RBad => true | _ => false end.
Definition out_of_domain (c : hcase) : bool :=
  (h_store c =? 2) || is_bad (h_init c) || existsb (fun s => is_bad (s_val s)) (h_steps c).
Definition viol_case (c : hcase) : list N :=
  if out_of_domain c then [] else
  viol_steps (rid_of c) (h_get0 c) (cl_of (h_get0 c)) (h_steps c).

(* ---- size-scaling family (oracle only).
   One Update of a long collection of integers (elements are the integers themselves).  The
   model's quadratic LCS table is NOT evaluated on these (no mismatch obligation); the only
   obligation is property C10 on the implementation's outputs: its remove/add script, applied
   by the reference client to the collection the get served before, gives the collection the get
   serves afterwards, every index in range.  [collection_script_correct(_any_oracle)] proves that
   the modelled algorithm has this property for lists of EVERY length.
   b_bad <> 0: the harness saw something that is not an add/remove on the resource
   (5 = other resource id, 6 = unparseable event or get response, 2 = create/delete/change event). *)
Inductive bop := BR (i : N) | BA (v i : N).
Record bcase := BC { b_old : list N; b_new : list N; b_script : list bop; b_bad : N }.
Definition bop_event (o : bop) : event N :=
  match o with BR i => ERemove (N.to_nat i) | BA v i => EAdd v (N.to_nat i) end.
Definition viol_big (c : bcase) : list N :=
  if negb (b_bad c =? 0) then [b_bad c] else
  match apply_colls (map bop_event (b_script c)) (b_old c) with
  | None => [1]
  | Some r => if list_eqb N.eqb r (b_new c) then [] else [3]
  end ++
  (if list_eqb N.eqb (b_old c) (b_new c) && negb (is_nil (b_script c)) then [4] else []).

(* ---- registration cases (correspondence only): s.Handle(pattern, type option, store.Handler) on a fresh
   service, the panic (if any) recovered and classified by its message, then Serve and one get.
   field codes 7 registration outcome, 8 get after registration *)
Record rcase := RG {
  r_store : bool;      (* Store set *)
  r_def : N;           (* 0 no Default, 1 unmarshalable, 2 object, 3 array, 4 other JSON (string, number, null) *)
  r_typ : N;           (* 0 unset, 1 res.Model, 2 res.Collection, 3 another value *)
  r_panic : N;         (* observed: 0 none, 1 "no Store is set", 2 "error marshaling default handler value", 3 default of
                          the wrong JSON kind, 4 "no Type is set", 5 "Type must be set to ...", 9 anything else *)
  r_get : N            (* observed: 0 the stored value, 1 system.notFound, 2 system.internalError, 9 anything else *)
}.
Definition reg_def_of (n : N) : reg_default :=
  match n with 0 => DNone | 1 => DUnmarshalable | 2 => DObject | 3 => DArray | _ => DOtherJson end.
Definition reg_typ_of (n : N) : reg_type :=
  match n with 0 => RTUnset | 1 => RTModel | 2 => RTCollection | _ => RTOther end.
Definition reg_code (o : reg_outcome) : N :=
  match o with
  | RegOk => 0 | RegPanicNoStore => 1 | RegPanicDefaultMarshal => 2 | RegPanicDefaultKind => 3
  | RegPanicTypeUnset => 4 | RegPanicTypeInvalid => 5
  end.
Definition reg_get_code (g : reg_get) : N := match g with RGServed => 0 | RGNoHandler => 1 | RGInvalidType => 2 end.
Definition check_reg (c : rcase) : list N :=
  let o := register (r_store c) (reg_def_of (r_def c)) (reg_typ_of (r_typ c)) in
  (if reg_code o =? r_panic c then [] else [7]) ++
  (if reg_get_code (get_after_register o) =? r_get c then [] else [8]).

Inductive ccase := CH (h : hcase) | CB (b : bcase) | CR (r : rcase).
Definition check_ccase (c : ccase) : list N := match c with CH h => check_case h | CB _ => [] | CR r => check_reg r end.
Definition viol_ccase (c : ccase) : list N := match c with CH h => viol_case h | CB b => viol_big b | CR _ => [] end.

Fixpoint run_idx {A} (f : A -> list N) (i : N) (cs : list A) : list (N * N) :=
  match cs with
  | [] => []
  | c :: r => map (fun k => (i, k)) (f c) ++ run_idx f (i + 1) r
  end.
Definition mismatches (cs : list ccase) : list (N * N) := run_idx check_ccase 0 cs.
Definition violations (cs : list ccase) : list (N * N) := run_idx viol_ccase 0 cs.
