(* C16 evaluators: every access site extracted from the current source must be in the committed
   table the lockset theorem is about (correspondence), and must satisfy the discipline (oracle). *)
From Coq Require Import String List Bool NArith.
Import ListNotations.
From GoRes Require Export Sched.Access Sched.AccessTable.

Fixpoint run_idx {A} (f : A -> list N) (i : N) (cs : list A) : list (N * N) :=
  match cs with
  | [] => []
  | c :: r => map (fun k => (i, k)) (f c) ++ run_idx f (i + 1)%N r
  end.
(* M1: access site not in coq/Sched/AccessTable.v (regenerate it and re-check the theorem) *)
Definition mismatches (cs : list acc) : list (N * N) :=
  run_idx (fun a => if existsb (acc_eqb a) access_table then [] else [1%N]) 0%N cs.
(* V1: access site to a field the policy classifies violates the lockset discipline (an access to an unclassified,
   i.e. new, field is a correspondence failure M1, not a violation by itself);
   V2 (reported on case 0): the table as a whole violates the lock-granularity requirement *)
Definition violations (cs : list acc) : list (N * N) :=
  run_idx (fun a => if loc_ok a || negb (classified a) then [] else [1%N]) 0%N cs ++
  (if granularity_ok cs then [] else [(0%N, 2%N)]).
