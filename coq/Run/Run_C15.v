(* Evaluators used by the generated cases_C15_*.v files.  One case = one query event of a run of
   the real implementation: [mismatches] is the correspondence check (the recorded label trace is
   accepted by the LTS of Query/Model.v and what the model publishes / invokes / ends in equals
   what was recorded), [violations] evaluates the property's decidable form on the recorded
   observations only (the failing-input search). *)
From Coq Require Import List NArith Bool.
From GoRes Require Export Query.Spec.
Import ListNotations.

Record qcase := QC {
  qc_cfg : cfg;
  qc_trace : list label;                   (* recorded label sequence of this query event *)
  qc_calls : list (option N);              (* recorded invocations of the callback: Some request id / None = nil *)
  qc_resps : list (N * list pubmsg);       (* per request ever sent: what was published on its reply subject *)
  qc_npub : N;                             (* number of event.<rid>.query messages published for it *)
  qc_exited : bool;                        (* the listener goroutine was seen returning *)
  qc_complete : bool;                      (* the run was carried to the end: expiry handled, callbacks settled *)
  qc_subj : N;                             (* the subject it subscribed to and published (interned per service object) *)
  qc_prev : list N;                        (* subjects of the query events created earlier on the same service object, all Serve runs *)
  qc_stale : list (list pubmsg);           (* per request sent to its subject in a LATER Serve run: what was published on the reply subject *)
  qc_dur_us : N;                           (* the configured query event duration, microseconds *)
  qc_life_us : option N;                   (* microseconds from the subscription to the start of the expiry callback; None = not expired *)
  qc_within : list N;                      (* requests accepted into the channel less than the duration after the subscription *)
  qc_late_us : option N;                   (* microseconds between the moment the expiry callback could first start (duration elapsed and
                                              the previous expiry callback of the timer released) and its start; None = not expired *)
  qc_panicked : list N                     (* requests whose callback was seen panicking before any response had been published *)
}.

(* ---- decidable equalities ---- *)
Definition ev_eq_dec : forall a b : ev, {a = b} + {a <> b}.
Proof. decide equality; apply N.eq_dec. Defined.
Definition ecode_eq_dec : forall a b : ecode, {a = b} + {a <> b}.
Proof. decide equality; apply N.eq_dec. Defined.
Definition emsg_eq_dec : forall a b : emsg, {a = b} + {a <> b}.
Proof. decide equality; apply N.eq_dec. Defined.
Definition resp_eq_dec : forall a b : resp, {a = b} + {a <> b}.
Proof. decide equality; try apply N.eq_dec; try apply (list_eq_dec ev_eq_dec); try apply ecode_eq_dec; apply emsg_eq_dec. Defined.
Definition pubmsg_eq_dec : forall a b : pubmsg, {a = b} + {a <> b}.
Proof. decide equality; try apply N.eq_dec; apply resp_eq_dec. Defined.
Definition pubs_eqb (a b : list pubmsg) : bool := if list_eq_dec pubmsg_eq_dec a b then true else false.

Fixpoint lookup (id : N) (l : list (N * list pubmsg)) : list pubmsg :=
  match l with
  | [] => []
  | (i, o) :: r => if N.eqb i id then o else lookup id r
  end.

Definition call_id (x : call) : option N := match x with CReq m => Some (m_id m) | CNil => None end.
Definition optN_eqb (a b : option N) : bool :=
  match a, b with Some x, Some y => N.eqb x y | None, None => true | _, _ => false end.
Fixpoint calls_eqb (a b : list (option N)) : bool :=
  match a, b with
  | [], [] => true
  | x :: a', y :: b' => optN_eqb x y && calls_eqb a' b'
  | _, _ => false
  end.
Definition is_exited (p : lpc) : bool := match p with LExited => true | _ => false end.

(* ---- correspondence ----
   codes: 1 the model refuses a recorded label   2 published responses differ from the model's
          3 callback invocations differ          4 listener exit differs
          5 query event message count differs *)
Definition check_case (c : qcase) : list N :=
  match run (qc_cfg c) init (qc_trace c) with
  | None => [1%N]
  | Some s =>
    (if forallb (fun io => pubs_eqb (snd io) (lookup (fst io) (q_outs s))) (qc_resps c)
        && forallb (fun io => existsb (fun jo => N.eqb (fst jo) (fst io)) (qc_resps c)) (q_outs s) then [] else [2%N]) ++
    (if calls_eqb (map call_id (q_calls s)) (qc_calls c) then [] else [3%N]) ++
    (if Bool.eqb (is_exited (q_pc s)) (qc_exited c) then [] else [4%N]) ++
    (if N.eqb (if q_pub s then 1 else 0)%N (qc_npub c) then [] else [5%N])
  end.

(* ---- the property on the recorded observations only ---- *)
Fixpoint arrivals (tr : list label) : list msg :=
  match tr with
  | [] => []
  | LQArrive m _ :: r => m :: arrivals r
  | _ :: r => arrivals r
  end.
Definition sub_result (tr : list label) : option bool :=
  match tr with LQSub ok :: _ => Some ok | _ => None end.
Definition has_expire (tr : list label) : bool :=
  existsb (fun l => match l with LQExpire => true | _ => false end) tr.
Definition ran_ids (calls : list (option N)) : list N :=
  flat_map (fun c => match c with Some i => [i] | None => [] end) calls.
Definition n_nil (calls : list (option N)) : nat :=
  length (filter (fun c => match c with None => true | Some _ => false end) calls).
Fixpoint nil_is_last (calls : list (option N)) : bool :=
  match calls with
  | [] => true
  | None :: r => match r with [] => true | _ => false end
  | Some _ :: r => nil_is_last r
  end.
Definition memN (i : N) (l : list N) : bool := existsb (N.eqb i) l.
Definition payload_of (tr : list label) (i : N) : option payload :=
  match find (fun m => N.eqb (m_id m) i) (arrivals tr) with Some m => Some (m_pl m) | None => None end.
Definition required_error (p : payload) (o : list pubmsg) : bool :=
  match p with
  | PMalformed => pubs_eqb o [PResp (RErr CInternal MMalformed)]
  | PMissing => pubs_eqb o [PResp (RErr CInternal MMissingQuery)]
  | PQuery => true
  end.

(* codes: 1 a request callback that ran got a number of responses different from one
          2 more than one nil call, or (serialised resource) an invocation after the nil call
          3 a request that arrived before the expiry and was not dropped never got its callback
          4 failed subscription: something was published, or the callback was not called exactly once with nil
          5 the query event expired but the callback was not called with nil
          6 a malformed payload or missing query was not answered with the required error
          7 the query event expired but the listener goroutine did not return
          8 a callback ran for a request that was never accepted into the channel, or ran twice
          9 the subject is not fresh: an earlier query event of the same service object (any Serve run) had it
         10 a request sent, after a restart, to the subject of a query event of the previous run was answered
         11 the callback was invoked with, or later saw, a query that is not the one its request carried
            (recorded as invocation id 999999)
         12 the query event was expired before the configured duration had elapsed
         13 a request accepted into the channel within the configured duration never got its callback
         14 the expiry callback started more than 1 s after the configured duration had elapsed (and the timer was free)
         15 a callback that panicked before any reply was answered with something else than an error *)
Definition viol_case (c : qcase) : list N :=
  let tr := qc_trace c in
  let calls := qc_calls c in
  let ids := ran_ids calls in
  let ok_run := qc_complete c && negb (has_refusal tr) in
  let subok := match sub_result tr with Some true => true | _ => false end in
  let subfail := match sub_result tr with Some false => true | _ => false end in
  (if forallb (fun i => N.eqb i 999999 || Nat.eqb (nresp (lookup i (qc_resps c))) 1) ids   (* 999999 = invoked with a query no request carries: code 8 *)
      && forallb (fun io => memN (fst io) ids || Nat.eqb (nresp (snd io)) 0) (qc_resps c) then [] else [1%N]) ++
  (if Nat.leb (n_nil calls) 1 && (negb (c_serial (qc_cfg c)) || nil_is_last calls) then [] else [2%N]) ++
  (if ok_run && subok && negb (forallb (fun m => memN (m_id m) ids) (early_of tr)) then [3%N] else []) ++
  (if subfail && negb (N.eqb (qc_npub c) 0 && calls_eqb calls [None]
                       && forallb (fun io => Nat.eqb (length (snd io)) 0) (qc_resps c)) then [4%N] else []) ++
  (if ok_run && subok && has_expire tr && negb (Nat.eqb (n_nil calls) 1) then [5%N] else []) ++
  (if forallb (fun i => match payload_of tr i with Some p => required_error p (lookup i (qc_resps c)) | None => true end) ids
   then [] else [6%N]) ++
  (if qc_complete c && subok && has_expire tr && negb (qc_exited c) then [7%N] else []) ++
  (if forallb (fun i => N.eqb i 999999 || existsb (fun l => match l with LQArrive m true => N.eqb (m_id m) i | _ => false end) tr) ids
      && (fix nodup (l : list N) := match l with [] => true | x :: r => negb (memN x r) && nodup r end) (filter (fun i => negb (N.eqb i 999999)) ids)
   then [] else [8%N]) ++
  (if subok && memN (qc_subj c) (qc_prev c) then [9%N] else []) ++
  (if forallb (fun o => Nat.eqb (length o) 0) (qc_stale c) then [] else [10%N]) ++
  (if memN 999999 ids then [11%N] else []) ++
  (match qc_life_us c with Some t => if N.ltb t (qc_dur_us c) then [12%N] else [] | None => [] end) ++
  (if ok_run && subok && negb (forallb (fun i => memN i ids) (qc_within c)) then [13%N] else []) ++
  (match qc_late_us c with Some t => if N.ltb 1000000 t then [14%N] else [] | None => [] end) ++
  (if forallb (fun i => match the_resp (lookup i (qc_resps c)) with Some r => is_error r | None => true end) (qc_panicked c)
   then [] else [15%N]).

Fixpoint run_idx {A} (f : A -> list N) (i : N) (cs : list A) : list (N * N) :=
  match cs with
  | [] => []
  | c :: r => map (fun k => (i, k)) (f c) ++ run_idx f (i + 1)%N r
  end.
Definition mismatches (cs : list qcase) : list (N * N) := run_idx check_case 0%N cs.
Definition violations (cs : list qcase) : list (N * N) := run_idx viol_case 0%N cs.
