(* Evaluators for the generated cases_C12_*.v files.
   A case = one BadgerDB directory: a sequence of child-process lifetimes (each killed at a
   crash point, at a random time, or ending cleanly), the database content the parent read
   after each of them, and what RebuildIndexes / index queries gave at the end.
   [mismatches]: the observed content is not one the model allows for that (workload, kill
   point, ack count).  [violations]: property C12 decided on the observed data only. *)
From GoRes Require Export Crash.Spec.
Open Scope N_scope.

Definition obs := list (bytes * option value).   (* raw key, decoded value (None = empty data) *)

Record crun := CR {
  r_ops : list op;
  r_pt : N;                 (* 0 clean exit (after Flush), 1..10 crash point, 11 kill at a random time *)
  r_occ : N;                (* occurrence of the crash point *)
  r_oks : list bool;        (* result (nil error?) of every call that returned before the kill *)
  r_hits : list (N * N);    (* clean exit only: verifhook.Hits() *)
  r_noqs : bool;            (* the lifetime ran WITHOUT a QueryStore attached: no index is maintained *)
  r_obs : obs               (* database after the lifetime, read by the parent *)
}.
Record ccase := CC {
  c_prefix : bytes;         (* st.prefix ("" or "p.") *)
  c_nidx : N;               (* 0: QueryStore without index; 1: index ia; 2: indexes ia, ib *)
  c_lim : N;                (* BadgerDB's transaction limit: DB.MaxBatchCount() - 1 of the (small) database; 0 = not reached *)
  c_runs : list crun;
  c_rb_ok : bool;           (* RebuildIndexes returned nil *)
  c_rb_obs : obs;           (* database after RebuildIndexes *)
  c_queries : list (bytes * bytes * list id)   (* (index, key prefix, ids returned) after RebuildIndexes *)
}.

(* the harness's indexes: ia = field A (never nil), ib = field B (nil when empty) *)
Definition kf_a (v : value) : option bytes := Some (fst v).
Definition kf_b (v : value) : option bytes := if is_nil (snd v) then None else Some (snd v).
Definition name_a : bytes := [105; 97].
Definition name_b : bytes := [105; 98].
(* the store is typed (struct with omitempty members) or untyped (map records with differing
   member sets); in both an absent member reads as "" in the Key callbacks, so one value model
   (A, B) with "" = absent covers them *)
Definition run_cfg (g : cfg) (r : crun) : cfg := if r_noqs r then Cfg (prefix g) [] else g.
Fixpoint has_prefix (p s : bytes) : bool :=
  match p, s with
  | [], _ => true
  | x :: p', y :: s' => (x =? y) && has_prefix p' s'
  | _ :: _, [] => false
  end.
(* ids listed by a query on index [n] with key prefix [kp] *)
Definition query_ids_pref (n kp : bytes) (c : content) : list id :=
  flat_map (fun kv => match fst kv with
                      | KIdx n' ik i => if beq n n' && has_prefix kp ik then [i] else []
                      | _ => [] end) c.
Definition case_cfg (c : ccase) : cfg :=
  Cfg (c_prefix c) (if c_nidx c =? 0 then [] else if c_nidx c =? 1 then [(name_a, kf_a)] else [(name_a, kf_a); (name_b, kf_b)]).

(* ---------- generic helpers ---------- *)
Definition ovalue_eq (a b : option value) : bool :=
  match a, b with Some x, Some y => veqb x y | None, None => true | _, _ => false end.
Fixpoint olookup (k : bytes) (o : obs) : option (option value) :=
  match o with [] => None | (k', v) :: r => if beq k k' then Some v else olookup k r end.
Definition omem (k : bytes) (o : obs) : bool := match olookup k o with Some _ => true | None => false end.
Definition enc_content (g : cfg) (c : content) : obs :=
  map (fun kv => (enc_key g (fst kv), match fst kv with KVal _ => Some (snd kv) | _ => None end)) c.
Definition obs_sub (a b : obs) : bool :=
  forallb (fun e => match olookup (fst e) b with Some v => ovalue_eq v (snd e) | None => false end) a.
Definition obs_eq (a b : obs) : bool := (N.of_nat (length a) =? N.of_nat (length b)) && obs_sub a b.
Definition ids_sub (a b : list id) : bool := forallb (fun i => mem_id i b) a.
Definition ids_seteq (a b : list id) : bool :=
  (N.of_nat (length a) =? N.of_nat (length b)) && ids_sub a b && ids_sub b a.
Fixpoint dedup (l : list id) : list id :=
  match l with [] => [] | i :: r => if mem_id i r then dedup r else i :: dedup r end.

Fixpoint insert_all {A} (x : A) (l : list A) : list (list A) :=
  match l with [] => [[x]] | y :: r => (x :: l) :: map (cons y) (insert_all x r) end.
Fixpoint perms {A} (l : list A) : list (list A) :=
  match l with [] => [[]] | x :: r => flat_map (insert_all x) (perms r) end.
(* the k-th order in which Init may have called OnChange for its seeds (Go map iteration) *)
(* (only for seed sets of at most 3: larger ones are used without a QueryStore, where the order is immaterial) *)
Definition small {A} (l : list A) : bool := Nat.leb (length l) 3.
Definition variant (k : nat) (ops : list op) : list op :=
  map (fun o => match o with Init s => if small s then Init (nth k (perms s) s) else o | _ => o end) ops.
Definition nvariants (ops : list op) : nat :=
  fold_left (fun n o => match o with Init s => if small s then Nat.max n (length (perms s)) else n | _ => n end) ops 1%nat.

(* ---------- the states the model allows for a kill ---------- *)
Definition is_ack (m : mstep) : bool := match m with SAck _ => true | _ => false end.
Definition is_enq (m : mstep) : bool := match m with SEnq _ => true | _ => false end.
Definition count {A} (f : A -> bool) (l : list A) : nat := length (filter f l).
Definition is_hit (pt : N) (m : mstep) : bool := match m with SHit q => q =? pt | _ => false end.
Definition ack_oks (l : list mstep) : list bool :=
  flat_map (fun m => match m with SAck b => [b] | _ => [] end) l.
Fixpoint bools_eq (a b : list bool) : bool :=
  match a, b with [] , [] => true | x :: a', y :: b' => Bool.eqb x y && bools_eq a' b' | _, _ => false end.

(* client at program position p, m index tasks done: the content that is durable then *)
Definition content_at (g : cfg) (c0 : content) (pr : list mstep) (p m : nat) : content :=
  durable c0 (trace (exec g (repeat AClient p ++ repeat AIndex m) (MS pr [] []))).

(* may the process have been killed at (pt, occ) when the client is at p and m tasks are done? *)
Definition kill_ok (pr : list mstep) (pt occ : N) (oks : list bool) (p m : nat) : bool :=
  let done := firstn p pr in
  let enq := count is_enq done in
  bools_eq (ack_oks done) oks && Nat.leb m enq &&
  (if pt =? 0 then Nat.eqb p (length pr) && Nat.eqb m enq
   else if pt <=? 8 then
     match skipn p pr with
     | SHit q :: _ => (q =? pt) && (N.of_nat (count (is_hit pt) done) + 1 =? occ)
     | _ => false
     end
   else if pt =? 9 then (N.of_nat m + 1 =? occ) && Nat.leb (N.to_nat occ) enq
   else if pt =? 10 then (N.of_nat m =? occ)
   else true).

(* position of the occ-th [SHit pt] in the program *)
Fixpoint hit_pos (pt : N) (occ : nat) (pr : list mstep) (p : nat) : option nat :=
  match pr with
  | [] => None
  | m :: r => if is_hit pt m then match occ with 1%nat => Some p | _ => hit_pos pt (pred occ) r (S p) end
              else hit_pos pt occ r (S p)
  end.
(* [noqs]: no index exists, so the number of index tasks done is immaterial (all of them) *)
Definition candidates (noqs : bool) (pr : list mstep) (pt occ : N) (oks : list bool) : list (nat * nat) :=
  let ms p := let e := count is_enq (firstn p pr) in if noqs then [e] else seq 0 (S e) in
  let at_p p := flat_map (fun m => if kill_ok pr pt occ oks p m then [(p, m)] else []) (ms p) in
  if pt =? 0 then at_p (length pr)
  else if pt <=? 8 then match hit_pos pt (N.to_nat occ) pr 0 with Some p => at_p p | None => [] end
  else flat_map at_p (seq 0 (S (length pr))).

Definition match_variant (g : cfg) (lim : nat) (c0 : content) (r : crun) (ops : list op) : option content :=
  let pr := compile c0 (limit_ops lim c0 ops) in
  match find (fun pm => obs_eq (enc_content g (content_at g c0 pr (fst pm) (snd pm))) (r_obs r))
             (candidates (r_noqs r) pr (r_pt r) (r_occ r) (r_oks r)) with
  | Some pm => Some (content_at g c0 pr (fst pm) (snd pm))
  | None => None
  end.
Fixpoint first_some {A B} (f : A -> option B) (l : list A) : option B :=
  match l with [] => None | x :: r => match f x with Some y => Some y | None => first_some f r end end.
Definition match_run (g0 : cfg) (lim : nat) (c0 : content) (r : crun) : option content :=
  let g := run_cfg g0 r in
  first_some (fun k => match_variant g lim c0 r (variant k (r_ops r))) (seq 0 (nvariants (r_ops r))).

(* hits of a clean lifetime *)
Definition ev_hits (pt : N) (tr : list ev) : N :=
  N.of_nat (length (filter (fun e => match e with EHit q => q =? pt | _ => false end) tr)).
Fixpoint nlookup (k : N) (l : list (N * N)) : N :=
  match l with [] => 0 | (k', v) :: r => if k =? k' then v else nlookup k r end.
Definition hits_ok (g0 : cfg) (lim : nat) (c0 : content) (r : crun) : bool :=
  let g := run_cfg g0 r in
  if negb (r_pt r =? 0) then true
  else let pr := compile c0 (limit_ops lim c0 (r_ops r)) in
       let tr := trace (exec g (repeat AClient (length pr) ++ repeat AIndex (length pr)) (MS pr [] [])) in
       forallb (fun pt => ev_hits pt tr =? nlookup pt (r_hits r))
               (if r_noqs r then [1;2;3;4;5;6;7;8] else [1;2;3;4;5;6;7;8;9;10]).

(* field codes: 1 content after a lifetime is not allowed by the model  2 RebuildIndexes outcome
   3 content after RebuildIndexes  4 query result  5 crash-point hit counts of a clean lifetime *)
Fixpoint check_runs (g : cfg) (lim : nat) (c : content) (rs : list crun) : list N * option content :=
  match rs with
  | [] => ([], Some c)
  | r :: rest =>
      match match_run g lim c r with
      | None => ([1], None)
      | Some c' => let (l, o) := check_runs g lim c' rest in ((if hits_ok g lim c r then [] else [5]) ++ l, o)
      end
  end.
Definition check_case (cs : ccase) : list N :=
  let g := case_cfg cs in
  let (l, o) := check_runs g (N.to_nat (c_lim cs)) [] (c_runs cs) in
  l ++ match o with
       | None => []
       | Some c =>
           match rebuild_indexes_lim (N.to_nat (c_lim cs)) g c with
           | RbOk c' =>
               (if c_rb_ok cs then [] else [2]) ++
               (if obs_eq (enc_content g c') (c_rb_obs cs) then [] else [3]) ++
               (if forallb (fun q => ids_seteq (query_ids_pref (fst (fst q)) (snd (fst q)) c') (snd q)) (c_queries cs) then [] else [4])
           | RbErr c' =>
               (if c_rb_ok cs then [2] else []) ++
               (if obs_eq (enc_content g c') (c_rb_obs cs) then [] else [3])
           end
       end.

(* ---------- property C12 on the observed data only ---------- *)
Definition oval (g : cfg) (o : obs) (i : id) : option value :=
  match olookup (enc_key g (KVal i)) o with Some (Some v) => Some v | _ => None end.
Definition omark (g : cfg) (o : obs) : bool := omem (enc_key g KMark) o.
Definition ostate (g : cfg) (o : obs) : sstate := SS (oval g o) (omark g o).
Definition op_ids (o : op) : list id :=
  match o with Create i _ => [i] | Update i _ => [i] | Delete i => [i] | Init s => map fst s | InitErr _ => [] end.
Definition touches (i : id) (o : op) : bool :=
  match o with Create j _ => beq i j | Update j _ => beq i j | Delete j => beq i j | Init _ => false | InitErr _ => false end.
Definition seeds_of (ops : list op) : list (id * value) :=
  flat_map (fun o => match o with Init s => s | _ => [] end) ops.
Definition st_eq_on (u : list id) (a b : sstate) : bool :=
  forallb (fun i => ovalue_eq (sval a i) (sval b i)) u && Bool.eqb (sinit a) (sinit b).

(* codes: 1 a returned call's effect is missing / an unexplained value  2 the call in flight is half applied
   3 Init changed a seed although the store was initialised (duplicate / resurrection)
   4 half-seeded (seed without marker or marker without seed)  5 RebuildIndexes failed
   6 index entries after RebuildIndexes differ from the stored values  7 an index query differs from the
   stored values  8 RebuildIndexes changed stored values *)
(* an Init call that returned nil before: the store counts as initialised from then on, whether
   or not that Init created anything *)
Fixpoint acked_init (ops : list op) (oks : list bool) : bool :=
  match ops, oks with
  | Init _ :: r, ok :: k => ok || acked_init r k
  | _ :: r, _ :: k => acked_init r k
  | _, _ => false
  end.
(* a later Init (store initialised by then, per the specification state) lists a seed id that holds
   no value at that moment and is not created afterwards, yet the id holds a value in the end *)
Fixpoint resurrected (st : sstate) (ops : list op) (o : sstate) : bool :=
  match ops with
  | [] => false
  | x :: r =>
      (match x with
       | Init sd => sinit st && existsb (fun iv => negb (isSomeV (sval st (fst iv))) && negb (creates (fst iv) r)
                                                  && isSomeV (sval o (fst iv))) sd
       | _ => false
       end) || resurrected (spec_step st x) r o
  end.

(* the Init call that initialises the store (first valid one reached with the marker absent, per the
   specification state): afterwards either no marker and none of the seeds it had to create, or the
   marker and every seed (unless a later call touched it) *)
Fixpoint half_seeded (st : sstate) (ops : list op) (o : sstate) : bool :=
  match ops with
  | [] => false
  | x :: r =>
      match x with
      | Init sd =>
          if negb (sinit st) && valid_seeds sd then
            (negb (sinit o) && existsb (fun iv => negb (isSomeV (sval st (fst iv))) && negb (creates (fst iv) r)
                                                  && isSomeV (sval o (fst iv))) sd)
            || (sinit o && existsb (fun iv => negb (existsb (touches (fst iv)) r)
                                              && negb (isSomeV (sval o (fst iv)))) sd)
          else half_seeded (spec_step st x) r o
      | _ => half_seeded (spec_step st x) r o
      end
  end.

(* the workload under BadgerDB's transaction limit, at the specification level: an Init whose
   missing seeds + marker reach the limit must fail and change nothing *)
Fixpoint spec_limit (lim : nat) (st : sstate) (ops : list op) : list op :=
  match ops with
  | [] => []
  | o :: r =>
      let o' := match o with
                | Init s => if negb (Nat.eqb lim 0) && negb (sinit st) && valid_seeds s
                               && Nat.leb lim (S (length (filter (fun iv => negb (isSomeV (sval st (fst iv)))) s)))
                            then InitErr (lim - 1) else o
                | _ => o
                end in
      o' :: spec_limit lim (spec_step st o') r
  end.

Definition viol_run (g : cfg) (lim : nat) (inited : bool) (prev : obs) (r : crun) : list N :=
  let a := length (r_oks r) in
  let u := dedup (flat_map op_ids (r_ops r)) in
  let s0 := SS (oval g prev) (omark g prev || inited) in
  let lops := spec_limit lim s0 (r_ops r) in
  let ops1 := firstn (S a) lops in
  let sa := spec_run s0 (firstn a lops) in
  let sb := spec_run s0 ops1 in
  let o := ostate g (r_obs r) in
  let bad1 := existsb (fun i => negb (ovalue_eq (sval o i) (sval sa i)) && negb (ovalue_eq (sval o i) (sval sb i))) u
              || (negb (Bool.eqb (sinit o) (sinit sa)) && negb (Bool.eqb (sinit o) (sinit sb))) in
  let sd := seeds_of ops1 in
  (if bad1 then [1] else []) ++
  (if negb bad1 && negb (st_eq_on u o sa) && negb (st_eq_on u o sb) then [2] else []) ++
  (if (sinit s0 && existsb (fun iv => negb (existsb (touches (fst iv)) ops1)
                                      && negb (ovalue_eq (sval o (fst iv)) (sval s0 (fst iv)))) sd)
      || resurrected s0 ops1 o
   then [3] else []) ++
  (if half_seeded s0 ops1 o
   then [4] else []).

Fixpoint viol_runs (g : cfg) (lim : nat) (inited : bool) (prev : obs) (rs : list crun) : list N :=
  match rs with
  | [] => []
  | r :: rest => viol_run g lim inited prev r ++ viol_runs g lim (inited || acked_init (r_ops r) (r_oks r)) (r_obs r) rest
  end.

Definition wanted_entries (g : cfg) (u : list id) (o : obs) : list bytes :=
  flat_map (fun i => match oval g o i with
                     | Some v => flat_map (fun ix => match snd ix v with
                                                     | Some ik => [enc_key g (KIdx (fst ix) ik i)]
                                                     | None => [] end) (idxs g)
                     | None => [] end) u.
Definition index_entries (g : cfg) (o : obs) : list bytes :=
  flat_map (fun e => match snd e with
                     | None => if beq (fst e) (enc_key g KMark) then [] else [fst e]
                     | Some _ => [] end) o.
Definition last_obs (rs : list crun) : obs := match rev rs with r :: _ => r_obs r | [] => [] end.

Definition viol_case (cs : ccase) : list N :=
  let g := case_cfg cs in
  let u := dedup (flat_map (fun r => flat_map op_ids (r_ops r)) (c_runs cs)) in
  let o := c_rb_obs cs in
  let lim := N.to_nat (c_lim cs) in
  viol_runs g lim false [] (c_runs cs) ++
  (* an error is no claim about the indexes when the new entries cannot fit into one transaction *)
  (if c_rb_ok cs || (negb (Nat.eqb lim 0) && Nat.leb lim (length (wanted_entries g u o))) then [] else [5]) ++
  (if c_rb_ok cs && negb (ids_seteq (wanted_entries g u o) (index_entries g o)) then [6] else []) ++
  (if c_rb_ok cs && negb (forallb (fun q =>
        ids_seteq (snd q)
          (flat_map (fun i => match oval g o i with
                              | Some v => match first_some (fun ix => if beq (fst ix) (fst (fst q)) then Some (snd ix v) else None) (idxs g) with
                                          | Some (Some ik) => if has_prefix (snd (fst q)) ik then [i] else [] | _ => [] end
                              | None => [] end) u)) (c_queries cs)) then [7] else []) ++
  (if st_eq_on u (ostate g o) (ostate g (last_obs (c_runs cs))) then [] else [8]).

Fixpoint run_idx {A} (f : A -> list N) (i : N) (cs : list A) : list (N * N) :=
  match cs with
  | [] => []
  | c :: r => map (fun k => (i, k)) (f c) ++ run_idx f (i + 1) r
  end.
Definition mismatches (cs : list ccase) : list (N * N) := run_idx check_case 0 cs.
Definition violations (cs : list ccase) : list (N * N) := run_idx viol_case 0 cs.
