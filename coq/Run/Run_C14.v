(* Evaluators for the generated cases_C14_*.v.  One case = one mutation history
   against the real badgerstore + QueryStore, cut into segments; a segment is a
   run of mutations followed by QueryStore.Flush.  Observed per segment: the
   Store.OnChange reports, every OnQueryChange callback (two recording
   callbacks) with the query results and Events() flags obtained INSIDE the
   callback, the query results after the Flush, and - when the handler layer is
   on - what four store.QueryHandler resources published on the recording
   connection, the query responses a gateway would get, and fresh gets.
   [mismatches]: model vs. implementation.  [violations]: property C14
   evaluated on the implementation's outputs only. *)
From GoRes Require Export Index.RunCommon.
Open Scope N_scope.

Record cbobs := CB {
  cb_n : nat;                       (* which recording callback (0 or 1) *)
  cb_id : bytes; cb_before : option val; cb_after : option val;
  cb_results : list outcome;        (* qs.Query inside the callback, per case query *)
  cb_affected : list bool           (* QueryChange.Events(q) reset flag, per case query *)
}.

Record sub := SUB { s_rid : bytes; s_cq : bytes; s_isq : bool; s_q : qd }.

Record respobs := RO {
  r_sub : nat;                      (* subscription index *)
  r_evt : nat;                      (* ordinal of the query event on that resource within the segment *)
  r_kind : N;                       (* 0 no events, 1 result, 2 error *)
  r_res : rvalue                    (* the collection / model of a result answer *)
}.

Record segment := SG {
  sg_muts : list step;                        (* an Init call is a segment of its own, its seeds listed in the order
                                                 the store notified them (then the others) *)
  sg_changes : list (change val);             (* Store.OnChange reports *)
  sg_cbs : list cbobs;
  sg_results : list outcome;                  (* after Flush, per case query *)
  sg_pubs : list pub;                         (* handler layer: published, in order *)
  sg_ar2 : list (list (bytes * option qd));   (* AffectedResources of "t.p.$x" per call: rid and its query;
                                                 None = an injected resource whose resourceEvent fails (no
                                                 handler serves it / its RequestHandler rejects the parameter) *)
  sg_ar2pos : list nat;                       (* length of sg_pubs when that call was made *)
  sg_ar4 : list (list bytes);                 (* AffectedResources of "t.qp.$i" per call *)
  sg_resps : list respobs;
  sg_fresh : list (option rvalue);            (* get per subscription after the segment; None = error *)
  sg_stored : vstore val                      (* Store.Get of every id after the segment *)
}.

Record c14case := C14 {
  c_queries : list qd;
  c_handlers : bool;
  c_delayed : bool;                 (* the gateway answers query events only after the segment's Flush *)
  c_inject : bool;                  (* AffectedResources of "t.p.$x" also returns failing resources *)
  c_subs : list sub;
  c_segs : list segment
}.

Definition bools_eqb (a b : list bool) : bool := list_eqb Bool.eqb a b.
Definition outcomes_eqb (a b : list outcome) : bool := list_eqb outcome_eqb a b.
Definition pub_eqb (a b : pub) : bool :=
  match a, b with
  | PReset x, PReset y => beq x y
  | PQueryEvent x, PQueryEvent y => beq x y
  | _, _ => false            (* badgerstore never sends resource events *)
  end.

Definition rvalue_eqb (a b : rvalue) : bool :=
  match a, b with
  | VColl x, VColl y => lbeq x y
  | VModel x, VModel y => amap_eq x y
  | _, _ => false
  end.
Definition orv_eqb (a b : option rvalue) : bool :=
  match a, b with Some x, Some y => rvalue_eqb x y | None, None => true | _, _ => false end.

(* ---- the handler configuration of the harness ---- *)
Definition rid_all : bytes := [116; 46; 97; 108; 108].              (* "t.all" *)
Definition rid_q : bytes := [116; 46; 113].                         (* "t.q" *)
Definition rid_qp0 : bytes := [116; 46; 113; 112; 46; 48].          (* "t.qp.0" *)
Definition rid_qp1 : bytes := [116; 46; 113; 112; 46; 49].          (* "t.qp.1" *)
Definition q_all : qd := QD 0 [] 0 0%Z (-1)%Z false.

Definition sub_lookup (subs : list sub) (rid cq : bytes) : option (iquery val) :=
  match find (fun s => beq (s_rid s) rid && beq (s_cq s) cq) subs with
  | Some s => Some (to_iq (s_q s))
  | None => None
  end.
Fixpoint assoc_qd (rid : bytes) (l : list (bytes * option qd)) : option (iquery val) :=
  match l with
  | [] => None
  | (r, oq) :: l' => if beq rid r then match oq with Some q => Some (to_iq q) | None => None end
                     else assoc_qd rid l'
  end.

(* the transformers of the harness map id to the reference "t.item.<id>" *)
Definition item_ref (id : bytes) : bytes := [116; 46; 105; 116; 101; 109; 46] ++ id.
Definition hq := qhandler (change val) (iquery val).
Definition nilq : iquery val := to_iq q_all.
Definition with_norm (f : bytes -> bytes -> option (iquery val)) (rid cq : bytes) : option (iquery val * bytes) :=
  match f rid cq with Some q => Some (q, cq) | None => None end.

(* "t.all": ordinary collection, RequestHandler, no path parameters *)
Definition h1 : hq :=
  QH TCollection rid_all false None (Some (fun rid => if beq rid rid_all then Some (to_iq q_all) else None))
     nilq (fun _ => true) TrNone None.
(* "t.p.$x": ordinary collection with a path parameter, AffectedResources, IDToRIDCollectionTransformer *)
Definition h2 (ar : list (bytes * option qd)) : hq :=
  QH TCollection [116; 46; 112; 46; 36; 120] true None (Some (fun rid => assoc_qd rid ar))
     nilq (fun _ => true) (TrColl item_ref) (Some (fun _ => map fst ar)).
(* "t.q": query collection, QueryRequestHandler *)
Definition h3 (subs : list sub) : hq :=
  QH TCollection rid_q false (Some (with_norm (sub_lookup subs))) None nilq (fun _ => true) TrNone None.
(* "t.qp.$i": query model with a path parameter, AffectedResources, IDToRIDModelTransformer *)
Definition h4 (subs : list sub) (ar : list bytes) : hq :=
  QH TModel [116; 46; 113; 112; 46; 36; 105] true (Some (with_norm (sub_lookup subs))) None
     nilq (fun _ => true) (TrModel item_ref) (Some (fun _ => ar)).

Definition hpubs (h : hq) (c : change val) : list pub := fst (handle_change bs_store h c).
Definition handler_of (subs : list sub) (s : sub) : hq :=
  if beq (s_rid s) rid_all then h1
  else if s_isq s then (if beq (s_rid s) rid_q then h3 subs else h4 subs [])
  else h2 [(s_rid s, Some (s_q s))].

(* pubs of the four handlers for the key-changing changes, consuming the
   recorded AffectedResources outputs *)
Fixpoint model_pubs (subs : list sub) (cs : list (change val))
                    (ar2 : list (list (bytes * option qd))) (ar4 : list (list bytes)) : list pub :=
  match cs with
  | [] => []
  | c :: r =>
    if key_changed idxs c then
      let a2 := hd [] ar2 in let a4 := hd [] ar4 in
      hpubs h1 c ++ hpubs (h2 a2) c ++ hpubs (h3 subs) c ++ hpubs (h4 subs a4) c
      ++ model_pubs subs r (tl ar2) (tl ar4)
    else model_pubs subs r ar2 ar4
  end.

(* ---- correspondence ---- *)
Definition cb_of_effect (qs : list qd) (e : effect val) : list cbobs :=
  match e with
  | ECallback j id b a dcall =>
    [CB j id b a (map (fun q => fetch_collection dcall (to_iq q)) qs)
                 (map (fun q => affects_query (to_iq q) b a) qs)]
  | _ => []
  end.

Definition cb_ident_eqb (x y : cbobs) : bool :=
  Nat.eqb (cb_n x) (cb_n y) && beq (cb_id x) (cb_id y) &&
  oval_eqb (cb_before x) (cb_before y) && oval_eqb (cb_after x) (cb_after y).

(* a query response: result iff the change affects the subscription's query; the
   result is compared when it is known at which index state it was computed *)
Definition resp_ok (subs : list sub) (kcs : list (change val)) (known : bool) (d' : kdb) (r : respobs) : bool :=
  match nth_error subs (r_sub r), nth_error kcs (r_evt r) with
  | Some s, Some c =>
    match query_request bs_store (handler_of subs s) d' c (s_rid s) (s_cq s) with
    | QRValue _ v => (r_kind r =? 1) && (negb known || rvalue_eqb v (r_res r))
    | QREvents [] => r_kind r =? 0
    | _ => r_kind r =? 2
    end
  | _, _ => false
  end.

Definition fresh_of (subs : list sub) (d : kdb) (s : sub) : option rvalue :=
  match get_resource bs_store (handler_of subs s) d (s_rid s) (s_cq s) with
  | GValue _ v _ => Some v
  | _ => None
  end.

(* field codes: 1 OnChange reports  2 callbacks (which, order, id/before/after)
   3 query results inside a callback  4 Events() affected flags
   5 query results after Flush  6 handler publications  7 query responses
   8 get responses after the segment  14 stored values after the segment *)
Fixpoint check_segs (qs : list qd) (hon delayed : bool) (subs : list sub) (inited : bool) (st : vstore val) (d : kdb)
                    (segs : list segment) : list N :=
  match segs with
  | [] => []
  | sg :: r =>
    let (ms, inited') := flatten_steps inited (sg_muts sg) in
    let cs := changes_of st ms in
    let (d', es) := run_changes idxs 2 d cs in
    let st' := fold_left apply_change cs st in
    let mcbs := flat_map (cb_of_effect qs) es in
    (if list_eqb change_eqb cs (sg_changes sg) then [] else [1]) ++
    (if list_eqb cb_ident_eqb mcbs (sg_cbs sg) then [] else [2]) ++
    (if list_eqb outcomes_eqb (map cb_results mcbs) (map cb_results (sg_cbs sg)) then [] else [3]) ++
    (if list_eqb bools_eqb (map cb_affected mcbs) (map cb_affected (sg_cbs sg)) then [] else [4]) ++
    (if outcomes_eqb (map (fun q => fetch_collection d' (to_iq q)) qs) (sg_results sg) then [] else [5]) ++
    (if negb hon || list_eqb pub_eqb (model_pubs subs cs (sg_ar2 sg) (sg_ar4 sg)) (sg_pubs sg) then [] else [6]) ++
    (if negb hon || forallb (resp_ok subs (filter (key_changed idxs) cs)
                                     (delayed || Nat.eqb (length ms) 1) d') (sg_resps sg) then [] else [7]) ++
    (if negb hon || list_eqb orv_eqb (map (fresh_of subs d') subs) (sg_fresh sg) then [] else [8]) ++
    (if store_eqb st' (sg_stored sg) then [] else [14]) ++
    check_segs qs hon delayed subs inited' st' d' r
  end.

Definition check_case (c : c14case) : list N :=
  nodup N.eq_dec (check_segs (c_queries c) (c_handlers c) (c_delayed c) (c_subs c) false [] [] (c_segs c)).

(* ---- the property on the implementation's outputs ---- *)
Definition cb_change (x : cbobs) : change val := (cb_id x, cb_before x, cb_after x).

(* stores after each key-changing change of cs, starting from st *)
Fixpoint kc_states (st : vstore val) (cs : list (change val)) : list (vstore val) :=
  match cs with
  | [] => []
  | c :: r => let st' := apply_change st c in
              if key_changed idxs c then st' :: kc_states st' r else kc_states st' r
  end.

Definition nth_bool (l : list bool) (k : nat) : bool := nth k l false.

(* (store before, store after) of each key-changing change *)
Fixpoint kc_pairs (st : vstore val) (cs : list (change val)) : list (vstore val * vstore val) :=
  match cs with
  | [] => []
  | c :: r => let st' := apply_change st c in
              if key_changed idxs c then (st, st') :: kc_pairs st' r else kc_pairs st' r
  end.
(* the announced resources walked before the first failing one *)
Fixpoint before_fail (ar : list (bytes * option qd)) : list (bytes * qd) :=
  match ar with
  | (r, Some q) :: t => (r, q) :: before_fail t
  | _ => []
  end.
(* the resets "t.p.$x" published for one change: from its AffectedResources call on *)
Fixpoint leading_resets (ps : list pub) : list pub :=
  match ps with
  | PReset r :: t => PReset r :: leading_resets t
  | _ => []
  end.
Definition resets_ok (pubs : list pub) (p : (vstore val * vstore val) * (list (bytes * option qd) * nat)) : bool :=
  let '((stb, sta), (ar, pos)) := p in
  let mine := leading_resets (skipn pos pubs) in
  forallb (fun rq => outcome_eqb (spec_on stb (snd rq)) (spec_on sta (snd rq))
                     || existsb (pub_eqb (PReset (fst rq))) mine) (before_fail ar).

Definition precise_ok (qs : list qd) (x : cbobs) : bool :=
  forallb (fun p => let '(q, aff) := p in
     negb aff ||
     okey_matches (q_prefix q) (filt_of (q_filt q)) (opt_key (ix_of (q_ix q)) (cb_before x)) ||
     okey_matches (q_prefix q) (filt_of (q_filt q)) (opt_key (ix_of (q_ix q)) (cb_after x)))
    (combine qs (cb_affected x)).

Definition view_after (sg : segment) (i : nat) (s : sub) (before fresh : option rvalue) : option rvalue :=
  if s_isq s then
    fold_left (fun v r => if Nat.eqb (r_sub r) i && (r_kind r =? 1) then Some (r_res r) else v) (sg_resps sg) before
  else if existsb (pub_eqb (PReset (s_rid s))) (sg_pubs sg) then fresh else before.

Fixpoint indexed {A} (i : nat) (l : list A) : list (nat * A) :=
  match l with [] => [] | x :: r => (i, x) :: indexed (S i) r end.

(* violation codes:
   1 a callback did not run exactly once per key-changing mutation, in mutation order
     (or ran for a mutation that changed no key)
   2 a query result changed over a segment but no change of the segment reported the query affected
   3 Events reports affected although neither the old nor the new key matches the query
   4 a query run inside a callback does not see the mutation (result <> scan of the values after it)
   5 a subscribed client is not coherent with a fresh get after the segment
   7 an ordinary resource announced by AffectedResources before any failing resource of the same
     change, and whose result changed with that change, was not reset
   8 the values the store holds differ from what its OnChange reports add up to (a change was
     reported that did not happen, or happened unreported)
   6 after Flush a query does not return the scan of the values the store holds (the
     index lost or kept entries: index updates applied out of commit order) *)
Fixpoint viol_segs (qs : list qd) (hon inject : bool) (subs : list sub) (st : vstore val)
                   (prev : list outcome) (fresh_prev : list (option rvalue)) (segs : list segment) : list N :=
  match segs with
  | [] => []
  | sg :: r =>
    let cs := sg_changes sg in
    let kc := filter (key_changed idxs) cs in
    let cb0 := filter (fun x => Nat.eqb (cb_n x) 0) (sg_cbs sg) in
    let cb1 := filter (fun x => Nat.eqb (cb_n x) 1) (sg_cbs sg) in
    let states := kc_states st cs in
    let seen_ok (cbs : list cbobs) :=
        forallb (fun p => outcomes_eqb (map (spec_on (fst p)) qs) (cb_results (snd p))) (combine states cbs) in
    (if list_eqb change_eqb (map cb_change cb0) kc && list_eqb change_eqb (map cb_change cb1) kc
        && Nat.eqb (length (sg_cbs sg)) (2 * length kc) then [] else [1]) ++
    (if forallb (fun p => let '(k, (o, n)) := p in
                   outcome_eqb o n || existsb (fun x => nth_bool (cb_affected x) k) (sg_cbs sg))
                (indexed 0 (combine prev (sg_results sg))) then [] else [2]) ++
    (if forallb (precise_ok qs) (sg_cbs sg) then [] else [3]) ++
    (if seen_ok cb0 && seen_ok cb1 then [] else [4]) ++
    (* with injected failures the unchanged code skips the resources after a failing one (modelled
       exactly, M6): the "t.p.$x" subscriptions are then judged per change by code 7, not by code 5 *)
    (if negb hon || forallb (fun p => let '(i, (s, (b, f))) := p in
                               (inject && negb (s_isq s) && negb (beq (s_rid s) rid_all))
                               || orv_eqb (view_after sg i s b f) f)
                            (indexed 0 (combine subs (combine fresh_prev (sg_fresh sg)))) then [] else [5]) ++
    (if negb hon || forallb (resets_ok (sg_pubs sg))
                            (combine (kc_pairs st cs) (combine (sg_ar2 sg) (sg_ar2pos sg))) then [] else [7]) ++
    (if outcomes_eqb (map (spec_on (sg_stored sg)) qs) (sg_results sg) then [] else [6]) ++
    (if store_eqb (fold_left apply_change cs st) (sg_stored sg) then [] else [8]) ++
    viol_segs qs hon inject subs (fold_left apply_change cs st) (sg_results sg)
              (if hon then sg_fresh sg else fresh_prev) r
  end.

Definition viol_case (c : c14case) : list N :=
  nodup N.eq_dec (viol_segs (c_queries c) (c_handlers c) (c_inject c) (c_subs c) []
                            (map (fun _ => FOk []) (c_queries c))
                            (map (fun s => Some (if beq (s_rid s) rid_qp0 || beq (s_rid s) rid_qp1
                                                 then VModel [] else VColl [])) (c_subs c)) (c_segs c)).

(* ---- directed handler scenarios: a store.QueryHandler built through the option
   API (With...) on a real res.Service over a scripted QueryStore (mockstore):
   invalid configurations, failing callbacks, stores answering with events, the
   two shipped QueryTransformers.  Compared with Index/QHandler.v. ---- *)
Inductive dresp := DRErr | DRValue (v : rvalue) | DREvents (evs : list revent).

Record dcase := DC {
  d_hasstore : bool;                 (* WithQueryStore was called *)
  d_tkind : N;                       (* handler type: 0 unset, 1 model, 2 collection, 3 some other value *)
  d_wild : bool;                     (* pattern "d.$p" instead of "d.x" *)
  d_qrh : N;                         (* QueryRequestHandler: 0 unset, 1 ok, 2 returns an error, 3 empty normalized query *)
  d_rh : N;                          (* RequestHandler: 0 unset, 1 ok, 2 returns an error *)
  d_trans : N;                       (* 0 none, 1 IDToRIDCollectionTransformer, 2 IDToRIDModelTransformer *)
  d_ar : option (list bytes);        (* AffectedResources result, None = not set *)
  d_known : list bytes;              (* the resource names the service resolves *)
  d_query : option (list bytes);     (* scripted Query result; None = error (or a value the transformer rejects) *)
  d_events : option (list revent * bool);   (* scripted Events *)
  g_setup_panic : bool;              (* Handle / registration panicked *)
  g_get : option rvalue;             (* get request on "d.x" (with a query for a query resource); None = error *)
  g_pubs : list pub;                 (* published when the change was triggered *)
  g_panicked : bool;                 (* the OnQueryChange callback panicked *)
  g_qresps : list dresp              (* the answer to a query request, per query event, in order *)
}.

Definition rid_dx : bytes := [100; 46; 120].
Definition cq_d : bytes := [97; 61; 49].              (* "a=1" *)
Definition d_ref (id : bytes) : bytes := [100; 46; 105; 46] ++ id.   (* "d.i.<id>" *)

Definition dhandler (c : dcase) : qhandler unit unit :=
  QH (if d_tkind c =? 1 then TModel else TCollection)
     (if d_wild c then [100; 46; 36; 112] else rid_dx) (d_wild c)
     (match d_qrh c with
      | 0 => None
      | 1 => Some (fun _ cq => Some (tt, cq))
      | 2 => Some (fun _ _ => None)
      | _ => Some (fun _ _ => Some (tt, []))
      end)
     (match d_rh c with 0 => None | 1 => Some (fun _ => Some tt) | _ => Some (fun _ => None) end)
     tt (fun r => memb r (d_known c))
     (match d_trans c with 0 => TrNone | 1 => TrColl d_ref | _ => TrModel d_ref end)
     (match d_ar c with Some l => Some (fun _ => l) | None => None end).
Definition dstore (c : dcase) : qstore unit unit unit := QS (fun _ _ => d_query c) (fun _ _ => d_events c).

Definition dsetup_panics (c : dcase) : bool :=
  negb (d_hasstore c) || (d_tkind c =? 0) || (d_tkind c =? 3) || setup_panics (dhandler c).

(* events as they appear on the wire: a remove event carries no value; a change is a finite map *)
Fixpoint ch_get (k : bytes) (ch : list (bytes * option bytes)) : option (option bytes) :=
  match ch with [] => None | (k', v) :: r => if beq k k' then Some v else ch_get k r end.
Definition oob_eqb (a b : option (option bytes)) : bool :=
  match a, b with
  | Some x, Some y => obeq x y
  | None, None => true
  | _, _ => false
  end.
Definition ch_eqb (a b : list (bytes * option bytes)) : bool :=
  forallb (fun kv => oob_eqb (ch_get (fst kv) a) (ch_get (fst kv) b)) (a ++ b).
Definition ev_eqb (a b : revent) : bool :=
  match a, b with
  | EvAdd x i, EvAdd y j => beq x y && (i =? j)%Z
  | EvRemove _ i, EvRemove _ j => (i =? j)%Z
  | EvBad false i, EvRemove _ j => (i =? j)%Z        (* the removed value is not sent *)
  | EvChange x, EvChange y => ch_eqb x y
  | EvBad p i, EvBad q j => Bool.eqb p q && (i =? j)%Z
  | _, _ => false
  end.
Definition dpub_eqb (a b : pub) : bool :=
  match a, b with
  | PReset x, PReset y => beq x y
  | PQueryEvent x, PQueryEvent y => beq x y
  | PEvent x e, PEvent y f => beq x y && ev_eqb e f
  | _, _ => false
  end.
Definition dresp_eqb (m : qresp) (g : dresp) : bool :=
  match m, g with
  | QRErr, DRErr => true
  | QRValue _ v, DRValue w => rvalue_eqb v w
  | QREvents l, DREvents l' => list_eqb ev_eqb l l'
  | _, _ => false
  end.

(* field codes: 9 registration panic  10 get response  11 publications / panic of the change callback
   12 answers to the query requests *)
Definition check_dcase (c : dcase) : list N :=
  let h := dhandler c in let qs := dstore c in
  if dsetup_panics c then (if g_setup_panic c then [] else [9]) else
  let '(ps, st) := handle_change qs h tt in
  let qrids := flat_map (fun p => match p with PQueryEvent r => [r] | _ => [] end) ps in
  (if g_setup_panic c then [9] else []) ++
  (if orv_eqb (match view_of_get (get_resource qs h tt rid_dx cq_d) with Some (_, v) => Some v | None => None end)
              (g_get c) then [] else [10]) ++
  (if list_eqb dpub_eqb ps (g_pubs c) && Bool.eqb (match st with HPanic => true | _ => false end) (g_panicked c)
   then [] else [11]) ++
  (if (Nat.eqb (length qrids) (length (g_qresps c))) &&
      forallb (fun p => dresp_eqb (query_request qs h tt tt (fst p) cq_d) (snd p)) (combine qrids (g_qresps c))
   then [] else [12]).

(* one case of the generated files *)
Inductive c14any :=
| Hist (c : c14case)
| Dir (d : dcase)
| BsDir (expected observed : list bool).   (* badgerstore.QueryStore corner paths: what the code does vs. what was seen *)

Definition check_any (a : c14any) : list N :=
  match a with
  | Hist c => check_case c
  | Dir d => check_dcase d
  | BsDir e o => if list_eqb Bool.eqb e o then [] else [13]
  end.
Definition viol_any (a : c14any) : list N :=
  match a with Hist c => viol_case c | _ => [] end.

Definition mismatches (cs : list c14any) : list (N * N) := run_idx check_any 0 cs.
Definition violations (cs : list c14any) : list (N * N) := run_idx viol_any 0 cs.
