(* Evaluators used by the generated cases_C07_*.v files.
   A case = service configuration, the list of things done to the real service
   ([top]: start, one request with the handler script that was run, a With
   callback, a query request, a direct Service call) and EVERY message the real
   service published, in order, each with the context the harness knows
   (reply subject of which request / query request, else event).
   [mismatches]: the model's publications for the same inputs differ.
   [violations]: [conformant] (the predicate of the theorem) evaluated on the
   real messages only. *)
From GoRes Require Export Conform.Model.
Open Scope N_scope.

(* c_seen: per request whose handler ran, (reply subject, (IsHTTP(), CID())) as the handler observed them *)
Record ccase := CC { c_cfg : cfg; c_tops : list top; c_obs : list pubmsg; c_seen : list (bytes * (bool * bytes)) }.

Definition payload_eqb (a b : payload) : bool :=
  match a, b with
  | PJson x, PJson y => json_eqb x y
  | PRaw x, PRaw y => beq x y
  | _, _ => false
  end.
Definition ctx_eqb (a b : ctx) : bool :=
  match a, b with
  | CReply h x, CReply h' y => Bool.eqb h h' && beq x y
  | CQueryReply x, CQueryReply y => beq x y
  | CEvent, CEvent => true
  | _, _ => false
  end.

(* field codes: 1 number of messages  2 subject  3 payload  4 context  5 request flags seen by the handler *)
Fixpoint cmp_pubs (m o : list pubmsg) : list N :=
  match m, o with
  | [], [] => []
  | a :: m', b :: o' =>
      let d := (if beq (subj a) (subj b) then [] else [2]) ++
               (if payload_eqb (pay a) (pay b) then [] else [3]) ++
               (if ctx_eqb (pctx a) (pctx b) then [] else [4]) in
      match d with [] => cmp_pubs m' o' | _ => d end
  | _, _ => [1]
  end.
(* 5: the handler of a request observed an HTTP flag / connection id other than the request carried *)
Definition seen_ok (ts : list top) (x : bytes * (bool * bytes)) : bool :=
  existsb (fun t => match t with
                    | TRequest r _ => beq (rreply r) (fst x) && Bool.eqb (rhttp r) (fst (snd x)) && beq (rcid r) (snd (snd x))
                    | _ => false
                    end) ts.
Definition check_case (c : ccase) : list N :=
  cmp_pubs (publications (c_cfg c) (c_tops c)) (c_obs c) ++
  (if forallb (seen_ok (c_tops c)) (c_seen c) then [] else [5]).

Fixpoint dedup (l : list N) : list N :=
  match l with
  | [] => []
  | x :: r => if existsb (N.eqb x) r then dedup r else x :: dedup r
  end.

Definition is_json_pay (p : payload) : bool := match p with PJson _ => true | _ => false end.
Definition responses_on (s : bytes) (o : list pubmsg) : nat :=
  length (filter (fun m => beq (subj m) s && is_json_pay (pay m)) o).

(* violation codes:
   1 message on a request's reply subject is not a conformant response / pre-response
   2 message on a query request's reply subject is not a conformant query response
   3 any other message is not a conformant event (subject form or payload shape)
   4 a request that must be answered did not get exactly one response
   5 a query request did not get exactly one response *)
Definition viol_case (c : ccase) : list N :=
  dedup (
    flat_map (fun m => if conformant m then []
                       else match pctx m with CReply _ _ => [1] | CQueryReply _ => [2] | CEvent => [3] end) (c_obs c) ++
    flat_map (fun t => match t with
                       | TRequest r DNoAccess => []
                       | TRequest r _ => if is_nil (rreply r) then [] else if Nat.eqb (responses_on (rreply r) (c_obs c)) 1 then [] else [4]
                       | TQuery _ q _ => if Nat.eqb (responses_on q (c_obs c)) 1 then [] else [5]
                       | _ => []
                       end) (c_tops c)).

Fixpoint run_idx {A} (f : A -> list N) (i : N) (cs : list A) : list (N * N) :=
  match cs with
  | [] => []
  | c :: r => map (fun k => (i, k)) (f c) ++ run_idx f (i + 1) r
  end.
Definition mismatches (cs : list ccase) : list (N * N) := run_idx check_case 0 cs.
Definition violations (cs : list ccase) : list (N * N) := run_idx viol_case 0 cs.
