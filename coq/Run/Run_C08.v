(* Evaluators used by the generated cases_C08_*.v files.
   A case is one GROUP run on a real res.Service: callbacks (call request
   handlers and Service.With callbacks on resources of one group) submitted in
   order, each executing a script of event calls / Timeout / OK(nil), together
   with the single global effect log the harness recorded (apply handlers, the
   connection's Publish, listeners).  Every log entry carries the index of the
   callback and of the script action that was executing (the closing reply of a
   request has action index = length of the script) and whether it ran on the
   goroutine of the callback.
   [mismatches]: the model's log differs from the recorded one.
   [violations]: the property's decidable form on the recorded log only. *)
From GoRes Require Export Event.Spec.
Open Scope N_scope.

Definition entry := (N * N * bool * effect)%type.

Record gcase := GC {
  gc_cbs : list callback;
  g_log : list entry;
  (* per callback: the panic value a With callback recovered: (code of a *res.Error or [], text) *)
  g_panics : list (option (bytes * bytes)) }.

(* ---- the model's log with the same tags ---- *)
Fixpoint tag_script (cx : ctx) (ty : rtype) (rid : bytes) (ls : list N) (replied : bool) (i : N)
    (s : list action) : list (N * effect) * bool * option panic :=
  match s with
  | [] => ([], replied, None)
  | a :: s' =>
    let '((e, p), r') := exec_action cx ty rid ls replied a in
    let te := map (pair i) e in
    match p with
    | Some _ => (te, r', p)
    | None => let '(t', r'', p') := tag_script cx ty rid ls r' (i + 1) s' in (te ++ t', r'', p')
    end
  end.
Definition tag_cb (cb : callback) : list (N * effect) * option panic :=
  let '(t, r, p) := tag_script (cb_ctx cb) (cb_ty cb) (cb_rid cb) (cb_ls cb) false 0 (cb_script cb) in
  (t ++ map (pair (N.of_nat (length (cb_script cb)))) (closing (cb_ctx cb) r p), p).
Fixpoint tag_group (ci : N) (cbs : list callback) : list (N * N * effect) :=
  match cbs with
  | [] => []
  | cb :: r => map (fun x => (ci, fst x, snd x)) (fst (tag_cb cb)) ++ tag_group (ci + 1) r
  end.

Definition ctor (e : effect) : N := rank e.
Definition same_shape (m : N * N * effect) (x : entry) : bool :=
  let '(c, a, e) := m in let '(c', a', _, e') := x in (c =? c') && (a =? a') && (ctor e =? ctor e').
Fixpoint shapes_eq (ml : list (N * N * effect)) (il : list entry) : bool :=
  match ml, il with
  | [], [] => true
  | m :: ml', x :: il' => same_shape m x && shapes_eq ml' il'
  | _, _ => false
  end.
Fixpoint diff_ctor (k : N) (ml : list (N * N * effect)) (il : list entry) : bool :=
  match ml, il with
  | (_, _, e) :: ml', (_, _, _, e') :: il' =>
    ((ctor e =? k) && negb (effect_eqb e e')) || diff_ctor k ml' il'
  | _, _ => false
  end.
Definition opair_eqb (a b : option (bytes * bytes)) : bool :=
  match a, b with
  | Some (x, y), Some (x', y') => beq x x' && beq y y'
  | None, None => true
  | _, _ => false
  end.
Definition is_with (cb : callback) : bool := match cb_ctx cb with CtxWith => true | _ => false end.
Fixpoint panics_differ (cbs : list callback) (ps : list (option (bytes * bytes))) : bool :=
  match cbs, ps with
  | [], [] => false
  | cb :: cbs', p :: ps' =>
    (is_with cb && negb (opair_eqb (match snd (run_cb cb) with Some q => Some (panic_obs q) | None => None end) p))
    || panics_differ cbs' ps'
  | _, _ => true
  end.

(* field codes: 1 the sequence of (callback, action, kind of effect) differs
   2 an apply entry differs (arguments / returned value)  3 a published message differs (subject / payload)
   4 a listener entry differs (listener id / event record)  5 panic recovered in a With callback differs *)
Definition check_case (c : gcase) : list N :=
  let ml := tag_group 0 (gc_cbs c) in
  (if shapes_eq ml (g_log c) then
     (if diff_ctor 0 ml (g_log c) then [2] else []) ++
     (if diff_ctor 1 ml (g_log c) then [3] else []) ++
     (if diff_ctor 2 ml (g_log c) then [4] else [])
   else [1]) ++
  (if panics_differ (gc_cbs c) (g_panics c) then [5] else []).

(* ---- the property on the recorded log ---- *)
Definition sel (ci ai : N) (log : list entry) : list effect :=
  map snd (filter (fun x : entry => let '(c, a, _, _) := x in (c =? ci) && (a =? ai)) log).
(* actions after one that has to panic (invalid call, failed apply, negative
   timeout, second reply) must not run: the handler is unwound *)
Fixpoint viol_actions (cb : callback) (ci ai : N) (replied dead : bool) (s : list action)
    (log : list entry) : list N :=
  match s with
  | [] => []
  | a :: s' =>
    let l := sel ci ai log in
    if dead then (if is_nil l then [] else [10]) ++ viol_actions cb ci (ai + 1) replied true s' log
    else
      let x := exec_action (cb_ctx cb) (cb_ty cb) (cb_rid cb) (cb_ls cb) replied a in
      let stop := if is_event a then isSomeP (invalid_call (cb_ty cb) a) || ret_failed (log_ret l)
                  else isSomeP (snd (fst x)) in
      (if is_event a then viol_event (cb_ty cb) (cb_rid cb) (cb_ls cb) a l
       else if forallb is_pub l then [] else [3]) ++
      viol_actions cb ci (ai + 1) (snd x) stop s' log
  end.
Fixpoint viol_cbs (ci : N) (cbs : list callback) (log : list entry) : list N :=
  match cbs with
  | [] => []
  | cb :: r =>
    let n := N.of_nat (length (cb_script cb)) in
    viol_actions cb ci 0 false false (cb_script cb) log ++
    (if forallb is_pub (sel ci n log) then [] else [3]) ++
    viol_cbs (ci + 1) r log
  end.
(* program order: (callback, action) tags never decrease along the log, and stay in range *)
Fixpoint tags_sorted (pc pa : N) (log : list entry) : bool :=
  match log with
  | [] => true
  | (c, a, _, _) :: r => ((pc <? c) || ((pc =? c) && (pa <=? a))) && tags_sorted c a r
  end.
Definition in_range (cbs : list callback) (x : entry) : bool :=
  let '(c, a, _, _) := x in
  match nth_error cbs (N.to_nat c) with
  | Some cb => a <=? N.of_nat (length (cb_script cb))
  | None => false
  end.
Fixpoint dedup (l : list N) : list N :=
  match l with
  | [] => []
  | x :: r => if existsb (N.eqb x) r then dedup r else x :: dedup r
  end.

(* violation codes: 1-4,7-9 see Event/Spec.v viol_event;
   5 an effect ran on another goroutine than the callback's
   6 effects out of program order (an entry of an earlier action / callback after a later one)
   10 the handler went on after a call that has to panic (invalid call / failed apply) *)
Definition viol_case (c : gcase) : list N :=
  dedup (viol_cbs 0 (gc_cbs c) (g_log c) ++
         (if forallb (fun x : entry => let '(_, _, g, _) := x in g) (g_log c) then [] else [5]) ++
         (if tags_sorted 0 0 (g_log c) && forallb (in_range (gc_cbs c)) (g_log c) then [] else [6])).

Fixpoint run_idx {A} (f : A -> list N) (i : N) (cs : list A) : list (N * N) :=
  match cs with
  | [] => []
  | c :: r => map (fun k => (i, k)) (f c) ++ run_idx f (i + 1) r
  end.
Definition mismatches (cs : list gcase) : list (N * N) := run_idx check_case 0 cs.
Definition violations (cs : list gcase) : list (N * N) := run_idx viol_case 0 cs.
