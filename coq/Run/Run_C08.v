(* Evaluators used by the generated cases_C08_*.v files.
   A case is one GROUP run on a real res.Service: callbacks (call request
   handlers and Service.With callbacks on resources of one group) submitted in
   order, each executing a script of event calls / Timeout / OK(nil), together
   with the single global effect log the harness recorded (apply handlers, the
   connection's Publish, listeners).  Every log entry carries the index of the
   callback and of the script action that was executing (the closing reply of a
   request has action index = length of the script), the nesting tag d (0 = the
   script's own call; lid = inside the event a re-entrant listener lid emitted
   from within its call), and whether it ran on the goroutine of the callback.
   Only messages published on the connection object the service is CURRENTLY served on are log
   entries (restart cases serve the same service a second time on a new connection object).
   Every listener also KEEPS the *Event pointer it was given; [g_reread] is what
   those pointers show at the end of the group (one record per listener entry of
   the log, in log order) and [g_cb_same] whether they still showed the delivered
   contents at the end of their callback.
   [mismatches]: the model's log differs from the recorded one.
   [violations]: the property's decidable form on the recorded log only. *)
From GoRes Require Export Event.Spec.
Open Scope N_scope.

Definition entry := (N * N * N * bool * effect)%type.

Record gcase := GC {
  gc_cbs : list callback;
  g_log : list entry;
  (* per callback: the panic value a With callback recovered: (code of a *res.Error or [], text) *)
  g_panics : list (option (bytes * bytes));
  g_reread : list evrec;
  g_cb_same : list bool;
  (* (callback, action) that was executing when a message was published on a connection object
     other than the one the service is currently served on (restart cases) *)
  g_stale : list (N * N);
  (* 'returned' markers: (callback, action, n) - when the event method of that script action
     returned (or panicked), n listener calls of that event had been made *)
  g_returned : list (N * N * N) }.

(* ---- the model's log with the same tags ---- *)
Fixpoint tag_script (cx : ctx) (ty : rtype) (rid : bytes) (ls : list lst) (replied : bool) (i : N)
    (s : list action) : list (N * effect) * bool * option panic :=
  match s with
  | [] => ([], replied, None)
  | a :: s' =>
    let '((e, p), r') := exec_action cx ty rid ls replied a in
    let te := map (pair i) e in
    match p with
    | Some _ => (te, r', p)
    | None => let '(t', r'', p') := tag_script cx ty rid ls r' (i + 1) s' in (te ++ t', r'', p')
    end
  end.
Definition tag_cb (cb : callback) : list (N * effect) * option panic :=
  let '(t, r, p) := tag_script (cb_ctx cb) (cb_ty cb) (cb_rid cb) (cb_ls cb) false 0 (cb_script cb) in
  (t ++ map (pair (N.of_nat (length (cb_script cb)))) (closing (cb_ctx cb) r p), p).
Fixpoint tag_group (ci : N) (cbs : list callback) : list (N * N * effect) :=
  match cbs with
  | [] => []
  | cb :: r => map (fun x => (ci, fst x, snd x)) (fst (tag_cb cb)) ++ tag_group (ci + 1) r
  end.

Definition ctor (e : effect) : N := rank e.
Definition same_shape (m : N * N * effect) (x : entry) : bool :=
  let '(c, a, e) := m in let '(c', a', _, _, e') := x in (c =? c') && (a =? a') && (ctor e =? ctor e').
Fixpoint shapes_eq (ml : list (N * N * effect)) (il : list entry) : bool :=
  match ml, il with
  | [], [] => true
  | m :: ml', x :: il' => same_shape m x && shapes_eq ml' il'
  | _, _ => false
  end.
Fixpoint diff_ctor (k : N) (ml : list (N * N * effect)) (il : list entry) : bool :=
  match ml, il with
  | (_, _, e) :: ml', (_, _, _, _, e') :: il' =>
    ((ctor e =? k) && negb (effect_eqb e e')) || diff_ctor k ml' il'
  | _, _ => false
  end.
Definition opair_eqb (a b : option (bytes * bytes)) : bool :=
  match a, b with
  | Some (x, y), Some (x', y') => beq x x' && beq y y'
  | None, None => true
  | _, _ => false
  end.
Definition is_with (cb : callback) : bool := match cb_ctx cb with CtxWith => true | _ => false end.
Fixpoint panics_differ (cbs : list callback) (ps : list (option (bytes * bytes))) : bool :=
  match cbs, ps with
  | [], [] => false
  | cb :: cbs', p :: ps' =>
    (is_with cb && negb (opair_eqb (match snd (run_cb cb) with Some q => Some (panic_obs q) | None => None end) p))
    || panics_differ cbs' ps'
  | _, _ => true
  end.

(* field codes: 1 the sequence of (callback, action, kind of effect) differs
   2 an apply entry differs (arguments / returned value)  3 a published message differs (subject / payload)
   4 a listener entry differs (listener id / event record)  5 panic recovered in a With callback differs *)
Definition check_case (c : gcase) : list N :=
  let ml := tag_group 0 (gc_cbs c) in
  (if shapes_eq ml (g_log c) then
     (if diff_ctor 0 ml (g_log c) then [2] else []) ++
     (if diff_ctor 1 ml (g_log c) then [3] else []) ++
     (if diff_ctor 2 ml (g_log c) then [4] else [])
   else [1]) ++
  (if panics_differ (gc_cbs c) (g_panics c) then [5] else []).

(* ---- the property on the recorded log ---- *)
(* entries of one script action, with their nesting tag *)
Definition sel_full (ci ai : N) (log : list entry) : list (N * effect) :=
  map (fun x : entry => let '(_, _, d, _, e) := x in (d, e))
      (filter (fun x : entry => let '(c, a, _, _, _) := x in (c =? ci) && (a =? ai)) log).
Definition at_depth (d : N) (full : list (N * effect)) : list effect :=
  map snd (filter (fun x => fst x =? d) full).
Definition sel (ci ai : N) (log : list entry) : list effect := map snd (sel_full ci ai log).

Definition must_panic (ty : rtype) (a : action) (l : list effect) : bool :=
  isSomeP (invalid_call ty a) || ret_failed (log_ret l).
Definition listened (lid : N) (l : list effect) : bool :=
  existsb (fun e => match e with EListen i _ => i =? lid | _ => false end) l.

(* walk the registered listeners: which ones the outer event has to call (all, up to and
   including the first whose reaction has to panic), the violation codes of the inner events,
   and whether a reaction has to panic.  12 = effects of a reaction although its listener was
   not called *)
Fixpoint walk (ty : rtype) (rid : bytes) (ids : list N) (outer : list effect) (full : list (N * effect))
    (ls : list lst) : list N * list N * bool :=
  match ls with
  | [] => ([], [], false)
  | l :: r =>
    match l_react l with
    | None => let '(ids', cs, st) := walk ty rid ids outer full r in (l_id l :: ids', cs, st)
    | Some a' =>
      let il := at_depth (l_id l) full in
      if listened (l_id l) outer then
        let cs0 := if is_event a' then viol_event ty rid ids a' il else [] in
        if must_panic ty a' il then
          ([l_id l], cs0 ++ (if forallb (fun l' => is_nil (at_depth (l_id l') full)) r then [] else [10]), true)
        else let '(ids', cs, st) := walk ty rid ids outer full r in (l_id l :: ids', cs0 ++ cs, st)
      else
        let '(ids', cs, st) := walk ty rid ids outer full r in
        (l_id l :: ids', (if is_nil il then [] else [12]) ++ cs, st)
    end
  end.
(* a nested entry lies inside the call of the listener that emitted it: the nearest preceding
   entry of the script's own event is that listener's entry *)
Fixpoint nested_ok (cur : N) (full : list (N * effect)) : bool :=
  match full with
  | [] => true
  | (d, e) :: r =>
    if d =? 0 then nested_ok (match e with EListen i _ => i | _ => 0 end) r
    else (d =? cur) && nested_ok cur r
  end.
Definition reactor_ids (ls : list lst) : list N :=
  map l_id (filter (fun l => match l_react l with Some _ => true | None => false end) ls).

(* one event action of a script: codes and whether the handler has to be unwound *)
Definition viol_nested (ty : rtype) (rid : bytes) (ls : list lst) (a : action) (full : list (N * effect))
    : list N * bool :=
  let outer := at_depth 0 full in
  let '(ids, cs, st) := walk ty rid (map l_id ls) outer full ls in
  (viol_event ty rid ids a outer ++ cs ++
   (if nested_ok 0 full && forallb (fun x => (fst x =? 0) || existsb (N.eqb (fst x)) (reactor_ids ls)) full
    then [] else [12]),
   must_panic ty a outer || st).

(* what a Timeout / OK / ReaccessEvent / ResetEvent call has to put on the connection, at its
   position in program order: every Timeout(d), d >= 0, of a request handler exactly one
   pre-response timeout:"<ms of d>" on the reply subject - whatever was sent before (a pre-response
   restarts the requester's timer, none is redundant) -, the first OK exactly one reply, a
   negative Timeout and a second reply nothing (they panic); nothing in a With callback *)
Definition plain_msgs (cx : ctx) (rid : bytes) (replied : bool) (a : action) : list effect :=
  match a, cx with
  | ATimeout us, CtxCall reply => if (us <? 0)%Z then [] else [EPublish reply (timeout_payload us)]
  | AReply, CtxCall reply => if replied then [] else [EPublish reply ok_payload]
  | AReaccess, _ => [EPublish (subject rid n_reaccess) []]
  | AReset, _ => [EPublish reset_subject (reset_payload rid)]
  | _, _ => []
  end.

(* actions after one that has to panic (invalid call, failed apply, negative
   timeout, second reply, panicking reaction) must not run: the handler is unwound *)
Fixpoint viol_actions (cb : callback) (ci ai : N) (replied dead : bool) (s : list action)
    (log : list entry) : list N :=
  match s with
  | [] => []
  | a :: s' =>
    let full := sel_full ci ai log in
    if dead then (if is_nil full then [] else [10]) ++ viol_actions cb ci (ai + 1) replied true s' log
    else
      let x := exec_action (cb_ctx cb) (cb_ty cb) (cb_rid cb) (cb_ls cb) replied a in
      if is_event a then
        let '(cs, stop) := viol_nested (cb_ty cb) (cb_rid cb) (cb_ls cb) a full in
        cs ++ viol_actions cb ci (ai + 1) (snd x) stop s' log
      else
        (if forallb is_pub (map snd full) then [] else [3]) ++
        (if list_eqb effect_eqb (map snd full) (plain_msgs (cb_ctx cb) (cb_rid cb) replied a) then [] else [14]) ++
        viol_actions cb ci (ai + 1) (snd x) (isSomeP (snd (fst x))) s' log
  end.
Fixpoint viol_cbs (ci : N) (cbs : list callback) (log : list entry) : list N :=
  match cbs with
  | [] => []
  | cb :: r =>
    let n := N.of_nat (length (cb_script cb)) in
    viol_actions cb ci 0 false false (cb_script cb) log ++
    (if forallb is_pub (sel ci n log) then [] else [3]) ++
    viol_cbs (ci + 1) r log
  end.
(* program order: (callback, action) tags never decrease along the log, and stay in range *)
Fixpoint tags_sorted (pc pa : N) (log : list entry) : bool :=
  match log with
  | [] => true
  | (c, a, _, _, _) :: r => ((pc <? c) || ((pc =? c) && (pa <=? a))) && tags_sorted c a r
  end.
Definition in_range (cbs : list callback) (x : entry) : bool :=
  let '(c, a, _, _, _) := x in
  match nth_error cbs (N.to_nat c) with
  | Some cb => a <=? N.of_nat (length (cb_script cb))
  | None => false
  end.
(* what each listener was handed, in log order *)
Fixpoint delivered (log : list entry) : list evrec :=
  match log with
  | [] => []
  | (_, _, _, _, EListen _ ev) :: r => ev :: delivered r
  | _ :: r => delivered r
  end.
(* every listener of an event HAS RUN when the event method returns: the marker counts all the
   listener entries the log holds for that call, and, if the event was published, at least the
   listeners that have to be called *)
Definition returned_ok (cbs : list callback) (log : list entry) (m : N * N * N) : bool :=
  let '(c, a, n) := m in
  match nth_error cbs (N.to_nat c) with
  | None => false
  | Some cb =>
    match nth_error (cb_script cb) (N.to_nat a) with
    | None => false
    | Some act =>
      if negb (is_event act) then true else
      let full := sel_full c a log in
      let outer := at_depth 0 full in
      let '(ids, _, _) := walk (cb_ty cb) (cb_rid cb) (map l_id (cb_ls cb)) outer full (cb_ls cb) in
      (n =? N.of_nat (length (lids outer))) &&
      (if existsb is_pub outer then N.of_nat (length ids) <=? n else true)
    end
  end.
Fixpoint dedup (l : list N) : list N :=
  match l with
  | [] => []
  | x :: r => if existsb (N.eqb x) r then dedup r else x :: dedup r
  end.

(* violation codes: 1-4,7-9 see Event/Spec.v viol_event (also applied to the event a re-entrant
   listener emits);
   5 an effect ran on another goroutine than the callback's
   6 effects out of program order (an entry of an earlier action / callback after a later one)
   10 the handler went on after a call that has to panic (invalid call / failed apply / panicking reaction)
   11 an event record handed to a listener was changed after delivery (the retained *Event no
      longer shows what the listener saw, at the end of the callback or of the group)
   12 the effects of a re-entrant listener's event are not nested inside that listener's call
   14 a Timeout / OK / ReaccessEvent / ResetEvent call did not put exactly its one message on the
      connection at its position (e.g. a Timeout(d) pre-response missing, whatever d was before)
   15 a listener of an event had not run when the event method returned (the 'returned' marker
      counted fewer listener calls than the event's listeners / than the log finally holds)
   13 a message of the current serve cycle was published on another connection object than the one
      the service is served on (so it does not appear on the connection; also shows as 9 / M1) *)
Definition viol_case (c : gcase) : list N :=
  dedup (viol_cbs 0 (gc_cbs c) (g_log c) ++
         (if forallb (fun x : entry => let '(_, _, _, g, _) := x in g) (g_log c) then [] else [5]) ++
         (if tags_sorted 0 0 (g_log c) && forallb (in_range (gc_cbs c)) (g_log c) then [] else [6]) ++
         (if list_eqb evrec_eqb (delivered (g_log c)) (g_reread c) && forallb (fun b : bool => b) (g_cb_same c)
          then [] else [11]) ++
         (if is_nil (g_stale c) then [] else [13]) ++
         (if forallb (returned_ok (gc_cbs c) (g_log c)) (g_returned c) then [] else [15])).

Fixpoint run_idx {A} (f : A -> list N) (i : N) (cs : list A) : list (N * N) :=
  match cs with
  | [] => []
  | c :: r => map (fun k => (i, k)) (f c) ++ run_idx f (i + 1) r
  end.
Definition mismatches (cs : list gcase) : list (N * N) := run_idx check_case 0 cs.
Definition violations (cs : list gcase) : list (N * N) := run_idx viol_case 0 cs.
