(* Evaluators used by the generated cases_C11_*.v files.  A case is one history run
   against a real store (sequentially, or the serial order observed for a concurrent
   run): [mismatches] compares the model's outcome with the implementation's,
   [violations] evaluates C11's decidable form on the implementation's outputs only. *)
From GoRes Require Export KV.Model.

Inductive skind :=
| SBadger (prefix_raw : bytes) (nl : nat)   (* badgerstore, SetPrefix(prefix_raw) ("" = no prefix), nl BeforeChange listeners *)
| SMock (newid : bool).          (* mockstore, NewID set or not *)

Record iop := IO {
  io_op : op;                    (* the call and what the environment decided *)
  io_res : result;               (* what the implementation returned *)
  io_cbs : list cbcall;          (* OnChange calls observed during the call *)
  io_bcs : list bccall;          (* BeforeChange calls observed during the call: listener, id, before, after *)
  io_id : id                     (* what the transaction's ID() returned right after the call *)
}.

Record kcase := KC {
  k_store : skind;
  k_obs : bool;                      (* at least one OnChange listener is registered (io_cbs = what the first one saw);
                                        false: no OnChange listener at all, callback expectations are vacuous *)
  k_ops : list iop;
  k_final : list (id * option val)   (* Read(id).Value() for every id of the universe afterwards *)
}.

(* ---- equality tests ---- *)
Definition result_eqb (a b : result) : bool :=
  match a, b with
  | ROk, ROk | ENotFound, ENotFound | EDuplicate, EDuplicate | EMissingID, EMissingID
  | EType, EType | EVeto, EVeto | RPanic, RPanic | EOther, EOther | EEncode, EEncode => true
  | RVal x, RVal y => beq x y
  | RBool x, RBool y => Bool.eqb x y
  | _, _ => false
  end.
Definition cb_eqb (a b : cbcall) : bool :=
  beq (fst (fst a)) (fst (fst b)) && obeq (snd (fst a)) (snd (fst b)) && obeq (snd a) (snd b).
Fixpoint cbs_eqb (a b : list cbcall) : bool :=
  match a, b with
  | [], [] => true
  | x :: a', y :: b' => cb_eqb x y && cbs_eqb a' b'
  | _, _ => false
  end.

Definition bc_eqb (a b : bccall) : bool :=
  Nat.eqb (fst (fst (fst a))) (fst (fst (fst b))) && beq (snd (fst (fst a))) (snd (fst (fst b))) &&
  obeq (snd (fst a)) (snd (fst b)) && obeq (snd a) (snd b).
Fixpoint bcs_eqb (a b : list bccall) : bool :=
  match a, b with
  | [], [] => true
  | x :: a', y :: b' => bc_eqb x y && bcs_eqb a' b'
  | _, _ => false
  end.

Definition model_step (k : skind) : kvstate -> op -> kvstate * result * list cbcall :=
  match k with
  | SBadger raw _ => bstep (mk_prefix raw)
  | SMock newid => mstep newid
  end.
Definition model_view (k : skind) : kvstate -> id -> option val :=
  match k with
  | SBadger raw _ => view (mk_prefix raw)
  | SMock _ => view []
  end.

Definition model_bc (k : skind) : kvstate -> op -> list bccall :=
  match k with
  | SBadger raw nl => bstep_bc (mk_prefix raw) nl
  | SMock _ => fun _ _ => []
  end.

(* the id a transaction reports is the one it was opened with, whatever happened since
   (both stores have value receivers: mockstore's generated id is not visible through ID()) *)
Definition op_id (o : op) : id :=
  match o with OCreate i _ _ | OUpdate i _ _ | ODelete i _ | OValue i | OExists i => i end.

(* field codes: 1 result of an operation, 2 OnChange calls of an operation, 3 final content,
   4 BeforeChange calls of an operation, 5 ID() of the transaction after the operation *)
Fixpoint check_ops (k : skind) (obs : bool) (st : kvstate) (ops : list iop) : list N * kvstate :=
  match ops with
  | [] => ([], st)
  | o :: r =>
      let '(st1, res, cbs) := model_step k st (io_op o) in
      let '(codes, st2) := check_ops k obs st1 r in
      ((if result_eqb res (io_res o) then [] else [1]) ++
       (if negb obs || cbs_eqb cbs (io_cbs o) then [] else [2]) ++
       (if bcs_eqb (model_bc k st (io_op o)) (io_bcs o) then [] else [4]) ++
       (if beq (op_id (io_op o)) (io_id o) then [] else [5]) ++ codes, st2)
  end.
Definition check_case (c : kcase) : list N :=
  let '(codes, st) := check_ops (k_store c) (k_obs c) [] (k_ops c) in
  nodup N.eq_dec
    (codes ++ (if forallb (fun iv => obeq (model_view (k_store c) st (fst iv)) (snd iv)) (k_final c) then [] else [3])).

(* ---- the property on the implementation's outputs only ----
   [content] is the fold of the implementation's own successful mutations,
   [last] the last after-value the implementation reported per id.
   codes: 1 Create on an existing id did not fail with the duplicate error
          2 Create without an id succeeded although the store generates none
          3 Update/Delete/Value on a missing id did not fail with not-found / Exists is wrong
          4 a wrong-type value, a value that cannot be encoded or a BeforeChange veto did not fail
          5 a failed operation or a read ran change callbacks
          6 a successful mutation did not run the callbacks exactly once with (id, value before, value after)
          7 a callback's before-value is not the previous after-value of that id
          8 Value did not return the current value (incl. the transaction's own writes)
          9 an operation that must succeed failed
          10 final content differs from the fold of the successful operations
          11 an operation that succeeded or was vetoed did not call the BeforeChange listeners once
             each, in registration order, up to the first veto, with (id, value before, value after) *)
Definition is_failure (r : result) : bool :=
  match r with ENotFound | EDuplicate | EMissingID | EType | EVeto | RPanic | EEncode | EOther => true | _ => false end.
Definition is_ok (r : result) : bool := match r with ROk => true | _ => false end.
Definition kind_checks (k : skind) : bool := match k with SBadger _ _ => true | SMock _ => false end.
Definition kind_nl (k : skind) : nat := match k with SBadger _ nl => nl | SMock _ => 0%nat end.
Definition kind_genid (k : skind) : bool := match k with SBadger _ _ => false | SMock b => b end.

Definition eff_id (k : skind) (o : op) : id :=
  match o with
  | OCreate i _ e => if is_nil i && kind_genid k then e_newid e else i
  | OUpdate i _ _ | ODelete i _ | OValue i | OExists i => i
  end.

Definition olookup (i : id) (l : list (id * option val)) : option val :=
  match find (fun p => beq i (fst p)) l with Some p => snd p | None => None end.

Fixpoint chain_codes (last : list (id * option val)) (cbs : list cbcall) : list N * list (id * option val) :=
  match cbs with
  | [] => ([], last)
  | (i, b, a) :: r =>
      let '(codes, last') := chain_codes ((i, a) :: last) r in
      ((if obeq b (olookup i last) then [] else [7]) ++ codes, last')
  end.

Definition op_codes (k : skind) (obs : bool) (content : amap) (o : iop) : list N :=
  let j := eff_id k (io_op o) in
  let cur := alookup j content in
  let r := io_res o in
  let fails := is_failure r in
  let chk := kind_checks k in
  (match io_op o with
   | OCreate _ v e =>
       if is_nil j then (if fails then [] else [2])
       else match cur with
            | Some _ => if chk && e_wrongtype e then (if fails then [] else [4])
                        else (if result_eqb r EDuplicate then [] else [1])
            | None => if chk && (e_wrongtype e || e_veto e || e_unenc e) then (if fails then [] else [4])
                      else (if is_ok r then [] else [9])
            end
   | OUpdate _ v e =>
       match cur with
       | None => if chk && e_wrongtype e then (if fails then [] else [4])
                 else (if result_eqb r ENotFound then [] else [3])
       | Some _ => if chk && (e_wrongtype e || e_veto e || e_unenc e) then (if fails then [] else [4])
                   else (if is_ok r then [] else [9])
       end
   | ODelete _ e =>
       match cur with
       | None => if result_eqb r ENotFound then [] else [3]
       | Some _ => if chk && e_veto e then (if fails then [] else [4]) else (if is_ok r then [] else [9])
       end
   | OValue _ =>
       match cur with
       | None => if result_eqb r ENotFound then [] else [3]
       | Some b => if result_eqb r (RVal b) then [] else [8]
       end
   | OExists _ => if result_eqb r (RBool (is_some cur)) then [] else [3]
   end) ++
  (if negb obs then [] else
   match io_op o with
   | OCreate _ v _ | OUpdate _ v _ =>
       if is_ok r then (if cbs_eqb (io_cbs o) [(j, cur, Some v)] then [] else [6])
       else (if is_nil (io_cbs o) then [] else [5])
   | ODelete _ _ =>
       if is_ok r then (if cbs_eqb (io_cbs o) [(j, cur, None)] then [] else [6])
       else (if is_nil (io_cbs o) then [] else [5])
   | _ => if is_nil (io_cbs o) then [] else [5]
   end) ++
  (if chk && (is_ok r || result_eqb r EVeto) then
     match io_op o with
     | OCreate _ v e | OUpdate _ v e =>
         if bcs_eqb (io_bcs o) (bc_calls (kind_nl k) (e_vetoat e) j cur (Some v)) then [] else [11]
     | ODelete _ e =>
         if bcs_eqb (io_bcs o) (bc_calls (kind_nl k) (e_vetoat e) j cur None) then [] else [11]
     | _ => []
     end
   else []).

Definition apply_impl (k : skind) (content : amap) (o : iop) : amap :=
  let j := eff_id k (io_op o) in
  if is_ok (io_res o) then
    match io_op o with
    | OCreate _ v _ | OUpdate _ v _ => aset j v content
    | ODelete _ _ => adel j content
    | _ => content
    end
  else content.

Fixpoint viol_ops (k : skind) (obs : bool) (content : amap) (last : list (id * option val)) (ops : list iop)
  : list N * amap :=
  match ops with
  | [] => ([], content)
  | o :: r =>
      let '(cc, last') := chain_codes last (io_cbs o) in
      let '(codes, content') := viol_ops k obs (apply_impl k content o) last' r in
      (op_codes k obs content o ++ cc ++ codes, content')
  end.

Definition viol_case (c : kcase) : list N :=
  let '(codes, content) := viol_ops (k_store c) (k_obs c) [] [] (k_ops c) in
  nodup N.eq_dec
    (codes ++ (if forallb (fun iv => obeq (alookup (fst iv) content) (snd iv)) (k_final c) then [] else [10])).

Fixpoint run_idx {A} (f : A -> list N) (i : N) (cs : list A) : list (N * N) :=
  match cs with
  | [] => []
  | c :: r => map (fun k => (i, k)) (f c) ++ run_idx f (i + 1) r
  end.
Definition mismatches (cs : list kcase) : list (N * N) := run_idx check_case 0 cs.
Definition violations (cs : list kcase) : list (N * N) := run_idx viol_case 0 cs.
