(* Evaluators for the scheduler engine (C01, C02, C03): trace acceptance by the LTS
   (correspondence) and independent trace monitors (the properties' decidable forms on the
   label sequence observed on the real implementation). *)
From stdpp Require Import gmap.
From Coq Require Import NArith.
From GoRes Require Export Sched.Spec Sched.Access.

Record scase := SC {
  sc_trace : list label;
  sc_group : list (N * N);      (* callback id -> group (0 = empty group) *)
  sc_complete : bool;           (* the run ended quiescent with the service started (last cycle not shut down) *)
  sc_table : list acc           (* non-empty only for the one structural case: the access table extracted from the source *)
}.

Definition grp_map (c : scase) : gmap N N := list_to_map (sc_group c).
Definition grp_in (m : gmap N N) (cb : N) : N := default 0%N (m !! cb).
Definition grp (c : scase) (cb : N) : N := grp_in (grp_map c) cb.

(* correspondence: the model accepts the observed label sequence; code = 1 + index of the refused label *)
(* code 1000000: the atomic steps of the LTS are not single critical sections in the source any more
   (Sched/Access.v granularity_ok on the table extracted by go/ast from the current tree) *)
Definition sched_mismatch (c : scase) : list N :=
  match first_reject init (sc_trace c) 0 with Some i => [N.of_nat (S i)] | None => [] end ++
  match sc_table c with [] => [] | t => if granularity_ok t then [] else [1000000%N] end.

(* ---- C01 monitor: never two executing callbacks of one group <> 0 ---- *)
Fixpoint mon_mutex_go (m : gmap N N) (running : list (nat * N)) (tr : list label) : bool :=
  match tr with
  | [] => true
  | LStart k cb :: tr' =>
    let g := grp_in m cb in
    if negb (N.eqb g 0) && existsb (fun x => N.eqb (snd x) g) running then false
    else mon_mutex_go m ((k, g) :: running) tr'
  | LEnd k _ :: tr' => mon_mutex_go m (filter (fun x => negb (Nat.eqb (fst x) k)) running) tr'
  | LServeInit _ :: tr' => mon_mutex_go m [] tr'
  | _ :: tr' => mon_mutex_go m running tr'
  end.
Definition mon_mutex (c : scase) (running : list (nat * N)) (tr : list label) : bool :=
  mon_mutex_go (grp_map c) running tr.

(* ---- C02 monitor ---- *)
(* accepted callbacks in acceptance order, started callbacks in start order *)
Fixpoint accepted (pend : list (N * N)) (tr : list label) : list N :=
  match tr with
  | [] => []
  | LCheck p _ cb true :: tr' => accepted ((p, cb) :: pend) tr'
  | LEnq p r :: tr' =>
    match list_find (fun x => N.eqb (fst x) p) pend with
    | Some (_, (_, cb)) =>
      let pend' := filter (fun x => negb (N.eqb (fst x) p)) pend in
      match r with EClosing => accepted pend' tr' | _ => cb :: accepted pend' tr' end
    | None => accepted pend tr'
    end
  | _ :: tr' => accepted pend tr'
  end.
Fixpoint started_cbs (tr : list label) : list N :=
  match tr with [] => [] | LStart _ cb :: tr' => cb :: started_cbs tr' | _ :: tr' => started_cbs tr' end.
Fixpoint is_sublist (a b : list N) : bool :=
  match a, b with
  | [], _ => true
  | _ :: _, [] => false
  | x :: a', y :: b' => if N.eqb x y then is_sublist a' b' else is_sublist a b'
  end.
Fixpoint nodupN (l : list N) : bool :=
  match l with [] => true | x :: r => negb (existsb (N.eqb x) r) && nodupN r end.
Fixpoint list_eqN (a b : list N) : bool :=
  match a, b with [], [] => true | x :: a', y :: b' => N.eqb x y && list_eqN a' b' | _, _ => false end.
Definition groups_of (c : scase) : list N := remove_dups (map snd (sc_group c)).
Definition of_group (c : scase) (g : N) (l : list N) : list N := let m := grp_map c in filter (fun cb => N.eqb (grp_in m cb) g) l.
(* codes: 1 a callback started twice / not accepted; 2 order of a group differs from acceptance order;
          3 complete run but an accepted callback never started *)
(* callbacks accepted / started in the LAST serve cycle of the trace (after the last LServeInit);
   a producer that passed the started-check in an earlier cycle still counts when it enqueues in the last one *)
Fixpoint count_inits (tr : list label) : nat :=
  match tr with [] => O | LServeInit _ :: r => S (count_inits r) | _ :: r => count_inits r end.
Fixpoint accepted_last (k : nat) (pend : list (N * N)) (tr : list label) : list N :=
  match tr with
  | [] => []
  | LServeInit _ :: tr' => accepted_last (Nat.pred k) pend tr'
  | LCheck p _ cb true :: tr' => accepted_last k ((p, cb) :: pend) tr'
  | LEnq p r :: tr' =>
    match list_find (fun x => N.eqb (fst x) p) pend with
    | Some (_, (_, cb)) =>
      let pend' := filter (fun x => negb (N.eqb (fst x) p)) pend in
      match r with
      | EClosing => accepted_last k pend' tr'
      | _ => (if Nat.eqb k 0 then [cb] else []) ++ accepted_last k pend' tr'
      end
    | None => accepted_last k pend tr'
    end
  | _ :: tr' => accepted_last k pend tr'
  end.
Definition memb (S : gset N) (x : N) : bool := bool_decide (x ∈ S).
Definition mon_fifo (c : scase) : list N :=
  let accd := accepted [] (sc_trace c) in
  let st := started_cbs (sc_trace c) in
  let accl := accepted_last (count_inits (sc_trace c)) [] (sc_trace c) in
  let stS : gset N := list_to_set st in
  let accS : gset N := list_to_set accd in
  (if sc_complete c && negb (forallb (memb stS) accl) then [3%N] else []) ++
  (if Nat.eqb (size stS) (length st) && forallb (memb accS) st then [] else [1%N]) ++
  (if forallb (fun g => N.eqb g 0 || is_sublist (of_group c g st) (of_group c g accd)) (groups_of c) then [] else [2%N]) ++
  (if sc_complete c && negb (has_close (sc_trace c)) && negb (forallb (memb stS) accd) then [3%N] else []) ++
  (if sc_complete c && negb (has_close (sc_trace c)) && negb (forallb (fun g => N.eqb g 0 || list_eqN (of_group c g st) (of_group c g accd)) (groups_of c)) then [2%N] else []).

(* ---- C03 monitor ----
   codes: 1 a callback started while the service was stopped (after LStopped, before LServeStarted)
          2 wg.Wait returned while a started callback had not finished
          3 connection closed other than exactly once in a cycle *)
Fixpoint mon_shut (stopped : bool) (running : list nat) (closes : nat) (tr : list label) : list N :=
  match tr with
  | [] => []
  | LStart k _ :: tr' => (if stopped then [1%N] else []) ++ mon_shut stopped (k :: running) closes tr'
  | LEnd k _ :: tr' => mon_shut stopped (filter (fun x => negb (Nat.eqb x k)) running) closes tr'
  | LConnClose :: tr' => mon_shut stopped running (S closes) tr'
  | LWgDone :: tr' => (match running with [] => [] | _ => [2%N] end) ++ mon_shut stopped running closes tr'
  | LStopped :: tr' => (if Nat.eqb closes 1 then [] else [3%N]) ++ mon_shut true running 0 tr'
  | LServeStarted :: tr' => mon_shut false running 0 tr'
  | _ :: tr' => mon_shut stopped running closes tr'
  end.

Fixpoint run_idx {A} (f : A -> list N) (i : N) (cs : list A) : list (N * N) :=
  match cs with
  | [] => []
  | c :: r => map (fun k => (i, k)) (f c) ++ run_idx f (i + 1)%N r
  end.
Definition mismatches (cs : list scase) : list (N * N) := run_idx sched_mismatch 0%N cs.
