(* Evaluators for the scheduler engine (C01, C02, C03): trace acceptance by the LTS
   (correspondence) and independent trace monitors (the properties' decidable forms on the
   label sequence observed on the real implementation). *)
From stdpp Require Import gmap.
From Coq Require Import NArith.
From GoRes Require Export Sched.Spec.

Record scase := SC {
  sc_trace : list label;
  sc_group : list (N * N);      (* callback id -> group (0 = empty group) *)
  sc_complete : bool            (* the run ended quiescent with the service started and never shut down *)
}.

Definition grp (c : scase) (cb : N) : N :=
  match list_find (fun x => N.eqb (fst x) cb) (sc_group c) with Some (_, (_, g)) => g | None => 0%N end.

(* correspondence: the model accepts the observed label sequence; code = 1 + index of the refused label *)
Definition sched_mismatch (c : scase) : list N :=
  match first_reject init (sc_trace c) 0 with Some i => [N.of_nat (S i)] | None => [] end.

(* ---- C01 monitor: never two executing callbacks of one group <> 0 ---- *)
Fixpoint mon_mutex (c : scase) (running : list (nat * N)) (tr : list label) : bool :=
  match tr with
  | [] => true
  | LStart k cb :: tr' =>
    let g := grp c cb in
    if negb (N.eqb g 0) && existsb (fun x => N.eqb (snd x) g) running then false
    else mon_mutex c ((k, g) :: running) tr'
  | LEnd k _ :: tr' => mon_mutex c (filter (fun x => negb (Nat.eqb (fst x) k)) running) tr'
  | LServeInit _ :: tr' => mon_mutex c [] tr'
  | _ :: tr' => mon_mutex c running tr'
  end.

(* ---- C02 monitor ---- *)
(* accepted callbacks in acceptance order, started callbacks in start order *)
Fixpoint accepted (pend : list (N * N)) (tr : list label) : list N :=
  match tr with
  | [] => []
  | LCheck p _ cb true :: tr' => accepted ((p, cb) :: pend) tr'
  | LEnq p r :: tr' =>
    match list_find (fun x => N.eqb (fst x) p) pend with
    | Some (_, (_, cb)) =>
      let pend' := filter (fun x => negb (N.eqb (fst x) p)) pend in
      match r with EClosing => accepted pend' tr' | _ => cb :: accepted pend' tr' end
    | None => accepted pend tr'
    end
  | _ :: tr' => accepted pend tr'
  end.
Fixpoint started_cbs (tr : list label) : list N :=
  match tr with [] => [] | LStart _ cb :: tr' => cb :: started_cbs tr' | _ :: tr' => started_cbs tr' end.
Fixpoint is_sublist (a b : list N) : bool :=
  match a, b with
  | [], _ => true
  | _ :: _, [] => false
  | x :: a', y :: b' => if N.eqb x y then is_sublist a' b' else is_sublist a b'
  end.
Fixpoint nodupN (l : list N) : bool :=
  match l with [] => true | x :: r => negb (existsb (N.eqb x) r) && nodupN r end.
Fixpoint list_eqN (a b : list N) : bool :=
  match a, b with [], [] => true | x :: a', y :: b' => N.eqb x y && list_eqN a' b' | _, _ => false end.
Definition groups_of (c : scase) : list N := remove_dups (map snd (sc_group c)).
Definition of_group (c : scase) (g : N) (l : list N) : list N := filter (fun cb => N.eqb (grp c cb) g) l.
(* codes: 1 a callback started twice / not accepted; 2 order of a group differs from acceptance order;
          3 complete run but an accepted callback never started *)
Definition mon_fifo (c : scase) : list N :=
  let acc := accepted [] (sc_trace c) in
  let st := started_cbs (sc_trace c) in
  (if nodupN st && forallb (fun cb => existsb (N.eqb cb) acc) st then [] else [1%N]) ++
  (if forallb (fun g => N.eqb g 0 || is_sublist (of_group c g st) (of_group c g acc)) (groups_of c) then [] else [2%N]) ++
  (if sc_complete c && negb (forallb (fun cb => existsb (N.eqb cb) st) acc) then [3%N] else []) ++
  (if sc_complete c && negb (forallb (fun g => N.eqb g 0 || list_eqN (of_group c g st) (of_group c g acc)) (groups_of c)) then [2%N] else []).

(* ---- C03 monitor ----
   codes: 1 a callback started while the service was stopped (after LStopped, before LServeStarted)
          2 wg.Wait returned while a started callback had not finished
          3 connection closed other than exactly once in a cycle *)
Fixpoint mon_shut (stopped : bool) (running : list nat) (closes : nat) (tr : list label) : list N :=
  match tr with
  | [] => []
  | LStart k _ :: tr' => (if stopped then [1%N] else []) ++ mon_shut stopped (k :: running) closes tr'
  | LEnd k _ :: tr' => mon_shut stopped (filter (fun x => negb (Nat.eqb x k)) running) closes tr'
  | LConnClose :: tr' => mon_shut stopped running (S closes) tr'
  | LWgDone :: tr' => (match running with [] => [] | _ => [2%N] end) ++ mon_shut stopped running closes tr'
  | LStopped :: tr' => (if Nat.eqb closes 1 then [] else [3%N]) ++ mon_shut true running 0 tr'
  | LServeStarted :: tr' => mon_shut false running 0 tr'
  | _ :: tr' => mon_shut stopped running closes tr'
  end.

Fixpoint run_idx {A} (f : A -> list N) (i : N) (cs : list A) : list (N * N) :=
  match cs with
  | [] => []
  | c :: r => map (fun k => (i, k)) (f c) ++ run_idx f (i + 1)%N r
  end.
Definition mismatches (cs : list scase) : list (N * N) := run_idx sched_mismatch 0%N cs.
