(* Evaluators used by the generated cases_C05_*.v files.  Same case type and the
   same correspondence check as C04 (Run_C04); [violations] is property C05's
   decidable form on the implementation's outputs only. *)
From GoRes Require Export Run.Run_C04.
Open Scope N_scope.

Definition mismatches (cs : list rcase) : list (N * N) := run_idx check_case 0 cs.

(* the only response on the reply subject, if there is exactly one *)
Definition the_response (c : rcase) : option payload :=
  match responses (ms_reply (rc_msg c)) (g_pubs c) with
  | [m] => Some (p_pay m)
  | _ => None
  end.
Definition is_error_with (code : bytes) (verbatim : option (bytes * option jv)) (p : option payload) : bool :=
  match p with
  | Some (PError c m d _) =>
    beq c code && match verbatim with
                  | Some (m', d') => beq m m' && opt_eqb jv_eqb d d'
                  | None => true
                  end
  | _ => false
  end.

(* handler scripts whose outcome is obvious without interpreting the API: harmless
   timeouts, then nothing / a panic / an Error call *)
Fixpoint decisive (sc : script) : option (option action) :=
  match sc with
  | [] => Some None
  | ATimeout ms :: r => if (ms <? 0)%Z then None else decisive r
  | a :: _ => Some (Some a)
  end.
Definition verbatim_of (e : rerr) : bytes * option (bytes * option jv) :=
  if val_ok (e_data e) then (e_code e, Some (e_msg e, err_data e)) else (code_internal, None).
Definition expected_error (sc : script) : option (bytes * option (bytes * option jv)) :=
  match decisive sc with
  | Some None => Some (code_internal, Some (e_msg err_missing_response, None))
  | Some (Some (APanic (PErr e))) => Some (verbatim_of e)
  | Some (Some (APanic _)) => Some (code_internal, None)
  | Some (Some (AReply (KError (EErr e)))) => Some (verbatim_of e)
  | Some (Some (AReply (KError _))) => Some (code_internal, None)
  | _ => None
  end.

(* codes: 1 the handlers invoked by the service are not exactly the one the property names
          2 the invoked handler saw data that differ from what was sent / routed
          3 nothing invocable, but the response is not the listed error (or there is one for access)
          4 handler outcome (missing reply, panic, Error call) mapped to the wrong response
   Concurrent cases are judged like the others: [g_pubs] then holds the reply subject's
   messages only, which is all these checks look at. *)
Definition viol_case (c : rcase) : list N :=
  if is_nil (ms_reply (rc_msg c)) then [] else
  match rc_parts c with
  | None => []
  | Some (rt, rn, me) =>
    let got := outer_invocations (g_log c) in
    (* "payload not JSON" is judged on the bytes sent ([rc_json]), not by any decoder's success;
       a valid JSON text of the wrong shape is undecodable as well (the generator's knowledge) *)
    match rc_route c, (if rc_json c then decoded (ms_data (rc_msg c)) else None) with
    | None, _ =>
      (if is_nil got then [] else [1]) ++
      (if is_error_with code_not_found (Some (e_msg err_not_found, None)) (the_response c) then [] else [3])
    | Some _, None =>
      (if is_nil got then [] else [1]) ++
      (if is_error_with code_internal None (the_response c) then [] else [3])
    | Some mh, Some d =>
      match spec_invoked (m_h mh) rt me with
      | None =>
        (if is_nil got then [] else [1]) ++
        (if beq rt t_get then
           (if is_error_with code_not_found (Some (e_msg err_not_found, None)) (the_response c) then [] else [3])
         else if beq rt t_call || beq rt t_auth then
           (if is_error_with code_method_not_found (Some (e_msg err_method_not_found, None)) (the_response c) then [] else [3])
         else (if is_nil (g_pubs c) then [] else [3]))
      | Some (hd, sc) =>
        (if list_eqb hid_eqb (map o_hid got) [hd] then [] else [1]) ++
        (if list_eqb obs_eqb got [expected_obs mh hd rt rn me d] then [] else [2]) ++
        (match expected_error sc with
         | Some (code, vb) => if is_error_with code vb (the_response c) then [] else [4]
         | None => []
         end)
      end
    end
  end.
Definition violations (cs : list rcase) : list (N * N) := run_idx viol_case 0 cs.
