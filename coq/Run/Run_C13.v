(* Evaluators for the generated cases_C13_*.v: one case = one mutation history
   run against the real badgerstore + QueryStore (two indexes), flushed, then
   a batch of index queries.
   [mismatches]: model vs. implementation.  [violations]: property C13
   evaluated on the implementation's outputs only (its stored values, its key
   space, its query results). *)
From GoRes Require Export Index.RunCommon.
Open Scope N_scope.

Record qobs := QO { o_q : qd; o_res : outcome }.

Record c13case := C13 {
  c_muts : list step;                (* attempted mutations and Init calls, in order (failing ones included) *)
  g_stored : vstore val;             (* Store.Get of every id after the history *)
  c_vprefix : bytes;                 (* what the store puts before an id to form the value key ("v." or nothing) *)
  g_keys : kdb;                      (* EVERY database key after Flush, iteration order: index entries and
                                        the raw value keys the iterator also walks over *)
  c_foreign : kdb;                   (* raw keys the harness wrote into the database itself after the Flush:
                                        entries under "k:" that are no index entries (no NUL separator) *)
  g_queries : list qobs              (* IndexQuery.FetchCollection results after Flush *)
}.

(* the whole key space of the database: the index entries and one value key per stored value *)
Definition with_value_keys (vprefix : bytes) (st : vstore val) (d : kdb) : kdb :=
  fold_left (fun d p => db_set (vprefix ++ fst p) d) st d.
(* an initialised store also holds the marker key "$<prefix>init" *)
Definition with_marker (inited : bool) (vprefix : bytes) (d : kdb) : kdb :=
  if inited then db_set (36 :: vprefix ++ [105; 110; 105; 116]) d else d.

(* field codes: 1 key space  2 a query result  3 stored values *)
Definition check_case (c : c13case) : list N :=
  let (ms, inited) := flatten_steps false (c_muts c) in
  let '(st, d0, _) := run_history idxs 0 ms in
  let d := fold_left (fun d k => db_set k d) (c_foreign c)
                     (with_marker inited (c_vprefix c) (with_value_keys (c_vprefix c) st d0)) in
  (if list_eqb beq d (g_keys c) then [] else [1]) ++
  (if forallb (fun o => outcome_eqb (fetch_collection d (to_iq (o_q o))) (o_res o)) (g_queries c) then [] else [2]) ++
  (if store_eqb st (g_stored c) then [] else [3]).

(* violation codes:
   1 a query result is not the sorted / filtered / windowed scan of the stored values
   2 the key space is not { name:key\0id | stored value, key <> nil } plus the value keys *)
Definition viol_case (c : c13case) : list N :=
  (* foreign keys under "<index>:" break the precondition of the property (C13 assumptions): such
     cases are correspondence-only ("index entry is invalid" error path) *)
  if negb (is_nil (c_foreign c)) then [] else
  (if forallb (fun o => outcome_eqb (spec_on (g_stored c) (o_q o)) (o_res o)) (g_queries c) then [] else [1]) ++
  (if list_eqb beq (with_marker (snd (flatten_steps false (c_muts c))) (c_vprefix c)
                     (with_value_keys (c_vprefix c) (g_stored c) (keys_of_store (g_stored c)))) (g_keys c) then [] else [2]).

Definition mismatches (cs : list c13case) : list (N * N) := run_idx check_case 0 cs.
Definition violations (cs : list c13case) : list (N * N) := run_idx viol_case 0 cs.
