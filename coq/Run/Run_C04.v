(* Evaluators used by the generated cases_C04_*.v files (and shared with Run_C05):
   [mismatches] = the model's published messages / handler observations differ from
   what the Go service produced on the same request; [violations] = property C04's
   decidable form on the implementation's outputs only. *)
From GoRes Require Export Req.Spec.
Open Scope N_scope.

(* ---------- decidable equalities on outputs ---------- *)
Fixpoint list_eqb {A} (f : A -> A -> bool) (a b : list A) : bool :=
  match a, b with
  | [], [] => true
  | x :: a', y :: b' => f x y && list_eqb f a' b'
  | _, _ => false
  end.
Definition opt_eqb {A} (f : A -> A -> bool) (a b : option A) : bool :=
  match a, b with Some x, Some y => f x y | None, None => true | _, _ => false end.

Fixpoint jv_eqb (a b : jv) : bool :=
  match a, b with
  | JNull, JNull => true
  | JBool x, JBool y => Bool.eqb x y
  | JNum x, JNum y => Z.eqb x y
  | JStr x, JStr y => beq x y
  | JArr x, JArr y =>
      (fix go (x y : list jv) : bool :=
         match x, y with
         | [], [] => true
         | a' :: x', b' :: y' => jv_eqb a' b' && go x' y'
         | _, _ => false
         end) x y
  | JObj x, JObj y =>
      (fix go (x y : list (bytes * jv)) : bool :=
         match x, y with
         | [], [] => true
         | (k, a') :: x', (k', b') :: y' => beq k k' && jv_eqb a' b' && go x' y'
         | _, _ => false
         end) x y
  | _, _ => false
  end.

Definition hget (k : bytes) (h : hdr) : list bytes := match lookup k h with Some v => v | None => [] end.
(* same finite map (key order is not significant in a Go map) *)
Definition hdr_eqb (a b : hdr) : bool :=
  forallb (fun kv => list_eqb beq (hget (fst kv) a) (hget (fst kv) b)) (a ++ b).
Definition meta_eqb (a b : meta) : bool :=
  opt_eqb (fun x y => Z.eqb (fst x) (fst y) && hdr_eqb (snd x) (snd y)) a b.
Definition pay_eqb (a b : payload) : bool :=
  match a, b with
  | PResult v m, PResult v' m' => jv_eqb v v' && meta_eqb m m'
  | PResource r m, PResource r' m' => beq r r' && meta_eqb m m'
  | PError c s d m, PError c' s' d' m' => beq c c' && beq s s' && opt_eqb jv_eqb d d' && meta_eqb m m'
  | PPre x, PPre y => Z.eqb x y
  | PEvt v, PEvt v' => opt_eqb jv_eqb v v'
  | PRaw x, PRaw y => beq x y
  | _, _ => false
  end.
Definition pub_eqb (a b : pubmsg) : bool := beq (p_subj a) (p_subj b) && pay_eqb (p_pay a) (p_pay b).

Definition val_eqb (a b : val) : bool :=
  match a, b with
  | VNull, VNull => true
  | VStr x, VStr y => beq x y
  | VInt x, VInt y => Z.eqb x y
  | VBool x, VBool y => Bool.eqb x y
  | VMap x, VMap y => list_eqb (fun p q => beq (fst p) (fst q) && beq (snd p) (snd q)) x y
  | VList x, VList y => list_eqb Z.eqb x y
  | VBad, VBad => true
  | _, _ => false
  end.
Definition rerr_eqb (a b : rerr) : bool :=
  beq (e_code a) (e_code b) && beq (e_msg a) (e_msg b) && val_eqb (e_data a) (e_data b).
Definition gerr_eqb (a b : gerr) : bool :=
  match a, b with
  | GErr x, GErr y => opt_eqb rerr_eqb x y
  | GOther x, GOther y => beq x y
  | _, _ => false
  end.
Definition hid_eqb (a b : hid) : bool :=
  match a, b with
  | HAccess, HAccess | HGet, HGet | HNew, HNew => true
  | HCall x, HCall y | HAuth x, HAuth y => beq x y
  | _, _ => false
  end.
Definition obs_eqb (a b : obs) : bool :=
  (o_pid a =? o_pid b) && hid_eqb (o_hid a) (o_hid b) && Bool.eqb (o_forvalue a) (o_forvalue b) &&
  beq (o_type a) (o_type b) && beq (o_method a) (o_method b) && beq (o_rname a) (o_rname b) &&
  amap_eq (o_pparams a) (o_pparams b) && beq (o_query a) (o_query b) && beq (o_group a) (o_group b) &&
  beq (o_cid a) (o_cid b) && beq (o_token a) (o_token b) && beq (o_params a) (o_params b) &&
  hdr_eqb (o_header a) (o_header b) && beq (o_host a) (o_host b) && beq (o_raddr a) (o_raddr b) &&
  beq (o_uri a) (o_uri b) && Bool.eqb (o_ishttp a) (o_ishttp b).
Definition lentry_eqb (a b : lentry) : bool :=
  match a, b with
  | LInvoke x, LInvoke y => obs_eqb x y
  | LValue v e, LValue v' e' => val_eqb v v' && opt_eqb gerr_eqb e e'
  | LParsed t x, LParsed t' x' => Bool.eqb t t' && beq x x'
  | _, _ => false
  end.

(* ---------- one request against a freshly served service ---------- *)
Record rcase := RC {
  rc_route : option hmatch;                   (* what Mux.GetHandler gives for the resource name (C06 is not re-checked
                                                 here), the handler set carrying the scripts installed for this case *)
  rc_parts : option (bytes * bytes * bytes);  (* (type, resource, method) the subject was built from; None = malformed on purpose *)
  rc_msg : msg;                               (* subject, reply subject, payload as sent (decoded form = the generator's fields) *)
  rc_json : bool;                             (* independent judgement on the exact payload bytes sent: empty, or json.Valid *)
  rc_conc : bool;                             (* concurrent case (load round / overlapping pair): of the published messages only
                                                 those on the reply subject were collected; the handler observations are
                                                 those recorded under the request's own resource name *)
  g_pubs : list pubmsg;                       (* everything the service published for this request, in order *)
  g_log : list lentry;                        (* what the invoked handlers recorded *)
  g_done : bool;                              (* the request-done note arrived *)
  g_probe : bool }.                           (* a probe request sent afterwards got its normal answer *)

Definition case_cfg (c : rcase) : config :=
  fun rn => match rc_parts c with
            | Some (_, rn', _) => if beq rn rn' then rc_route c else None
            | None => None
            end.
Definition parts_eqb (a b : option (bytes * bytes * bytes)) : bool :=
  opt_eqb (fun x y => beq (fst (fst x)) (fst (fst y)) && beq (snd (fst x)) (snd (fst y)) && beq (snd x) (snd y)) a b.
Definition on_subject (r : bytes) (ms : list pubmsg) : list pubmsg := filter (fun m => beq (p_subj m) r) ms.

(* field codes: 1 published messages  2 handler observations  3 processed-or-not  4 subject split
   5 the payload is not valid JSON, yet the case hands the model a decoded payload (harness inconsistency) *)
Definition check_case (c : rcase) : list N :=
  let s := snd (handle_request (case_cfg c) (rc_msg c)) in
  let sp := split_subject (ms_subj (rc_msg c)) in
  let processed := negb (is_nil (ms_reply (rc_msg c))) && isSome sp in
  (if rc_conc c
   then (if list_eqb pub_eqb (on_subject (ms_reply (rc_msg c)) (pubs s)) (g_pubs c) then [] else [1])
   else (if list_eqb pub_eqb (pubs s) (g_pubs c) then [] else [1])) ++
  (if list_eqb lentry_eqb (log s) (g_log c) then [] else [2]) ++
  (if Bool.eqb processed (g_done c) then [] else [3]) ++
  (if parts_eqb sp (rc_parts c) then [] else [4]) ++
  (if negb (rc_json c) && isSome (decoded (ms_data (rc_msg c))) then [5] else []).

(* property C04 on the implementation's outputs only.
   codes: 1 number of responses (pre-responses aside) on the reply subject is not the expected 1 / 0
          2 the probe request sent afterwards was not answered normally
          3 a well-formed request that is due a response was never completed *)
Definition expected_count (c : rcase) : option nat :=
  match rc_parts c with
  | Some (rt, rn, _) =>
    if is_nil (ms_reply (rc_msg c)) then None
    else Some (if silent (case_cfg c) (rc_msg c) rt rn then 0%nat else 1%nat)
  | None => None
  end.
Definition viol_case (c : rcase) : list N :=
  (match expected_count c with
   | Some n => if Nat.eqb (List.length (responses (ms_reply (rc_msg c)) (g_pubs c))) n then [] else [1]
   | None => if is_nil (g_pubs c) then [] else [1]
   end) ++
  (if g_probe c then [] else [2]) ++
  (match expected_count c with
   | Some (S _) => if g_done c then [] else [3]
   | _ => []         (* whether a deliberately unanswered request was "completed" is not observable: correspondence (M3) only *)
   end).

Fixpoint run_idx {A} (f : A -> list N) (i : N) (cs : list A) : list (N * N) :=
  match cs with
  | [] => []
  | c :: r => map (fun k => (i, k)) (f c) ++ run_idx f (i + 1) r
  end.
Definition mismatches (cs : list rcase) : list (N * N) := run_idx check_case 0 cs.
Definition violations (cs : list rcase) : list (N * N) := run_idx viol_case 0 cs.
