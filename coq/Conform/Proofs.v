(* C07 - every builder of Conform/Model.v produces conformant messages. *)
From GoRes Require Import Conform.Model Conform.ProofsBase.
From Coq Require Import String.
Open Scope N_scope.

(* a message is good: conformant, and its context is the one its publisher may use *)
Definition is_ev (m : pubmsg) : bool := match pctx m with CEvent => true | _ => false end.
Definition evgood (m : pubmsg) : bool := conformant m && is_ev m.
Definition ctx_of (r : req) (m : pubmsg) : bool :=
  match pctx m with CReply h _ => Bool.eqb h (rhttp r) | CQueryReply _ => false | CEvent => true end.
Definition rgood (r : req) (m : pubmsg) : bool := conformant m && ctx_of r m.
Definition qctx_of (m : pubmsg) : bool :=
  match pctx m with CReply _ _ => false | _ => true end.
Definition qgood (m : pubmsg) : bool := conformant m && qctx_of m.

Lemma evgood_rgood : forall r m, evgood m = true -> rgood r m = true.
Proof.
  intros r m H. unfold evgood in H. unfold rgood. apply andb_true_iff in H. destruct H as [H1 H2].
  rewrite H1. unfold is_ev in H2. unfold ctx_of. destruct (pctx m); try discriminate. reflexivity.
Qed.
Lemma evgood_qgood : forall m, evgood m = true -> qgood m = true.
Proof.
  intros m H. unfold evgood in H. unfold qgood. apply andb_true_iff in H. destruct H as [H1 H2].
  rewrite H1. unfold is_ev in H2. unfold qctx_of. destruct (pctx m); try discriminate. reflexivity.
Qed.

(* ---------- subjects ---------- *)
Lemma tokens_event_prefix : forall x, tokens (s2b "event." ++ x) = t_event :: tokens x.
Proof. reflexivity. Qed.
Lemma tokens_conn_prefix : forall x, tokens (s2b "conn." ++ x) = t_conn :: tokens x.
Proof. reflexivity. Qed.

Lemma tokens_ev_subject : forall rn name, valid_part name = true ->
  tokens (ev_subject rn name) = t_event :: tokens rn ++ [name].
Proof.
  intros rn name H. unfold ev_subject. rewrite tokens_event_prefix, tokens_app_dot, (tokens_valid_part name H).
  reflexivity.
Qed.

Lemma valid_subject_toks : forall s, valid_subject s = forallb tok_ok (tokens s).
Proof. reflexivity. Qed.

Lemma ev_subject_valid : forall rn name, valid_rname rn = true -> valid_part name = true ->
  valid_subject (ev_subject rn name) = true.
Proof.
  intros rn name Hr Hn. rewrite valid_subject_toks, (tokens_ev_subject rn name Hn).
  cbn [forallb]. rewrite forallb_app. cbn [forallb].
  rewrite (valid_rname_subject_toks rn Hr), (valid_part_tok_ok name Hn). reflexivity.
Qed.

Lemma ev_subject_classify : forall rn name, valid_rname rn = true -> valid_part name = true ->
  classify (ev_subject rn name) = KRes name.
Proof.
  intros rn name Hr Hn. unfold classify. rewrite (tokens_ev_subject rn name Hn).
  change (beq t_event t_system) with false. change (beq t_event t_conn) with false.
  change (beq t_event t_event) with true. cbn match.
  rewrite rev_unit, Hn, is_nil_rev, forallb_rev. unfold tokens. rewrite tokens_go_nonnil.
  unfold valid_rname, tokens in Hr. rewrite Hr. reflexivity.
Qed.

Lemma ev_good : forall rn name p, valid_rname rn = true -> valid_part name = true ->
  res_event_ok name p = true -> evgood (ev (ev_subject rn name) p) = true.
Proof.
  intros rn name p Hr Hn Hp. unfold evgood, is_ev, conformant, ev. cbn [pctx subj pay].
  rewrite (ev_subject_valid rn name Hr Hn). unfold event_ok. rewrite (ev_subject_classify rn name Hr Hn), Hp.
  reflexivity.
Qed.

Lemma tokens_conn_subject : forall cid, valid_part cid = true ->
  tokens (conn_subject cid) = [t_conn; cid; t_token].
Proof.
  intros cid H. unfold conn_subject. rewrite tokens_conn_prefix.
  change (cid ++ s2b ".token") with (cid ++ dot :: t_token).
  rewrite tokens_app_dot, (tokens_valid_part cid H). reflexivity.
Qed.

Lemma conn_good : forall cid p, valid_part cid = true -> conn_token_ok p = true ->
  evgood (ev (conn_subject cid) p) = true.
Proof.
  intros cid p Hc Hp. unfold evgood, is_ev, conformant, ev. cbn [pctx subj pay].
  rewrite valid_subject_toks. unfold event_ok, classify. rewrite (tokens_conn_subject cid Hc).
  cbn [forallb]. rewrite (valid_part_tok_ok cid Hc).
  change (tok_ok t_conn) with true. change (tok_ok t_token) with true.
  change (beq t_conn t_system) with false. change (beq t_conn t_conn) with true.
  change (beq t_token t_token) with true. rewrite Hc. cbn match. cbn [andb]. rewrite Hp. reflexivity.
Qed.

(* ---------- payload pieces ---------- *)
Lemma strs_ok : forall l, str_arr (strs l) = true.
Proof. intros l. unfold strs, str_arr. induction l as [|x l IH]; [reflexivity|]. cbn [map forallb is_jstr]. exact IH. Qed.

Lemma header_obj_ok : forall h : header,
  forallb (fun kv : bytes * json => str_arr (snd kv)) (map (fun kv : bytes * list bytes => (fst kv, strs (snd kv))) h) = true.
Proof. induction h as [|kv h IH]; [reflexivity|]. cbn [map forallb snd]. rewrite strs_ok, IH. reflexivity. Qed.

Definition meta_goodb (http : bool) (m : option json) : bool :=
  match m with None => true | Some j => http && meta_ok j end.

Lemma meta_json_ok : forall status h j, meta_json status h = Some j -> meta_ok j = true.
Proof.
  intros status h j. unfold meta_json.
  pose proof (header_obj_ok h) as Hh. pose proof (z_dec_int status) as Hs.
  destruct (is_nil h) eqn:Nh; destruct (status =? 0)%Z eqn:Zs; cbn [andb]; intros E; inversion E; subst j; clear E.
  - cbn. rewrite Hs. reflexivity.
  - cbn. rewrite Hh. reflexivity.
  - cbn. rewrite Hs, Hh. reflexivity.
Qed.

(* ---------- responses ---------- *)
Lemma error_json_ok : forall http e m, meta_goodb http m = true -> response_ok http (error_json e m) = true.
Proof.
  intros http e m Hm. unfold error_json.
  set (e' := match e with Some e0 => e0 | None => err_internal end). clearbody e'.
  destruct (edata e'); [| |destruct http; reflexivity];
    (destruct m as [mj|]; [cbn in Hm; apply andb_true_iff in Hm; destruct Hm as [-> Hm]; cbn; rewrite Hm; reflexivity
                          | destruct http; reflexivity]).
Qed.

Lemma error_json_internal : forall msg m, is_internal_error (error_json (Some (internal_err msg)) m) = true.
Proof. intros msg m. destruct m; reflexivity. Qed.
Lemma error_json_nil_internal : forall m, is_internal_error (error_json None m) = true.
Proof. intros m. destruct m; reflexivity. Qed.

Lemma success_json_ok : forall http v m, meta_goodb http m = true ->
  response_ok http (success_json error_json v m) = true.
Proof.
  intros http v m Hm. destruct v as [|j|msg]; cbn [success_json].
  - destruct m as [mj|]; [cbn in Hm; apply andb_true_iff in Hm; destruct Hm as [-> Hm]; cbn; rewrite Hm; reflexivity
                         | destruct http; reflexivity].
  - destruct m as [mj|]; [cbn in Hm; apply andb_true_iff in Hm; destruct Hm as [-> Hm]; cbn; rewrite Hm; reflexivity
                         | destruct http; reflexivity].
  - apply error_json_ok. reflexivity.
Qed.

Lemma resource_json_ok : forall http rid m, meta_goodb http m = true -> is_valid_rid rid = true ->
  response_ok http (JObj (meta_fields m ++ [(k_resource, ref_json rid)])) = true.
Proof.
  intros http rid m Hm Hr. rewrite is_valid_rid_spec in Hr.
  destruct m as [mj|]; [cbn in Hm; apply andb_true_iff in Hm; destruct Hm as [-> Hm]; cbn; rewrite Hm, Hr; reflexivity
                       | destruct http; cbn; rewrite Hr; reflexivity].
Qed.

Lemma missing_response_ok : forall http, response_ok http missing_response = true.
Proof. destruct http; reflexivity. Qed.

Lemma inl_inj : forall {A B} (a b : A), @inl A B a = inl b -> a = b.
Proof. intros A B a b H. inversion H. reflexivity. Qed.

Lemma reply_json_ok : forall http st k j, meta_goodb http (st_meta st) = true ->
  reply_json error_json st k = inl j -> response_ok http j = true.
Proof.
  intros http st k j Hm. unfold reply_json.
  destruct k as [v|rid|e| | |msg|msg|get call| | |v q|v q|rid]; intros E.
  - apply inl_inj in E; subst j. apply success_json_ok, Hm.
  - destruct (is_valid_rid rid) eqn:V; [|discriminate E]. apply inl_inj in E; subst j. apply resource_json_ok; assumption.
  - apply inl_inj in E; subst j. apply error_json_ok, Hm.
  - apply inl_inj in E; subst j. apply error_json_ok, Hm.
  - apply inl_inj in E; subst j. apply error_json_ok, Hm.
  - apply inl_inj in E; subst j. apply error_json_ok, Hm.
  - apply inl_inj in E; subst j. apply error_json_ok, Hm.
  - destruct (negb get && is_nil call); apply inl_inj in E; subst j; [apply error_json_ok | apply success_json_ok]; exact Hm.
  - apply inl_inj in E; subst j. apply error_json_ok, Hm.
  - apply inl_inj in E; subst j. apply success_json_ok, Hm.
  - apply inl_inj in E; subst j. apply success_json_ok. reflexivity.
  - apply inl_inj in E; subst j. apply success_json_ok. reflexivity.
  - destruct (is_valid_rid rid); [|discriminate E]. apply inl_inj in E; subst j. apply success_json_ok. reflexivity.
Qed.

Lemma reply_good : forall r p, valid_subject (rreply r) = true ->
  match p with PJson j => response_ok (rhttp r) j | PRaw b => is_pre_response b end = true ->
  rgood r (reply_pub r p) = true.
Proof.
  intros r p Hs Hp. unfold rgood, ctx_of, conformant, reply_pub. cbn [pctx subj pay].
  rewrite beq_refl, Hs, Bool.eqb_reflx. cbn [andb]. rewrite Hp. reflexivity.
Qed.

(* ---------- service events ---------- *)
Lemma reset_good : forall rs acs, forallb evgood (reset_msgs rs acs) = true.
Proof.
  intros rs acs. unfold reset_msgs.
  pose proof (strs_ok rs) as Hr. pose proof (strs_ok acs) as Ha. unfold strs, str_arr in Hr, Ha.
  destruct (is_nil rs); destruct (is_nil acs); cbn [andb]; try reflexivity;
    cbn [forallb]; rewrite andb_true_r; unfold evgood, is_ev, conformant, ev; cbn [pctx subj pay];
    change (valid_subject s_system_reset) with true; unfold event_ok;
    change (classify s_system_reset) with KReset; cbn; rewrite ?Hr, ?Ha; reflexivity.
Qed.

Lemma token_good : forall cid tid v, valid_part cid = true -> forallb evgood (token_msgs cid tid v) = true.
Proof.
  intros cid tid v Hc. unfold token_msgs.
  destruct v as [|j|msg]; [| |reflexivity]; cbn [forallb]; rewrite andb_true_r;
    apply conn_good; try exact Hc; unfold token_json; destruct (is_nil tid); reflexivity.
Qed.

Lemma run_svc_good : forall c a out, run_svc c a = EOk out -> forallb evgood out = true.
Proof.
  intros c a out. destruct a as [rs acs| |cid v|cid tid v|subject tids]; cbn [run_svc]; intros E.
  - inversion E. apply reset_good.
  - inversion E. apply reset_good.
  - destruct (valid_part cid) eqn:V; inversion E. apply token_good, V.
  - destruct (valid_part cid) eqn:V; inversion E. apply token_good, V.
  - destruct (is_nil subject || negb (is_valid_path_ne subject)); [discriminate|].
    destruct (is_nil tids); inversion E; [reflexivity|].
    cbn [forallb]. rewrite andb_true_r. unfold evgood, is_ev, conformant, ev. cbn [pctx subj pay].
    change (valid_subject s_system_token_reset) with true. unfold event_ok.
    change (classify s_system_token_reset) with KTokenReset.
    pose proof (strs_ok tids) as Ht. unfold strs, str_arr in Ht. cbn. rewrite Ht. reflexivity.
Qed.

(* ---------- resource events ---------- *)
Lemma custom_event_ok : forall name p,
  beq name n_change = false -> beq name n_delete = false -> beq name n_add = false ->
  beq name n_remove = false -> beq name n_patch = false -> beq name n_reaccess = false ->
  beq name n_unsubscribe = false -> beq name n_query = false ->
  beq name n_create = false ->
  match p with PJson _ => true | PRaw b => is_nil b end = true ->
  res_event_ok name p = true.
Proof.
  intros name p H1 H2 H3 H4 H5 H6 H7 H8 Hc Hp. unfold res_event_ok.
  rewrite H1, H3, H4, H2, H6, H8, H5, H7.
  rewrite Hc. exact Hp.
Qed.

Lemma idx_json_ok : forall idx rest, (idx <? 0)%Z = false -> idx_ok ((k_idx, idx_json idx) :: rest) = true.
Proof. intros idx rest H. unfold idx_ok, idx_json. cbn. apply z_dec_uint, H. Qed.

Lemma run_event_good : forall r e out, valid_rname (rs_name r) = true ->
  run_event r e = EOk out -> forallb evgood out = true.
Proof.
  intros r e out Hr. destruct e as [name v|fields ap|v idx ap|idx ap|ap|ap| | |inbox ok]; cbn [run_event].
  - (* custom *)
    unfold custom_event. cbn [andb].
    destruct (beq name n_change) eqn:H1; [discriminate|].
    destruct (beq name n_create) eqn:H9; [discriminate|].
    destruct (beq name n_delete) eqn:H2; [discriminate|].
    destruct (beq name n_add) eqn:H3; [discriminate|].
    destruct (beq name n_remove) eqn:H4; [discriminate|].
    destruct (beq name n_patch) eqn:H5; [discriminate|].
    destruct (beq name n_reaccess) eqn:H6; [discriminate|].
    destruct (beq name n_unsubscribe) eqn:H7; [discriminate|].
    destruct (beq name n_query) eqn:H8; [discriminate|].
    destruct (valid_part name) eqn:Hn; cbn [negb]; [|discriminate].
    intros E. inversion E. subst out. clear E.
    destruct v as [|j|msg]; cbn [publish_event]; [| |reflexivity]; cbn [forallb]; rewrite andb_true_r;
      apply ev_good; try assumption; apply custom_event_ok; try assumption; reflexivity.
  - (* change *)
    destruct (is_rt_coll (rs_type r)); [discriminate|].
    destruct fields as [[|f fs]|]; destruct ap; intros E; inversion E; try reflexivity;
      cbn [forallb]; rewrite andb_true_r; apply ev_good; try assumption; reflexivity.
  - (* add *)
    destruct (is_rt_model (rs_type r)); [discriminate|].
    destruct (idx <? 0)%Z eqn:Hi; [discriminate|].
    destruct ap; cbn [after_apply]; intros E; inversion E; subst out; clear E;
      (destruct v as [|j|msg]; [| |reflexivity]; cbn [forallb]; rewrite andb_true_r;
       apply ev_good; try assumption; try reflexivity;
       unfold res_event_ok; change (beq n_add n_change) with false; change (beq n_add n_add) with true; cbn match;
       unfold add_data_ok; rewrite idx_json_ok by exact Hi; reflexivity).
  - (* remove *)
    destruct (is_rt_model (rs_type r)); [discriminate|].
    destruct (idx <? 0)%Z eqn:Hi; [discriminate|].
    destruct ap; cbn [after_apply]; intros E; inversion E; subst out; clear E;
      (cbn [forallb]; rewrite andb_true_r;
       apply ev_good; try assumption; try reflexivity;
       unfold res_event_ok; change (beq n_remove n_change) with false; change (beq n_remove n_add) with false;
       change (beq n_remove n_remove) with true; cbn match;
       unfold remove_data_ok; rewrite idx_json_ok by exact Hi; reflexivity).
  - destruct ap; cbn [after_apply]; intros E; inversion E;
      cbn [forallb]; rewrite andb_true_r; apply ev_good; try assumption; reflexivity.
  - destruct ap; cbn [after_apply]; intros E; inversion E;
      cbn [forallb]; rewrite andb_true_r; apply ev_good; try assumption; reflexivity.
  - intros E; inversion E. cbn [forallb]; rewrite andb_true_r; apply ev_good; try assumption; reflexivity.
  - intros E; inversion E. apply reset_good.
  - destruct ok; intros E; inversion E; [|reflexivity].
    cbn [forallb]; rewrite andb_true_r; apply ev_good; try assumption; reflexivity.
Qed.

Lemma run_w_good : forall c r w out, valid_rname (rs_name r) = true ->
  run_w c r w = EOk out -> forallb evgood out = true.
Proof.
  intros c r w out Hr. destruct w as [e|s|p]; cbn [run_w]; intros E.
  - exact (run_event_good r e out Hr E).
  - exact (run_svc_good c s out E).
  - discriminate.
Qed.

Lemma run_with_good : forall c r s, valid_rname (rs_name r) = true ->
  forallb evgood (run_with c r s) = true.
Proof.
  intros c r s Hr. induction s as [|a s IH]; [reflexivity|].
  cbn [run_with]. destruct (run_w c r a) as [out|p] eqn:E; [|reflexivity].
  rewrite forallb_app, (run_w_good c r a out Hr E), IH. reflexivity.
Qed.

Lemma forallb_evgood_rgood : forall r l, forallb evgood l = true -> forallb (rgood r) l = true.
Proof. intros r l. apply forallb_impl. apply evgood_rgood. Qed.
Lemma forallb_evgood_qgood : forall l, forallb evgood l = true -> forallb qgood l = true.
Proof. intros l. apply forallb_impl. apply evgood_qgood. Qed.

(* ---------- requests ---------- *)
(* meta can only have been set on a request flagged HTTP *)
Definition inv (r : req) (st : rst) : Prop := rhttp r = false -> status st = 0%Z /\ rheader st = [].

Lemma st_meta_good : forall r st, inv r st -> meta_goodb (rhttp r) (st_meta st) = true.
Proof.
  intros r st I. unfold meta_goodb, st_meta. destruct (meta_json (status st) (rheader st)) as [j|] eqn:E; [|reflexivity].
  rewrite (meta_json_ok _ _ _ E), andb_true_r. destruct (rhttp r) eqn:Hh; [reflexivity|].
  destruct (I Hh) as [S0 H0]. rewrite S0, H0 in E. discriminate E.
Qed.

Lemma step_good : forall c r st a,
  valid_subject (rreply r) = true -> valid_rname (rs_name (rres r)) = true -> action_ok r a = true -> inv r st ->
  match step error_json c r st a with
  | SCont st' out => inv r st' /\ forallb (rgood r) out = true
  | SPanic _ => True
  end.
Proof.
  intros c r st a Hs Hr Ha I. pose proof (st_meta_good r st I) as Hm.
  destruct a as [k|d|n|k vs|v|w|n|k vs]; cbn [step].
  - destruct (reply_json error_json st k) as [j|p] eqn:E; [|exact Logic.I].
    destruct (replied st); [exact Logic.I|]. split.
    + intros Hh. exact (I Hh).
    + cbn [forallb]. rewrite andb_true_r. apply reply_good; [exact Hs|].
      exact (reply_json_ok _ st k j Hm E).
  - destruct (d <? 0)%Z; [exact Logic.I|]. split; [exact I|].
    cbn [forallb]. rewrite andb_true_r. apply reply_good; [exact Hs|]. apply timeout_pre_response.
  - destruct (rhttp r) eqn:Hh; cbn [negb]; [|exact Logic.I]. destruct (replied st); [exact Logic.I|].
    split; [|reflexivity]. intros Hf. rewrite Hh in Hf. discriminate Hf.
  - destruct (rhttp r) eqn:Hh; cbn [negb]; [|exact Logic.I]. destruct (replied st); [exact Logic.I|].
    split; [|reflexivity]. intros Hf. rewrite Hh in Hf. discriminate Hf.
  - split; [exact I|]. cbn [action_ok] in Ha. apply forallb_evgood_rgood, token_good, Ha.
  - destruct (run_w c (rres r) w) as [out|p] eqn:E; [|exact Logic.I]. split; [exact I|].
    apply forallb_evgood_rgood. exact (run_w_good c (rres r) w out Hr E).
  - destruct (rhttp r) eqn:Hh; cbn [negb]; [|split; [exact I|reflexivity]]. destruct (replied st); [exact Logic.I|].
    split; [|reflexivity]. intros Hf. rewrite Hh in Hf. discriminate Hf.
  - destruct (rhttp r) eqn:Hh; cbn [negb]; [|split; [exact I|reflexivity]]. destruct (replied st); [exact Logic.I|].
    split; [|reflexivity]. intros Hf. rewrite Hh in Hf. discriminate Hf.
Qed.

Lemma run_script_good : forall c r s st,
  valid_subject (rreply r) = true -> valid_rname (rs_name (rres r)) = true -> forallb (action_ok r) s = true -> inv r st ->
  inv r (fst (fst (run_script error_json c r st s))) /\
  forallb (rgood r) (snd (fst (run_script error_json c r st s))) = true.
Proof.
  intros c r s. induction s as [|a s IH]; intros st Hs Hr Ha I.
  - cbn. split; [exact I|reflexivity].
  - cbn [forallb] in Ha. apply andb_true_iff in Ha. destruct Ha as [Ha Hrest].
    cbn [run_script]. pose proof (step_good c r st a Hs Hr Ha I) as G.
    destruct (step error_json c r st a) as [st' out|p].
    + destruct G as [I' G]. destruct (IH st' Hs Hr Hrest I') as [I'' G'].
      destruct (run_script error_json c r st' s) as [[st'' out'] p']. cbn [fst snd] in *.
      split; [exact I''|]. rewrite forallb_app, G, G'. reflexivity.
    + cbn. split; [exact I|reflexivity].
Qed.

Lemma finish_good : forall r x,
  valid_subject (rreply r) = true -> inv r (fst (fst x)) -> forallb (rgood r) (snd (fst x)) = true ->
  forallb (rgood r) (finish error_json r x) = true.
Proof.
  intros r [[st out] p] Hs I G. cbn [fst snd] in *. unfold finish.
  destruct (replied st); [exact G|].
  destruct p as [p|]; rewrite forallb_app, G; cbn [forallb andb]; rewrite andb_true_r; apply reply_good; try exact Hs.
  - apply error_json_ok, st_meta_good, I.
  - apply missing_response_ok.
Qed.

Lemma inv0 : forall r, inv r st0.
Proof. intros r _. split; reflexivity. Qed.

Lemma valid_subject_nonnil : forall s, valid_subject s = true -> is_nil s = false.
Proof. intros s H. destruct s; [discriminate H|reflexivity]. Qed.

Lemma run_request_good : forall c r d, top_ok (TRequest r d) = true ->
  forallb (rgood r) (run_request error_json c r d) = true.
Proof.
  intros c r d H. cbn [top_ok] in H. unfold run_request.
  destruct (is_nil (rreply r)); [reflexivity|]. cbn [orb] in H.
  apply andb_true_iff in H. destruct H as [H Hd].
  apply andb_true_iff in H. destruct H as [Hs Hr].
  destruct d as [|msg| | | |s]; cbn [handle_request]; try reflexivity;
    try (cbn [forallb]; rewrite andb_true_r; apply reply_good; [exact Hs|]; apply error_json_ok; reflexivity).
  destruct (run_script_good c r s st0 Hs Hr Hd (inv0 r)) as [I G].
  apply finish_good; assumption.
Qed.

(* ---------- query requests ---------- *)
Lemma q_error_ok : forall e, qresponse_ok (error_json e None) = true.
Proof.
  intros e. unfold error_json. set (e' := match e with Some e0 => e0 | None => err_internal end). clearbody e'.
  destruct (edata e'); reflexivity.
Qed.
Lemma q_success_ok : forall key v, key = k_model \/ key = k_collection ->
  qresponse_ok (success_json error_json (wrap_q key v []) None) = true.
Proof.
  intros key v [-> | ->]; destruct v as [|j|msg]; cbn [wrap_q success_json is_nil]; try reflexivity; apply q_error_ok.
Qed.

Lemma qreply_good_msg : forall q p, valid_subject q = true ->
  match p with PJson j => qresponse_ok j | PRaw b => is_pre_response b end = true ->
  qgood (qpub q p) = true.
Proof.
  intros q p Hs Hp. unfold qgood, qctx_of, conformant, qpub. cbn [pctx subj pay].
  rewrite beq_refl, Hs. cbn [andb]. rewrite Hp. reflexivity.
Qed.

Definition qev_ok (o : option json) : bool := match o with Some j => qevent_ok j | None => true end.
Definition qinv (st : qst) : Prop := forallb qev_ok (qevents st) = true.

Lemma all_some_ok : forall evs l, forallb qev_ok evs = true -> all_some evs = Some l -> forallb qevent_ok l = true.
Proof.
  induction evs as [|o evs IH]; intros l H E.
  - inversion E. reflexivity.
  - cbn [forallb] in H. apply andb_true_iff in H. destruct H as [H1 H2].
    cbn [all_some] in E. destruct o as [j|]; [|discriminate].
    destruct (all_some evs) as [l'|] eqn:E'; [|discriminate]. inversion E. subst l.
    cbn [forallb]. cbn [qev_ok] in H1. rewrite H1. exact (IH l' H2 eq_refl).
Qed.

Lemma events_response_ok : forall evs, forallb qev_ok evs = true -> qresponse_ok (events_response evs) = true.
Proof.
  intros evs H. unfold events_response. destruct (all_some evs) as [l|] eqn:E; [|reflexivity].
  pose proof (all_some_ok evs l H E) as Hl. cbn. rewrite Hl. reflexivity.
Qed.

Lemma qreply_with_good : forall q st j, valid_subject q = true -> qinv st -> qresponse_ok j = true ->
  match qreply_with q st j with
  | QCont st' out => qinv st' /\ forallb qgood out = true
  | QPanic _ => True
  end.
Proof.
  intros q st j Hs I Hj. unfold qreply_with. destruct (qreplied st); (split; [exact I|]); [reflexivity|].
  cbn [forallb]. rewrite andb_true_r. apply qreply_good_msg; assumption.
Qed.

Lemma add_qevent_good : forall st e, qinv st -> qev_ok e = true ->
  match add_qevent st e with
  | QCont st' out => qinv st' /\ forallb qgood out = true
  | QPanic _ => True
  end.
Proof.
  intros st e I He. unfold add_qevent. split; [|reflexivity].
  unfold qinv in *. cbn [qevents]. rewrite forallb_app, I. cbn [forallb]. rewrite He. reflexivity.
Qed.

Lemma qev_add_ok : forall idx v, (idx <? 0)%Z = false ->
  qevent_ok (qevent_json n_add (JObj [(k_idx, idx_json idx); (k_value, v)])) = true.
Proof.
  intros idx v H. pose proof (z_dec_uint idx H) as Hu. unfold idx_json.
  generalize dependent (z_dec idx). intros t Ht. cbn. rewrite Ht. reflexivity.
Qed.
Lemma qev_remove_ok : forall idx, (idx <? 0)%Z = false ->
  qevent_ok (qevent_json n_remove (JObj [(k_idx, idx_json idx)])) = true.
Proof.
  intros idx H. pose proof (z_dec_uint idx H) as Hu. unfold idx_json.
  generalize dependent (z_dec idx). intros t Ht. cbn. rewrite Ht. reflexivity.
Qed.

Lemma qstep_good : forall c r q st a,
  valid_subject q = true -> valid_rname (rs_name r) = true -> qinv st ->
  match qstep error_json c r q st a with
  | QCont st' out => qinv st' /\ forallb qgood out = true
  | QPanic _ => True
  end.
Proof.
  intros c r q st a Hs Hr I.
  destruct a as [v|v| |msg|e|d|fields|v idx|idx|w]; cbn [qstep].
  - destruct (is_rt_coll (rs_type r)); [exact Logic.I|]. apply qreply_with_good; try assumption.
    apply q_success_ok. left. reflexivity.
  - destruct (is_rt_model (rs_type r)); [exact Logic.I|]. apply qreply_with_good; try assumption.
    apply q_success_ok. right. reflexivity.
  - apply qreply_with_good; try assumption; try apply q_error_ok; reflexivity.
  - apply qreply_with_good; try assumption; apply q_error_ok.
  - apply qreply_with_good; try assumption; apply q_error_ok.
  - destruct (d <? 0)%Z; [exact Logic.I|]. split; [exact I|].
    cbn [forallb]. rewrite andb_true_r. apply qreply_good_msg; [exact Hs|]. apply timeout_pre_response.
  - destruct (is_rt_coll (rs_type r)); [exact Logic.I|].
    destruct fields as [[|f fs]|].
    + split; [exact I|reflexivity].
    + apply add_qevent_good; [exact I|reflexivity].
    + apply add_qevent_good; [exact I|reflexivity].
  - destruct (is_rt_model (rs_type r)); [exact Logic.I|].
    destruct (idx <? 0)%Z eqn:Hi; [exact Logic.I|].
    apply add_qevent_good; [exact I|].
    destruct v as [|j|msg]; [| |reflexivity]; cbn [qev_ok]; apply qev_add_ok, Hi.
  - destruct (is_rt_model (rs_type r)); [exact Logic.I|].
    destruct (idx <? 0)%Z eqn:Hi; [exact Logic.I|].
    apply add_qevent_good; [exact I|].
    cbn [qev_ok]; apply qev_remove_ok, Hi.
  - destruct (run_w c r w) as [out|p] eqn:E; [|exact Logic.I]. split; [exact I|].
    apply forallb_evgood_qgood. exact (run_w_good c r w out Hr E).
Qed.

Lemma qrun_good : forall c r q s st,
  valid_subject q = true -> valid_rname (rs_name r) = true -> qinv st ->
  qinv (fst (fst (qrun error_json c r q st s))) /\
  forallb qgood (snd (fst (qrun error_json c r q st s))) = true.
Proof.
  intros c r q s. induction s as [|a s IH]; intros st Hs Hr I.
  - cbn. split; [exact I|reflexivity].
  - cbn [qrun]. pose proof (qstep_good c r q st a Hs Hr I) as G.
    destruct (qstep error_json c r q st a) as [st' out|p].
    + destruct G as [I' G]. destruct (IH st' Hs Hr I') as [I'' G'].
      destruct (qrun error_json c r q st' s) as [[st'' out'] p']. cbn [fst snd] in *.
      split; [exact I''|]. rewrite forallb_app, G, G'. reflexivity.
    + cbn. split; [exact I|reflexivity].
Qed.

Lemma run_query_good : forall c r q d, top_ok (TQuery r q d) = true ->
  forallb qgood (run_query error_json c r q d) = true.
Proof.
  intros c r q d H. cbn [top_ok] in H. apply andb_true_iff in H. destruct H as [Hs Hr].
  destruct d as [msg| |s]; cbn [run_query].
  - cbn [forallb]. rewrite andb_true_r. apply qreply_good_msg; [exact Hs|]. apply q_error_ok.
  - cbn [forallb]. rewrite andb_true_r. apply qreply_good_msg; [exact Hs|]. reflexivity.
  - assert (I0 : qinv (QSt false [])) by reflexivity.
    destruct (qrun_good c r q s (QSt false []) Hs Hr I0) as [I G].
    destruct (qrun error_json c r q (QSt false []) s) as [[st out] p]. cbn [fst snd] in *.
    unfold qfinish. destruct (qreplied st); [exact G|].
    destruct p as [p|]; rewrite forallb_app, G; cbn [forallb andb]; rewrite andb_true_r;
      apply qreply_good_msg; try exact Hs.
    + apply q_error_ok.
    + apply events_response_ok, I.
Qed.

(* ---------- everything ---------- *)
Lemma good_conformant : forall (g : pubmsg -> bool) l,
  (forall m, g m = true -> conformant m = true) -> forallb g l = true -> forallb conformant l = true.
Proof. intros g l H. apply forallb_impl, H. Qed.

Lemma run_top_conformant : forall c t, top_ok t = true -> forallb conformant (run_top error_json c t) = true.
Proof.
  intros c t H. destruct t as [|r d|r s|r q d|a]; cbn [run_top].
  - apply (good_conformant evgood); [|apply reset_good].
    intros m Hm. apply andb_true_iff in Hm. apply Hm.
  - apply (good_conformant (rgood r)); [|apply run_request_good, H].
    intros m Hm. apply andb_true_iff in Hm. apply Hm.
  - cbn [top_ok] in H.
    apply (good_conformant evgood); [|apply run_with_good; assumption].
    intros m Hm. apply andb_true_iff in Hm. apply Hm.
  - apply (good_conformant qgood); [|apply run_query_good, H].
    intros m Hm. apply andb_true_iff in Hm. apply Hm.
  - destruct (run_svc c a) as [out|p] eqn:E; [|reflexivity].
    apply (good_conformant evgood); [|exact (run_svc_good c a out E)].
    intros m Hm. apply andb_true_iff in Hm. apply Hm.
Qed.

Lemma publications_conformant : forall c ts, forallb top_ok ts = true ->
  forallb conformant (publications c ts) = true.
Proof.
  intros c ts. unfold publications, publications_gen. induction ts as [|t ts IH]; intros H; [reflexivity|].
  cbn [forallb] in H. apply andb_true_iff in H. destruct H as [Ht Hts].
  cbn [flat_map]. rewrite forallb_app, (run_top_conformant c t Ht), (IH Hts). reflexivity.
Qed.

Theorem all_published_conformant_pf : forall c ts, forallb top_ok ts = true ->
  Forall (fun m => conformant m = true) (publications c ts).
Proof.
  intros c ts H. apply Forall_forall. intros m Hin.
  exact (proj1 (forallb_forall conformant (publications c ts)) (publications_conformant c ts H) m Hin).
Qed.

(* one statement per publishing site (used by Props/C07.v) *)
Theorem request_conformant_pf : forall c r d, top_ok (TRequest r d) = true ->
  Forall (fun m => conformant m = true) (run_request error_json c r d).
Proof.
  intros c r d H. apply Forall_forall. intros m Hin.
  exact (proj1 (forallb_forall conformant _) (run_top_conformant c (TRequest r d) H) m Hin).
Qed.
Theorem with_conformant_pf : forall c r s, top_ok (TWith r s) = true ->
  Forall (fun m => conformant m = true) (run_with c r s).
Proof.
  intros c r s H. apply Forall_forall. intros m Hin.
  exact (proj1 (forallb_forall conformant _) (run_top_conformant c (TWith r s) H) m Hin).
Qed.
Theorem query_conformant_pf : forall c r q d, top_ok (TQuery r q d) = true ->
  Forall (fun m => conformant m = true) (run_query error_json c r q d).
Proof.
  intros c r q d H. apply Forall_forall. intros m Hin.
  exact (proj1 (forallb_forall conformant _) (run_top_conformant c (TQuery r q d) H) m Hin).
Qed.
Theorem svc_conformant_pf : forall c a out, run_svc c a = EOk out ->
  Forall (fun m => conformant m = true) out.
Proof.
  intros c a out E. apply Forall_forall. intros m Hin.
  pose proof (run_svc_good c a out E) as G.
  pose proof (proj1 (forallb_forall evgood out) G m Hin) as Hm.
  apply andb_true_iff in Hm. apply Hm.
Qed.
Theorem start_conformant_pf : forall c, Forall (fun m => conformant m = true) (run_top error_json c TStart).
Proof.
  intros c. apply Forall_forall. intros m Hin.
  exact (proj1 (forallb_forall conformant _) (run_top_conformant c TStart eq_refl) m Hin).
Qed.

(* ---------- meta only on HTTP ---------- *)
Theorem meta_only_http_pf : forall c r d m h s,
  top_ok (TRequest r d) = true -> In m (run_request error_json c r d) ->
  pctx m = CReply h s -> has_meta m = true -> rhttp r = true /\ h = true.
Proof.
  intros c r d m h s H Hin Hc Hm.
  pose proof (proj1 (forallb_forall (rgood r) _) (run_request_good c r d H) m Hin) as G.
  unfold rgood in G. apply andb_true_iff in G. destruct G as [G1 G2].
  unfold ctx_of in G2. rewrite Hc in G2. apply Bool.eqb_prop in G2. subst h.
  unfold conformant in G1. rewrite Hc in G1. unfold has_meta in Hm.
  destruct (pay m) as [j|b]; [|discriminate]. destruct j as [| | | | |f]; try discriminate.
  apply andb_true_iff in G1. destruct G1 as [_ G1]. unfold response_ok in G1.
  destruct (jlookup k_meta f) as [mj|]; [|discriminate].
  repeat (apply andb_true_iff in G1; destruct G1 as [G1 ?]).
  cbn [opt_ok] in *. destruct (rhttp r); [split; reflexivity|].
  match goal with X : false && _ = true |- _ => discriminate X end.
Qed.

Theorem meta_setters_panic_pf : forall c r st n k vs, rhttp r = false ->
  (exists p, step error_json c r st (ASetStatus n) = SPanic p) /\
  (exists p, step error_json c r st (AHeader k vs) = SPanic p).
Proof.
  intros c r st n k vs H. cbn [step]. rewrite H. cbn [negb]. split; eexists; reflexivity.
Qed.

(* ---------- unmarshalable values ---------- *)
Definition rk_unmarshalable (k : rk) : bool :=
  match k with
  | KOK (HBad _) | KModel (HBad _) _ | KCollection (HBad _) _ => true
  | KError (EErr e) => match edata e with HBad _ => true | _ => false end
  | _ => false
  end.

Theorem unmarshalable_becomes_internal_error_pf : forall c r st k,
  rk_unmarshalable k = true -> replied st = false -> valid_subject (rreply r) = true ->
  exists j,
    step error_json c r st (AReply k) = SCont (RSt true (status st) (rheader st)) [reply_pub r (PJson j)] /\
    is_internal_error j = true /\
    conformant (reply_pub r (PJson j)) = true.
Proof.
  intros c r st k Hk Hrep Hs.
  assert (G : forall j, reply_json error_json st k = inl j -> is_internal_error j = true -> response_ok (rhttp r) j = true ->
              exists j,
                step error_json c r st (AReply k) = SCont (RSt true (status st) (rheader st)) [reply_pub r (PJson j)] /\
                is_internal_error j = true /\ conformant (reply_pub r (PJson j)) = true).
  { intros j E Hi Ho. exists j. cbn [step]. rewrite E, Hrep. split; [reflexivity|]. split; [exact Hi|].
    pose proof (reply_good r (PJson j) Hs Ho) as G. apply andb_true_iff in G. apply G. }
  destruct k as [v|rid|e| | |msg|msg|get call| | |v q|v q|rid]; try discriminate Hk.
  - destruct v as [|j|msg]; try discriminate Hk.
    apply (G _ eq_refl); [apply error_json_internal | apply error_json_ok; reflexivity].
  - destruct e as [|e|msg|]; try discriminate Hk. cbn [rk_unmarshalable] in Hk.
    destruct (edata e) as [|d|msg] eqn:D; try discriminate Hk.
    assert (E : reply_json error_json st (KError (EErr e)) = inl const_internal).
    { cbn [reply_json to_error]. unfold error_json. rewrite D. reflexivity. }
    apply (G _ E); [reflexivity | destruct (rhttp r); reflexivity].
  - destruct v as [|j|msg]; try discriminate Hk.
    apply (G _ eq_refl); [apply error_json_internal | apply error_json_ok; reflexivity].
  - destruct v as [|j|msg]; try discriminate Hk.
    apply (G _ eq_refl); [apply error_json_internal | apply error_json_ok; reflexivity].
Qed.

(* as a whole request: exactly one message, a conformant internalError *)
Theorem unmarshalable_request_pf : forall c r k,
  rk_unmarshalable k = true -> valid_subject (rreply r) = true ->
  exists j, run_request error_json c r (DRun [AReply k]) = [reply_pub r (PJson j)] /\
            is_internal_error j = true /\ conformant (reply_pub r (PJson j)) = true.
Proof.
  intros c r k Hk Hs.
  destruct (unmarshalable_becomes_internal_error_pf c r st0 k Hk eq_refl Hs) as [j [E [Hi Hc]]].
  exists j. split; [|split; assumption].
  unfold run_request. rewrite (valid_subject_nonnil _ Hs). cbn [handle_request run_script]. rewrite E. reflexivity.
Qed.

(* events: an unmarshalable value publishes nothing (an error is logged); this is what the code does *)
Theorem unmarshalable_event_dropped_pf : forall c r msg,
  (forall name out, run_event r (EvCustom name (HBad msg)) = EOk out -> out = []) /\
  (forall idx ap out, run_event r (EvAdd (HBad msg) idx ap) = EOk out -> out = []) /\
  (forall ap out, run_event r (EvChange None ap) = EOk out -> out = []) /\
  (forall cid out, run_svc c (STokenEvent cid (HBad msg)) = EOk out -> out = []) /\
  (forall cid tid out, run_svc c (STokenEventID cid tid (HBad msg)) = EOk out -> out = []).
Proof.
  intros c r msg. repeat split.
  - intros name out. cbn [run_event]. unfold custom_event.
    repeat match goal with |- context [if ?b then _ else _] => destruct b; try discriminate end.
    intros E. inversion E. reflexivity.
  - intros idx ap out. cbn [run_event].
    destruct (is_rt_model (rs_type r)); [discriminate|]. destruct (idx <? 0)%Z; [discriminate|].
    destruct ap; cbn [after_apply]; intros E; inversion E; reflexivity.
  - intros ap out. cbn [run_event]. destruct (is_rt_coll (rs_type r)); [discriminate|].
    destruct ap; intros E; inversion E; reflexivity.
  - intros cid out. cbn [run_svc]. destruct (valid_part cid); intros E; inversion E. reflexivity.
  - intros cid tid out. cbn [run_svc]. destruct (valid_part cid); intros E; inversion E. reflexivity.
Qed.

(* ---------- nil *Error ---------- *)
Theorem nil_error_conformant_pf : forall c r, valid_subject (rreply r) = true ->
  let m := reply_pub r (PJson (error_json None None)) in
  run_request error_json c r (DRun [AReply (KError ENilPtr)]) = [m] /\
  run_request error_json c r (DRun [AW (WPanic (PPtr None))]) = [m] /\
  conformant m = true /\ is_internal_error (error_json None None) = true.
Proof.
  intros c r Hs m. unfold run_request. rewrite (valid_subject_nonnil _ Hs).
  split; [reflexivity|]. split; [reflexivity|]. split; [|reflexivity].
  assert (G : rgood r m = true) by (apply reply_good; [exact Hs|]; destruct (rhttp r); reflexivity).
  apply andb_true_iff in G. apply G.
Qed.

(* ... and whatever meta was set before *)
Theorem nil_error_meta_conformant_pf : forall c r st, valid_subject (rreply r) = true -> inv r st -> replied st = false ->
  let m := reply_pub r (PJson (error_json None (st_meta st))) in
  step error_json c r st (AReply (KError ENilPtr)) = SCont (RSt true (status st) (rheader st)) [m] /\
  finish error_json r (st, [], Some (PPtr None)) = [m] /\
  conformant m = true /\ is_internal_error (error_json None (st_meta st)) = true.
Proof.
  intros c r st Hs I Hrep m. split; [cbn [step reply_json to_error]; rewrite Hrep; reflexivity|].
  split; [unfold finish; rewrite Hrep; reflexivity|]. split; [|apply error_json_nil_internal].
  assert (G : rgood r m = true) by (apply reply_good; [exact Hs|]; apply error_json_ok, st_meta_good, I).
  apply andb_true_iff in G. apply G.
Qed.

(* ---------- a request without reply subject ---------- *)
Theorem no_reply_subject_dropped_pf : forall c r d, rreply r = [] -> run_request error_json c r d = [].
Proof. intros c r d H. unfold run_request. rewrite H. reflexivity. Qed.
