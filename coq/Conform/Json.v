(* JSON at AST level for C07 (engine R, conformance).  encoding/json is TRUSTED:
   a handler value is represented by the AST json.Marshal produces for it (or by
   the marshal error), and a published payload by the AST the harness parses it
   into.  Strings hold decoded bytes, numbers keep their text, object members are
   kept as a list (the harness sorts them by key; nothing below relies on the
   order except [json_eqb], which is used only by the correspondence check).
   No proofs here. *)
From GoRes Require Export Base.Bytes.
From Coq Require Export ZArith.
From Coq Require Import String.
Open Scope N_scope.

Inductive json :=
| JNull
| JBool (b : bool)
| JNum (text : bytes)
| JStr (s : bytes)
| JArr (items : list json)
| JObj (members : list (bytes * json)).

Definition jfields := list (bytes * json).

Fixpoint json_eqb (a b : json) : bool :=
  match a, b with
  | JNull, JNull => true
  | JBool x, JBool y => Bool.eqb x y
  | JNum x, JNum y => beq x y
  | JStr x, JStr y => beq x y
  | JArr x, JArr y =>
      (fix go (x y : list json) : bool :=
         match x, y with
         | [], [] => true
         | a' :: x', b' :: y' => json_eqb a' b' && go x' y'
         | _, _ => false
         end) x y
  | JObj x, JObj y =>
      (fix go (x y : list (bytes * json)) : bool :=
         match x, y with
         | [], [] => true
         | (k, a') :: x', (k', b') :: y' => beq k k' && json_eqb a' b' && go x' y'
         | _, _ => false
         end) x y
  | _, _ => false
  end.

(* ---- object access (order-insensitive) ---- *)
Fixpoint jlookup (k : bytes) (m : jfields) : option json :=
  match m with
  | [] => None
  | (k', v) :: m' => if beq k k' then Some v else jlookup k m'
  end.

Fixpoint count_key (k : bytes) (m : jfields) : nat :=
  match m with
  | [] => O
  | (k', _) :: m' => if beq k k' then S (count_key k m') else count_key k m'
  end.

Definition memb (k : bytes) (ks : list bytes) : bool := existsb (beq k) ks.

(* every key of [req] occurs exactly once, every key of [opt] at most once, no other key occurs *)
Definition keys_ok (req opt : list bytes) (m : jfields) : bool :=
  forallb (fun k => Nat.eqb (count_key k m) 1) req &&
  forallb (fun k => Nat.leb (count_key k m) 1) opt &&
  forallb (fun kv => memb (fst kv) (req ++ opt)) m.

Definition is_jstr (j : json) : bool := match j with JStr _ => true | _ => false end.
Definition is_jobj (j : json) : bool := match j with JObj _ => true | _ => false end.
Definition str_arr (j : json) : bool := match j with JArr l => forallb is_jstr l | _ => false end.
Definition strs (l : list bytes) : json := JArr (map JStr l).

(* ---- number texts ---- *)
Definition is_digit (c : N) : bool := (48 <=? c) && (c <=? 57).
Definition is_uint_text (t : bytes) : bool := negb (is_nil t) && forallb is_digit t.
Definition is_int_text (t : bytes) : bool :=
  is_uint_text t || match t with 45 :: r => is_uint_text r | _ => false end.

(* strconv.FormatInt(n, 10) *)
Fixpoint dec_go (fuel : nat) (n : N) (acc : bytes) : bytes :=
  match fuel with
  | O => acc
  | S f => let acc' := (48 + n mod 10) :: acc in
           if n / 10 =? 0 then acc' else dec_go f (n / 10) acc'
  end.
Definition n_dec (n : N) : bytes := dec_go (S (N.to_nat (N.log2 n))) n [].
Definition z_dec (z : Z) : bytes :=
  match z with
  | Z0 => n_dec 0
  | Zpos p => n_dec (Npos p)
  | Zneg p => 45 :: n_dec (Npos p)
  end.

Fixpoint strip_prefix (p s : bytes) : option bytes :=
  match p, s with
  | [], _ => Some s
  | a :: p', b :: s' => if a =? b then strip_prefix p' s' else None
  | _ :: _, [] => None
  end.

(* byte-wise order of Go strings (sort.Strings, encoding/json map key order) *)
Fixpoint bytes_ltb (a b : bytes) : bool :=
  match a, b with
  | [], [] => false
  | [], _ :: _ => true
  | _ :: _, [] => false
  | x :: a', y :: b' => if x <? y then true else if y <? x then false else bytes_ltb a' b'
  end.
