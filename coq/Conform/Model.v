(* C07 - executable model of every publishing site of go-res
   (request.go, resource.go, service.go, queryevent.go, codec.go, types.go, errors.go).

   Handler-supplied Go values are represented by what json.Marshal does with them
   ([hval]: nil interface / the AST it marshals to / the marshal error text);
   encoding/json itself is trusted (AST level).  JSON objects built from Go
   structs list their members sorted by key (the harness sorts what it parses);
   the static byte-slice responses of request.go are the ASTs of the general
   path (e.g. responseNotFound = error_json ErrNotFound no-meta), so the fast
   paths `if m == nil { r.reply(responseX) }` are not distinguished here - the
   correspondence check compares the ASTs.

   Go panics are explicit ([SPanic], [EPanic], ...) and carry what recover()
   would see ([pk]).  No proofs in this file. *)
From GoRes Require Export Conform.Spec.
From Coq Require Import String.
Open Scope N_scope.

(* ---------- handler-supplied values ---------- *)
Inductive hval :=
| HNil                 (* nil interface *)
| HV (j : json)        (* marshals to j *)
| HBad (msg : bytes).  (* json.Marshal fails with err.Error() = msg *)

Record rerr := RErr { ecode : bytes; emsg : bytes; edata : hval }.   (* res.Error; edata HNil = no Data *)

Inductive errarg :=          (* an `error` handed to Error(err) *)
| ENilPtr                    (* a nil pointer of type res.Error *)
| EErr (e : rerr)            (* a *res.Error *)
| EOther (msg : bytes)       (* any other error, Error() = msg *)
| ENilIface.                 (* nil interface *)

Inductive pk :=              (* what recover() sees *)
| PPtr (e : option rerr)     (* a *res.Error (None = nil pointer) *)
| PMsg (msg : bytes).        (* error / string / other value, rendered as msg *)

Definition hnil (v : hval) : bool := match v with HNil => true | _ => false end.

(* ---------- errors.go ---------- *)
Definition internal_prefix := s2b "Internal error: ".
Definition internal_err (msg : bytes) : rerr := RErr code_internal (internal_prefix ++ msg) HNil.
Definition err_internal := RErr code_internal (s2b "Internal error") HNil.
Definition err_not_found := RErr (s2b "system.notFound") (s2b "Not found") HNil.
Definition err_method_not_found := RErr (s2b "system.methodNotFound") (s2b "Method not found") HNil.
Definition err_access_denied := RErr (s2b "system.accessDenied") (s2b "Access denied") HNil.
Definition err_invalid_params := RErr (s2b "system.invalidParams") (s2b "Invalid parameters") HNil.
Definition err_invalid_query := RErr (s2b "system.invalidQuery") (s2b "Invalid query") HNil.

(* ToError; None = a nil *Error comes back.  For a nil interface InternalError(nil) calls errString, which
   recovers the nil dereference of err.Error() *)
Definition to_error (e : errarg) : option rerr :=
  match e with
  | ENilPtr => None
  | EErr e => Some e
  | EOther msg => Some (internal_err msg)
  | ENilIface => Some (internal_err (s2b "panic in Error method"))
  end.
Definition pk_err (p : pk) : option rerr :=
  match p with
  | PPtr e => e
  | PMsg m => Some (internal_err m)
  end.

(* ---------- types.go ---------- *)
Fixpoint is_valid_rid_go (start : bool) (s : bytes) : bool :=
  match s with
  | [] => negb start
  | c :: s' =>
      if c =? qmark then negb start
      else if (c <? 33) || (126 <? c) || (c =? star) || (c =? gt) then false
      else if c =? dot then (if start then false else is_valid_rid_go true s')
      else is_valid_rid_go false s'
  end.
Definition is_valid_rid (s : bytes) : bool := is_valid_rid_go true s.
Definition ref_json (rid : bytes) : json := JObj [(k_rid, JStr rid)].

(* mux.go isValidPath restricted to non-empty arguments: a valid pattern without wildcard / placeholder *)
Definition path_tok_ok (t : bytes) : bool :=
  match t with
  | [] => false
  | c :: _ => negb (c =? dollar) && forallb part_char_ok t
  end.
Definition is_valid_path_ne (s : bytes) : bool := forallb path_tok_ok (tokens s).

(* ---------- codec.go ---------- *)
Definition header := list (bytes * list bytes).   (* http.Header, keys sorted, values non-nil slices *)

Fixpoint hset (k : bytes) (vs : list bytes) (h : header) : header :=
  match h with
  | [] => [(k, vs)]
  | (k', vs') :: h' =>
      if beq k k' then (k, vs) :: h'
      else if bytes_ltb k k' then (k, vs) :: h
      else (k', vs') :: hset k vs h'
  end.

(* Request.meta() marshalled: None = nil *metaObject *)
Definition meta_json (status : Z) (h : header) : option json :=
  if is_nil h && (status =? 0)%Z then None
  else Some (JObj ((if is_nil h then [] else [(k_header, JObj (map (fun kv => (fst kv, strs (snd kv))) h))]) ++
                   (if (status =? 0)%Z then [] else [(k_status, JNum (z_dec status))]))).
Definition meta_fields (m : option json) : jfields :=
  match m with None => [] | Some j => [(k_meta, j)] end.

Definition const_internal : json :=     (* responseInternalError *)
  JObj [(k_error, JObj [(k_code, JStr code_internal); (k_message, JStr (s2b "Internal error"))])].

Definition err_obj (e : rerr) (d : jfields) : json :=
  JObj ([(k_code, JStr (ecode e))] ++ d ++ [(k_message, JStr (emsg e))]).

(* Request.error: json.Marshal(errorResponse{Error: e, Meta: m}) with its fallback *)
Definition error_json (e : option rerr) (m : option json) : json :=
  let e := match e with None => err_internal | Some e => e end in    (* the nil *Error fix *)
  match edata e with
  | HBad _ => const_internal
  | HNil => JObj ((k_error, err_obj e []) :: meta_fields m)
  | HV d => JObj ((k_error, err_obj e [(k_data, d)]) :: meta_fields m)
  end.
(* the code before the fix: a nil *Error is marshalled as null *)
Definition error_json_v0 (e : option rerr) (m : option json) : json :=
  match e with
  | None => JObj ((k_error, JNull) :: meta_fields m)
  | Some _ => error_json e m
  end.

(* Request.success, given the error builder in use *)
Definition success_json (ej : option rerr -> option json -> json) (v : hval) (m : option json) : json :=
  match v with
  | HNil => JObj (meta_fields m ++ [(k_result, JNull)])
  | HV j => JObj (meta_fields m ++ [(k_result, j)])
  | HBad msg => ej (Some (internal_err msg)) None
  end.

(* a struct with one interface field and an optional query string *)
Definition wrap_q (key : bytes) (v : hval) (q : bytes) : hval :=
  match v with
  | HBad msg => HBad msg
  | HNil => HV (JObj ((key, JNull) :: (if is_nil q then [] else [(s2b "query", JStr q)])))
  | HV j => HV (JObj ((key, j) :: (if is_nil q then [] else [(s2b "query", JStr q)])))
  end.
Definition access_json (get : bool) (call : bytes) : json :=
  JObj ((if is_nil call then [] else [(s2b "call", JStr call)]) ++ (if get then [(s2b "get", JBool true)] else [])).

(* ---------- service configuration as far as publishing depends on it ---------- *)
Record cfg := Cfg {
  svc_name : bytes;
  set_res : option (list bytes);   (* SetOwnedResources; None = nil *)
  set_acc : option (list bytes);
  has_rh : bool;                   (* some handler has Get / Call / Auth / New *)
  has_ah : bool                    (* some handler has Access *)
}.
Definition default_own (name : bytes) : list bytes :=
  if is_nil name then [[gt]] else [name; name ++ [dot; gt]].
Definition eff_res (c : cfg) : list bytes :=
  match set_res c with Some l => l | None => if has_rh c then default_own (svc_name c) else [] end.
Definition eff_acc (c : cfg) : list bytes :=
  match set_acc c with Some l => l | None => if has_ah c then default_own (svc_name c) else [] end.

(* ---------- service.go: events ---------- *)
Definition s_system_reset := s2b "system.reset".
Definition s_system_token_reset := s2b "system.tokenReset".
Definition conn_subject (cid : bytes) : bytes := s2b "conn." ++ cid ++ s2b ".token".
Definition ev_subject (rn name : bytes) : bytes := s2b "event." ++ rn ++ dot :: name.

Definition ev (s : bytes) (p : payload) : pubmsg := Pub s p CEvent.
(* Service.event(subj, data) for an interface value: nil => rawEvent(nil); marshal error => nothing (logged) *)
Definition publish_event (s : bytes) (v : hval) : list pubmsg :=
  match v with
  | HNil => [ev s (PRaw [])]
  | HV j => [ev s (PJson j)]
  | HBad _ => []
  end.

(* Service.reset *)
Definition reset_msgs (rs acs : list bytes) : list pubmsg :=
  if is_nil rs && is_nil acs then []
  else [ev s_system_reset (PJson (JObj ((if is_nil acs then [] else [(k_access, strs acs)]) ++
                                          (if is_nil rs then [] else [(k_resources, strs rs)]))))].

Definition token_json (tid : bytes) (j : json) : json :=
  JObj ((if is_nil tid then [] else [(k_tid, JStr tid)]) ++ [(k_token, j)]).
Definition token_msgs (cid tid : bytes) (v : hval) : list pubmsg :=
  match v with
  | HNil => [ev (conn_subject cid) (PJson (token_json tid JNull))]
  | HV j => [ev (conn_subject cid) (PJson (token_json tid j))]
  | HBad _ => []
  end.

Inductive eres := EOk (out : list pubmsg) | EPanic (p : pk).

Inductive svcact :=
| SReset (rs acs : list bytes)
| SResetAll
| STokenEvent (cid : bytes) (v : hval)
| STokenEventID (cid tid : bytes) (v : hval)
| STokenReset (subject : bytes) (tids : list bytes).

(* the service is started *)
Definition run_svc (c : cfg) (a : svcact) : eres :=
  match a with
  | SReset rs acs => EOk (reset_msgs rs acs)
  | SResetAll => EOk (reset_msgs (eff_res c) (eff_acc c))
  | STokenEvent cid v =>
      if valid_part cid then EOk (token_msgs cid [] v) else EPanic (PMsg (s2b "res: invalid connection ID"))
  | STokenEventID cid tid v =>
      if valid_part cid then EOk (token_msgs cid tid v) else EPanic (PMsg (s2b "res: invalid connection ID"))
  | STokenReset subject tids =>
      if is_nil subject || negb (is_valid_path_ne subject) then EPanic (PMsg (s2b "res: invalid token reset subject"))
      else if is_nil tids then EOk []
      else EOk [ev s_system_token_reset (PJson (JObj [(k_subject, JStr subject); (k_tids, strs tids)]))]
  end.

(* ---------- resource.go: events ---------- *)
Inductive restype := RTUnset | RTModel | RTCollection.
Record res := Res { rs_name : bytes; rs_type : restype }.

(* outcome of an Apply* handler *)
Inductive apply :=
| ApAbsent               (* no handler registered *)
| ApOk
| ApNop                  (* ApplyChange returned a non-nil empty map: nothing changed *)
| ApFail (p : pk).       (* returned an error; the event method panics with it *)

Inductive evact :=
| EvCustom (name : bytes) (v : hval)
| EvChange (fields : option jfields) (ap : apply)   (* None = a value cannot be marshalled; Some [] = empty map *)
| EvAdd (v : hval) (idx : Z) (ap : apply)
| EvRemove (idx : Z) (ap : apply)
| EvCreate (ap : apply)
| EvDelete (ap : apply)
| EvReaccess
| EvReset
| EvQuery (inbox : bytes) (sub_ok : bool).

Definition is_rt_model (t : restype) := match t with RTModel => true | _ => false end.
Definition is_rt_coll (t : restype) := match t with RTCollection => true | _ => false end.
Definition idx_json (i : Z) : json := JNum (z_dec i).

Definition after_apply (ap : apply) (k : eres) : eres :=
  match ap with ApFail p => EPanic p | _ => k end.

(* resource.go Event(): reserved names panic.  [create_reserved] = the name "create" is rejected too
   (current code); false = the code before that fix, which published a create event with a payload *)
Definition custom_event (create_reserved : bool) (rn name : bytes) (v : hval) : eres :=
  if beq name n_change then EPanic (PMsg (s2b "res: use ChangeEvent to send change events"))
  else if create_reserved && beq name n_create then EPanic (PMsg (s2b "res: use CreateEvent to send create events"))
  else if beq name n_delete then EPanic (PMsg (s2b "res: ""delete"" is a reserved event name"))
  else if beq name n_add then EPanic (PMsg (s2b "res: use AddEvent to send add events"))
  else if beq name n_remove then EPanic (PMsg (s2b "res: use RemoveEvent to send remove events"))
  else if beq name n_patch then EPanic (PMsg (s2b "res: ""patch"" is a reserved event name"))
  else if beq name n_reaccess then EPanic (PMsg (s2b "res: use ReaccessEvent to send a reaccess event"))
  else if beq name n_unsubscribe then EPanic (PMsg (s2b "res: ""unsubscribe"" is a reserved event name"))
  else if beq name n_query then EPanic (PMsg (s2b "res: ""query"" is a reserved event name"))
  else if negb (valid_part name) then EPanic (PMsg (s2b "res: invalid event name"))
  else EOk (publish_event (ev_subject rn name) v).

Definition run_event (r : res) (e : evact) : eres :=
  let rn := rs_name r in
  match e with
  | EvCustom name v => custom_event true rn name v
  | EvChange fields ap =>
      if is_rt_coll (rs_type r) then EPanic (PMsg (s2b "res: change event not allowed on Collections"))
      else match fields with
           | Some [] => EOk []
           | _ =>
               match ap with
               | ApFail p => EPanic p
               | ApNop => EOk []
               | _ => EOk (match fields with
                           | Some f => [ev (ev_subject rn n_change) (PJson (JObj [(k_values, JObj f)]))]
                           | None => []
                           end)
               end
           end
  | EvAdd v idx ap =>
      if is_rt_model (rs_type r) then EPanic (PMsg (s2b "res: add event not allowed on models"))
      else if (idx <? 0)%Z then EPanic (PMsg (s2b "res: add event idx less than zero"))
      else after_apply ap (EOk (match v with
                                | HBad _ => []
                                | HNil => [ev (ev_subject rn n_add) (PJson (JObj [(k_idx, idx_json idx); (k_value, JNull)]))]
                                | HV j => [ev (ev_subject rn n_add) (PJson (JObj [(k_idx, idx_json idx); (k_value, j)]))]
                                end))
  | EvRemove idx ap =>
      if is_rt_model (rs_type r) then EPanic (PMsg (s2b "res: remove event not allowed on models"))
      else if (idx <? 0)%Z then EPanic (PMsg (s2b "res: remove event idx less than zero"))
      else after_apply ap (EOk [ev (ev_subject rn n_remove) (PJson (JObj [(k_idx, idx_json idx)]))])
  | EvCreate ap => after_apply ap (EOk [ev (ev_subject rn n_create) (PRaw [])])
  | EvDelete ap => after_apply ap (EOk [ev (ev_subject rn n_delete) (PRaw [])])
  | EvReaccess => EOk [ev (ev_subject rn n_reaccess) (PRaw [])]
  | EvReset => EOk (reset_msgs [rn] [])
  | EvQuery inbox sub_ok =>
      if sub_ok then EOk [ev (ev_subject rn n_query) (PJson (JObj [(k_subject, JStr inbox)]))] else EOk []
  end.

(* what code holding a Resource (a With callback, or any handler) can do *)
Inductive waction := WEvent (e : evact) | WSvc (s : svcact) | WPanic (p : pk).
Definition run_w (c : cfg) (r : res) (a : waction) : eres :=
  match a with
  | WEvent e => run_event r e
  | WSvc s => run_svc c s
  | WPanic p => EPanic p
  end.

(* Service.With callback: runs until the first panic (which the caller has to recover) *)
Fixpoint run_with (c : cfg) (r : res) (s : list waction) : list pubmsg :=
  match s with
  | [] => []
  | a :: s' => match run_w c r a with
               | EOk out => out ++ run_with c r s'
               | EPanic _ => []
               end
  end.

(* ---------- request.go ---------- *)
Record req := Req { rres : res; rreply : bytes; rcid : bytes; rhttp : bool }.
Record rst := RSt { replied : bool; status : Z; rheader : header }.
Definition st0 := RSt false 0%Z [].

Inductive rk :=
| KOK (v : hval)
| KResource (rid : bytes)
| KError (e : errarg)
| KNotFound
| KMethodNotFound
| KInvalidParams (msg : bytes)
| KInvalidQuery (msg : bytes)
| KAccess (get : bool) (call : bytes)
| KAccessDenied
| KAccessGranted
| KModel (v : hval) (q : bytes)
| KCollection (v : hval) (q : bytes)
| KNew (rid : bytes).

Inductive action :=
| AReply (k : rk)
| ATimeout (d : Z)                       (* time.Duration in ns *)
| ASetStatus (n : Z)
| AHeader (k : bytes) (vs : list bytes)  (* r.ResponseHeader()[k] = vs *)
| ATokenEvent (v : hval)
| AW (w : waction)
| ASetStatusIfHTTP (n : Z)                      (* if r.IsHTTP() { r.SetResponseStatus(n) } *)
| AHeaderIfHTTP (k : bytes) (vs : list bytes).  (* if r.IsHTTP() { r.ResponseHeader()[k] = vs } *)

Definition reply_pub (r : req) (p : payload) : pubmsg := Pub (rreply r) p (CReply (rhttp r) (rreply r)).
Definition st_meta (st : rst) : option json := meta_json (status st) (rheader st).

Definition timeout_bytes (d : Z) : bytes := timeout_prefix ++ n_dec (Z.to_N (d / 1000000)) ++ [34].

Section WithErrorBuilder.
(* the error-response builder: [error_json] (current code) or [error_json_v0] (before the nil fix) *)
Variable ej : option rerr -> option json -> json.

(* the payload a reply method sends when no reply was sent yet, or its panic *)
Definition reply_json (st : rst) (k : rk) : json + pk :=
  let m := st_meta st in
  match k with
  | KOK v => inl (success_json ej v m)
  | KResource rid =>
      if is_valid_rid rid then inl (JObj (meta_fields m ++ [(k_resource, ref_json rid)]))
      else inr (PMsg (s2b "res: invalid resource ID: " ++ rid))
  | KError e => inl (ej (to_error e) m)
  | KNotFound => inl (ej (Some err_not_found) m)
  | KMethodNotFound => inl (ej (Some err_method_not_found) m)
  | KInvalidParams msg =>
      inl (ej (Some (if is_nil msg then err_invalid_params else RErr (s2b "system.invalidParams") msg HNil)) m)
  | KInvalidQuery msg =>
      inl (ej (Some (if is_nil msg then err_invalid_query else RErr (s2b "system.invalidQuery") msg HNil)) m)
  | KAccess get call =>
      if negb get && is_nil call then inl (ej (Some err_access_denied) m)
      else inl (success_json ej (HV (access_json get call)) m)
  | KAccessDenied => inl (ej (Some err_access_denied) m)
  | KAccessGranted => inl (success_json ej (HV (access_json true [star])) m)
  | KModel v q => inl (success_json ej (wrap_q k_model v q) None)
  | KCollection v q => inl (success_json ej (wrap_q k_collection v q) None)
  | KNew rid =>
      if is_valid_rid rid then inl (success_json ej (HV (ref_json rid)) None)
      else inr (PMsg (s2b "res: invalid reference RID: " ++ rid))
  end.

Inductive sres := SCont (st : rst) (out : list pubmsg) | SPanic (p : pk).

Definition step (c : cfg) (r : req) (st : rst) (a : action) : sres :=
  match a with
  | AReply k =>
      match reply_json st k with
      | inr p => SPanic p
      | inl j =>
          if replied st then SPanic (PMsg (s2b "res: response already sent on request"))
          else SCont (RSt true (status st) (rheader st)) [reply_pub r (PJson j)]
      end
  | ATimeout d =>
      if (d <? 0)%Z then SPanic (PMsg (s2b "res: negative timeout duration"))
      else SCont st [reply_pub r (PRaw (timeout_bytes d))]
  | ASetStatus n =>
      if negb (rhttp r) then SPanic (PMsg (s2b "call to SetResponseStatus when IsHTTP is false"))
      else if replied st then SPanic (PMsg (s2b "call to SetResponseStatus after reply"))
      else SCont (RSt (replied st) n (rheader st)) []
  | AHeader k vs =>
      if negb (rhttp r) then SPanic (PMsg (s2b "call to ResponseHeader when IsHTTP is false"))
      else if replied st then SPanic (PMsg (s2b "call to ResponseHeader after reply"))
      else SCont (RSt (replied st) (status st) (hset k vs (rheader st))) []
  | ATokenEvent v => SCont st (token_msgs (rcid r) [] v)
  | AW w => match run_w c (rres r) w with
            | EOk out => SCont st out
            | EPanic p => SPanic p
            end
  | ASetStatusIfHTTP n =>
      if negb (rhttp r) then SCont st []
      else if replied st then SPanic (PMsg (s2b "call to SetResponseStatus after reply"))
      else SCont (RSt (replied st) n (rheader st)) []
  | AHeaderIfHTTP k vs =>
      if negb (rhttp r) then SCont st []
      else if replied st then SPanic (PMsg (s2b "call to ResponseHeader after reply"))
      else SCont (RSt (replied st) (status st) (hset k vs (rheader st))) []
  end.

Fixpoint run_script (c : cfg) (r : req) (st : rst) (s : list action) : rst * list pubmsg * option pk :=
  match s with
  | [] => (st, [], None)
  | a :: s' =>
      match step c r st a with
      | SPanic p => (st, [], Some p)
      | SCont st' out =>
          let '(st'', out', p) := run_script c r st' s' in (st'', out ++ out', p)
      end
  end.

Definition missing_response : json :=
  JObj [(k_error, JObj [(k_code, JStr code_internal); (k_message, JStr (s2b "Internal error: missing response"))])].

(* the deferred recover() and the missing-response fallback of executeHandler *)
Definition finish (r : req) (x : rst * list pubmsg * option pk) : list pubmsg :=
  let '(st, out, p) := x in
  if replied st then out
  else match p with
       | Some p => out ++ [reply_pub r (PJson (ej (pk_err p) (st_meta st)))]
       | None => out ++ [reply_pub r (PJson missing_response)]
       end.

(* what handleRequest / processRequest / executeHandler do with an incoming request *)
Inductive dispatch :=
| DNoMatch                    (* no handler pattern matches the resource name *)
| DBadJson (msg : bytes)      (* payload is not a JSON request object; err.Error() = msg *)
| DNoGet                      (* get request, no Get handler *)
| DNoMethod                   (* call / auth request, no handler for the method *)
| DNoAccess                   (* access request, no Access handler: left to other services *)
| DRun (script : list action).

Definition handle_request (c : cfg) (r : req) (d : dispatch) : list pubmsg :=
  match d with
  | DNoMatch => [reply_pub r (PJson (error_json (Some err_not_found) None))]
  | DBadJson msg => [reply_pub r (PJson (ej (Some (internal_err msg)) None))]
  | DNoGet => [reply_pub r (PJson (error_json (Some err_not_found) None))]
  | DNoMethod => [reply_pub r (PJson (error_json (Some err_method_not_found) None))]
  | DNoAccess => []
  | DRun s => finish r (run_script c r st0 s)
  end.

(* Service.handleRequest: a request delivered WITHOUT a reply subject is dropped with an error log
   before anything else happens - no handler runs, nothing is published *)
Definition run_request (c : cfg) (r : req) (d : dispatch) : list pubmsg :=
  if is_nil (rreply r) then [] else handle_request c r d.

(* ---------- queryevent.go ---------- *)
Inductive qaction :=
| QModel (v : hval)
| QCollection (v : hval)
| QNotFound
| QInvalidQuery (msg : bytes)
| QError (e : errarg)
| QTimeout (d : Z)
| QChange (fields : option jfields)
| QAdd (v : hval) (idx : Z)
| QRemove (idx : Z)
| QW (w : waction).

(* qevents: one entry per accumulated resEvent; None = its data cannot be marshalled *)
Record qst := QSt { qreplied : bool; qevents : list (option json) }.
Definition qpub (qreply : bytes) (p : payload) : pubmsg := Pub qreply p (CQueryReply qreply).
Definition qevent_json (name : bytes) (d : json) : json := JObj [(k_data, d); (k_event, JStr name)].

Inductive qres := QCont (st : qst) (out : list pubmsg) | QPanic (p : pk).

(* queryRequest.reply: a second reply is logged and dropped *)
Definition qreply_with (qreply : bytes) (st : qst) (j : json) : qres :=
  if qreplied st then QCont st [] else QCont (QSt true (qevents st)) [qpub qreply (PJson j)].
Definition add_qevent (st : qst) (e : option json) : qres := QCont (QSt (qreplied st) (qevents st ++ [e])) [].

Definition qstep (c : cfg) (r : res) (qreply : bytes) (st : qst) (a : qaction) : qres :=
  match a with
  | QModel v =>
      if is_rt_coll (rs_type r) then QPanic (PMsg (s2b "res: model response not allowed on query collections"))
      else qreply_with qreply st (success_json ej (wrap_q k_model v []) None)
  | QCollection v =>
      if is_rt_model (rs_type r) then QPanic (PMsg (s2b "res: collection response not allowed on query models"))
      else qreply_with qreply st (success_json ej (wrap_q k_collection v []) None)
  | QNotFound => qreply_with qreply st (error_json (Some err_not_found) None)
  | QInvalidQuery msg =>
      qreply_with qreply st (ej (Some (if is_nil msg then err_invalid_query else RErr (s2b "system.invalidQuery") msg HNil)) None)
  | QError e => qreply_with qreply st (ej (to_error e) None)
  | QTimeout d =>
      if (d <? 0)%Z then QPanic (PMsg (s2b "res: negative timeout duration"))
      else QCont st [qpub qreply (PRaw (timeout_bytes d))]
  | QChange fields =>
      if is_rt_coll (rs_type r) then QPanic (PMsg (s2b "res: change event not allowed on query collections"))
      else match fields with
           | Some [] => QCont st []
           | Some f => add_qevent st (Some (qevent_json n_change (JObj [(k_values, JObj f)])))
           | None => add_qevent st None
           end
  | QAdd v idx =>
      if is_rt_model (rs_type r) then QPanic (PMsg (s2b "res: add event not allowed on query models"))
      else if (idx <? 0)%Z then QPanic (PMsg (s2b "res: add event idx less than zero"))
      else add_qevent st (match v with
                          | HBad _ => None
                          | HNil => Some (qevent_json n_add (JObj [(k_idx, idx_json idx); (k_value, JNull)]))
                          | HV j => Some (qevent_json n_add (JObj [(k_idx, idx_json idx); (k_value, j)]))
                          end)
  | QRemove idx =>
      if is_rt_model (rs_type r) then QPanic (PMsg (s2b "res: remove event not allowed on query models"))
      else if (idx <? 0)%Z then QPanic (PMsg (s2b "res: remove event idx less than zero"))
      else add_qevent st (Some (qevent_json n_remove (JObj [(k_idx, idx_json idx)])))
  | QW w => match run_w c r w with
            | EOk out => QCont st out
            | EPanic p => QPanic p
            end
  end.

Fixpoint qrun (c : cfg) (r : res) (qreply : bytes) (st : qst) (s : list qaction) : qst * list pubmsg * option pk :=
  match s with
  | [] => (st, [], None)
  | a :: s' =>
      match qstep c r qreply st a with
      | QPanic p => (st, [], Some p)
      | QCont st' out =>
          let '(st'', out', p) := qrun c r qreply st' s' in (st'', out ++ out', p)
      end
  end.

Fixpoint all_some (l : list (option json)) : option (list json) :=
  match l with
  | [] => Some []
  | None :: _ => None
  | Some j :: l' => match all_some l' with Some r => Some (j :: r) | None => None end
  end.
Definition events_response (evs : list (option json)) : json :=
  match all_some evs with
  | Some l => JObj [(k_result, JObj [(k_events, JArr l)])]
  | None => const_internal
  end.

Definition qfinish (qreply : bytes) (x : qst * list pubmsg * option pk) : list pubmsg :=
  let '(st, out, p) := x in
  if qreplied st then out
  else match p with
       | Some p => out ++ [qpub qreply (PJson (ej (pk_err p) None))]
       | None => out ++ [qpub qreply (PJson (events_response (qevents st)))]
       end.

Definition missing_query : json :=
  JObj [(k_error, JObj [(k_code, JStr code_internal); (k_message, JStr (s2b "Internal error: missing query"))])].

Inductive qdispatch :=
| QBadJson (msg : bytes)
| QMissingQuery
| QRun (script : list qaction).

Definition run_query (c : cfg) (r : res) (qreply : bytes) (d : qdispatch) : list pubmsg :=
  match d with
  | QBadJson msg => [qpub qreply (PJson (ej (Some (internal_err msg)) None))]
  | QMissingQuery => [qpub qreply (PJson missing_query)]
  | QRun s => qfinish qreply (qrun c r qreply (QSt false []) s)
  end.

(* ---------- everything that makes the service publish ---------- *)
Inductive top :=
| TStart                                               (* Serve: the initial ResetAll *)
| TRequest (r : req) (d : dispatch)
| TWith (r : res) (s : list waction)
| TQuery (r : res) (qreply : bytes) (d : qdispatch)
| TSvc (a : svcact).

Definition run_top (c : cfg) (t : top) : list pubmsg :=
  match t with
  | TStart => reset_msgs (eff_res c) (eff_acc c)
  | TRequest r d => run_request c r d
  | TWith r s => run_with c r s
  | TQuery r q d => run_query c r q d
  | TSvc a => match run_svc c a with EOk out => out | EPanic _ => [] end
  end.

Definition publications_gen (c : cfg) (ts : list top) : list pubmsg := flat_map (run_top c) ts.
End WithErrorBuilder.

Definition publications := publications_gen error_json.        (* the code as it is *)
Definition publications_v0 := publications_gen error_json_v0.  (* before the nil *Error fix *)

(* ---------- well-formedness of the environment (hypotheses of the theorem) ---------- *)
Definition action_ok (r : req) (a : action) : bool :=
  match a with
  | ATokenEvent _ => valid_part (rcid r)      (* the gateway sent a protocol-conformant cid *)
  | _ => true
  end.
Definition top_ok (t : top) : bool :=
  match t with
  | TStart => true
  | TRequest r d =>
      is_nil (rreply r) ||      (* no reply subject: dropped *)
      valid_subject (rreply r) && valid_rname (rs_name (rres r)) &&
      match d with DRun s => forallb (action_ok r) s | _ => true end
  | TWith r s => valid_rname (rs_name r)
  | TQuery r q d => valid_subject q && valid_rname (rs_name r)
  | TSvc _ => true
  end.
