(* C07 - basic lemmas: byte strings, tokens, decimal printing, subjects, the RID scanner. *)
From GoRes Require Import Conform.Model.
From Coq Require Import String.
Open Scope N_scope.

(* ---------- lists / bytes ---------- *)
Lemma beq_refl : forall a, beq a a = true.
Proof. induction a as [|x a IH]; cbn [beq]; [reflexivity|]. rewrite N.eqb_refl, IH. reflexivity. Qed.

Lemma is_nil_rev : forall {A} (l : list A), is_nil (rev l) = is_nil l.
Proof.
  intros A l. destruct l as [|x l]; [reflexivity|]. cbn [rev is_nil].
  destruct (rev l); reflexivity.
Qed.

Lemma forallb_rev : forall {A} (f : A -> bool) l, forallb f (rev l) = forallb f l.
Proof.
  intros A f l. induction l as [|x l IH]; [reflexivity|]. cbn [rev forallb].
  rewrite forallb_app, IH. cbn [forallb]. rewrite andb_true_r. apply andb_comm.
Qed.

Lemma forallb_impl : forall {A} (f g : A -> bool) l,
  (forall x, f x = true -> g x = true) -> forallb f l = true -> forallb g l = true.
Proof.
  intros A f g l H. induction l as [|x l IH]; [reflexivity|]. cbn [forallb]. intros E.
  apply andb_true_iff in E. destruct E as [E1 E2]. rewrite (H _ E1), (IH E2). reflexivity.
Qed.

Lemma strip_prefix_app : forall p r, strip_prefix p (p ++ r) = Some r.
Proof.
  induction p as [|a p IH]; intros r; [destruct r; reflexivity|].
  cbn [app strip_prefix]. rewrite N.eqb_refl. apply IH.
Qed.

(* ---------- tokens ---------- *)
Lemma tokens_go_app_dot : forall a cur b,
  tokens_go cur (a ++ dot :: b) = tokens_go cur a ++ tokens_go [] b.
Proof.
  induction a as [|c a IH]; intros cur b.
  - cbn [app tokens_go]. rewrite N.eqb_refl. reflexivity.
  - cbn [app tokens_go]. destruct (c =? dot); [rewrite IH; reflexivity | apply IH].
Qed.

Definition nodot (c : N) : bool := negb (c =? dot).

Lemma tokens_go_nodot : forall s cur, forallb nodot s = true -> tokens_go cur s = [rev cur ++ s].
Proof.
  induction s as [|c s IH]; intros cur H.
  - cbn [tokens_go]. rewrite app_nil_r. reflexivity.
  - cbn [forallb] in H. apply andb_true_iff in H. destruct H as [H1 H2].
    unfold nodot in H1. apply negb_true_iff in H1. cbn [tokens_go]. rewrite H1.
    rewrite (IH (c :: cur) H2). cbn [rev]. rewrite <- app_assoc. reflexivity.
Qed.

Lemma tokens_go_nonnil : forall s cur, is_nil (tokens_go cur s) = false.
Proof.
  induction s as [|c s IH]; intros cur; cbn [tokens_go]; [reflexivity|].
  destruct (c =? dot); [reflexivity | apply IH].
Qed.

Lemma tokens_app_dot : forall a b, tokens (a ++ dot :: b) = tokens a ++ tokens b.
Proof. intros. apply tokens_go_app_dot. Qed.
Lemma tokens_nodot : forall s, forallb nodot s = true -> tokens s = [s].
Proof. intros s H. unfold tokens. rewrite (tokens_go_nodot s [] H). reflexivity. Qed.

(* ---------- characters / parts ---------- *)
Lemma part_char_nodot : forall c, part_char_ok c = true -> nodot c = true.
Proof.
  intros c H. unfold part_char_ok in H. apply andb_true_iff in H. destruct H as [_ H]. exact H.
Qed.
Lemma part_char_subj : forall c, part_char_ok c = true -> subj_char_ok c = true.
Proof.
  intros c H. unfold part_char_ok in H. unfold subj_char_ok.
  repeat (apply andb_true_iff in H; destruct H as [H ?]).
  rewrite H, H2, H1. cbn [andb].
  destruct (N.eqb_spec c 127) as [->|]; [discriminate|reflexivity].
Qed.
Lemma valid_part_nodot : forall t, valid_part t = true -> forallb nodot t = true.
Proof.
  intros t H. unfold valid_part in H. apply andb_true_iff in H. destruct H as [_ H].
  exact (forallb_impl _ _ _ part_char_nodot H).
Qed.
Definition tok_ok (t : bytes) : bool := negb (is_nil t) && forallb subj_char_ok t.
Lemma valid_part_tok_ok : forall t, valid_part t = true -> tok_ok t = true.
Proof.
  intros t H. unfold valid_part in H. unfold tok_ok. apply andb_true_iff in H. destruct H as [H1 H2].
  rewrite H1, (forallb_impl _ _ _ part_char_subj H2). reflexivity.
Qed.
Lemma tokens_valid_part : forall t, valid_part t = true -> tokens t = [t].
Proof. intros t H. apply tokens_nodot, valid_part_nodot, H. Qed.

Lemma valid_rname_subject_toks : forall rn, valid_rname rn = true -> forallb tok_ok (tokens rn) = true.
Proof. intros rn H. exact (forallb_impl _ _ _ valid_part_tok_ok H). Qed.

(* ---------- decimal printing ---------- *)
Lemma digit_ok : forall n, is_digit (48 + n mod 10) = true.
Proof.
  intros n. unfold is_digit. assert (H : n mod 10 < 10) by (apply N.mod_lt; discriminate).
  generalize dependent (n mod 10). intros m H.
  apply andb_true_iff; split; apply N.leb_le; lia.
Qed.
Lemma dec_go_digits : forall f n acc, forallb is_digit acc = true -> forallb is_digit (dec_go f n acc) = true.
Proof.
  induction f as [|f IH]; intros n acc H; cbn [dec_go]; [exact H|].
  assert (H' : forallb is_digit ((48 + n mod 10) :: acc) = true)
    by (cbn [forallb]; rewrite digit_ok, H; reflexivity).
  destruct (n / 10 =? 0); [exact H' | apply IH, H'].
Qed.
Lemma dec_go_nonnil : forall f n acc, is_nil acc = false -> is_nil (dec_go f n acc) = false.
Proof.
  induction f as [|f IH]; intros n acc H; cbn [dec_go]; [exact H|].
  destruct (n / 10 =? 0); [reflexivity | apply IH; reflexivity].
Qed.
Lemma n_dec_uint : forall n, is_uint_text (n_dec n) = true.
Proof.
  intros n. unfold is_uint_text, n_dec. apply andb_true_iff; split.
  - apply negb_true_iff. cbn [dec_go]. destruct (n / 10 =? 0); [reflexivity | apply dec_go_nonnil; reflexivity].
  - apply dec_go_digits. reflexivity.
Qed.
Lemma z_dec_int : forall z, is_int_text (z_dec z) = true.
Proof.
  intros z. unfold is_int_text. destruct z as [|p|p]; cbn [z_dec].
  - rewrite n_dec_uint. reflexivity.
  - rewrite n_dec_uint. reflexivity.
  - rewrite n_dec_uint. apply orb_true_r.
Qed.
Lemma z_dec_uint : forall z, (z <? 0)%Z = false -> is_uint_text (z_dec z) = true.
Proof.
  intros z H. destruct z as [|p|p]; cbn [z_dec]; try apply n_dec_uint. discriminate H.
Qed.

Lemma is_uint_text_rev : forall d, is_uint_text (rev d) = is_uint_text d.
Proof. intros d. unfold is_uint_text. rewrite is_nil_rev, forallb_rev. reflexivity. Qed.

Lemma timeout_pre_response : forall d, is_pre_response (timeout_bytes d) = true.
Proof.
  intros d. unfold is_pre_response, timeout_bytes. rewrite strip_prefix_app, rev_unit.
  rewrite is_uint_text_rev. apply n_dec_uint.
Qed.

(* ---------- types.go IsValidRID = the token-wise definition ---------- *)
Lemma tokens_go_bad : forall s cur,
  forallb part_char_ok cur = false -> forallb valid_part (tokens_go cur s) = false.
Proof.
  induction s as [|c s IH]; intros cur H.
  - cbn [tokens_go forallb]. unfold valid_part. rewrite forallb_rev, H, andb_false_r. reflexivity.
  - cbn [tokens_go]. destruct (c =? dot).
    + cbn [forallb]. unfold valid_part at 1. rewrite forallb_rev, H, andb_false_r. reflexivity.
    + apply IH. cbn [forallb]. rewrite H. apply andb_false_r.
Qed.

Lemma valid_part_rev : forall cur, forallb part_char_ok cur = true -> valid_part (rev cur) = negb (is_nil cur).
Proof. intros cur H. unfold valid_part. rewrite is_nil_rev, forallb_rev, H. apply andb_true_r. Qed.

Lemma rid_go_spec : forall s cur,
  forallb part_char_ok cur = true ->
  is_valid_rid_go (is_nil cur) s = forallb valid_part (tokens_go cur (before_q s)).
Proof.
  induction s as [|a s IH]; intros cur H.
  - cbn [is_valid_rid_go before_q tokens_go forallb]. rewrite (valid_part_rev _ H), andb_true_r. reflexivity.
  - cbn [is_valid_rid_go before_q].
    destruct (N.eqb_spec a qmark) as [Q|Q].
    + cbn [tokens_go forallb]. rewrite (valid_part_rev _ H), andb_true_r. reflexivity.
    + destruct ((a <? 33) || (126 <? a) || (a =? star) || (a =? gt)) eqn:Bad.
      * cbn [tokens_go].
        assert (D : (a =? dot) = false).
        { destruct (N.eqb_spec a dot) as [->|]; [|reflexivity]. discriminate Bad. }
        rewrite D. symmetry. apply tokens_go_bad. cbn [forallb].
        replace (part_char_ok a) with false; [reflexivity|].
        unfold part_char_ok.
        apply orb_true_iff in Bad. destruct Bad as [Bad|Bad].
        2:{ rewrite Bad. cbn [negb]. rewrite !andb_false_r. reflexivity. }
        apply orb_true_iff in Bad. destruct Bad as [Bad|Bad].
        2:{ rewrite Bad. cbn [negb]. rewrite !andb_false_r. reflexivity. }
        apply orb_true_iff in Bad. destruct Bad as [Bad|Bad].
        { apply N.ltb_lt in Bad. replace (33 <=? a) with false; [reflexivity|].
          symmetry. apply N.leb_gt. exact Bad. }
        { apply N.ltb_lt in Bad. replace (a <=? 126) with false; [rewrite andb_false_r; reflexivity|].
          symmetry. apply N.leb_gt. exact Bad. }
      * apply orb_false_iff in Bad. destruct Bad as [Bad Bgt].
        apply orb_false_iff in Bad. destruct Bad as [Bad Bstar].
        apply orb_false_iff in Bad. destruct Bad as [Blo Bhi].
        assert (Ok : forall d, (a =? dot) = d -> part_char_ok a = negb d).
        { intros d Hd. unfold part_char_ok. rewrite Hd, Bstar, Bgt.
          apply N.ltb_ge in Blo. apply N.ltb_ge in Bhi.
          apply N.leb_le in Blo. apply N.leb_le in Bhi. rewrite Blo, Bhi.
          destruct (N.eqb_spec a qmark); [contradiction|]. reflexivity. }
        pose proof (Ok (a =? dot) eq_refl) as Pa. clear Ok.
        cbn [tokens_go]. destruct (a =? dot) eqn:D.
        { cbn [forallb]. rewrite (valid_part_rev _ H).
          destruct cur as [|c cur]; [reflexivity|].
          cbn [is_nil negb andb]. exact (IH [] eq_refl). }
        { apply (IH (a :: cur)). cbn [forallb]. rewrite Pa, H. reflexivity. }
Qed.

Lemma is_valid_rid_spec : forall r, is_valid_rid r = valid_rid r.
Proof. intros r. exact (rid_go_spec r [] eq_refl). Qed.
