(* C07 - the validator: what a protocol-conformant published message is.
   [conformant : pubmsg -> bool] is BOTH the predicate of theorem
   all_published_conformant and the oracle evaluated (in Coq) on the real
   messages recorded by the harness.  It never looks at the model.

   A published message = subject bytes, payload (JSON AST, or raw bytes when
   the payload is not JSON: empty payload or a pre-response), and the context
   the harness / the model knows: the message went to the reply subject of a
   request (flagged HTTP or not), to the reply subject of a query request, or
   anywhere else (then it must be an event of a documented form). *)
From GoRes Require Export Conform.Json.
From Coq Require Import String.
Open Scope N_scope.

Inductive payload := PJson (j : json) | PRaw (b : bytes).
Inductive ctx :=
| CReply (http : bool) (reply : bytes)   (* sent in answer to a request with this reply subject *)
| CQueryReply (reply : bytes)            (* sent in answer to a query request *)
| CEvent.                                (* everything else *)
Record pubmsg := Pub { subj : bytes; pay : payload; pctx : ctx }.

(* ---------- subjects ---------- *)
(* a name part: printable ASCII without  ? * > .   (resource.go isValidPart) *)
Definition part_char_ok (c : N) : bool :=
  (33 <=? c) && (c <=? 126) && negb (c =? qmark) && negb (c =? star) && negb (c =? gt) && negb (c =? dot).
Definition valid_part (t : bytes) : bool := negb (is_nil t) && forallb part_char_ok t.
(* a resource name: dot separated non-empty parts *)
Definition valid_rname (s : bytes) : bool := forallb valid_part (tokens s).
(* a publishable NATS subject: non-empty tokens, no whitespace / control characters,
   no wildcard characters *)
Definition subj_char_ok (c : N) : bool := (33 <=? c) && negb (c =? 127) && negb (c =? star) && negb (c =? gt).
Definition valid_subject (s : bytes) : bool :=
  forallb (fun t => negb (is_nil t) && forallb subj_char_ok t) (tokens s).
(* a resource ID: resource name, optionally followed by ?query *)
Fixpoint before_q (s : bytes) : bytes :=
  match s with
  | [] => []
  | c :: s' => if c =? qmark then [] else c :: before_q s'
  end.
Definition valid_rid (r : bytes) : bool := valid_rname (before_q r).

(* ---------- key names ---------- *)
Definition k_result := s2b "result".
Definition k_resource := s2b "resource".
Definition k_error := s2b "error".
Definition k_meta := s2b "meta".
Definition k_code := s2b "code".
Definition k_message := s2b "message".
Definition k_data := s2b "data".
Definition k_status := s2b "status".
Definition k_header := s2b "header".
Definition k_rid := s2b "rid".
Definition k_values := s2b "values".
Definition k_value := s2b "value".
Definition k_idx := s2b "idx".
Definition k_subject := s2b "subject".
Definition k_resources := s2b "resources".
Definition k_access := s2b "access".
Definition k_token := s2b "token".
Definition k_tid := s2b "tid".
Definition k_tids := s2b "tids".
Definition k_events := s2b "events".
Definition k_event := s2b "event".
Definition k_model := s2b "model".
Definition k_collection := s2b "collection".

Definition code_internal := s2b "system.internalError".

(* ---------- responses ---------- *)
Definition error_ok (e : json) : bool :=
  match e with
  | JObj m => keys_ok [k_code; k_message] [k_data] m &&
      match jlookup k_code m, jlookup k_message m with
      | Some (JStr _), Some (JStr _) => true
      | _, _ => false
      end
  | _ => false
  end.

Definition meta_ok (j : json) : bool :=
  match j with
  | JObj m => keys_ok [] [k_status; k_header] m &&
      match jlookup k_status m with
      | None => true
      | Some (JNum t) => is_int_text t
      | Some _ => false
      end &&
      match jlookup k_header m with
      | None => true
      | Some (JObj h) => forallb (fun kv => str_arr (snd kv)) h
      | Some _ => false
      end
  | _ => false
  end.

Definition resource_ok (j : json) : bool :=
  match j with
  | JObj m => keys_ok [k_rid] [] m &&
      match jlookup k_rid m with
      | Some (JStr r) => valid_rid r
      | _ => false
      end
  | _ => false
  end.

Definition opt_ok (f : json -> bool) (o : option json) : bool :=
  match o with None => true | Some j => f j end.

(* exactly one of result | resource | error; meta only when the request was flagged HTTP *)
Definition response_ok (http : bool) (j : json) : bool :=
  match j with
  | JObj m =>
      keys_ok [] [k_result; k_resource; k_error; k_meta] m &&
      Nat.eqb (count_key k_result m + count_key k_resource m + count_key k_error m) 1 &&
      opt_ok (fun mj => http && meta_ok mj) (jlookup k_meta m) &&
      opt_ok error_ok (jlookup k_error m) &&
      opt_ok resource_ok (jlookup k_resource m)
  | _ => false
  end.

Definition is_internal_error (j : json) : bool :=
  match j with
  | JObj m =>
      match jlookup k_error m with
      | Some (JObj e) => match jlookup k_code e with Some (JStr c) => beq c code_internal | _ => false end
      | _ => false
      end
  | _ => false
  end.

Definition has_meta (m : pubmsg) : bool :=
  match pay m with
  | PJson (JObj f) => match jlookup k_meta f with Some _ => true | None => false end
  | _ => false
  end.

(* pre-response:  timeout:"<digits>"  *)
Definition timeout_prefix := s2b "timeout:""".
Definition is_pre_response (b : bytes) : bool :=
  match strip_prefix timeout_prefix b with
  | Some r => match rev r with
              | 34 :: d => is_uint_text d
              | _ => false
              end
  | None => false
  end.

(* ---------- event data ---------- *)
Definition change_data_ok (d : json) : bool :=
  match d with
  | JObj m => keys_ok [k_values] [] m && match jlookup k_values m with Some (JObj _) => true | _ => false end
  | _ => false
  end.
Definition idx_ok (m : jfields) : bool :=
  match jlookup k_idx m with Some (JNum t) => is_uint_text t | _ => false end.
Definition add_data_ok (d : json) : bool :=
  match d with
  | JObj m => keys_ok [k_value; k_idx] [] m && idx_ok m
  | _ => false
  end.
Definition remove_data_ok (d : json) : bool :=
  match d with
  | JObj m => keys_ok [k_idx] [] m && idx_ok m
  | _ => false
  end.

Definition n_change := s2b "change".
Definition n_add := s2b "add".
Definition n_remove := s2b "remove".
Definition n_create := s2b "create".
Definition n_delete := s2b "delete".
Definition n_reaccess := s2b "reaccess".
Definition n_query := s2b "query".
Definition n_patch := s2b "patch".
Definition n_unsubscribe := s2b "unsubscribe".

(* ---------- query responses ---------- *)
Definition qevent_ok (j : json) : bool :=
  match j with
  | JObj m => keys_ok [k_event; k_data] [] m &&
      match jlookup k_event m, jlookup k_data m with
      | Some (JStr n), Some d =>
          if beq n n_change then change_data_ok d
          else if beq n n_add then add_data_ok d
          else if beq n n_remove then remove_data_ok d
          else false
      | _, _ => false
      end
  | _ => false
  end.
Definition qresult_ok (r : json) : bool :=
  match r with
  | JObj m =>
      (keys_ok [k_events] [] m && match jlookup k_events m with Some (JArr l) => forallb qevent_ok l | _ => false end)
      || keys_ok [k_model] [] m || keys_ok [k_collection] [] m
  | _ => false
  end.
Definition qresponse_ok (j : json) : bool :=
  match j with
  | JObj m =>
      keys_ok [] [k_result; k_error] m &&
      Nat.eqb (count_key k_result m + count_key k_error m) 1 &&
      opt_ok error_ok (jlookup k_error m) &&
      opt_ok qresult_ok (jlookup k_result m)
  | _ => false
  end.

(* ---------- events ---------- *)
Definition is_empty_pay (p : payload) : bool := match p with PRaw [] => true | _ => false end.

Definition reset_ok (p : payload) : bool :=
  match p with
  | PJson (JObj m) => keys_ok [] [k_resources; k_access] m && forallb (fun kv => str_arr (snd kv)) m
  | _ => false
  end.
Definition token_reset_ok (p : payload) : bool :=
  match p with
  | PJson (JObj m) => keys_ok [k_tids; k_subject] [] m &&
      match jlookup k_tids m, jlookup k_subject m with
      | Some t, Some (JStr _) => str_arr t
      | _, _ => false
      end
  | _ => false
  end.
Definition conn_token_ok (p : payload) : bool :=
  match p with
  | PJson (JObj m) => keys_ok [k_token] [k_tid] m && opt_ok is_jstr (jlookup k_tid m)
  | _ => false
  end.
Definition query_event_ok (p : payload) : bool :=
  match p with
  | PJson (JObj m) => keys_ok [k_subject] [] m && opt_ok is_jstr (jlookup k_subject m)
  | _ => false
  end.

(* payload of  event.<resource>.<name>  by event name *)
Definition res_event_ok (name : bytes) (p : payload) : bool :=
  if beq name n_change then match p with PJson d => change_data_ok d | _ => false end
  else if beq name n_add then match p with PJson d => add_data_ok d | _ => false end
  else if beq name n_remove then match p with PJson d => remove_data_ok d | _ => false end
  else if beq name n_delete then is_empty_pay p
  else if beq name n_reaccess then is_empty_pay p
  else if beq name n_query then query_event_ok p
  else if beq name n_patch then false          (* reserved, never sent by a service *)
  else if beq name n_unsubscribe then false    (* reserved, never sent by a service *)
  else if beq name n_create then is_empty_pay p
  else match p with PJson _ => true | PRaw b => is_nil b end.   (* custom event: any JSON or no payload *)

Inductive evkind := KReset | KTokenReset | KConnToken | KRes (name : bytes) | KBad.

Definition t_system := s2b "system".
Definition t_reset := s2b "reset".
Definition t_tokenReset := s2b "tokenReset".
Definition t_conn := s2b "conn".
Definition t_token := s2b "token".
Definition t_event := s2b "event".

Definition classify (s : bytes) : evkind :=
  match tokens s with
  | a :: rest =>
      if beq a t_system then
        match rest with
        | [b] => if beq b t_reset then KReset else if beq b t_tokenReset then KTokenReset else KBad
        | _ => KBad
        end
      else if beq a t_conn then
        match rest with
        | [cid; t] => if valid_part cid && beq t t_token then KConnToken else KBad
        | _ => KBad
        end
      else if beq a t_event then
        match rev rest with
        | name :: rn => if valid_part name && negb (is_nil rn) && forallb valid_part rn then KRes name else KBad
        | [] => KBad
        end
      else KBad
  | [] => KBad
  end.

Definition event_ok (s : bytes) (p : payload) : bool :=
  match classify s with
  | KReset => reset_ok p
  | KTokenReset => token_reset_ok p
  | KConnToken => conn_token_ok p
  | KRes name => res_event_ok name p
  | KBad => false
  end.

Definition conformant (m : pubmsg) : bool :=
  match pctx m with
  | CReply http reply =>
      beq (subj m) reply && valid_subject (subj m) &&
      match pay m with
      | PRaw b => is_pre_response b
      | PJson j => response_ok http j
      end
  | CQueryReply reply =>
      beq (subj m) reply && valid_subject (subj m) &&
      match pay m with
      | PRaw b => is_pre_response b
      | PJson j => qresponse_ok j
      end
  | CEvent => valid_subject (subj m) && event_ok (subj m) (pay m)
  end.
