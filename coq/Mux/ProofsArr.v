(* params_exact / group_spec in their final form, and arrangement_invariant. *)
From GoRes Require Import Mux.Spec Pattern.Lemmas Mux.ProofsMatch Mux.ProofsOrder Mux.ProofsFetch Mux.ProofsFlat
  Mux.ProofsReg Mux.ProofsLookup Mux.ProofsTop Mux.ProofsPG Mux.ProofsMount Mux.ProofsMountSt Mux.ProofsMi
  Mux.ProofsNorm Mux.ProofsTotal Mux.ProofsMountLookup Mux.ProofsExact Mux.ProofsUniq.
From Coq Require Import Lia Arith PeanoNat.
Open Scope N_scope.

Lemma lookup_exact_pf : forall ops st k name,
  run_all [] ops = Some st -> (k < length st)%nat -> validate_listeners st k = true ->
  match spec_strip (path_of st k) name with
  | None => get_handler st k name = LNone
  | Some tk =>
    match best_of ckey (mcands st (handles (desugar ops 0)) k) tk with
    | None => get_handler st k name = LNone
    | Some x => exists ls gs,
        get_handler st k name = LHit (sr_hid (snd x)) ls (pvalues (map ptok_of (fst x)) tk) gs /\
        group_spec_of (sr_par (snd x)) (sr_grp (snd x)) name (pvalues (map ptok_of (fst x)) tk) = Some gs
    end
  end.
Proof.
  intros ops st k name H L V. pose proof (lookup_full_pf ops st k name H L V) as F.
  destruct (spec_strip (path_of st k) name) as [tk|]; [|exact F].
  destruct (best_of ckey (mcands st (handles (desugar ops 0)) k) tk) as [x|] eqn:BO; [|exact F].
  destruct F as (r & rel & ls & gs & IM & CK & _ & E & G).
  destruct (best_of_some _ _ _ _ _ BO) as (Ix & _ & _).
  pose proof (mcands_unique ops st k (rel, r) x H IM Ix CK) as EQ. subst x. cbn [fst snd]. eauto.
Qed.

(* ---- arrangement_invariant ---- *)
Lemma ckey_fst : forall x y, fst x = fst y -> ckey x = ckey y.
Proof. intros x y E. unfold ckey. rewrite E. reflexivity. Qed.
Lemma ckey_skel : forall x, skel (ckey x) = ckey x.
Proof. intros x. rewrite ckey_sk. apply skel_sk. Qed.

Lemma arrangement_invariant_pf : forall ops1 st1 k1 name1 ops2 st2 k2 name2,
  run_all [] ops1 = Some st1 -> run_all [] ops2 = Some st2 ->
  (k1 < length st1)%nat -> (k2 < length st2)%nat ->
  validate_listeners st1 k1 = true -> validate_listeners st2 k2 = true ->
  spec_strip (path_of st1 k1) name1 = spec_strip (path_of st2 k2) name2 ->
  (forall e, In e (map cproj (mcands st1 (handles (desugar ops1 0)) k1)) <->
             In e (map cproj (mcands st2 (handles (desugar ops2 0)) k2))) ->
  same_result name1 name2 (get_handler st1 k1 name1) (get_handler st2 k2 name2).
Proof.
  intros ops1 st1 k1 name1 ops2 st2 k2 name2 H1 H2 L1 L2 V1 V2 ES SAME.
  pose proof (lookup_exact_pf ops1 st1 k1 name1 H1 L1 V1) as F1.
  pose proof (lookup_exact_pf ops2 st2 k2 name2 H2 L2 V2) as F2.
  rewrite <- ES in F2. destruct (spec_strip (path_of st1 k1) name1) as [tk|]; [|rewrite F1, F2; exact I].
  set (C1 := mcands st1 (handles (desugar ops1 0)) k1) in *.
  set (C2 := mcands st2 (handles (desugar ops2 0)) k2) in *.
  assert (TR : forall (Ca Cb : list (list bytes * sreg)),
            (forall e, In e (map cproj Ca) -> In e (map cproj Cb)) ->
            forall x, In x Ca -> exists y, In y Cb /\ cproj y = cproj x).
  { intros Ca Cb S x Ix. specialize (S (cproj x) (in_map _ _ _ Ix)). apply in_map_iff in S. destruct S as (y & E & Iy). eauto. }
  destruct (best_of ckey C1 tk) as [x1|] eqn:B1; destruct (best_of ckey C2 tk) as [x2|] eqn:B2.
  - destruct (best_of_some _ _ _ _ _ B1) as (I1 & M1 & BB1). destruct (best_of_some _ _ _ _ _ B2) as (I2 & M2 & BB2).
    destruct (TR C1 C2 (fun e => proj1 (SAME e)) x1 I1) as (y & Iy & Py).
    assert (Fy : fst y = fst x1) by (unfold cproj in Py; congruence).
    assert (K : skel (ckey x2) = skel (ckey x1)).
    { apply (best_of_unique _ ckey C2 tk x2 (ckey x1) B2 M1).
      - exists y. split; [exact Iy|]. rewrite (ckey_fst y x1 Fy). reflexivity.
      - intros z Iz Mz. destruct (TR C2 C1 (fun e => proj2 (SAME e)) z Iz) as (z' & Iz' & Pz).
        assert (Fz : fst z' = fst z) by (unfold cproj in Pz; congruence).
        rewrite <- (ckey_fst z' z Fz). apply BB1; [exact Iz'|]. rewrite (ckey_fst z' z Fz). exact Mz. }
    rewrite !ckey_skel in K.
    assert (y = x2).
    { apply (mcands_unique ops2 st2 k2 y x2 H2 Iy I2). rewrite (ckey_fst y x1 Fy). symmetry. exact K. }
    subst y. destruct F1 as (ls1 & gs1 & E1 & G1). destruct F2 as (ls2 & gs2 & E2 & G2).
    rewrite E1, E2. unfold cproj in Py. injection Py as P1 P2 P3 P4. cbn [same_result].
    rewrite P1, P2 in *. split; [reflexivity|]. split; [reflexivity|]. intros ->. rewrite P3, P4 in G2. congruence.
  - exfalso. destruct (best_of_some _ _ _ _ _ B1) as (I1 & M1 & _).
    destruct (TR C1 C2 (fun e => proj1 (SAME e)) x1 I1) as (y & Iy & Py).
    assert (Fy : fst y = fst x1) by (unfold cproj in Py; congruence).
    pose proof (best_of_none _ _ _ _ B2 y Iy) as X. rewrite (ckey_fst y x1 Fy) in X. congruence.
  - exfalso. destruct (best_of_some _ _ _ _ _ B2) as (I2 & M2 & _).
    destruct (TR C2 C1 (fun e => proj2 (SAME e)) x2 I2) as (y & Iy & Py).
    assert (Fy : fst y = fst x2) by (unfold cproj in Py; congruence).
    pose proof (best_of_none _ _ _ _ B1 y Iy) as X. rewrite (ckey_fst y x2 Fy) in X. congruence.
  - rewrite F1, F2. exact I.
Qed.
