(* One mux without mounts: any list of Handle / AddListener calls (panicking ones included). *)
From GoRes Require Import Mux.Spec Pattern.Lemmas Mux.ProofsMatch Mux.ProofsOrder Mux.ProofsFetch.
From Coq Require Import Lia Arith PeanoNat.
Open Scope N_scope.

(* ---- the two actions on the fetched node ---- *)
Lemma params_eq_eq : forall a b, length b = length a -> params_eq a b = true -> a = b.
Proof.
  induction a as [|[n1 i1] a IH]; intros [|[n2 i2] b] L H; cbn in *; try discriminate; [reflexivity|].
  apply Bool.andb_true_iff in H as [H H3]. apply Bool.andb_true_iff in H as [H1 H2].
  apply beq_eq in H1. apply Nat.eqb_eq in H2. subst. f_equal. apply IH; [lia|exact H3].
Qed.

Lemma set_params_fields : forall n ps n', set_params n ps = Some n' ->
  node_hs n' = node_hs n /\ node_ls n' = node_ls n /\ node_mounted n' = node_mounted n /\ kids_eq n n' /\
  node_params n' = Some ps /\ (node_params n = None \/ node_params n = Some ps).
Proof.
  intros [hs old lits pa wi mo ls] ps n' H. cbn in H. destruct old as [o|].
  - destruct (Nat.eqb (length o) (length ps)) eqn:L; [|discriminate]. cbn in H.
    destruct (params_eq ps o) eqn:E; [|discriminate]. injection H as <-.
    apply Nat.eqb_eq in L. rewrite (params_eq_eq ps o L E). unfold kids_eq. cbn. auto 10.
  - injection H as <-. cbn. unfold kids_eq. cbn. auto 10.
Qed.

Definition R_add (hid : N) (ok : bool) (oh : option handler) : Prop :=
  if ok then exists g, oh = Some (hid, g) else oh = None.
Definition R_none (ok : bool) (oh : option handler) : Prop := oh = None.

Lemma has_pattern_kids : forall n n' e q h, kids_eq n n' -> (has_pattern n' (e :: q) h <-> has_pattern n (e :: q) h).
Proof.
  intros n n' e q h (K1 & K2 & K3). rewrite !has_pattern_node. destruct e; rewrite ?K1, ?K2, ?K3; reflexivity.
Qed.

Lemma add_fin_spec : forall rb hid g fr n ps mi, exists oh,
  R_add hid (is_ok (add_fin rb hid g fr n ps mi)) oh /\
  forall q h, has_pattern (out_state (add_fin rb hid g fr n ps mi)) q h <-> (q = [] /\ oh = Some h) \/ has_pattern n q h.
Proof.
  intros rb hid g fr n ps mi. unfold add_fin.
  destruct (node_hs n) as [h0|] eqn:HS.
  - exists None. split; [reflexivity|]. intros q h. cbn. split; [auto|intros [[_ X]|X]; [discriminate|exact X]].
  - destruct (set_params n ps) as [n'|] eqn:SP.
    + destruct (set_params_fields _ _ _ SP) as (E1 & E2 & E3 & K & _).
      set (H := (hid, if rb then rebase_group mi g else g)). exists (Some H). split; [cbn; eexists; reflexivity|].
      intros q h. cbn [out_state]. destruct q as [|e q].
      * rewrite !has_pattern_node. destruct n' as [a b c d e f k]. cbn. rewrite HS. split.
        -- intros X. left. auto.
        -- intros [[_ X]|X]; [congruence|discriminate].
      * assert (K' : kids_eq n (set_hs n' H)).
        { destruct n' as [a b c d e' f k]. destruct K as (K1 & K2 & K3). cbn in *. unfold kids_eq. cbn. auto. }
        rewrite (has_pattern_kids _ _ e q h K'). split; [auto|intros [[X _]|X]; [discriminate|exact X]].
    + exists None. split; [reflexivity|]. intros q h. cbn. split; [auto|intros [[_ X]|X]; [discriminate|exact X]].
Qed.

Lemma listen_fin_spec : forall l fr n ps mi, exists oh,
  R_none (is_ok (listen_fin l fr n ps mi)) oh /\
  forall q h, has_pattern (out_state (listen_fin l fr n ps mi)) q h <-> (q = [] /\ oh = Some h) \/ has_pattern n q h.
Proof.
  intros l fr n ps mi. exists None. split; [reflexivity|]. unfold listen_fin.
  destruct (set_params n ps) as [n'|] eqn:SP.
  - destruct (set_params_fields _ _ _ SP) as (E1 & E2 & E3 & K & _).
    intros q h. cbn [out_state]. destruct q as [|e q].
    + rewrite !has_pattern_node. destruct n' as [a b c d e f k]. cbn in *. rewrite E1.
      split; [auto|intros [[_ X]|X]; [discriminate|exact X]].
    + assert (K' : kids_eq n (add_ls n' l)).
      { destruct n' as [a b c d e' f k]. destruct K as (K1 & K2 & K3). cbn in *. unfold kids_eq. cbn. auto. }
      rewrite (has_pattern_kids _ _ e q h K'). split; [auto|intros [[X _]|X]; [discriminate|exact X]].
  - intros q h. cbn. split; [auto|intros [[_ X]|X]; [discriminate|exact X]].
Qed.

(* ---- fetch_spec: a registration adds exactly its own pattern and keeps the rest ---- *)
Lemma add_pats : forall root pat hid grp par, exists oh,
  R_add hid (is_ok (add root pat hid grp par)) oh /\
  forall q h, has_pattern (out_state (add root pat hid grp par)) q h <->
              (q = skel (ptoks pat) /\ oh = Some h) \/ has_pattern root q h.
Proof.
  intros root pat hid grp par. unfold add, add_gen.
  assert (Triv : exists oh, R_add hid false oh /\ forall q h, has_pattern root q h <->
              (q = skel (ptoks pat) /\ oh = Some h) \/ has_pattern root q h).
  { exists None. split; [reflexivity|]. intros q h. split; [auto|intros [[_ X]|X]; [discriminate|exact X]]. }
  destruct (if par then Some (Some []) else parse_group grp pat) as [g|]; [|exact Triv].
  destruct (negb (is_valid pat)); [exact Triv|].
  rewrite skel_ptoks. apply (fetch_pats false _ (R_add hid)); [intros; apply add_fin_spec|reflexivity].
Qed.

Lemma listen_pats : forall root pat l q h,
  has_pattern (out_state (add_listener root pat l)) q h <-> has_pattern root q h.
Proof.
  intros root pat l q h. unfold add_listener, fetch_go.
  destruct (fetch_pats false (listen_fin l) R_none (listen_fin_spec l) eq_refl (split_pattern pat) 0%nat 0%nat [] false root)
    as (oh & HR & HP).
  unfold R_none in HR. subst oh. rewrite HP. split; [intros [[_ X]|X]; [discriminate|exact X]|auto].
Qed.


Lemma frun_pats : forall ops root q hid,
  has_hid (frun root ops) q hid <-> has_hid root q hid \/ In (q, hid) (fregs root ops).
Proof.
  induction ops as [|o r IH]; intros root q hid; cbn [frun fregs].
  - cbn. tauto.
  - rewrite IH, in_app_iff. destruct o as [pat hid' grp par|pat l]; cbn [frun_op].
    + destruct (add_pats root pat hid' grp par) as (oh & HR & HP).
      unfold has_hid. setoid_rewrite HP. unfold R_add in HR.
      destruct (is_ok (add root pat hid' grp par)).
      * destruct HR as (g & ->). cbn [In]. split.
        -- intros [(g' & [[E1 E2]|X])|X]; [|left; eauto|right; right; exact X].
           injection E2 as <- _. right. left. left. congruence.
        -- intros [(g' & X)|[[E|[]]|X]]; [left; eauto| |right; exact X].
           injection E as <- <-. left. exists g. left. auto.
      * subst oh. cbn [In]. split.
        -- intros [(g' & [[_ E]|X])|X]; [discriminate|left; eauto|right; right; exact X].
        -- intros [(g' & X)|[[]|X]]; [left; eauto|right; exact X].
    + unfold has_hid. setoid_rewrite listen_pats. cbn [In app]. tauto.
Qed.

(* ---- invariants of the flat trie ---- *)
Definition P_flat (_ : list ptok) (n : node) : Prop := node_mounted n = false.
Definition P_wok (path : list ptok) (n : node) : Prop := ends_full path -> node_hs n <> None \/ node_ls n <> [].
Definition gpart_ok (d : nat) (g : gpart) : Prop :=
  match g with GIdx j => (j < d)%nat | GNeg => False | GStr _ => True end.
Definition P_bound (path : list ptok) (n : node) : Prop :=
  (forall x, In x (node_plist n) -> (snd x < length path)%nat) /\
  (forall hid parts, node_hs n = Some (hid, Some parts) -> forall g, In g parts -> gpart_ok (length path) g).

Definition Q_true (_ : nat) (_ : list pparam) (_ : nat) : Prop := True.
Definition Q_bound (i : nat) (ps : list pparam) (mi : nat) : Prop := mi = 0%nat /\ forall x, In x ps -> (snd x < i)%nat.

Lemma add_fin_kids : forall rb hid g fr n ps mi, kids_eq n (out_state (add_fin rb hid g fr n ps mi)).
Proof.
  intros. unfold add_fin. destruct (node_hs n); [unfold kids_eq; auto|].
  destruct (set_params n ps) as [n'|] eqn:SP; [|unfold kids_eq; auto].
  destruct (set_params_fields _ _ _ SP) as (_ & _ & _ & (K1 & K2 & K3) & _).
  destruct n'. cbn in *. unfold kids_eq. cbn. auto.
Qed.
Lemma listen_fin_kids : forall l fr n ps mi, kids_eq n (out_state (listen_fin l fr n ps mi)).
Proof.
  intros. unfold listen_fin.
  destruct (set_params n ps) as [n'|] eqn:SP; [|unfold kids_eq; auto].
  destruct (set_params_fields _ _ _ SP) as (_ & _ & _ & (K1 & K2 & K3) & _).
  destruct n'. cbn in *. unfold kids_eq. cbn. auto.
Qed.

Lemma Inv_empty : forall (P : list ptok -> node -> Prop) pre, P pre empty_node -> Inv P pre empty_node.
Proof. intros P pre H q m Rq. apply reach_empty in Rq as [-> ->]. rewrite app_nil_r. exact H. Qed.

(* generic: an op keeps an invariant if its fin does *)
Section OpInv.
Variable P : list ptok -> node -> Prop.
Hypothesis P_loc : forall path n n', loc_eq n n' -> P path n -> P path n'.
Hypothesis P_empty : forall path, ~ ends_full path -> P path empty_node.
Variable Q : nat -> list pparam -> nat -> Prop.
Hypothesis Q_step : forall i ps mi, Q i ps mi -> Q (S i) ps mi.
Hypothesis Q_snoc : forall i ps mi tn, Q i ps mi -> Q (S i) (ps ++ [(tn, i - mi)%nat]) mi.
Hypothesis Q_init : Q 0%nat [] 0%nat.

Lemma add_inv : forall root pat hid grp par b,
  is_ok (add root pat hid grp par) = b ->
  (forall (g : group) (fr : bool) (n : node) (ps' : list pparam), pgroup par grp pat = Some g ->
      is_ok (add_fin true hid g fr n ps' 0%nat) = b ->
      Q (length (split_pattern pat)) ps' 0%nat ->
      (P (sk (split_pattern pat)) n \/ n = empty_node) ->
      P (sk (split_pattern pat)) (out_state (add_fin true hid g fr n ps' 0%nat))) ->
  Inv P_flat [] root -> Inv P [] root -> Inv P [] (out_state (add root pat hid grp par)).
Proof.
  intros root pat hid grp par b Hb HF FL I. unfold add, add_gen in *. unfold pgroup in HF.
  destruct (if par then Some (Some []) else parse_group grp pat) as [g|] eqn:PG; [|exact I].
  destruct (negb (is_valid pat)); [exact I|]. cbn [negb] in *.
  apply (fetch_inv P P_loc P_empty false _ (add_fin_kids true hid g) Q Q_step Q_snoc _ _ _ _ _ _ _ b Hb); auto.
Qed.

Lemma listen_inv : forall root pat l b,
  is_ok (add_listener root pat l) = b ->
  (forall (fr : bool) (n : node) (ps' : list pparam), is_ok (listen_fin l fr n ps' 0%nat) = b ->
      Q (length (split_pattern pat)) ps' 0%nat ->
      (P (sk (split_pattern pat)) n \/ n = empty_node) ->
      P (sk (split_pattern pat)) (out_state (listen_fin l fr n ps' 0%nat))) ->
  Inv P_flat [] root -> Inv P [] root -> Inv P [] (out_state (add_listener root pat l)).
Proof.
  intros root pat l b Hb HF FL I. unfold add_listener, fetch_go in *.
  apply (fetch_inv P P_loc P_empty false _ (listen_fin_kids l) Q Q_step Q_snoc _ _ _ _ _ _ _ b Hb); auto.
Qed.
End OpInv.

Lemma loc_add_fin : forall rb hid g fr n ps mi n', add_fin rb hid g fr n ps mi = Ok n' ->
  node_hs n = None /\ node_hs n' = Some (hid, if rb then rebase_group mi g else g) /\ node_ls n' = node_ls n /\
  node_mounted n' = node_mounted n /\
  node_params n' = Some ps /\ (node_params n = None \/ node_params n = Some ps).
Proof.
  intros rb hid g fr n ps mi n' H. unfold add_fin in H. destruct (node_hs n) eqn:HS; [discriminate|].
  destruct (set_params n ps) as [n1|] eqn:SP; [|discriminate]. injection H as <-.
  destruct (set_params_fields _ _ _ SP) as (E1 & E2 & E3 & _ & E4 & E5). destruct n1. cbn in *. auto 10.
Qed.
Lemma add_fin_panic_state : forall rb hid g fr n ps mi e n', add_fin rb hid g fr n ps mi = Panic e n' -> n' = n.
Proof.
  intros rb hid g fr n ps mi e n' H. unfold add_fin in H. destruct (node_hs n); [congruence|].
  destruct (set_params n ps); [discriminate|congruence].
Qed.
Lemma loc_listen_fin : forall l fr n ps mi n', listen_fin l fr n ps mi = Ok n' ->
  node_hs n' = node_hs n /\ node_ls n' = node_ls n ++ [l] /\ node_mounted n' = node_mounted n /\
  node_params n' = Some ps /\ (node_params n = None \/ node_params n = Some ps).
Proof.
  intros l fr n ps mi n' H. unfold listen_fin in H.
  destruct (set_params n ps) as [n1|] eqn:SP; [|discriminate]. injection H as <-.
  destruct (set_params_fields _ _ _ SP) as (E1 & E2 & E3 & _ & E4 & E5). destruct n1. cbn in *. subst. auto 10.
Qed.
Lemma listen_fin_panic_state : forall l fr n ps mi e n', listen_fin l fr n ps mi = Panic e n' -> n' = n.
Proof.
  intros l fr n ps mi e n' H. unfold listen_fin in H. destruct (set_params n ps); [discriminate|congruence].
Qed.

Lemma P_flat_loc : forall path n n', loc_eq n n' -> P_flat path n -> P_flat path n'.
Proof. intros path n n' (_ & _ & _ & E) H. unfold P_flat in *. congruence. Qed.
Lemma P_wok_loc : forall path n n', loc_eq n n' -> P_wok path n -> P_wok path n'.
Proof. intros path n n' (E1 & _ & E3 & _) H X. unfold P_wok in *. rewrite E1, E3. auto. Qed.
Lemma P_bound_loc : forall path n n', loc_eq n n' -> P_bound path n -> P_bound path n'.
Proof. intros path n n' (E1 & E2 & _ & _) [H1 H2]. unfold P_bound, node_plist in *. rewrite E1, E2. auto. Qed.

Lemma frun_op_flat : forall root o, Inv P_flat [] root -> Inv P_flat [] (out_state (frun_op root o)).
Proof.
  intros root o FL. destruct o as [pat hid grp par|pat l]; cbn [frun_op].
  - apply (add_inv P_flat P_flat_loc ltac:(reflexivity) Q_true) with (b := is_ok (add root pat hid grp par)); auto; try exact I.
    intros g fr n ps' _ _ _ [H| ->].
    + destruct (add_fin true hid g fr n ps' 0%nat) as [n'|e n'] eqn:E; cbn.
      * apply loc_add_fin in E as (_ & _ & _ & E & _). unfold P_flat in *. congruence.
      * apply add_fin_panic_state in E. subst. exact H.
    + reflexivity.
  - apply (listen_inv P_flat P_flat_loc ltac:(reflexivity) Q_true) with (b := is_ok (add_listener root pat l)); auto; try exact I.
    intros fr n ps' _ _ [H| ->].
    + destruct (listen_fin l fr n ps' 0%nat) as [n'|e n'] eqn:E; cbn.
      * apply loc_listen_fin in E as (_ & _ & E & _). unfold P_flat in *. congruence.
      * apply listen_fin_panic_state in E. subst. exact H.
    + reflexivity.
Qed.

Lemma frun_op_wok : forall root o, Inv P_flat [] root -> Inv P_wok [] root -> Inv P_wok [] (out_state (frun_op root o)).
Proof.
  intros root o FL W. destruct o as [pat hid grp par|pat l]; cbn [frun_op].
  - apply (add_inv P_wok P_wok_loc ltac:(intros path N X; contradiction) Q_true) with (b := is_ok (add root pat hid grp par)); auto; try exact I.
    intros g fr n ps' _ _ _ [H| ->]; [|intros _; left; discriminate].
    destruct (add_fin true hid g fr n ps' 0%nat) as [n'|e n'] eqn:E; cbn.
    + apply loc_add_fin in E as (_ & E & _). intros _. left. congruence.
    + apply add_fin_panic_state in E. subst. exact H.
  - apply (listen_inv P_wok P_wok_loc ltac:(intros path N X; contradiction) Q_true) with (b := is_ok (add_listener root pat l)); auto; try exact I.
    intros fr n ps' _ _ [H| ->]; [|intros _; right; discriminate].
    destruct (listen_fin l fr n ps' 0%nat) as [n'|e n'] eqn:E; cbn.
    + apply loc_listen_fin in E as (_ & E & _). intros _. right. rewrite E. destruct (node_ls n); discriminate.
    + apply listen_fin_panic_state in E. subst. exact H.
Qed.

(* parseGroup only produces in-range indexes *)
Lemma find_tok_bound : forall tag toks j k, find_tok tag toks j = Some k -> (k < j + length toks)%nat.
Proof.
  induction toks as [|t r IH]; intros j k H; cbn in H; [discriminate|].
  destruct (beq t tag).
  - injection H as <-. cbn. lia.
  - apply IH in H. cbn. lia.
Qed.
Lemma parse_group_go_ok : forall toks g md r, parse_group_go toks md g = Some r ->
  forall x, In x r -> gpart_ok (length toks) x.
Proof.
  induction g as [|c g IH]; intros md r H x I.
  - cbn in H. destruct md as [acc| |acc]; try discriminate. injection H as <-.
    unfold flush in I. destruct acc; [destruct I|]. destruct I as [<-|[]]. exact Logic.I.
  - cbn in H. destruct md as [acc| |acc].
    + destruct (c =? dollar).
      * destruct (parse_group_go toks GDollar g) as [r'|] eqn:E; [|discriminate]. injection H as <-.
        unfold flush in I. destruct acc; [eapply IH; eauto|].
        destruct I as [<-|I]; [exact Logic.I|eapply IH; eauto].
      * eapply IH; eauto.
    + destruct (c =? lbrace); [eapply IH; eauto|discriminate].
    + destruct (c =? rbrace).
      * destruct acc as [|a acc]; [discriminate|].
        destruct (find_tok (dollar :: rev (a :: acc)) toks 0) as [j|] eqn:F; [|discriminate].
        destruct (parse_group_go toks (GDef []) g) as [r'|] eqn:E; [|discriminate]. cbn in H. injection H as <-.
        destruct I as [<-|I]; [|eapply IH; eauto]. apply find_tok_bound in F. exact F.
      * destruct (tag_char c); [eapply IH; eauto|discriminate].
Qed.
Lemma group_parsed_ok : forall par grp pat parts,
  pgroup par grp pat = Some (Some parts) ->
  forall x, In x parts -> gpart_ok (length (split_pattern pat)) x.
Proof.
  intros par grp pat parts H x I. unfold pgroup in H. destruct par.
  - injection H as <-. destruct I.
  - unfold parse_group in H. destruct grp as [|c grp]; [discriminate|].
    destruct (parse_group_go (split_pattern pat) (GDef []) (c :: grp)) as [r|] eqn:E; [|discriminate].
    injection H as <-. eapply parse_group_go_ok; eauto.
Qed.

Lemma sk_length : forall toks, length (sk toks) = length toks.
Proof. intros. unfold sk. apply map_length. Qed.

Lemma frun_op_bound : forall root o, Inv P_flat [] root -> Inv P_bound [] root -> Inv P_bound [] (out_state (frun_op root o)).
Proof.
  intros root o FL B.
  assert (PE : forall path : list ptok, ~ ends_full path -> P_bound path empty_node).
  { intros path _. split; [intros x []|intros hid parts X; discriminate]. }
  assert (QS : forall i ps mi, Q_bound i ps mi -> Q_bound (S i) ps mi).
  { intros i ps mi [-> H]. split; [reflexivity|]. intros x Ix. specialize (H x Ix). lia. }
  assert (QN : forall i ps mi tn, Q_bound i ps mi -> Q_bound (S i) (ps ++ [(tn, i - mi)%nat]) mi).
  { intros i ps mi tn [-> H]. split; [reflexivity|]. intros x Ix. apply in_app_iff in Ix as [Ix|[<-|[]]].
    - specialize (H x Ix). lia.
    - cbn. lia. }
  assert (Q0 : Q_bound 0 [] 0) by (split; [reflexivity|intros x []]).
  destruct o as [pat hid grp par|pat l]; cbn [frun_op].
  - apply (add_inv P_bound P_bound_loc PE Q_bound QS QN Q0) with (b := is_ok (add root pat hid grp par)); auto.
    intros g fr n ps' PG _ [_ HQ] H.
    assert (H' : P_bound (sk (split_pattern pat)) n).
    { destruct H as [H| ->]; [exact H|split; [intros x []|intros hid' parts X; discriminate]]. }
    clear H. unfold P_bound in *. rewrite sk_length in *. destruct H' as [H1 H2].
    destruct (add_fin true hid g fr n ps' 0%nat) as [n'|e n'] eqn:E; cbn [out_state].
    + apply loc_add_fin in E as (HS & E1 & _ & _ & E2 & _). split.
      * intros x Ix. unfold node_plist in Ix. rewrite E2 in Ix. auto.
      * intros hid' parts X g0 Ig. rewrite E1 in X. cbn in X. injection X as _ ->.
        eapply group_parsed_ok; eauto.
    + apply add_fin_panic_state in E. subst. split; assumption.
  - apply (listen_inv P_bound P_bound_loc PE Q_bound QS QN Q0) with (b := is_ok (add_listener root pat l)); auto.
    intros fr n ps' _ [_ HQ] H.
    assert (H' : P_bound (sk (split_pattern pat)) n).
    { destruct H as [H| ->]; [exact H|split; [intros x []|intros hid' parts X; discriminate]]. }
    clear H. unfold P_bound in *. rewrite sk_length in *. destruct H' as [H1 H2].
    destruct (listen_fin l fr n ps' 0%nat) as [n'|e n'] eqn:E; cbn [out_state].
    + apply loc_listen_fin in E as (E1 & _ & _ & E2 & _). split.
      * intros x Ix. unfold node_plist in Ix. rewrite E2 in Ix. auto.
      * intros hid' parts X. rewrite E1 in X. eauto.
    + apply listen_fin_panic_state in E. subst. split; assumption.
Qed.

Record flat_inv (root : node) : Prop := {
  fi_flat : Inv P_flat [] root;
  fi_wok : Inv P_wok [] root;
  fi_bound : Inv P_bound [] root
}.
Lemma flat_inv_empty : flat_inv empty_node.
Proof.
  constructor; apply Inv_empty.
  - reflexivity.
  - intros (p0 & E). destruct p0; discriminate.
  - split; [intros x []|intros hid parts X; discriminate].
Qed.
Lemma flat_inv_frun : forall ops root, flat_inv root -> flat_inv (frun root ops).
Proof.
  induction ops as [|o r IH]; intros root [F W B]; cbn [frun]; [constructor; assumption|].
  apply IH. constructor; [apply frun_op_flat|apply frun_op_wok|apply frun_op_bound]; assumption.
Qed.
