(* The statements of Props/C06.v that are about one mux (no mounts), about fresh muxes, and
   the part of lookup_most_specific that holds for any trie (mounts included). *)
From GoRes Require Import Mux.Spec Pattern.Lemmas Pattern.Proofs Mux.ProofsMatch Mux.ProofsOrder Mux.ProofsFetch
  Mux.ProofsFlat Mux.ProofsLookup.
From Coq Require Import Lia Arith PeanoNat.
Open Scope N_scope.

(* ---- replaying a flat op list is [frun] ---- *)
Lemma run_op_flat : forall path root o,
  run_op [(path, Top root)] (to_op 0 o) = omap (fun n' => [(path, Top n')]) (frun_op root o).
Proof. intros path root [pat hid grp par|pat l]; reflexivity. Qed.

Lemma replay_cons_fst : forall st o r, fst (replay st (o :: r)) = fst (replay (out_state (run_op st o)) r).
Proof. intros. cbn [replay]. destruct (replay (out_state (run_op st o)) r). reflexivity. Qed.

Lemma replay_flat : forall ops path root,
  fst (replay [(path, Top root)] (map (to_op 0) ops)) = [(path, Top (frun root ops))].
Proof.
  induction ops as [|o r IH]; intros path root; [reflexivity|].
  cbn [map frun]. rewrite replay_cons_fst, run_op_flat.
  destruct (frun_op root o); cbn [omap out_state]; apply IH.
Qed.

Lemma flat_state_eq : forall path ops, is_valid_path path = true ->
  flat_state path ops = [(path, Top (frun empty_node ops))].
Proof.
  intros path ops V. unfold flat_state. rewrite replay_cons_fst. cbn [run_op]. unfold new_mux. rewrite V.
  cbn [out_state app]. apply replay_flat.
Qed.

Lemma get_handler_flat : forall path root name,
  get_handler [(path, Top root)] 0 name = get_handler_node path root name.
Proof. reflexivity. Qed.
Lemma validate_flat : forall path root, validate_listeners [(path, Top root)] 0 = validate_node root.
Proof. reflexivity. Qed.

(* ---- the path prefix: code vs. token-wise reading ---- *)
Lemma strip_prefix_eq : forall p s r, strip_prefix p s = Some r -> s = p ++ r.
Proof.
  induction p as [|a p IH]; intros s r H; cbn in H; [injection H as ->; reflexivity|].
  destruct s as [|b s]; [discriminate|]. destruct (a =? b) eqn:E; [|discriminate].
  apply N.eqb_eq in E. subst. cbn. f_equal. apply IH, H.
Qed.
Lemma strip_prefix_app_self : forall p r, strip_prefix p (p ++ r) = Some r.
Proof. induction p as [|a p IH]; intros r; cbn; [reflexivity|]. rewrite N.eqb_refl. apply IH. Qed.
Lemma strip_prefix_snoc : forall p d s,
  strip_prefix (p ++ [d]) s =
  match strip_prefix p s with Some (c :: r) => if d =? c then Some r else None | _ => None end.
Proof.
  induction p as [|a p IH]; intros d s; cbn.
  - destruct s as [|c r]; [reflexivity|]. destruct (d =? c); reflexivity.
  - destruct s as [|b s]; [reflexivity|]. destruct (a =? b); [apply IH|reflexivity].
Qed.

Lemma spec_strip_code : forall path name, spec_strip path name = stripped_toks (strip_path path name).
Proof.
  intros path name. unfold spec_strip, strip_path, strip_path_gen. destruct path as [|a path].
  - destruct name; reflexivity.
  - set (p := a :: path) in *. cbn [andb].
    destruct (beq p name) eqn:B.
    + apply beq_eq in B. subst name. rewrite Nat.eqb_refl. reflexivity.
    + rewrite strip_prefix_snoc. destruct (Nat.eqb (length p) (length name)) eqn:L.
      * apply Nat.eqb_eq in L. destruct (strip_prefix p name) as [[|c r]|] eqn:S; try reflexivity.
        apply strip_prefix_eq in S. subst name. rewrite app_length in L. cbn in L. lia.
      * destruct (strip_prefix p name) as [[|c r]|] eqn:S; try reflexivity.
        rewrite (N.eqb_sym dot c). destruct (c =? dot); reflexivity.
Qed.

(* ---- lookup_most_specific and lookup_total for one mux ---- *)
Lemma lookup_most_specific_flat_pf : forall path ops name,
  is_valid_path path = true ->
  validate_listeners (flat_state path ops) 0 = true ->
  match spec_strip path name with
  | None => get_handler (flat_state path ops) 0 name = LNone
  | Some toks =>
    match best_of fst (fregs empty_node ops) toks with
    | None => get_handler (flat_state path ops) 0 name = LNone
    | Some (p, hid) => exists ls ps g, get_handler (flat_state path ops) 0 name = LHit hid ls ps g
    end
  end.
Proof.
  intros path ops name VP VL. rewrite flat_state_eq in * by exact VP.
  rewrite get_handler_flat. rewrite validate_flat in VL.
  rewrite (spec_strip_code path name).
  pose proof (lookup_flat_pf path ops name VL) as H. cbv zeta in H.
  destruct (stripped_toks (strip_path path name)) as [tk|]; [|exact H].
  destruct (best_of fst (fregs empty_node ops) tk) as [[p hid]|]; [|exact H].
  destruct H as (n & g & ps & gs & _ & _ & _ & _ & _ & E). eauto.
Qed.

Lemma lookup_total_flat_pf : forall path ops name,
  is_valid_path path = true -> get_handler (flat_state path ops) 0 name <> LPanic.
Proof.
  intros path ops name VP. rewrite flat_state_eq by exact VP. rewrite get_handler_flat.
  apply get_handler_total_flat. apply flat_inv_frun, flat_inv_empty.
Qed.

(* ---- fetch_spec ---- *)
Lemma fetch_spec_pf : forall root pat hid grp par root',
  add root pat hid grp par = Ok root' ->
  exists g, forall q h, has_pattern root' q h <-> (q = skel (ptoks pat) /\ h = (hid, g)) \/ has_pattern root q h.
Proof.
  intros root pat hid grp par root' H. destruct (add_pats root pat hid grp par) as (oh & HR & HP).
  rewrite H in *. cbn [is_ok] in HR. cbn [out_state] in HP. destruct HR as (g & ->). exists g. intros q h. rewrite HP.
  split; (intros [[E1 E2]|X]; [left; split; [exact E1|]|right; exact X]).
  - injection E2 as <-. reflexivity.
  - subst h. reflexivity.
Qed.
Lemma fetch_spec_rejected_pf : forall root pat hid grp par e root',
  add root pat hid grp par = Panic e root' -> forall q h, has_pattern root' q h <-> has_pattern root q h.
Proof.
  intros root pat hid grp par e root' H q h. destruct (add_pats root pat hid grp par) as (oh & HR & HP).
  rewrite H in *. cbn [is_ok] in HR. cbn [out_state] in HP. unfold R_add in HR. subst oh. rewrite HP. split; [intros [[_ X]|X]; [discriminate|exact X]|auto].
Qed.
Lemma listener_keeps_patterns_pf : forall root pat l q h,
  has_pattern (out_state (add_listener root pat l)) q h <-> has_pattern root q h.
Proof. exact listen_pats. Qed.

(* ---- any trie (mounted nodes included): the handler returned is that of a most specific
        matching registered pattern; nothing is returned only if nothing matches ---- *)
Lemma lookup_any_trie_pf : forall root path name sub,
  strip_path path name = SName sub -> wild_handled root ->
  match get_handler_node path root name with
  | LNone => forall p h, has_pattern root p h -> pmatch p (tokens sub) = false
  | LHit hid ls ps g =>
      exists p g', has_pattern root p (hid, g') /\ pmatch p (tokens sub) = true /\
                   forall p' h', has_pattern root p' h' -> pmatch p' (tokens sub) = true -> better p' p = false
  | LPanic => True
  end.
Proof.
  intros root path name sub SP WH. unfold get_handler_node, get_handler_node_gen. unfold strip_path in SP. rewrite SP.
  set (tk := tokens sub). rewrite match_find.
  assert (NE : tk <> []) by apply tokens_nonnil.
  pose proof (find_best tk root 0%nat 0%nat NE) as FB.
  destruct (find root tk 0 0) as [[n m]|] eqn:F; cbn [option_map fst is_best] in FB.
  - destruct FB as (p & [Rn En] & M & BEST).
    assert (HS : node_hs n <> None) by (destruct En as [X|X]; [exact X|apply (WH p n Rn X)]).
    unfold hit. destruct (read_params tk m (node_plist n)) as [ps|]; [|exact I].
    destruct (node_hs n) as [[hid g]|] eqn:E; [|congruence].
    destruct (group_to_string name (skipn m tk) g); [|exact I].
    exists p, g. split; [apply has_pattern_reach; eauto|]. split; [exact M|].
    intros p' h' Hp Mp. apply has_pattern_reach in Hp. destruct Hp as (n' & Rn' & En').
    apply (BEST p' n'); [|exact Mp]. split; [exact Rn'|left; congruence].
  - intros p h Hp. destruct (pmatch p tk) eqn:Mp; [|reflexivity]. exfalso.
    apply has_pattern_reach in Hp. destruct Hp as (n' & Rn' & En').
    apply (FB p n'); [|exact Mp]. split; [exact Rn'|left; congruence].
Qed.
