(* Accepted Handle calls have pairwise different full patterns (as skeletons) inside one top-level trie. *)
From GoRes Require Import Mux.Spec Pattern.Lemmas Mux.ProofsMatch Mux.ProofsOrder Mux.ProofsFetch Mux.ProofsFlat
  Mux.ProofsReg Mux.ProofsLookup Mux.ProofsTop Mux.ProofsPG Mux.ProofsMount Mux.ProofsMountSt Mux.ProofsMi
  Mux.ProofsNorm Mux.ProofsTotal Mux.ProofsMountLookup Mux.ProofsExact.
From Coq Require Import Lia Arith PeanoNat.
Open Scope N_scope.

Definition InvU (st : state) (R : list sreg) : Prop :=
  forall r1 r2 t a1 a2, In r1 R -> In r2 R ->
    top_of st (sr_mux r1) = Some (t, a1) -> top_of st (sr_mux r2) = Some (t, a2) ->
    sk (a1 ++ split_pattern (sr_pat r1)) = sk (a2 ++ split_pattern (sr_pat r2)) -> r1 = r2.

Lemma has_pattern_needs_node : forall a n q h, has_pattern n (lits a ++ q) h -> node_at a n <> None.
Proof.
  induction a as [|t r IH]; intros n q h H; cbn; [discriminate|].
  cbn [lits map app] in H. apply has_pattern_node in H. destruct H as (c & E & H). rewrite E. eapply IH; eauto.
Qed.

Definition regR (R : list sreg) : registry := map (fun r => (sr_mux r, split_pattern (sr_pat r), sr_hid r)) R.

Lemma run_op_InvU : forall st o st' R, WFst st -> Inv1 st (regR R) -> InvU st R ->
  match o with ORoute _ _ _ => False | _ => True end -> run_op st o = Ok st' ->
  InvU st' (R ++ handles [o]).
Proof.
  intros st o st' R W [IR IP] IU NR H. destruct o; cbn [run_op] in H; try tauto; cbn [handles]; rewrite ?app_nil_r.
  - (* NewMux *)
    unfold new_mux in H. destruct (is_valid_path path); [|discriminate]. injection H as <-.
    assert (TOP : forall r, In r R -> top_of (st ++ [(path, Top empty_node)]) (sr_mux r) = top_of st (sr_mux r)).
    { intros r Ir. unfold top_of. rewrite nth_error_app1; [reflexivity|]. apply (IR (sr_mux r) (split_pattern (sr_pat r)) (sr_hid r)).
      unfold regR. apply in_map_iff. exists r. auto. }
    intros r1 r2 t a1 a2 I1 I2 T1 T2 E. rewrite (TOP _ I1) in T1. rewrite (TOP _ I2) in T2. eapply IU; eauto.
  - (* Handle *)
    unfold do_handle in H.
    destruct (with_root_ok _ _ _ _ W H) as (t & a & p & T & s & T' & TO & Ht & Hs & La & HM & AP & ->).
    destruct (at_path_ok _ _ _ _ AP _ Hs) as (s' & Es).
    assert (FRESH : forall r1 a1, In r1 R -> top_of st (sr_mux r1) = Some (t, a1) ->
              sk (a1 ++ split_pattern (sr_pat r1)) = sk (a ++ split_pattern pat) -> False).
    { intros r1 a1 I1 T1 E.
      assert (HH : has_hid T (sk (a1 ++ split_pattern (sr_pat r1))) (sr_hid r1)).
      { apply (IP t p T Ht). exists (sr_mux r1), (split_pattern (sr_pat r1)), a1. split; [|auto].
        unfold regR. apply in_map_iff. exists r1. auto. }
      destruct HH as (g & Hp). rewrite E, sk_app, (sk_lits a La) in Hp.
      apply (has_pattern_node_at a T s _ _ Hs) in Hp. rewrite <- skel_ptoks in Hp.
      eapply add_ok_fresh; [|exact Hp]. rewrite Es. reflexivity. }
    intros r1 r2 t0 a1 a2 I1 I2 T1 T2 E. rewrite (set_top_top_of st t p T T' Ht) in T1, T2.
    apply in_app_iff in I1 as [I1|[<-|[]]]; apply in_app_iff in I2 as [I2|[<-|[]]].
    + eapply IU; eauto.
    + exfalso. cbn [sr_mux sr_pat] in *. rewrite TO in T2. injection T2 as <- <-. eapply FRESH; eauto.
    + exfalso. cbn [sr_mux sr_pat] in *. rewrite TO in T1. injection T1 as <- <-. eapply FRESH; eauto.
    + reflexivity.
  - (* AddListener *)
    unfold do_listen in H.
    destruct (with_root_ok _ _ _ _ W H) as (t & a & p & T & s & T' & TO & Ht & Hs & La & HM & AP & ->).
    intros r1 r2 t0 a1 a2 I1 I2 T1 T2 E. rewrite (set_top_top_of st t p T T' Ht) in T1, T2. eapply IU; eauto.
  - (* Mount *)
    destruct (do_mount_ok _ _ _ _ _ W H) as (t & a & p & T & s & S0 & subpath & T' & TO & Ht & Hs & La & HM & ES & TS & Lt & NE & AP & TREE & TOP & _).
    set (toks := split_pattern (merge_pattern path subpath)) in *. set (pre := a ++ toks) in *.
    assert (Lp : forallb littok pre = true) by (unfold pre; rewrite forallb_app, La, Lt; reflexivity).
    destruct (at_path_ok _ _ _ _ AP _ Hs) as (s' & Es).
    destruct (mount_fetch_spec _ toks Lt NE _ _ _ _ _ Es) as (_ & _ & N0 & _).
    assert (NOPRE : forall q h, ~ has_pattern T (lits pre ++ q) h).
    { intros q h Hp. apply has_pattern_needs_node in Hp. unfold pre in Hp. rewrite node_at_app, Hs in Hp. congruence. }
    intros r1 r2 t0 a1 a2 I1 I2 T1 T2 E. rewrite TOP in T1, T2.
    destruct (top_of st (sr_mux r1)) as [[t1 b1]|] eqn:O1; [|discriminate].
    destruct (top_of st (sr_mux r2)) as [[t2 b2]|] eqn:O2; [|discriminate]. cbn [moved] in T1, T2.
    assert (CROSS : forall r b rm bm, In r R -> In rm R -> top_of st (sr_mux r) = Some (t, b) -> top_of st (sr_mux rm) = Some (sub, bm) ->
              sk (b ++ split_pattern (sr_pat r)) = sk ((pre ++ bm) ++ split_pattern (sr_pat rm)) -> False).
    { intros r b rm bm Ir Irm Tr Trm Eq.
      assert (HH : has_hid T (sk (b ++ split_pattern (sr_pat r))) (sr_hid r)).
      { apply (IP t p T Ht). exists (sr_mux r), (split_pattern (sr_pat r)), b. split; [|auto].
        unfold regR. apply in_map_iff. exists r. auto. }
      destruct HH as (g & Hp). rewrite Eq, <- app_assoc, sk_app, (sk_lits pre Lp) in Hp. eapply NOPRE; eauto. }
    destruct (Nat.eqb t1 sub) eqn:E1; destruct (Nat.eqb t2 sub) eqn:E2.
    + apply Nat.eqb_eq in E1, E2. subst t1 t2. injection T1 as <- <-. injection T2 as <-.
      rewrite <- !app_assoc, !(sk_app pre) in E. apply app_inv_head in E. eapply IU; eauto.
    + apply Nat.eqb_eq in E1. subst t1. injection T1 as <- <-. injection T2 as -> <-.
      exfalso. eapply (CROSS r2 b2 r1 b1); eauto.
    + apply Nat.eqb_eq in E2. subst t2. injection T2 as <- <-. injection T1 as -> <-.
      exfalso. eapply (CROSS r1 b1 r2 b2); eauto.
    + injection T1 as -> <-. injection T2 as -> <-. eapply IU; eauto.
Qed.

Lemma regR_app : forall a b, regR (a ++ b) = regR a ++ regR b.
Proof. intros. unfold regR. apply map_app. Qed.

Lemma run_all_U : forall ops st st' R, noroute ops = true -> WFst st -> Inv1 st (regR R) -> InvU st R ->
  run_all st ops = Some st' -> InvU st' (R ++ handles ops).
Proof.
  induction ops as [|o r IH]; intros st st' R NR W I1 IU H.
  - cbn in H. injection H as <-. cbn. rewrite app_nil_r. exact IU.
  - cbn [run_all] in H. destruct (run_op st o) as [s1|e s1] eqn:E; [|discriminate].
    cbn [noroute forallb] in NR. apply Bool.andb_true_iff in NR as [N1 N2].
    assert (NRo : match o with ORoute _ _ _ => False | _ => True end) by (destruct o; try exact I; discriminate N1).
    pose proof (run_op_InvU st o s1 R W I1 IU NRo E) as IU1.
    assert (WI : WFst s1 /\ Inv1 s1 (regR (R ++ handles [o]))).
    { destruct o; cbn [run_op] in E; try tauto; cbn [handles]; rewrite ?app_nil_r.
      - destruct (new_step _ _ _ _ W I1 E) as (A & B & _). auto.
      - destruct (handle_step _ _ _ _ _ _ _ _ W I1 E) as (A & B). rewrite regR_app. auto.
      - destruct (listen_step _ _ _ _ _ _ W I1 E) as (A & B). auto.
      - destruct (mount_step _ _ _ _ _ _ W I1 E) as (A & B). auto. }
    destruct WI as (W1 & I2).
    change (o :: r) with ([o] ++ r). rewrite handles_app, app_assoc. eapply IH; eauto.
Qed.

Lemma accepted_U : forall ops st, run_all [] ops = Some st -> InvU st (handles (desugar ops 0)).
Proof.
  intros ops st H. apply run_all_desugar in H. cbn [length] in H.
  apply (run_all_U _ [] st [] (noroute_desugar ops 0) WFst_nil Inv1_nil (fun r1 r2 t a1 a2 (I : In r1 []) => match I with end) H).
Qed.

(* the candidates of a mux have pairwise different relative skeletons *)
Lemma mcands_unique : forall ops st k x y, run_all [] ops = Some st ->
  In x (mcands st (handles (desugar ops 0)) k) -> In y (mcands st (handles (desugar ops 0)) k) ->
  ckey x = ckey y -> x = y.
Proof.
  intros ops st k [rx r1] [ry r2] H Ix Iy E. pose proof (accepted_U _ _ H) as IU.
  destruct (accepted_full _ _ H) as (W & _ & _).
  apply in_mcands in Ix as [I1 R1]. apply in_mcands in Iy as [I2 R2]. unfold rel_toks in R1, R2.
  destruct (top_of st k) as [[t a]|] eqn:TO; [|discriminate].
  destruct (top_of_wf _ _ _ _ W TO) as (La & _).
  destruct (top_of st (sr_mux r1)) as [[t1 a1]|] eqn:T1; [|discriminate].
  destruct (top_of st (sr_mux r2)) as [[t2 a2]|] eqn:T2; [|discriminate].
  destruct (Nat.eqb t1 t) eqn:E1; [|discriminate]. destruct (Nat.eqb t2 t) eqn:E2; [|discriminate].
  apply Nat.eqb_eq in E1, E2. subst t1 t2.
  pose proof (strip_pre_eq _ _ _ R1) as F1. pose proof (strip_pre_eq _ _ _ R2) as F2.
  rewrite !ckey_sk in E. cbn [fst] in E.
  assert (r1 = r2).
  { apply (IU r1 r2 t a1 a2 I1 I2 T1 T2). rewrite F1, F2, !sk_app, E. reflexivity. }
  subst r2. rewrite T1 in T2. injection T2 as <-. rewrite R1 in R2. injection R2 as <-. reflexivity.
Qed.
