(* An operation on a mounted mux is the same operation performed from the root of its top-level
   mux with the full pattern (and the group indexes shifted accordingly). *)
From GoRes Require Import Mux.Spec Pattern.Lemmas Mux.ProofsMatch Mux.ProofsFetch Mux.ProofsFlat Mux.ProofsReg Mux.ProofsMount.
From Coq Require Import Lia Arith PeanoNat.
Open Scope N_scope.

Lemma fetch_ext : forall v0 fin fin' mount,
  (forall fr n ps m, fin fr n ps m = fin' fr n ps m) ->
  forall toks i mi ps fr l, fetch_gen v0 fin mount toks i mi ps fr l = fetch_gen v0 fin' mount toks i mi ps fr l.
Proof.
  intros v0 fin fin' mount H. induction toks as [|t rest IH]; intros i mi ps fr l; [apply H|].
  destruct l as [hs pp li pa wi mo ls]. cbn [fetch_gen]. destruct t as [|c tn]; [reflexivity|].
  destruct ((c =? dollar) || (c =? star)).
  - destruct (if v0 then is_nil tn else Bool.eqb (c =? dollar) (is_nil tn)); [reflexivity|].
    destruct ((c =? dollar) && has_name tn ps); [reflexivity|]. destruct pa; f_equal; apply IH.
  - destruct (c =? gt).
    + destruct (negb (is_nil tn) || negb (is_nil rest)); [reflexivity|]. destruct wi; [f_equal; apply IH|].
      destruct (match mount with Some _ => is_nil rest | None => false end); [reflexivity|]. f_equal; apply IH.
    + destruct (lit_get (c :: tn) li); f_equal; apply IH.
Qed.

Lemma fetch_shift : forall v0 fin mount d toks i mi ps fr l,
  fetch_gen v0 fin mount toks (i + d) (mi + d) ps fr l =
  fetch_gen v0 (fun fr n ps m => fin fr n ps (m + d)%nat) mount toks i mi ps fr l.
Proof.
  intros v0 fin mount d. induction toks as [|t rest IH]; intros i mi ps fr l; [reflexivity|].
  destruct l as [hs pp li pa wi mo ls]. cbn [fetch_gen]. destruct t as [|c tn]; [reflexivity|].
  assert (MI : (if mo then (i + d)%nat else (mi + d)%nat) = ((if mo then i else mi) + d)%nat) by (destruct mo; reflexivity).
  rewrite MI. set (mi' := if mo then i else mi).
  assert (SUB : (i + d - (mi' + d) = i - mi')%nat) by lia. rewrite SUB.
  change (S (i + d)) with (S i + d)%nat.
  destruct ((c =? dollar) || (c =? star)).
  - destruct (if v0 then is_nil tn else Bool.eqb (c =? dollar) (is_nil tn)); [reflexivity|].
    destruct ((c =? dollar) && has_name tn ps); [reflexivity|]. destruct pa; f_equal; apply IH.
  - destruct (c =? gt).
    + destruct (negb (is_nil tn) || negb (is_nil rest)); [reflexivity|]. destruct wi; [f_equal; apply IH|].
      destruct (match mount with Some _ => is_nil rest | None => false end); [reflexivity|]. f_equal; apply IH.
    + destruct (lit_get (c :: tn) li); f_equal; apply IH.
Qed.

(* a mounted node resets mountIdx: what it was before does not matter *)
Lemma fetch_mounted_mi : forall v0 fin mount t rest i mi mi2 ps fr l, node_mounted l = true ->
  fetch_gen v0 fin mount (t :: rest) i mi ps fr l = fetch_gen v0 fin mount (t :: rest) i mi2 ps fr l.
Proof.
  intros v0 fin mount t rest i mi mi2 ps fr [hs pp li pa wi mo ls] M. cbn in M. subst mo. reflexivity.
Qed.

(* arrival mountIdx at the end of a literal path *)
Fixpoint marr (l : node) (i mi : nat) (a : list bytes) : nat :=
  match a with
  | [] => mi
  | t :: r => match lit_get t (node_lits l) with
              | Some c => marr c (S i) (if node_mounted l then i else mi) r
              | None => mi
              end
  end.

Lemma fetch_descend : forall v0 fin mount a, forallb littok a = true ->
  forall T s, node_at a T = Some s -> forall toks i mi ps,
  fetch_gen v0 fin mount (a ++ toks) i mi ps false T =
  at_path a (fun s => fetch_gen v0 fin mount toks (i + length a) (marr T i mi a) ps false s) T.
Proof.
  intros v0 fin mount. induction a as [|t r IH]; intros La T s Hs toks i mi ps.
  - cbn. rewrite Nat.add_0_r. reflexivity.
  - cbn [forallb] in La. apply Bool.andb_true_iff in La as [L1 L2].
    destruct T as [hs pp li pa wi mo ls]. cbn [node_at node_lits] in Hs.
    destruct (lit_get t li) as [c|] eqn:E; [|discriminate].
    cbn [app at_path marr node_lits node_mounted length]. rewrite E.
    destruct t as [|c0 tn]; [discriminate|]. cbn in L1. apply Bool.andb_true_iff in L1 as [L1a L1b].
    apply Bool.negb_true_iff in L1a, L1b. cbn [fetch_gen]. rewrite L1a, L1b, E.
    f_equal. rewrite (IH L2 c s Hs). rewrite Nat.add_succ_r. reflexivity.
Qed.

Lemma at_path_ext : forall a f f' T s, node_at a T = Some s -> f s = f' s -> at_path a f T = at_path a f' T.
Proof.
  induction a as [|t r IH]; intros f f' T s Hs E; cbn in Hs.
  - injection Hs as <-. exact E.
  - destruct T as [hs pp li pa wi mo ls]. cbn [node_lits] in Hs. cbn [at_path].
    destruct (lit_get t li) as [c|]; [|reflexivity]. f_equal. eapply IH; eauto.
Qed.

(* ---- shifting the group indexes ---- *)
Definition gshift_part (d : nat) (p : gpart) : gpart := match p with GIdx j => GIdx (j + d) | x => x end.
Definition gshift (d : nat) (g : group) : group := match g with Some l => Some (map (gshift_part d) l) | None => None end.

Lemma rebase_group_some : forall k l0, rebase_group k (Some l0) = Some (map (rebase_part k) l0).
Proof.
  intros [|k] l0; [|reflexivity]. cbn. f_equal. rewrite <- (map_id l0) at 1. apply map_ext.
  intros [x|j|]; cbn; rewrite ?Nat.sub_0_r; reflexivity.
Qed.
Lemma rebase_gshift_all : forall d m g, rebase_group (m + d) (gshift d g) = rebase_group m g.
Proof.
  intros d m g. destruct g as [l|]; [|destruct (m + d)%nat, m; reflexivity].
  cbn [gshift]. rewrite !rebase_group_some. f_equal. rewrite map_map. apply map_ext.
  intros [x|j|]; cbn [rebase_part gshift_part]; try reflexivity.
  assert (E : Nat.ltb (j + d) (m + d) = Nat.ltb j m).
  { destruct (Nat.ltb_spec j m); destruct (Nat.ltb_spec (j + d) (m + d)); try reflexivity; lia. }
  rewrite E. destruct (Nat.ltb j m); [reflexivity|]. f_equal. lia.
Qed.

Lemma add_fin_shift : forall d hid g fr n ps m,
  add_fin true hid (gshift d g) fr n ps (m + d) = add_fin true hid g fr n ps m.
Proof. intros. unfold add_fin. rewrite rebase_gshift_all. reflexivity. Qed.

(* a group parsed against the empty pattern has no tag parts *)
Definition no_idx (g : group) : Prop := forall l, g = Some l -> forall p, In p l -> exists x, p = GStr x.
Lemma parse_group_go_nil : forall g md r, parse_group_go [] md g = Some r -> forall p, In p r -> exists x, p = GStr x.
Proof.
  induction g as [|c g IH]; intros md r H p I.
  - cbn in H. destruct md as [acc| |acc]; try discriminate. injection H as <-.
    unfold flush in I. destruct acc; [destruct I|]. destruct I as [<-|[]]. eauto.
  - cbn in H. destruct md as [acc| |acc].
    + destruct (c =? dollar).
      * destruct (parse_group_go [] GDollar g) as [r'|] eqn:E; [|discriminate]. injection H as <-.
        unfold flush in I. destruct acc; [eapply IH; eauto|]. destruct I as [<-|I]; [eauto|eapply IH; eauto].
      * eapply IH; eauto.
    + destruct (c =? lbrace); [eapply IH; eauto|discriminate].
    + destruct (c =? rbrace).
      * destruct acc; discriminate.
      * destruct (tag_char c); [eapply IH; eauto|discriminate].
Qed.
Lemma pgroup_nil_no_idx : forall par grp g, pgroup par grp [] = Some g -> no_idx g.
Proof.
  intros par grp g H l -> p I. unfold pgroup in H. destruct par.
  - injection H as <-. destruct I.
  - unfold parse_group in H. destruct grp as [|c grp]; [discriminate|]. cbn [split_pattern] in H.
    destruct (parse_group_go [] (GDef []) (c :: grp)) as [r|] eqn:E; [|discriminate]. injection H as <-.
    eapply parse_group_go_nil; eauto.
Qed.
Lemma no_idx_rebase : forall g m, no_idx g -> rebase_group m g = g.
Proof.
  intros [l|] m H; [|destruct m; reflexivity]. destruct m; [reflexivity|]. cbn. f_equal.
  rewrite <- (map_id l) at 2. apply map_ext_in. intros p I. destruct (H l eq_refl p I) as (x & ->). reflexivity.
Qed.
Lemma no_idx_gshift : forall g d, no_idx g -> gshift d g = g.
Proof.
  intros [l|] d H; [|reflexivity]. cbn. f_equal. rewrite <- (map_id l) at 2. apply map_ext_in.
  intros p I. destruct (H l eq_refl p I) as (x & ->). reflexivity.
Qed.

(* ---- Handle / AddListener on the mux whose root is at the literal path a of T ---- *)
Lemma handle_normal : forall T a s pat hid grp par g,
  forallb littok a = true -> node_at a T = Some s -> (a <> [] -> node_mounted s = true) ->
  pgroup par grp pat = Some g -> is_valid pat = true ->
  at_path a (fun r => add r pat hid grp par) T =
  fetch_gen false (add_fin true hid (gshift (length a) g)) None (a ++ split_pattern pat) 0 0 [] false T.
Proof.
  intros T a s pat hid grp par g La Hs HM PG V.
  rewrite (fetch_descend false _ None a La T s Hs). cbn [Nat.add].
  apply (at_path_ext a _ _ T s Hs). rewrite add_unfold, PG, V. cbn [negb].
  destruct a as [|t0 r0].
  - cbn [length marr]. apply fetch_ext. intros fr n ps m. symmetry.
    rewrite <- (add_fin_shift 0 hid g fr n ps m). rewrite Nat.add_0_r. reflexivity.
  - specialize (HM ltac:(discriminate)). set (d := length (t0 :: r0)).
    destruct (split_pattern pat) as [|t rest] eqn:SP.
    + (* the root pattern of a mounted mux: no tags in its group *)
      cbn [fetch_gen]. assert (NI : no_idx g).
      { destruct pat as [|c p]; [eapply pgroup_nil_no_idx; eauto|]. cbn [split_pattern] in SP.
        pose proof (tl_toks_nonnil (c :: p)). rewrite tokens_toks in SP. rewrite SP in H. discriminate. }
      rewrite (no_idx_gshift g d NI). unfold add_fin. rewrite !(no_idx_rebase g _ NI). reflexivity.
    + rewrite (fetch_mounted_mi false _ None t rest d (marr T 0 0 (t0 :: r0)) d [] false s HM).
      pose proof (fetch_shift false (add_fin true hid (gshift d g)) None d (t :: rest) 0 0 [] false s) as X.
      cbn [Nat.add] in X. rewrite X. apply fetch_ext. intros. symmetry. apply add_fin_shift.
Qed.

Lemma listen_normal : forall T a s pat l,
  forallb littok a = true -> node_at a T = Some s -> (a <> [] -> node_mounted s = true) ->
  at_path a (fun r => add_listener r pat l) T =
  fetch_gen false (listen_fin l) None (a ++ split_pattern pat) 0 0 [] false T.
Proof.
  intros T a s pat l La Hs HM.
  rewrite (fetch_descend false _ None a La T s Hs). cbn [Nat.add].
  apply (at_path_ext a _ _ T s Hs). unfold add_listener, fetch_go.
  destruct a as [|t0 r0]; [reflexivity|].
  specialize (HM ltac:(discriminate)). set (d := length (t0 :: r0)).
  destruct (split_pattern pat) as [|t rest]; [reflexivity|].
  rewrite (fetch_mounted_mi false _ None t rest d (marr T 0 0 (t0 :: r0)) d [] false s HM).
  pose proof (fetch_shift false (listen_fin l) None d (t :: rest) 0 0 [] false s) as X.
  cbn [Nat.add] in X. rewrite X. apply fetch_ext. reflexivity.
Qed.

Lemma mount_fetch_indep : forall M toks, forallb littok toks = true ->
  forall i mi ps i2 mi2 ps2 fr l,
  fetch_gen false mount_fin (Some M) toks i mi ps fr l = fetch_gen false mount_fin (Some M) toks i2 mi2 ps2 fr l.
Proof.
  intros M. induction toks as [|t rest IH]; intros L i mi ps i2 mi2 ps2 fr l; [reflexivity|].
  cbn [forallb] in L. apply Bool.andb_true_iff in L as [L1 L2]. destruct l as [hs pp li pa wi mo ls].
  rewrite !(fetch_mount_cons _ _ _ _ _ _ _ _ _ _ _ _ _ _ _ _ L1).
  destruct (lit_get t li); f_equal; apply IH; exact L2.
Qed.

Lemma mount_normal : forall T a s toks M,
  forallb littok a = true -> forallb littok toks = true -> node_at a T = Some s ->
  at_path a (fun r => fetch_gen false mount_fin (Some M) toks 0 0 [] false r) T =
  fetch_gen false mount_fin (Some M) (a ++ toks) 0 0 [] false T.
Proof.
  intros T a s toks M La Lt Hs. rewrite (fetch_descend false _ (Some M) a La T s Hs). cbn [Nat.add].
  apply (at_path_ext a _ _ T s Hs). apply mount_fetch_indep, Lt.
Qed.
