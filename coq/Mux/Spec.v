(* Specification side of C06: the registered patterns of a trie as a relation, token-wise
   matching, the specificity order and [best] = the most specific matching pattern.
   Nothing here looks at how the trie is searched. *)
From GoRes Require Export Mux.Model Pattern.Spec.

Inductive ptok := PLit (t : bytes) | PParam (name : bytes) | PAnon | PFull.
Definition ptok_of (t : bytes) : ptok :=
  match kind t with KParam n => PParam n | KAnon => PAnon | KFull => PFull | KLit => PLit t end.
Definition ptoks (pattern : bytes) : list ptok := map ptok_of (split_pattern pattern).

(* the skeleton of a pattern: placeholder names forgotten ($x and * are the same trie edge) *)
Definition skel1 (p : ptok) : ptok := match p with PParam _ => PAnon | _ => p end.
Definition skel (p : list ptok) : list ptok := map skel1 p.

(* a placeholder matches any single token (the empty one included), '>' one or more
   remaining tokens, a literal itself *)
Fixpoint pmatch (p : list ptok) (s : list bytes) : bool :=
  match p with
  | [] => is_nil s
  | PFull :: p' => is_nil p' && negb (is_nil s)
  | PLit t :: p' => match s with x :: s' => beq t x && pmatch p' s' | [] => false end
  | _ :: p' => match s with _ :: s' => pmatch p' s' | [] => false end
  end.

(* literal beats placeholder beats full wildcard, token by token from the left *)
Definition rank (p : ptok) : nat := match p with PLit _ => 2 | PParam _ | PAnon => 1 | PFull => 0 end.
Fixpoint better (p q : list ptok) : bool :=
  match p, q with
  | a :: p', b :: q' =>
    if Nat.ltb (rank b) (rank a) then true
    else if Nat.ltb (rank a) (rank b) then false
    else better p' q'
  | _, _ => false
  end.

(* the most specific matching entry (the first one among equally specific ones) *)
Fixpoint best_of {A} (key : A -> list ptok) (l : list A) (s : list bytes) : option A :=
  match l with
  | [] => None
  | x :: r =>
    if pmatch (key x) s then
      match best_of key r s with
      | Some y => if better (key y) (key x) then Some y else Some x
      | None => Some x
      end
    else best_of key r s
  end.
Definition best (ps : list (list ptok)) (s : list bytes) : option (list ptok) := best_of (fun p => p) ps s.

(* the tokens of the name at the $-placeholder positions *)
Fixpoint pvalues (p : list ptok) (s : list bytes) : list (bytes * bytes) :=
  match p, s with
  | PParam n :: p', x :: s' => (n, x) :: pvalues p' s'
  | _ :: p', _ :: s' => pvalues p' s'
  | _, _ => []
  end.
Definition placeholder_names (p : list ptok) : list bytes :=
  flat_map (fun t => match t with PParam n => [n] | _ => [] end) p.

(* the group template with its ${tags} substituted; None = not a valid template for these tags *)
Inductive smode := SText | SDollar | STag (acc : bytes).
Fixpoint subst_go (vals : amap) (md : smode) (g : bytes) : option bytes :=
  match g with
  | [] => match md with SText => Some [] | _ => None end
  | c :: g' =>
    match md with
    | SText => if c =? dollar then subst_go vals SDollar g'
               else match subst_go vals SText g' with Some r => Some (c :: r) | None => None end
    | SDollar => if c =? lbrace then subst_go vals (STag []) g' else None
    | STag acc =>
      if c =? rbrace then
        match acc, alookup (rev acc) vals with
        | _ :: _, Some v => match subst_go vals SText g' with Some r => Some (v ++ r) | None => None end
        | _, _ => None
        end
      else if tag_char c then subst_go vals (STag (c :: acc)) g' else None
    end
  end.
(* the group the documentation promises: "" for Parallel, the resource name when no group
   is set, the substituted template otherwise *)
Definition group_spec_of (par : bool) (grp : bytes) (rname : bytes) (vals : amap) : option bytes :=
  if par then Some [] else match grp with [] => Some rname | _ => subst_go vals SText grp end.

(* the patterns (as skeletons) registered below a trie node, with their handlers *)
Inductive has_pattern : node -> list ptok -> handler -> Prop :=
| HP_here : forall n h, node_hs n = Some h -> has_pattern n [] h
| HP_lit : forall n t c p h, lit_get t (node_lits n) = Some c -> has_pattern c p h ->
                             has_pattern n (PLit t :: p) h
| HP_par : forall n c p h, node_param n = Some c -> has_pattern c p h -> has_pattern n (PAnon :: p) h
| HP_wild : forall n c p h, node_wild n = Some c -> has_pattern c p h -> has_pattern n (PFull :: p) h.

(* the name tokens a mux with this path matches patterns against; None = not below the path *)
Definition spec_strip (path rname : bytes) : option (list bytes) :=
  match path with
  | [] => Some (split_pattern rname)
  | _ => if beq path rname then Some []
         else match strip_prefix (path ++ [dot]) rname with
              | Some r => Some (tokens r)
              | None => None
              end
  end.

(* ================= definitions used by the statements of Props/C06.v ================= *)

(* ---- reachable nodes and candidates ---- *)
Inductive reach : node -> list ptok -> node -> Prop :=
| R_nil : forall n, reach n [] n
| R_lit : forall n t c p m, lit_get t (node_lits n) = Some c -> reach c p m -> reach n (PLit t :: p) m
| R_par : forall n c p m, node_param n = Some c -> reach c p m -> reach n (PAnon :: p) m
| R_wild : forall n c p m, node_wild n = Some c -> reach c p m -> reach n (PFull :: p) m.


(* a pattern ending in the full wildcard *)
Definition ends_full (p : list ptok) : Prop := exists p0, p = p0 ++ [PFull].

(* every full-wildcard node of the trie has a handler (what ValidateListeners + registration ensure) *)
Definition wild_handled (root : node) : Prop :=
  forall p m, reach root p m -> ends_full p -> node_hs m <> None.


(* AddHandler's group: Some [] for Parallel, the parsed template otherwise; None = parseGroup panics *)
Definition pgroup (par : bool) (grp pat : bytes) : option group :=
  if par then Some (Some []) else parse_group grp pat.


(* ---- the flat op list ---- *)
Inductive fop :=
| FHandle (pat : bytes) (hid : N) (grp : bytes) (par : bool)
| FListen (pat : bytes) (l : lid).
Definition frun_op (root : node) (o : fop) : outcome node :=
  match o with
  | FHandle pat hid grp par => add root pat hid grp par
  | FListen pat l => add_listener root pat l
  end.
Fixpoint frun (root : node) (ops : list fop) : node :=
  match ops with
  | [] => root
  | o :: r => frun (out_state (frun_op root o)) r
  end.
(* the accepted Handle calls: (skeleton of the pattern, handler id) *)
Fixpoint fregs (root : node) (ops : list fop) : list (list ptok * N) :=
  match ops with
  | [] => []
  | o :: r =>
    match o with
    | FHandle pat hid _ _ => if is_ok (frun_op root o) then [(skel (ptoks pat), hid)] else []
    | FListen _ _ => []
    end ++ fregs (out_state (frun_op root o)) r
  end.
Definition to_op (k : nat) (o : fop) : op :=
  match o with
  | FHandle pat hid grp par => OHandle k pat hid grp par
  | FListen pat l => OListen k pat l
  end.


(* the state after NewMux(path) followed by the flat ops on that mux *)
Definition flat_state (path : bytes) (ops : list fop) : state :=
  fst (replay [] (ONew path :: map (to_op 0) ops)).


(* the accepted Handle calls with all their arguments *)
Record entry := Ent { e_pat : bytes; e_hid : N; e_grp : bytes; e_par : bool }.
Definition e_skel (e : entry) : list ptok := skel (ptoks (e_pat e)).

Fixpoint fent (root : node) (ops : list fop) : list entry :=
  match ops with
  | [] => []
  | o :: r =>
    match o with
    | FHandle pat hid grp par => if is_ok (frun_op root o) then [Ent pat hid grp par] else []
    | FListen _ _ => []
    end ++ fent (out_state (frun_op root o)) r
  end.

(* the trie has the (skeleton) pattern q registered with handler id hid *)
Definition has_hid (n : node) (q : list ptok) (hid : N) : Prop := exists g, has_pattern n q (hid, g).

(* ================= mounted arrangements ================= *)

(* a literal pattern token (what the tokens of a valid path are) *)
Definition littok (t : bytes) : bool :=
  match t with c :: _ => negb ((c =? dollar) || (c =? star)) && negb (c =? gt) | [] => false end.
Definition lits (a : list bytes) : list ptok := map PLit a.

(* Route is NewMux("") + the callback's calls on the new mux + Mount; [n] = number of muxes so far *)
Fixpoint desugar_rop (r : rop) (k n : nat) {struct r} : list op * nat :=
  match r with
  | RHandle pat hid grp par => ([OHandle k pat hid grp par], n)
  | RListen pat l => ([OListen k pat l], n)
  | RRoute path body =>
    let '(ops, n') :=
      (fix go (b : list rop) (n0 : nat) {struct b} : list op * nat :=
         match b with
         | [] => ([], n0)
         | r' :: b' => let '(o1, n1) := desugar_rop r' n n0 in
                       let '(o2, n2) := go b' n1 in (o1 ++ o2, n2)
         end) body (S n) in
    (ONew [] :: ops ++ [OMount k path n], n')
  end.
Fixpoint desugar (ops : list op) (n : nat) : list op :=
  match ops with
  | [] => []
  | o :: r =>
    match o with
    | ORoute m path body => let '(o1, n1) := desugar_rop (RRoute path body) m n in o1 ++ desugar r n1
    | ONew _ => o :: desugar r (S n)
    | _ => o :: desugar r n
    end
  end.

(* the Handle calls of a (Route-free) op list: mux, pattern tokens, handler id, group, Parallel *)
Record sreg := SR { sr_mux : nat; sr_pat : bytes; sr_hid : N; sr_grp : bytes; sr_par : bool }.
Fixpoint handles (ops : list op) : list sreg :=
  match ops with
  | [] => []
  | OHandle m pat hid grp par :: r => SR m pat hid grp par :: handles r
  | _ :: r => handles r
  end.

(* where the muxes end up, computed from the op list alone (every op is assumed accepted):
   per mux (path, top-level ancestor, literal tokens from that ancestor's root) *)
Definition sloc := (bytes * nat * list bytes)%type.
Definition sl_step (ss : list sloc) (o : op) : list sloc :=
  match o with
  | ONew path => ss ++ [(path, length ss, [])]
  | OMount k path sub =>
    match nth_error ss k, nth_error ss sub with
    | Some (_, t, a), Some (sp, _, _) =>
      let pre := a ++ split_pattern (merge_pattern path sp) in
      map (fun x => let '(p, t', a') := x in if Nat.eqb t' sub then (p, t, pre ++ a') else x) ss
    | _, _ => ss
    end
  | _ => ss
  end.
Definition slocs (ops : list op) : list sloc := fold_left sl_step ops [].
(* the full pattern of a Handle call, from the root of its top-level mux, and that mux *)
Definition full_toks (ss : list sloc) (r : sreg) : list bytes :=
  match nth_error ss (sr_mux r) with Some (_, _, a) => a ++ split_pattern (sr_pat r) | None => [] end.
Definition top_mux (ss : list sloc) (k : nat) : option nat :=
  match nth_error ss k with Some (_, t, _) => Some t | None => None end.
Definition abs_toks (ss : list sloc) (k : nat) : list bytes :=
  match nth_error ss k with Some (_, _, a) => a | None => [] end.

(* the Handle calls that lie at or below the root of mux k (same top-level trie, full token list
   starting with k's own position), with their pattern relative to k's root *)
Fixpoint strip_pre (pre l : list bytes) : option (list bytes) :=
  match pre, l with
  | [], _ => Some l
  | a :: pre', b :: l' => if beq a b then strip_pre pre' l' else None
  | _ :: _, [] => None
  end.
Definition rel_toks (st : state) (k : nat) (r : sreg) : option (list bytes) :=
  match top_of st k, top_of st (sr_mux r) with
  | Some (t, a), Some (t', a') =>
    if Nat.eqb t' t then strip_pre a (a' ++ split_pattern (sr_pat r)) else None
  | _, _ => None
  end.
Definition mcands (st : state) (R : list sreg) (k : nat) : list (list bytes * sreg) :=
  flat_map (fun r => match rel_toks st k r with Some rel => [(rel, r)] | None => [] end) R.
Definition ckey (x : list bytes * sreg) : list ptok := skel (map ptok_of (fst x)).

(* what arrangement_invariant compares: a candidate without the mux it was registered on, and
   two lookup results up to handler identity (listeners are compared by the oracle only; the group
   also contains the resource name when no group is set, so it is compared for equal names) *)
Definition cproj (x : list bytes * sreg) : list bytes * N * bytes * bool :=
  (fst x, sr_hid (snd x), sr_grp (snd x), sr_par (snd x)).
Definition same_result (n1 n2 : bytes) (r1 r2 : lres) : Prop :=
  match r1, r2 with
  | LNone, LNone => True
  | LHit h1 _ p1 g1, LHit h2 _ p2 g2 => h1 = h2 /\ p1 = p2 /\ (n1 = n2 -> g1 = g2)
  | _, _ => False
  end.

