(* Mounted arrangements, state level: locations stay valid, and the registered patterns of every
   top-level trie are the full patterns of the Handle calls (mount_patterns). *)
From GoRes Require Import Mux.Spec Pattern.Lemmas Pattern.Proofs Mux.ProofsMatch Mux.ProofsFetch Mux.ProofsFlat Mux.ProofsReg Mux.ProofsMount.
From Coq Require Import Lia Arith PeanoNat.
Open Scope N_scope.

(* ---- list plumbing ---- *)
Lemma length_set_nth : forall A k (x : A) l, length (set_nth k x l) = length l.
Proof. induction k; intros x [|y l]; cbn; auto. Qed.
Lemma nth_set_nth_same : forall A k (x : A) l, (k < length l)%nat -> nth_error (set_nth k x l) k = Some x.
Proof. induction k; intros x [|y l] H; cbn in *; try lia; auto. apply IHk. lia. Qed.
Lemma nth_set_nth_other : forall A k j (x : A) l, j <> k -> nth_error (set_nth k x l) j = nth_error l j.
Proof. induction k; intros [|j] x [|y l] H; cbn; try congruence; auto. Qed.
Lemma nth_error_lt : forall A (l : list A) k x, nth_error l k = Some x -> (k < length l)%nat.
Proof. intros. apply nth_error_Some. congruence. Qed.

(* ---- well-formed locations ---- *)
Definition wf_loc (st : state) (lc : loc) : Prop :=
  match lc with
  | Top _ => True
  | Sub t a => forallb littok a = true /\
               exists p T s, nth_error st t = Some (p, Top T) /\ node_at a T = Some s /\ node_mounted s = true
  end.
Definition WFst (st : state) : Prop :=
  forall k p lc, nth_error st k = Some (p, lc) -> is_valid_path p = true /\ wf_loc st lc.

Lemma top_of_lt : forall st k t a, top_of st k = Some (t, a) -> (k < length st)%nat.
Proof.
  intros st k t a H. unfold top_of in H. destruct (nth_error st k) eqn:E; [|discriminate]. eapply nth_error_lt; eauto.
Qed.

(* the facts every operation on mux k starts from *)
Lemma top_of_wf : forall st k t a, WFst st -> top_of st k = Some (t, a) ->
  forallb littok a = true /\ exists p T s, nth_error st t = Some (p, Top T) /\ node_at a T = Some s /\
                                         (a <> [] -> node_mounted s = true).
Proof.
  intros st k t a W H. unfold top_of in H. destruct (nth_error st k) as [[p [T|t' a']]|] eqn:E; try discriminate.
  - injection H as <- <-. split; [reflexivity|]. exists p, T, T. split; [exact E|]. split; [reflexivity|congruence].
  - injection H as <- <-. destruct (W _ _ _ E) as (_ & L & p0 & T & s & A & B & C). split; [exact L|]. exists p0, T, s. auto.
Qed.

Lemma with_root_ok : forall st k f st', WFst st -> with_root st k f = Ok st' ->
  exists t a p T s T', top_of st k = Some (t, a) /\ nth_error st t = Some (p, Top T) /\ node_at a T = Some s /\
     forallb littok a = true /\ (a <> [] -> node_mounted s = true) /\
     at_path a f T = Ok T' /\ st' = set_nth t (p, Top T') st.
Proof.
  intros st k f st' W H. unfold with_root in H. destruct (top_of st k) as [[t a]|] eqn:TO; [|discriminate].
  destruct (top_of_wf _ _ _ _ W TO) as (L & p & T & s & A & B & C).
  unfold tree_of in H. rewrite A in H. destruct (at_path a f T) as [T'|e T'] eqn:AP; [|discriminate].
  cbn in H. injection H as <-. exists t, a, p, T, s, T'. auto 10.
Qed.

(* replacing the tree of a top-level mux by one that keeps all nodes *)
Section SetTop.
Variables (st : state) (t : nat) (p : bytes) (T T' : node).
Hypothesis Ht : nth_error st t = Some (p, Top T).
Hypothesis HP : persist T T'.
Let st' := set_nth t (p, Top T') st.

Lemma set_top_nth : forall j, nth_error st' j = if Nat.eqb j t then Some (p, Top T') else nth_error st j.
Proof.
  intros j. unfold st'. destruct (Nat.eqb j t) eqn:E.
  - apply Nat.eqb_eq in E. subst j. apply nth_set_nth_same. eapply nth_error_lt; eauto.
  - apply Nat.eqb_neq in E. apply nth_set_nth_other. exact E.
Qed.
Lemma set_top_top_of : forall j, top_of st' j = top_of st j.
Proof.
  intros j. unfold top_of. rewrite set_top_nth. destruct (Nat.eqb j t) eqn:E; [|reflexivity].
  apply Nat.eqb_eq in E. subst j. rewrite Ht. reflexivity.
Qed.
Lemma set_top_wf : WFst st -> WFst st'.
Proof.
  intros W k p0 lc H. rewrite set_top_nth in H. destruct (Nat.eqb k t) eqn:E.
  - injection H as <- <-. split; [apply (W _ _ _ Ht)|exact I].
  - destruct (W _ _ _ H) as [V WL]. split; [exact V|]. destruct lc as [T0|t0 a0]; [exact I|].
    destruct WL as (L & p1 & T1 & s1 & A & B & C). split; [exact L|].
    destruct (Nat.eqb t0 t) eqn:E2.
    + apply Nat.eqb_eq in E2. subst t0. rewrite Ht in A. injection A as <- <-.
      destruct (HP _ _ B) as (s' & B' & M'). exists p, T', s'. rewrite set_top_nth, Nat.eqb_refl. split; [reflexivity|].
      split; [exact B'|congruence].
    + exists p1, T1, s1. rewrite set_top_nth, E2. auto.
Qed.
Lemma set_top_length : length st' = length st.
Proof. apply length_set_nth. Qed.
End SetTop.

(* ---- the registry: (mux, pattern tokens, handler id) of the accepted Handle calls ---- *)
Definition registry := list (nat * list bytes * N).
Definition Inv1 (st : state) (R : registry) : Prop :=
  (forall k toks hid, In (k, toks, hid) R -> (k < length st)%nat) /\
  forall t p T, nth_error st t = Some (p, Top T) -> forall q hid,
    has_hid T q hid <-> exists k toks a, In (k, toks, hid) R /\ top_of st k = Some (t, a) /\ q = sk (a ++ toks).


(* ---- nodes persist through add / AddListener ---- *)
Lemma add_fin_keeps : forall rb hid g fr n ps mi,
  kids_eq n (out_state (add_fin rb hid g fr n ps mi)) /\ node_mounted (out_state (add_fin rb hid g fr n ps mi)) = node_mounted n.
Proof.
  intros. split; [apply add_fin_kids|]. destruct (add_fin rb hid g fr n ps mi) as [n'|e n'] eqn:E; cbn.
  - apply loc_add_fin in E. tauto.
  - apply add_fin_panic_state in E. congruence.
Qed.
Lemma listen_fin_keeps : forall l fr n ps mi,
  kids_eq n (out_state (listen_fin l fr n ps mi)) /\ node_mounted (out_state (listen_fin l fr n ps mi)) = node_mounted n.
Proof.
  intros. split; [apply listen_fin_kids|]. destruct (listen_fin l fr n ps mi) as [n'|e n'] eqn:E; cbn.
  - apply loc_listen_fin in E. tauto.
  - apply listen_fin_panic_state in E. congruence.
Qed.
Lemma persist_add : forall s pat hid grp par, persist s (out_state (add s pat hid grp par)).
Proof.
  intros. rewrite add_unfold. destruct (pgroup par grp pat) as [g|]; [|apply persist_refl].
  destruct (negb (is_valid pat)); [apply persist_refl|]. apply persist_fetch. intros. apply add_fin_keeps.
Qed.
Lemma persist_listen : forall s pat l, persist s (out_state (add_listener s pat l)).
Proof. intros. unfold add_listener, fetch_go. apply persist_fetch. intros. apply listen_fin_keeps. Qed.

Lemma at_path_out : forall a f n n', at_path a f n = Ok n' -> n' = out_state (at_path a f n).
Proof. intros a f n n' H. rewrite H. reflexivity. Qed.

Lemma has_pattern_set_mounted : forall S q h, has_pattern (set_mounted S) q h <-> has_pattern S q h.
Proof.
  intros [hs pp li pa wi mo ls] q h. rewrite !has_pattern_node. destruct q as [|[t|x| |] q']; cbn; reflexivity.
Qed.
Lemma node_at_set_mounted : forall a S x, node_at a S = Some x ->
  exists x', node_at a (set_mounted S) = Some x' /\ (node_mounted x = true \/ a = [] -> node_mounted x' = true).
Proof.
  intros [|t r] [hs pp li pa wi mo ls] x H; cbn in *.
  - injection H as <-. eexists. split; [reflexivity|]. reflexivity.
  - exists x. split; [exact H|]. intros [M|M]; [exact M|discriminate].
Qed.

(* ---- Handle ---- *)
Lemma handle_step : forall st k pat hid grp par st' R, WFst st -> Inv1 st R ->
  do_handle st k pat hid grp par = Ok st' -> WFst st' /\ Inv1 st' (R ++ [(k, split_pattern pat, hid)]).
Proof.
  intros st k pat hid grp par st' R W [IR IP] H. unfold do_handle in H.
  destruct (with_root_ok _ _ _ _ W H) as (t & a & p & T & s & T' & TO & Ht & Hs & La & _ & AP & ->).
  destruct (at_path_ok _ _ _ _ AP _ Hs) as (s' & Es).
  destruct (add_pats s pat hid grp par) as (oh & HR & HP). rewrite Es in HR. cbn in HR. destruct HR as (g & ->).
  pose proof (at_path_out _ _ _ _ AP) as ET.
  assert (PS : persist T T').
  { rewrite ET. eapply persist_at_path; [exact Hs|]. apply persist_add. }
  split; [apply (set_top_wf st t p T T' Ht PS W)|]. split.
  - intros k0 toks0 hid0 I. rewrite length_set_nth. apply in_app_iff in I as [I|[I|[]]]; [eapply IR; eauto|].
    injection I as <- _ _. eapply top_of_lt; eauto.
  - intros t0 p0 T0 H0 q hid0. rewrite (set_top_nth st t p T T' Ht) in H0.
    assert (PT : forall q h, has_pattern T' q h <->
               (exists q', q = lits a ++ q' /\ (q' = skel (ptoks pat) /\ Some (hid, g) = Some h)) \/ has_pattern T q h).
    { rewrite ET. apply at_path_pats with (s := s); [exact Hs|]. exact HP. }
    destruct (Nat.eqb t0 t) eqn:E.
    + apply Nat.eqb_eq in E. subst t0. injection H0 as <- <-. split.
      * intros (g0 & Hp). apply PT in Hp. destruct Hp as [(q' & -> & -> & E2)|Hp].
        -- injection E2 as <- _. exists k, (split_pattern pat), a. split; [apply in_app_iff; right; left; reflexivity|].
           rewrite (set_top_top_of st t p T T' Ht). split; [exact TO|]. rewrite sk_app, (sk_lits a La), skel_ptoks. reflexivity.
        -- destruct (proj1 (IP t p T Ht q hid0) (ex_intro _ g0 Hp)) as (k1 & toks1 & a1 & I1 & T1 & Q1).
           exists k1, toks1, a1. split; [apply in_app_iff; left; exact I1|]. rewrite (set_top_top_of st t p T T' Ht). auto.
      * intros (k1 & toks1 & a1 & I1 & T1 & Q1). rewrite (set_top_top_of st t p T T' Ht) in T1.
        apply in_app_iff in I1 as [I1|[I1|[]]].
        -- destruct (proj2 (IP t p T Ht q hid0)) as (g0 & Hp); [eauto 10|]. exists g0. apply PT. right. exact Hp.
        -- injection I1 as <- <- <-. rewrite TO in T1. injection T1 as <-. exists g. apply PT. left.
           exists (skel (ptoks pat)). rewrite Q1, sk_app, (sk_lits a La), skel_ptoks. auto.
    + split.
      * intros Hh. destruct (proj1 (IP t0 p0 T0 H0 q hid0) Hh) as (k1 & toks1 & a1 & I1 & T1 & Q1).
        exists k1, toks1, a1. split; [apply in_app_iff; left; exact I1|]. rewrite (set_top_top_of st t p T T' Ht). auto.
      * intros (k1 & toks1 & a1 & I1 & T1 & Q1). rewrite (set_top_top_of st t p T T' Ht) in T1.
        apply in_app_iff in I1 as [I1|[I1|[]]]; [apply (IP t0 p0 T0 H0 q hid0); eauto 10|].
        injection I1 as <- _ _. rewrite TO in T1. injection T1 as <- _. rewrite Nat.eqb_refl in E. discriminate.
Qed.

(* ---- AddListener ---- *)
Lemma listen_step : forall st k pat l st' R, WFst st -> Inv1 st R ->
  do_listen st k pat l = Ok st' -> WFst st' /\ Inv1 st' R.
Proof.
  intros st k pat l st' R W [IR IP] H. unfold do_listen in H.
  destruct (with_root_ok _ _ _ _ W H) as (t & a & p & T & s & T' & TO & Ht & Hs & La & _ & AP & ->).
  pose proof (at_path_out _ _ _ _ AP) as ET.
  assert (PS : persist T T').
  { rewrite ET. eapply persist_at_path; [exact Hs|]. apply persist_listen. }
  split; [apply (set_top_wf st t p T T' Ht PS W)|]. split.
  - intros k0 toks0 hid0 I. rewrite length_set_nth. eapply IR; eauto.
  - intros t0 p0 T0 H0 q hid0. rewrite (set_top_nth st t p T T' Ht) in H0.
    assert (PT : forall q h, has_pattern T' q h <-> has_pattern T q h).
    { intros q1 h1. rewrite ET.
      rewrite (at_path_pats a _ T s (fun _ _ => False) Hs); [|intros q2 h2; rewrite listen_pats; tauto].
      split; [intros [(q' & _ & [])|X]; exact X|auto]. }
    setoid_rewrite (set_top_top_of st t p T T' Ht).
    destruct (Nat.eqb t0 t) eqn:E.
    + apply Nat.eqb_eq in E. subst t0. injection H0 as <- <-. rewrite <- (IP t p T Ht q hid0).
      unfold has_hid. setoid_rewrite PT. reflexivity.
    + apply (IP t0 p0 T0 H0).
Qed.

(* ---- NewMux ---- *)
Lemma new_step : forall st path st' R, WFst st -> Inv1 st R ->
  new_mux st path = Ok st' -> WFst st' /\ Inv1 st' R /\ st' = st ++ [(path, Top empty_node)].
Proof.
  intros st path st' R W [IR IP] H. unfold new_mux in H. destruct (is_valid_path path) eqn:V; [|discriminate].
  injection H as <-.
  assert (NTH : forall j x, nth_error st j = Some x -> nth_error (st ++ [(path, Top empty_node)]) j = Some x).
  { intros j x Hj. rewrite nth_error_app1; [exact Hj|eapply nth_error_lt; eauto]. }
  assert (TOP : forall j, (j < length st)%nat -> top_of (st ++ [(path, Top empty_node)]) j = top_of st j).
  { intros j Hj. unfold top_of. rewrite nth_error_app1 by exact Hj. reflexivity. }
  split; [|split; [|reflexivity]].
  - intros k p lc Hk. destruct (Nat.lt_ge_cases k (length st)) as [L|L].
    + rewrite nth_error_app1 in Hk by exact L. destruct (W _ _ _ Hk) as [V0 WL]. split; [exact V0|].
      destruct lc as [T0|t0 a0]; [exact I|]. destruct WL as (La & p1 & T1 & s1 & A & B & C). split; [exact La|].
      exists p1, T1, s1. auto.
    + rewrite nth_error_app2 in Hk by exact L. destruct (k - length st)%nat as [|m]; cbn in Hk; [|destruct m; discriminate].
      injection Hk as <- <-. split; [exact V|exact I].
  - split.
    + intros k toks hid I. rewrite app_length. cbn. specialize (IR _ _ _ I). lia.
    + intros t p T Ht q hid. destruct (Nat.lt_ge_cases t (length st)) as [L|L].
      * rewrite nth_error_app1 in Ht by exact L. rewrite (IP t p T Ht q hid). split.
        -- intros (k & toks & a & I1 & T1 & Q1). exists k, toks, a. rewrite (TOP k (IR _ _ _ I1)). auto.
        -- intros (k & toks & a & I1 & T1 & Q1). exists k, toks, a. rewrite (TOP k (IR _ _ _ I1)) in T1. auto.
      * rewrite nth_error_app2 in Ht by exact L. destruct (t - length st)%nat as [|m] eqn:D; cbn in Ht; [|destruct m; discriminate].
        injection Ht as <- <-. split.
        -- intros (g0 & X). destruct (has_pattern_empty _ _ X).
        -- intros (k & toks & a & I1 & T1 & Q1). exfalso. pose proof (IR _ _ _ I1) as Lk. rewrite (TOP k Lk) in T1.
           unfold top_of in T1. destruct (nth_error st k) as [[p1 [T1'|t1 a1]]|] eqn:E; try discriminate.
           ++ injection T1 as <- _. lia.
           ++ injection T1 as <- _. destruct (W _ _ _ E) as (_ & _ & p2 & T2 & s2 & A & _). apply nth_error_lt in A. unfold state, mux in *. lia.
Qed.

(* ---- Mount ---- *)
Lemma split_nonnil : forall s, is_nil s = false -> split_pattern s <> [].
Proof.
  intros [|c s] H; [discriminate|]. unfold split_pattern. rewrite tokens_toks.
  pose proof (tl_toks_nonnil (c :: s)). destruct (toks (c :: s)); [discriminate|congruence].
Qed.

Definition moved (sub t : nat) (pre : list bytes) (x : option (nat * list bytes)) : option (nat * list bytes) :=
  match x with
  | Some (t0, a0) => if Nat.eqb t0 sub then Some (t, pre ++ a0) else Some (t0, a0)
  | None => None
  end.

Lemma mount_step : forall st k path sub st' R, WFst st -> Inv1 st R ->
  do_mount st k path sub = Ok st' -> WFst st' /\ Inv1 st' R.
Proof.
  intros st k path sub st' R W [IR IP] H. unfold do_mount in H.
  destruct (is_valid_path path) eqn:VP; [|discriminate]. cbn [negb] in H.
  destruct (nth_error st sub) as [[subpath [S|? ?]]|] eqn:ES; try (destruct (top_of st k) as [[? ?]|]; discriminate).
  destruct (top_of st k) as [[t a]|] eqn:TO; [|discriminate].
  set (spath := merge_pattern path subpath) in *.
  destruct (is_nil spath) eqn:NS; [discriminate|]. destruct (Nat.eqb t sub) eqn:TS; [discriminate|].
  apply Nat.eqb_neq in TS.
  destruct (with_root st k (fun r => mount_node r spath S)) as [st1|e st1] eqn:WR; [|discriminate].
  injection H as <-.
  destruct (with_root_ok _ _ _ _ W WR) as (t2 & a2 & p & T & s & T' & TO2 & Ht & Hs & La & _ & AP & ->).
  rewrite TO in TO2. injection TO2 as <- <-.
  set (toks := split_pattern spath) in *. set (pre := a ++ toks) in *. set (M := set_mounted S).
  destruct (W _ _ _ ES) as [VS _].
  assert (Lt : forallb littok toks = true).
  { unfold toks, spath. rewrite split_merge, forallb_app, (valid_path_littok _ VP), (valid_path_littok _ VS). reflexivity. }
  assert (NE : toks <> []) by (apply split_nonnil; exact NS).
  assert (Lp : forallb littok pre = true) by (unfold pre; rewrite forallb_app, La, Lt; reflexivity).
  destruct (at_path_ok _ _ _ _ AP _ Hs) as (s' & Es). unfold mount_node, fetch_go in Es. fold toks in Es. fold M in Es.
  destruct (mount_fetch_spec M toks Lt NE _ _ _ _ _ Es) as (HPm & N1 & N0 & PSm).
  pose proof (at_path_out _ _ _ _ AP) as ET.
  assert (OS : out_state (mount_node s spath S) = s').
  { unfold mount_node, fetch_go. fold toks. fold M. rewrite Es. reflexivity. }
  assert (PS : persist T T').
  { rewrite ET. eapply persist_at_path; [exact Hs|]. rewrite OS. exact PSm. }
  assert (NP : node_at pre T' = Some M).
  { unfold pre. rewrite node_at_app, ET, (node_at_at_path a _ T s Hs), OS. exact N1. }
  assert (PT : forall q h, has_pattern T' q h <->
             (exists q', q = lits pre ++ q' /\ has_pattern S q' h) \/ has_pattern T q h).
  { intros q h. rewrite ET.
    rewrite (at_path_pats a _ T s (fun q0 h0 => exists q', q0 = lits toks ++ q' /\ has_pattern M q' h0) Hs).
    - split; (intros [(q1 & E1 & X)|X]; [left|right; exact X]).
      + destruct X as (q2 & -> & X). exists q2. unfold pre. rewrite lits_app, <- app_assoc. split; [exact E1|].
        apply has_pattern_set_mounted. exact X.
      + exists (lits toks ++ q1). unfold pre in E1. rewrite lits_app, <- app_assoc in E1. split; [exact E1|].
        exists q1. split; [reflexivity|]. apply has_pattern_set_mounted. exact X.
    - intros q0 h0. rewrite OS, HPm. tauto. }
  set (st1 := set_nth t (p, Top T') st).
  set (st' := set_nth sub (subpath, Sub t pre) (map (relocate sub t pre) st1)).
  assert (Lsub : (sub < length st)%nat) by (eapply nth_error_lt; eauto).
  assert (NTH : forall j, nth_error st' j =
            if Nat.eqb j sub then Some (subpath, Sub t pre)
            else option_map (relocate sub t pre) (if Nat.eqb j t then Some (p, Top T') else nth_error st j)).
  { intros j. unfold st'. destruct (Nat.eqb j sub) eqn:E.
    - apply Nat.eqb_eq in E. subst j. apply nth_set_nth_same. rewrite map_length. unfold st1. rewrite length_set_nth. exact Lsub.
    - apply Nat.eqb_neq in E. rewrite nth_set_nth_other by exact E. rewrite nth_error_map. unfold st1.
      rewrite (set_top_nth st t p T T' Ht). reflexivity. }
  assert (TOP : forall j, top_of st' j = moved sub t pre (top_of st j)).
  { intros j. unfold top_of at 1. rewrite NTH. destruct (Nat.eqb j sub) eqn:E.
    - apply Nat.eqb_eq in E. subst j. unfold top_of. rewrite ES. cbn [moved]. rewrite Nat.eqb_refl, app_nil_r. reflexivity.
    - destruct (Nat.eqb j t) eqn:E2.
      + apply Nat.eqb_eq in E2. subst j. unfold top_of. rewrite Ht. cbn. rewrite E. reflexivity.
      + unfold top_of. destruct (nth_error st j) as [[p0 [T0|t0 a0]]|]; cbn; [rewrite E; reflexivity| |reflexivity].
        destruct (Nat.eqb t0 sub); reflexivity. }
  assert (TREE : forall j p0 T0, nth_error st' j = Some (p0, Top T0) ->
            j <> sub /\ ((j = t /\ p0 = p /\ T0 = T') \/ (j <> t /\ nth_error st j = Some (p0, Top T0)))).
  { intros j p0 T0 Hj. rewrite NTH in Hj. destruct (Nat.eqb j sub) eqn:E; [discriminate|]. apply Nat.eqb_neq in E.
    split; [exact E|]. destruct (Nat.eqb j t) eqn:E2.
    - apply Nat.eqb_eq in E2. cbn in Hj. injection Hj as <- <-. auto.
    - apply Nat.eqb_neq in E2. right. split; [exact E2|].
      destruct (nth_error st j) as [[p1 [T1|t1 a1]]|]; cbn in Hj; try discriminate; [exact Hj|].
      destruct (Nat.eqb t1 sub); discriminate. }
  split.
  - (* locations stay valid *)
    intros j p0 lc Hj. rewrite NTH in Hj. destruct (Nat.eqb j sub) eqn:E.
    + injection Hj as <- <-. split; [exact VS|]. split; [exact Lp|]. exists p, T', M.
      rewrite NTH. rewrite (proj2 (Nat.eqb_neq t sub) TS), Nat.eqb_refl. cbn. split; [reflexivity|]. split; [exact NP|].
      unfold M. destruct S. reflexivity.
    + destruct (Nat.eqb j t) eqn:E2.
      * cbn in Hj. injection Hj as <- <-. split; [apply (W _ _ _ Ht)|exact I].
      * destruct (nth_error st j) as [[p1 lc1]|] eqn:EJ; [|discriminate]. cbn in Hj.
        destruct (W _ _ _ EJ) as [V1 WL1].
        destruct lc1 as [T1|t1 a1]; cbn in Hj.
        -- injection Hj as <- <-. split; [exact V1|exact I].
        -- destruct WL1 as (L1 & p2 & T2 & s2 & A & B & C).
           destruct (Nat.eqb t1 sub) eqn:E3; injection Hj as <- <-; (split; [exact V1|]).
           ++ apply Nat.eqb_eq in E3. subst t1. rewrite ES in A. injection A as <- <-.
              split; [rewrite forallb_app, Lp, L1; reflexivity|].
              destruct (node_at_set_mounted _ _ _ B) as (x' & B' & C'). exists p, T', x'.
              rewrite NTH. rewrite (proj2 (Nat.eqb_neq t sub) TS), Nat.eqb_refl. cbn. split; [reflexivity|].
              split; [rewrite node_at_app, NP; exact B'|apply C'; left; exact C].
           ++ split; [exact L1|]. apply Nat.eqb_neq in E3. destruct (Nat.eqb t1 t) eqn:E4.
              ** apply Nat.eqb_eq in E4. subst t1. rewrite Ht in A. injection A as <- <-.
                 destruct (PS _ _ B) as (s3 & B3 & M3). exists p, T', s3.
                 rewrite NTH, (proj2 (Nat.eqb_neq t sub) TS), Nat.eqb_refl. cbn. split; [reflexivity|]. split; [exact B3|congruence].
              ** exists p2, T2, s2. rewrite NTH, (proj2 (Nat.eqb_neq t1 sub) E3), E4, A. cbn. auto.
  - split.
    + intros k0 toks0 hid0 I0. unfold st'. rewrite length_set_nth, map_length. unfold st1. rewrite length_set_nth. eapply IR; eauto.
    + intros t0 p0 T0 H0 q hid. destruct (TREE _ _ _ H0) as (N0s & [(-> & -> & ->)|(N0t & H0')]).
      * (* the tree that received the mounted one *)
        split.
        -- intros (g0 & Hp). apply PT in Hp. destruct Hp as [(q' & -> & Hp)|Hp].
           ++ destruct (proj1 (IP sub subpath S ES q' hid) (ex_intro _ g0 Hp)) as (k1 & toks1 & a1 & I1 & T1 & Q1).
              exists k1, toks1, (pre ++ a1). split; [exact I1|]. rewrite TOP, T1. cbn [moved]. rewrite Nat.eqb_refl.
              split; [reflexivity|]. rewrite Q1, <- app_assoc, (sk_app pre), (sk_lits pre Lp). reflexivity.
           ++ destruct (proj1 (IP t p T Ht q hid) (ex_intro _ g0 Hp)) as (k1 & toks1 & a1 & I1 & T1 & Q1).
              exists k1, toks1, a1. split; [exact I1|]. rewrite TOP, T1. cbn [moved]. rewrite (proj2 (Nat.eqb_neq t sub) TS). auto.
        -- intros (k1 & toks1 & a1 & I1 & T1 & Q1). rewrite TOP in T1.
           destruct (top_of st k1) as [[t3 a3]|] eqn:T3; [|discriminate]. cbn [moved] in T1.
           destruct (Nat.eqb t3 sub) eqn:E3.
           ++ apply Nat.eqb_eq in E3. subst t3. injection T1 as <-.
              destruct (proj2 (IP sub subpath S ES (sk (a3 ++ toks1)) hid)) as (g0 & Hp); [eauto 10|].
              exists g0. apply PT. left. exists (sk (a3 ++ toks1)). split; [|exact Hp].
              rewrite Q1, <- app_assoc, (sk_app pre), (sk_lits pre Lp). reflexivity.
           ++ injection T1 as -> ->. destruct (proj2 (IP t p T Ht q hid)) as (g0 & Hp); [eauto 10|].
              exists g0. apply PT. right. exact Hp.
      * rewrite (IP t0 p0 T0 H0' q hid). split.
        -- intros (k1 & toks1 & a1 & I1 & T1 & Q1). exists k1, toks1, a1. split; [exact I1|]. rewrite TOP, T1. cbn [moved].
           rewrite (proj2 (Nat.eqb_neq t0 sub) N0s). auto.
        -- intros (k1 & toks1 & a1 & I1 & T1 & Q1). rewrite TOP in T1.
           destruct (top_of st k1) as [[t3 a3]|] eqn:T3; [|discriminate]. cbn [moved] in T1.
           destruct (Nat.eqb t3 sub) eqn:E3.
           ++ injection T1 as <- _. congruence.
           ++ injection T1 as -> ->. eauto 10.
Qed.

(* ---- Route = NewMux("") ; body ; Mount ---- *)
Section RopInd.
Variable P : rop -> Prop.
Hypothesis PH : forall pat hid grp par, P (RHandle pat hid grp par).
Hypothesis PL : forall pat l, P (RListen pat l).
Hypothesis PR : forall path body, Forall P body -> P (RRoute path body).
Fixpoint rop_ind' (r : rop) : P r :=
  match r with
  | RHandle pat hid grp par => PH pat hid grp par
  | RListen pat l => PL pat l
  | RRoute path body =>
    PR path body ((fix go (b : list rop) : Forall P b :=
                     match b with [] => Forall_nil P | x :: b' => Forall_cons x (rop_ind' x) (go b') end) body)
  end.
End RopInd.

Definition run_body (k' : nat) :=
  fix go (b : list rop) (s : state) {struct b} : outcome state :=
    match b with
    | [] => Ok s
    | r' :: b' => match run_rop r' k' s with Ok s' => go b' s' | p => p end
    end.
Definition des_body (k' : nat) :=
  fix go (b : list rop) (n0 : nat) {struct b} : list op * nat :=
    match b with
    | [] => ([], n0)
    | r' :: b' => let '(o1, n1) := desugar_rop r' k' n0 in
                  let '(o2, n2) := go b' n1 in (o1 ++ o2, n2)
    end.
Lemma run_rop_route : forall path body k st,
  run_rop (RRoute path body) k st =
  match run_body (length st) body (st ++ [([], Top empty_node)]) with
  | Ok s => do_mount s k path (length st)
  | p => p
  end.
Proof. reflexivity. Qed.
Lemma desugar_rop_route : forall path body k n,
  desugar_rop (RRoute path body) k n =
  let '(ops, n') := des_body n body (S n) in (ONew [] :: ops ++ [OMount k path n], n').
Proof. reflexivity. Qed.

Lemma run_all_app : forall a b st,
  run_all st (a ++ b) = match run_all st a with Some s => run_all s b | None => None end.
Proof.
  induction a as [|o a IH]; intros b st; [reflexivity|]. cbn [app run_all].
  destruct (run_op st o); [apply IH|reflexivity].
Qed.

Lemma with_root_length : forall st k f st', with_root st k f = Ok st' -> length st' = length st.
Proof.
  intros st k f st' H. unfold with_root in H. destruct (top_of st k) as [[t a]|]; [|discriminate].
  destruct (tree_of st t) as [[p n]|]; [|discriminate]. destruct (at_path a f n); [|discriminate].
  cbn in H. injection H as <-. apply length_set_nth.
Qed.
Lemma do_mount_length : forall st k path sub st', do_mount st k path sub = Ok st' -> length st' = length st.
Proof.
  intros st k path sub st' H. unfold do_mount in H. destruct (negb (is_valid_path path)); [discriminate|].
  destruct (nth_error st sub) as [[sp [S|? ?]]|]; try (destruct (top_of st k) as [[? ?]|]; discriminate).
  destruct (top_of st k) as [[t a]|]; [|discriminate]. destruct (is_nil _); [discriminate|].
  destruct (Nat.eqb t sub); [discriminate|].
  destruct (with_root st k _) as [st1|e st1] eqn:WR; [|discriminate]. injection H as <-.
  rewrite length_set_nth, map_length. eapply with_root_length; eauto.
Qed.

Lemma run_rop_desugar : forall r k st st', run_rop r k st = Ok st' ->
  run_all st (fst (desugar_rop r k (length st))) = Some st' /\ snd (desugar_rop r k (length st)) = length st'.
Proof.
  intros r. induction r as [pat hid grp par|pat l|path body IHb] using rop_ind'; intros k st st' H.
  - cbn in *. rewrite H. split; [reflexivity|]. symmetry. eapply with_root_length; exact H.
  - cbn in *. rewrite H. split; [reflexivity|]. symmetry. eapply with_root_length; exact H.
  - rewrite run_rop_route in H. rewrite desugar_rop_route.
    set (k' := length st) in *. set (st1 := st ++ [([], Top empty_node)]) in *.
    assert (L1 : length st1 = S k') by (unfold st1; rewrite app_length; cbn; lia).
    assert (BODY : forall b, Forall (fun r => forall k st st', run_rop r k st = Ok st' ->
                      run_all st (fst (desugar_rop r k (length st))) = Some st' /\
                      snd (desugar_rop r k (length st)) = length st') b ->
                   forall s0 s, run_body k' b s0 = Ok s ->
                   run_all s0 (fst (des_body k' b (length s0))) = Some s /\ snd (des_body k' b (length s0)) = length s).
    { induction b as [|r b IH]; intros FA s0 s HB.
      - cbn in *. injection HB as <-. auto.
      - inversion FA as [|? ? Hr Hb]; subst. cbn [run_body] in HB. cbn [des_body].
        destruct (run_rop r k' s0) as [s1|e s1] eqn:E1; [|discriminate].
        destruct (Hr _ _ _ E1) as [A1 A2]. destruct (desugar_rop r k' (length s0)) as [o1 n1]. cbn [fst snd] in *. subst n1.
        destruct (IH Hb _ _ HB) as [B1 B2]. destruct (des_body k' b (length s1)) as [o2 n2]. cbn [fst snd] in *.
        rewrite run_all_app, A1. auto. }
    destruct (run_body k' body st1) as [s|e s] eqn:RB; [|discriminate].
    destruct (BODY body IHb _ _ RB) as [B1 B2]. rewrite L1 in B1, B2.
    destruct (des_body k' body (S k')) as [ops n']. cbn [fst snd] in *.
    split; [|rewrite B2; symmetry; eapply do_mount_length; exact H].
    cbn [run_all run_op]. unfold new_mux. cbn [is_valid_path is_nil orb]. fold st1.
    rewrite run_all_app. change (run_all (st ++ [([], Top empty_node)]) ops) with (run_all st1 ops). rewrite B1.
    cbn [run_all run_op]. rewrite H. reflexivity.
Qed.

Lemma run_op_length : forall st o st', run_op st o = Ok st' ->
  length st' = match o with ONew _ => S (length st) | ORoute _ _ _ => length st' | _ => length st end.
Proof.
  intros st o st' H. destruct o; cbn in H.
  - unfold new_mux in H. destruct (is_valid_path path); [|discriminate]. injection H as <-. rewrite app_length. cbn. lia.
  - eapply with_root_length; exact H.
  - eapply with_root_length; exact H.
  - eapply do_mount_length; exact H.
  - reflexivity.
Qed.

Lemma run_all_desugar : forall ops st st', run_all st ops = Some st' -> run_all st (desugar ops (length st)) = Some st'.
Proof.
  induction ops as [|o r IH]; intros st st' H; [exact H|].
  cbn [run_all] in H. destruct (run_op st o) as [s1|e s1] eqn:E; [|discriminate].
  pose proof (run_op_length _ _ _ E) as L. specialize (IH _ _ H).
  destruct o; cbn [desugar]; try (cbn [run_all]; rewrite E, <- L; exact IH).
  cbn [run_op] in E. destruct (run_rop_desugar _ _ _ _ E) as [A1 A2].
  destruct (desugar_rop (RRoute path body) m (length st)) as [o1 n1]. cbn [fst snd] in *. subst n1.
  rewrite run_all_app, A1. exact IH.
Qed.

(* ---- the invariant along a Route-free op list ---- *)
Definition noroute (ops : list op) : bool :=
  forallb (fun o => match o with ORoute _ _ _ => false | _ => true end) ops.
Definition regs (ops : list op) : registry :=
  map (fun r => (sr_mux r, split_pattern (sr_pat r), sr_hid r)) (handles ops).

Lemma run_all_inv : forall ops st st' R, noroute ops = true -> WFst st -> Inv1 st R ->
  run_all st ops = Some st' -> WFst st' /\ Inv1 st' (R ++ regs ops).
Proof.
  induction ops as [|o r IH]; intros st st' R NR W I1 H.
  - cbn in H. injection H as <-. unfold regs. cbn. rewrite app_nil_r. auto.
  - cbn [run_all] in H. destruct (run_op st o) as [s1|e s1] eqn:E; [|discriminate].
    cbn [noroute forallb] in NR. apply Bool.andb_true_iff in NR as [N1 N2].
    destruct o; cbn [run_op] in E; try discriminate N1.
    + destruct (new_step _ _ _ _ W I1 E) as (W1 & I1' & _). apply (IH _ _ _ N2 W1 I1' H).
    + destruct (handle_step _ _ _ _ _ _ _ _ W I1 E) as (W1 & I1').
      destruct (IH _ _ _ N2 W1 I1' H) as [A B]. split; [exact A|].
      unfold regs in *. cbn [handles map]. rewrite <- app_assoc in B. exact B.
    + destruct (listen_step _ _ _ _ _ _ W I1 E) as (W1 & I1'). apply (IH _ _ _ N2 W1 I1' H).
    + destruct (mount_step _ _ _ _ _ _ W I1 E) as (W1 & I1'). apply (IH _ _ _ N2 W1 I1' H).
Qed.

Lemma noroute_app : forall a b, noroute (a ++ b) = noroute a && noroute b.
Proof. intros. unfold noroute. apply forallb_app. Qed.
Lemma noroute_desugar_rop : forall r k n, noroute (fst (desugar_rop r k n)) = true.
Proof.
  intros r. induction r as [pat hid grp par|pat l|path body IHb] using rop_ind'; intros k n; try reflexivity.
  rewrite desugar_rop_route.
  assert (B : forall b, Forall (fun r => forall k n, noroute (fst (desugar_rop r k n)) = true) b ->
              forall n0, noroute (fst (des_body n b n0)) = true).
  { induction b as [|r b IH]; intros FA n0; [reflexivity|]. inversion FA as [|? ? Hr Hb]; subst. cbn [des_body].
    specialize (Hr n n0). destruct (desugar_rop r n n0) as [o1 n1]. specialize (IH Hb n1).
    destruct (des_body n b n1) as [o2 n2]. cbn [fst] in *. rewrite noroute_app, Hr, IH. reflexivity. }
  specialize (B body IHb (S n)). destruct (des_body n body (S n)) as [ops n']. cbn [fst] in *.
  cbn [noroute forallb]. fold (noroute (ops ++ [OMount k path n])). rewrite noroute_app, B. reflexivity.
Qed.
Lemma noroute_desugar : forall ops n, noroute (desugar ops n) = true.
Proof.
  induction ops as [|o r IH]; intros n; [reflexivity|]. destruct o; cbn [desugar]; try (cbn; apply IH).
  pose proof (noroute_desugar_rop (RRoute path body) m n) as X.
  destruct (desugar_rop (RRoute path body) m n) as [o1 n1]. cbn [fst] in X. rewrite noroute_app, X. apply IH.
Qed.

(* ---- mount_patterns ---- *)
Lemma WFst_nil : WFst [].
Proof. intros k p lc H. destruct k; discriminate. Qed.
Lemma Inv1_nil : Inv1 [] [].
Proof. split; [intros k toks hid []|]. intros t p T H. destruct t; discriminate. Qed.

Lemma accepted_inv : forall ops st, run_all [] ops = Some st ->
  WFst st /\ Inv1 st (regs (desugar ops 0)).
Proof.
  intros ops st H. apply run_all_desugar in H. cbn [length] in H.
  apply (run_all_inv _ [] st [] (noroute_desugar ops 0) WFst_nil Inv1_nil H).
Qed.

Lemma mount_patterns_pf : forall ops st, run_all [] ops = Some st ->
  forall t p T, nth_error st t = Some (p, Top T) -> forall q hid,
  has_hid T q hid <->
  exists r a, In r (handles (desugar ops 0)) /\ sr_hid r = hid /\
              top_of st (sr_mux r) = Some (t, a) /\ q = sk (a ++ split_pattern (sr_pat r)).
Proof.
  intros ops st H t p T Ht q hid. destruct (accepted_inv _ _ H) as [_ [_ IP]].
  rewrite (IP t p T Ht q hid). unfold regs. split.
  - intros (k & toks & a & I & TO & Q). apply in_map_iff in I. destruct I as (r & E & I). injection E as <- <- <-.
    exists r, a. auto.
  - intros (r & a & I & <- & TO & Q). exists (sr_mux r), (split_pattern (sr_pat r)), a. split; [|auto].
    apply in_map_iff. exists r. auto.
Qed.

(* ---- what an accepted Mount does, for the other invariants ---- *)
Lemma do_mount_ok : forall st k path sub st', WFst st -> do_mount st k path sub = Ok st' ->
  exists t a p T s S subpath T',
    top_of st k = Some (t, a) /\ nth_error st t = Some (p, Top T) /\ node_at a T = Some s /\
    forallb littok a = true /\ (a <> [] -> node_mounted s = true) /\
    nth_error st sub = Some (subpath, Top S) /\ t <> sub /\
    let toks := split_pattern (merge_pattern path subpath) in
    forallb littok toks = true /\ toks <> [] /\
    at_path a (fun r => fetch_gen false mount_fin (Some (set_mounted S)) toks 0 0 [] false r) T = Ok T' /\
    (forall j p0 T0, nth_error st' j = Some (p0, Top T0) ->
        j <> sub /\ ((j = t /\ p0 = p /\ T0 = T') \/ (j <> t /\ nth_error st j = Some (p0, Top T0)))) /\
    (forall j, top_of st' j = moved sub t (a ++ toks) (top_of st j)) /\
    (forall j, path_of st' j = path_of st j).
Proof.
  intros st k path sub st' W H. unfold do_mount in H.
  destruct (is_valid_path path) eqn:VP; [|discriminate]. cbn [negb] in H.
  destruct (nth_error st sub) as [[subpath [S|? ?]]|] eqn:ES; try (destruct (top_of st k) as [[? ?]|]; discriminate).
  destruct (top_of st k) as [[t a]|] eqn:TO; [|discriminate].
  set (spath := merge_pattern path subpath) in *.
  destruct (is_nil spath) eqn:NS; [discriminate|]. destruct (Nat.eqb t sub) eqn:TS; [discriminate|].
  apply Nat.eqb_neq in TS.
  destruct (with_root st k (fun r => mount_node r spath S)) as [st1|e st1] eqn:WR; [|discriminate].
  injection H as <-.
  destruct (with_root_ok _ _ _ _ W WR) as (t2 & a2 & p & T & s & T' & TO2 & Ht & Hs & La & HM & AP & ->).
  rewrite TO in TO2. injection TO2 as <- <-.
  set (toks := split_pattern spath) in *. set (pre := a ++ toks) in *.
  destruct (W _ _ _ ES) as [VS _].
  assert (Lt : forallb littok toks = true).
  { unfold toks, spath. rewrite split_merge, forallb_app, (valid_path_littok _ VP), (valid_path_littok _ VS). reflexivity. }
  assert (NE : toks <> []) by (apply split_nonnil; exact NS).
  exists t, a, p, T, s, S, subpath, T'. cbv zeta. fold spath. fold toks.
  split; [reflexivity|]. split; [exact Ht|]. split; [exact Hs|]. split; [exact La|]. split; [exact HM|].
  split; [reflexivity|]. split; [exact TS|]. split; [exact Lt|]. split; [exact NE|]. split; [exact AP|].
  set (st1 := set_nth t (p, Top T') st).
  set (st' := set_nth sub (subpath, Sub t pre) (map (relocate sub t pre) st1)).
  assert (Lsub : (sub < length st)%nat) by (eapply nth_error_lt; eauto).
  assert (NTH : forall j, nth_error st' j =
            if Nat.eqb j sub then Some (subpath, Sub t pre)
            else option_map (relocate sub t pre) (if Nat.eqb j t then Some (p, Top T') else nth_error st j)).
  { intros j. unfold st'. destruct (Nat.eqb j sub) eqn:E.
    - apply Nat.eqb_eq in E. subst j. apply nth_set_nth_same. rewrite map_length. unfold st1. rewrite length_set_nth. exact Lsub.
    - apply Nat.eqb_neq in E. rewrite nth_set_nth_other by exact E. rewrite nth_error_map. unfold st1.
      rewrite (set_top_nth st t p T T' Ht). reflexivity. }
  split; [|split].
  - intros j p0 T0 Hj. rewrite NTH in Hj. destruct (Nat.eqb j sub) eqn:E; [discriminate|]. apply Nat.eqb_neq in E.
    split; [exact E|]. destruct (Nat.eqb j t) eqn:E2.
    + apply Nat.eqb_eq in E2. cbn in Hj. injection Hj as <- <-. auto.
    + apply Nat.eqb_neq in E2. right. split; [exact E2|].
      destruct (nth_error st j) as [[p1 [T1|t1 a1]]|]; cbn in Hj; try discriminate; [exact Hj|].
      destruct (Nat.eqb t1 sub); discriminate.
  - intros j. unfold top_of at 1. rewrite NTH. destruct (Nat.eqb j sub) eqn:E.
    + apply Nat.eqb_eq in E. subst j. unfold top_of. rewrite ES. cbn [moved]. rewrite Nat.eqb_refl, app_nil_r. reflexivity.
    + destruct (Nat.eqb j t) eqn:E2.
      * apply Nat.eqb_eq in E2. subst j. unfold top_of. rewrite Ht. cbn. rewrite E. reflexivity.
      * unfold top_of. destruct (nth_error st j) as [[p0 [T0|t0 a0]]|]; cbn; [rewrite E; reflexivity| |reflexivity].
        destruct (Nat.eqb t0 sub); reflexivity.
  - intros j. unfold path_of. rewrite NTH. destruct (Nat.eqb j sub) eqn:E.
    + apply Nat.eqb_eq in E. subst j. rewrite ES. reflexivity.
    + destruct (Nat.eqb j t) eqn:E2.
      * apply Nat.eqb_eq in E2. subst j. rewrite Ht. reflexivity.
      * destruct (nth_error st j) as [[p0 [T0|t0 a0]]|]; cbn; [reflexivity| |reflexivity]. destruct (Nat.eqb t0 sub); reflexivity.
Qed.

Lemma mount_patterns_skel_pf : forall ops st, run_all [] ops = Some st ->
  forall t p T, nth_error st t = Some (p, Top T) -> forall q hid,
  has_hid T q hid <->
  exists r a, In r (handles (desugar ops 0)) /\ sr_hid r = hid /\
              top_of st (sr_mux r) = Some (t, a) /\ q = skel (map ptok_of (a ++ split_pattern (sr_pat r))).
Proof.
  intros ops st H t p T Ht q hid. rewrite (mount_patterns_pf ops st H t p T Ht q hid).
  assert (E : forall l, skel (map ptok_of l) = sk l) by (intros l; unfold skel, sk; rewrite map_map; reflexivity).
  split; intros (r & a & A & B & C & D); exists r, a; rewrite ?E in *; auto.
Qed.
