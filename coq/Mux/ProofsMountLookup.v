(* lookup_most_specific for mounted arrangements. *)
From GoRes Require Import Mux.Spec Pattern.Lemmas Mux.ProofsMatch Mux.ProofsOrder Mux.ProofsFetch Mux.ProofsFlat
  Mux.ProofsLookup Mux.ProofsTop Mux.ProofsMount Mux.ProofsMountSt Mux.ProofsMi Mux.ProofsNorm Mux.ProofsTotal.
From Coq Require Import Lia Arith PeanoNat.
Open Scope N_scope.

(* the search returns the handler of the best entry of any list that describes the trie *)
Lemma lookup_generic : forall (s : node) path name (A : Type) (key : A -> list ptok) (hidof : A -> N) (L : list A),
  (forall q hid, has_hid s q hid <-> exists x, In x L /\ key x = q /\ hidof x = hid) ->
  (forall x, In x L -> skel (key x) = key x) ->
  wild_handled s -> get_handler_node path s name <> LPanic ->
  match stripped_toks (strip_path path name) with
  | None => get_handler_node path s name = LNone
  | Some tk =>
    match best_of key L tk with
    | None => get_handler_node path s name = LNone
    | Some x => exists n g ps gs m,
        reachm s 0 0 (key x) n m /\ node_hs n = Some (hidof x, g) /\ pmatch (key x) tk = true /\
        (tk = [] -> ps = [] /\ n = s /\ m = 0%nat) /\
        (tk <> [] -> read_params tk m (node_plist n) = Some ps) /\
        group_to_string name (skipn m tk) g = Some gs /\
        get_handler_node path s name = LHit (hidof x) (node_ls n) ps gs
    end
  end.
Proof.
  intros s path name A key hidof L REG SK WH TOT.
  unfold get_handler_node, get_handler_node_gen, strip_path in *.
  destruct (strip_path_gen false path name) as [| |sub]; cbn [stripped_toks]; [reflexivity| |].
  - destruct (node_hs s) as [[hid g]|] eqn:HS.
    + assert (IR : exists x, In x L /\ key x = [] /\ hidof x = hid).
      { apply REG. exists g. apply HP_here, HS. }
      destruct IR as (x0 & I0 & K0 & H0).
      destruct (best_of key L []) as [x|] eqn:BO.
      * destruct (best_of_some _ _ _ _ _ BO) as (Ix & Mx & _). apply pmatch_nil_inv in Mx.
        assert (HX : has_hid s [] (hidof x)) by (apply REG; eauto).
        destruct HX as (g' & Hp). apply has_pattern_node in Hp. cbn in Hp. rewrite HS in Hp. injection Hp as E1 E2.
        destruct (group_to_string name [] g) as [gs|] eqn:GS; [|congruence].
        exists s, g, [], gs, 0%nat. rewrite Mx, <- E1. split; [constructor|]. split; [exact HS|]. split; [reflexivity|].
        split; [auto|]. split; [intros X; congruence|]. split; [exact GS|reflexivity].
      * pose proof (best_of_none _ _ _ _ BO _ I0) as X. rewrite K0 in X. discriminate.
    + destruct (best_of key L []) as [x|] eqn:BO; [|reflexivity].
      destruct (best_of_some _ _ _ _ _ BO) as (Ix & Mx & _). apply pmatch_nil_inv in Mx.
      assert (HX : has_hid s [] (hidof x)) by (apply REG; eauto).
      destruct HX as (g' & Hp). apply has_pattern_node in Hp. cbn in Hp. congruence.
  - set (tk := tokens sub) in *. rewrite match_find in *.
    assert (NE : tk <> []) by apply tokens_nonnil.
    pose proof (find_bestm tk s 0%nat 0%nat NE) as FB.
    destruct (find s tk 0 0) as [[n m]|] eqn:F; cbn [is_bestm] in FB.
    + destruct FB as (p & Rm & En & M & BEST). pose proof (reachm_reach _ _ _ _ _ _ Rm) as Rn.
      assert (HSn : node_hs n <> None) by (destruct En as [X|X]; [exact X|apply (WH p n Rn X)]).
      unfold hit in *. destruct (read_params tk m (node_plist n)) as [ps|] eqn:RP; [|congruence].
      destruct (node_hs n) as [[hid g]|] eqn:HS; [|congruence].
      destruct (group_to_string name (skipn m tk) g) as [gs|] eqn:GS; [|congruence].
      assert (IR : exists x, In x L /\ key x = p /\ hidof x = hid).
      { apply REG. exists g. apply has_pattern_reach. eauto. }
      destruct IR as (x0 & I0 & K0 & H0).
      destruct (best_of key L tk) as [x|] eqn:BO.
      * assert (E : skel (key x) = skel p).
        { apply (best_of_unique _ key _ _ x p BO M).
          - exists x0. split; [exact I0|congruence].
          - intros y Iy My. assert (HY : has_hid s (key y) (hidof y)) by (apply REG; eauto).
            destruct HY as (gy & Hy). apply has_pattern_reach in Hy. destruct Hy as (ny & Ry & Ey).
            apply (BEST (key y) ny); [|exact My]. split; [exact Ry|left; congruence]. }
        destruct (best_of_some _ _ _ _ _ BO) as (Ix & Mx & _).
        rewrite (SK x Ix), (reach_skel _ _ _ Rn) in E.
        assert (HX : has_hid s (key x) (hidof x)) by (apply REG; eauto).
        destruct HX as (g' & Hp). apply has_pattern_reach in Hp. destruct Hp as (n' & Rn' & En').
        rewrite E in Rn'. assert (n = n') by (eapply reach_det; eauto). subst n'.
        assert (hidof x = hid) by congruence.
        exists n, g, ps, gs, m. rewrite E. rewrite H. split; [exact Rm|]. split; [exact HS|]. split; [exact M|].
        split; [intros X; congruence|]. split; [auto|]. split; [exact GS|reflexivity].
      * pose proof (best_of_none _ _ _ _ BO _ I0) as X. rewrite K0 in X. congruence.
    + destruct (best_of key L tk) as [x|] eqn:BO; [|reflexivity].
      exfalso. destruct (best_of_some _ _ _ _ _ BO) as (Ix & Mx & _).
      assert (HX : has_hid s (key x) (hidof x)) by (apply REG; eauto).
      destruct HX as (g' & Hp). apply has_pattern_reach in Hp. destruct Hp as (n' & Rn' & En').
      apply (FB (key x) n'); [|exact Mx]. split; [exact Rn'|left; congruence].
Qed.

(* ---- relative patterns ---- *)
Lemma sk1_lit_inv : forall f t, sk1 f = PLit t -> f = t.
Proof.
  intros f t H. unfold sk1, ptok_of, kind in H. destruct f as [|c r]; [cbn in H; injection H as <-; reflexivity|].
  destruct (c =? dollar); [discriminate|]. destruct (c =? star); [discriminate|]. destruct (c =? gt); [discriminate|].
  cbn in H. injection H as <-. reflexivity.
Qed.
Lemma strip_pre_app : forall a rel, strip_pre a (a ++ rel) = Some rel.
Proof. induction a as [|t r IH]; intros rel; cbn; [reflexivity|]. rewrite beq_refl. apply IH. Qed.
Lemma strip_pre_eq : forall a full rel, strip_pre a full = Some rel -> full = a ++ rel.
Proof.
  induction a as [|t r IH]; intros full rel H; cbn in H; [injection H as ->; reflexivity|].
  destruct full as [|f fs]; [discriminate|]. destruct (beq t f) eqn:B; [|discriminate].
  apply beq_eq in B. subst f. cbn. f_equal. apply IH, H.
Qed.
Lemma sk_strip : forall a full q, forallb littok a = true ->
  (lits a ++ q = sk full <-> exists rel, strip_pre a full = Some rel /\ q = sk rel).
Proof.
  intros a full q La. split.
  - revert full. induction a as [|t r IH]; intros full H.
    + exists full. cbn in *. auto.
    + cbn [forallb] in La. apply Bool.andb_true_iff in La as [_ L2].
      destruct full as [|f fs]; [discriminate|]. cbn in H. injection H as H1 H2.
      symmetry in H1. apply sk1_lit_inv in H1. subst f.
      destruct (IH L2 fs H2) as (rel & S1 & S2). exists rel. cbn. rewrite beq_refl. auto.
  - intros (rel & S1 & ->). apply strip_pre_eq in S1. subst full. rewrite sk_app, (sk_lits a La). reflexivity.
Qed.
Lemma ckey_sk : forall x, ckey x = sk (fst x).
Proof. intros x. unfold ckey, skel, sk. rewrite map_map. reflexivity. Qed.
Lemma skel_sk : forall toks, skel (sk toks) = sk toks.
Proof.
  intros toks. unfold skel, sk. rewrite map_map. apply map_ext. intros t. unfold sk1.
  destruct (ptok_of t); reflexivity.
Qed.

Lemma in_mcands : forall st R k rel r,
  In (rel, r) (mcands st R k) <-> In r R /\ rel_toks st k r = Some rel.
Proof.
  intros st R k rel r. unfold mcands. rewrite in_flat_map. split.
  - intros (r0 & I0 & H). destruct (rel_toks st k r0) as [rel0|] eqn:E; [|destruct H].
    destruct H as [H|[]]. injection H as <- <-. auto.
  - intros (I0 & E). exists r. split; [exact I0|]. rewrite E. left. reflexivity.
Qed.

Lemma ends_full_pre : forall x q, ends_full q -> ends_full (x ++ q).
Proof. intros x q (p0 & ->). exists (x ++ p0). rewrite app_assoc. reflexivity. Qed.

Lemma wild_handled_sub : forall T a s, InvM PT [] 0 T -> node_at a T = Some s ->
  (a <> [] -> node_mounted s = true) -> validate_node s = true -> wild_handled s.
Proof.
  intros T a s I Hs HM V p n Rn EF.
  assert (NE : p <> []) by (destruct EF as (p0 & ->); destruct p0; discriminate).
  destruct (reach_reachm _ _ _ Rn 0%nat 0%nat) as (m & Rm).
  pose proof (abs_reach a T s p n m Hs HM NE Rm) as RA.
  destruct (I _ _ _ RA) as (_ & _ & _ & D). cbn [app] in D.
  destruct (D (ends_full_pre _ _ EF)) as [X|X]; [exact X|].
  destruct (validate_reach _ _ _ Rn V) as [Y|Y]; [exact Y|congruence].
Qed.

Lemma mounted_G : forall ops st k name,
  run_all [] ops = Some st -> (k < length st)%nat -> validate_listeners st k = true ->
  exists t a p T s, top_of st k = Some (t, a) /\ nth_error st t = Some (p, Top T) /\ node_at a T = Some s /\
    forallb littok a = true /\ (a <> [] -> node_mounted s = true) /\ root_of st k = Some s /\
    match stripped_toks (strip_path (path_of st k) name) with
    | None => get_handler_node (path_of st k) s name = LNone
    | Some tk =>
      match best_of ckey (mcands st (handles (desugar ops 0)) k) tk with
      | None => get_handler_node (path_of st k) s name = LNone
      | Some x => exists n g ps gs m,
          reachm s 0 0 (ckey x) n m /\ node_hs n = Some (sr_hid (snd x), g) /\ pmatch (ckey x) tk = true /\
          (tk = [] -> ps = [] /\ n = s /\ m = 0%nat) /\
          (tk <> [] -> read_params tk m (node_plist n) = Some ps) /\
          group_to_string name (skipn m tk) g = Some gs /\
          get_handler_node (path_of st k) s name = LHit (sr_hid (snd x)) (node_ls n) ps gs
      end
    end.
Proof.
  intros ops st k name H L V. destruct (accepted_full _ _ H) as (W & [_ IP] & IT).
  destruct (root_of_ok st k W L) as (t & a & p & T & s & TO & Ht & Hs & La & HM & RO).
  unfold validate_listeners in V. rewrite RO in V.
  exists t, a, p, T, s. repeat (split; [assumption|]).
  set (R := handles (desugar ops 0)) in *.
  assert (REG : forall q hid, has_hid s q hid <-> exists x, In x (mcands st R k) /\ ckey x = q /\ sr_hid (snd x) = hid).
  { intros q hid. unfold has_hid. setoid_rewrite <- (has_pattern_node_at a T s q _ Hs).
    fold (has_hid T (lits a ++ q) hid). rewrite (IP t p T Ht). unfold regs. split.
    - intros (k1 & toks1 & a1 & I1 & T1 & Q1). apply in_map_iff in I1. destruct I1 as (r & E & I1). injection E as <- <- <-.
      destruct (proj1 (sk_strip a _ q La) Q1) as (rel & S1 & S2).
      exists (rel, r). split; [|split; [rewrite ckey_sk; cbn; auto|reflexivity]].
      apply in_mcands. split; [exact I1|]. unfold rel_toks. rewrite TO, T1, Nat.eqb_refl. exact S1.
    - intros ([rel r] & I1 & K1 & H1). apply in_mcands in I1 as [I1 RT]. unfold rel_toks in RT. rewrite TO in RT.
      destruct (top_of st (sr_mux r)) as [[t' a']|] eqn:T1; [|discriminate].
      destruct (Nat.eqb t' t) eqn:E; [|discriminate]. apply Nat.eqb_eq in E. subst t'.
      exists (sr_mux r), (split_pattern (sr_pat r)), a'. split; [apply in_map_iff; exists r; cbn in H1; subst hid; auto|].
      split; [exact T1|]. apply (sk_strip a _ q La). exists rel. rewrite ckey_sk in K1. cbn in K1. auto. }
  exact (lookup_generic s (path_of st k) name _ ckey (fun x => sr_hid (snd x)) (mcands st R k) REG
                (fun x _ => eq_trans (f_equal skel (ckey_sk x)) (eq_trans (skel_sk _) (eq_sym (ckey_sk x))))
                (wild_handled_sub T a s (IT _ _ _ Ht) Hs HM V)
                (total_node T a s _ name (IT _ _ _ Ht) La Hs HM)).
Qed.

Lemma lookup_most_specific_pf : forall ops st k name,
  run_all [] ops = Some st -> (k < length st)%nat -> validate_listeners st k = true ->
  match spec_strip (path_of st k) name with
  | None => get_handler st k name = LNone
  | Some tk =>
    match best_of ckey (mcands st (handles (desugar ops 0)) k) tk with
    | None => get_handler st k name = LNone
    | Some x => exists ls ps g, get_handler st k name = LHit (sr_hid (snd x)) ls ps g
    end
  end.
Proof.
  intros ops st k name H L V. destruct (mounted_G ops st k name H L V) as (t & a & p & T & s & _ & _ & _ & _ & _ & RO & G).
  unfold get_handler. rewrite RO. rewrite spec_strip_code.
  destruct (stripped_toks (strip_path (path_of st k) name)) as [tk|]; [|exact G].
  destruct (best_of ckey (mcands st (handles (desugar ops 0)) k) tk) as [x|]; [|exact G].
  destruct G as (n & g & ps & gs & m & _ & _ & _ & _ & _ & _ & E). eauto.
Qed.
