(* The specificity order on the patterns matching one name, and [best_of]. *)
From GoRes Require Import Mux.Spec Pattern.Lemmas.
From Coq Require Import Lia Arith PeanoNat.
Open Scope N_scope.

Lemma better_cons : forall a b p q, better (a :: p) (b :: q) =
  if Nat.ltb (rank b) (rank a) then true else if Nat.ltb (rank a) (rank b) then false else better p q.
Proof. reflexivity. Qed.

Lemma better_asym : forall p q, better p q = true -> better q p = false.
Proof.
  induction p as [|a p IH]; intros [|b q] H; try discriminate H; try reflexivity.
  rewrite better_cons in *.
  destruct (Nat.ltb (rank b) (rank a)) eqn:E1.
  - apply Nat.ltb_lt in E1. destruct (Nat.ltb (rank a) (rank b)) eqn:E2.
    + apply Nat.ltb_lt in E2. lia.
    + reflexivity.
  - destruct (Nat.ltb (rank a) (rank b)) eqn:E2; [discriminate|]. apply IH, H.
Qed.

Lemma better_irrefl_skel : forall p q, skel p = skel q -> better p q = false.
Proof.
  induction p as [|a p IH]; intros [|b q] H; try discriminate H; try reflexivity.
  cbn [skel map] in H. injection H as H1 H2. assert (R : rank a = rank b) by (destruct a, b; cbn in *; congruence).
  rewrite better_cons, R, Nat.ltb_irrefl. apply IH, H2.
Qed.

Lemma pmatch_cons_inv : forall a p t s, pmatch (a :: p) (t :: s) = true ->
  (a = PFull /\ p = []) \/ (a <> PFull /\ pmatch p s = true /\ (forall x, a = PLit x -> x = t)).
Proof.
  intros a p t s M. destruct a; cbn in M.
  - apply Bool.andb_true_iff in M as [M1 M2]. right. split; [discriminate|]. split; [exact M2|].
    intros x E. injection E as <-. apply beq_eq, M1.
  - right. split; [discriminate|]. split; [exact M|]. intros x E; discriminate.
  - right. split; [discriminate|]. split; [exact M|]. intros x E; discriminate.
  - left. split; [reflexivity|]. destruct p; [reflexivity|discriminate].
Qed.

Lemma pmatch_nil_inv : forall p, pmatch p [] = true -> p = [].
Proof.
  intros [|a p]; [reflexivity|]. destruct a; cbn; try discriminate.
  rewrite Bool.andb_false_r. discriminate.
Qed.

(* two patterns matching the same name are the same skeleton or ordered *)
Lemma better_total : forall s p q, pmatch p s = true -> pmatch q s = true ->
  skel p = skel q \/ better p q = true \/ better q p = true.
Proof.
  induction s as [|t s IH]; intros p q Mp Mq.
  - apply pmatch_nil_inv in Mp, Mq. subst. left. reflexivity.
  - destruct p as [|a p]; [discriminate|]. destruct q as [|b q]; [discriminate|].
    destruct (pmatch_cons_inv _ _ _ _ Mp) as [[-> ->]|(Na & Mp' & La)];
    destruct (pmatch_cons_inv _ _ _ _ Mq) as [[-> ->]|(Nb & Mq' & Lb)].
    + left. reflexivity.
    + right. right. cbn. destruct b; cbn; try reflexivity. congruence.
    + right. left. cbn. destruct a; cbn; try reflexivity. congruence.
    + destruct (IH p q Mp' Mq') as [E|[E|E]].
      * destruct a as [x| | |], b as [y| | |]; try congruence; cbn;
          try (right; left; reflexivity); try (right; right; reflexivity);
          try (left; f_equal; exact E).
        left. rewrite (La x eq_refl), (Lb y eq_refl). f_equal. exact E.
      * destruct a as [x| | |], b as [y| | |]; try congruence; cbn;
          try (right; left; reflexivity); try (right; right; reflexivity);
          right; left; exact E.
      * destruct a as [x| | |], b as [y| | |]; try congruence; cbn;
          try (right; left; reflexivity); try (right; right; reflexivity);
          right; right; exact E.
Qed.

(* on the patterns matching one name, "not better" is transitive *)
Lemma better_negtrans : forall s z y x, pmatch z s = true -> pmatch y s = true -> pmatch x s = true ->
  better z y = false -> better y x = false -> better z x = false.
Proof.
  induction s as [|t s IH]; intros z y x Mz My Mx B1 B2.
  - apply pmatch_nil_inv in Mz. subst. reflexivity.
  - destruct z as [|a z]; [discriminate|]. destruct y as [|b y]; [discriminate|]. destruct x as [|c x]; [discriminate|].
    destruct (pmatch_cons_inv _ _ _ _ Mz) as [[-> ->]|(Na & Mz' & _)].
    { destruct c; reflexivity. }
    destruct (pmatch_cons_inv _ _ _ _ My) as [[-> ->]|(Nb & My' & _)].
    { destruct a; try discriminate B1. congruence. }
    destruct (pmatch_cons_inv _ _ _ _ Mx) as [[-> ->]|(Nc & Mx' & _)].
    { destruct b; try discriminate B2. congruence. }
    rewrite better_cons in *.
    destruct (Nat.ltb (rank b) (rank a)) eqn:E1; [discriminate|].
    destruct (Nat.ltb (rank c) (rank b)) eqn:E2; [discriminate|].
    apply Nat.ltb_ge in E1, E2.
    destruct (Nat.ltb (rank a) (rank b)) eqn:E3.
    + apply Nat.ltb_lt in E3. destruct (Nat.ltb (rank c) (rank a)) eqn:E4; [apply Nat.ltb_lt in E4; lia|].
      destruct (Nat.ltb (rank a) (rank c)) eqn:E5; [reflexivity|]. apply Nat.ltb_ge in E5. lia.
    + apply Nat.ltb_ge in E3. destruct (Nat.ltb (rank b) (rank c)) eqn:E6.
      * apply Nat.ltb_lt in E6. destruct (Nat.ltb (rank c) (rank a)) eqn:E4; [apply Nat.ltb_lt in E4; lia|].
        destruct (Nat.ltb (rank a) (rank c)) eqn:E5; [reflexivity|]. apply Nat.ltb_ge in E5. lia.
      * apply Nat.ltb_ge in E6. assert (rank a = rank c) as -> by lia.
        rewrite Nat.ltb_irrefl. apply (IH z y x); assumption.
Qed.

Lemma best_of_none : forall A (key : A -> list ptok) l s,
  best_of key l s = None -> forall y, In y l -> pmatch (key y) s = false.
Proof.
  induction l as [|x r IH]; intros s H y I; [destruct I|].
  cbn in H. destruct (pmatch (key x) s) eqn:M.
  - destruct (best_of key r s) as [z|]; [destruct (better (key z) (key x))|]; discriminate.
  - destruct I as [<-|I]; [exact M|]. eapply IH; eauto.
Qed.

Lemma best_of_some : forall A (key : A -> list ptok) l s x,
  best_of key l s = Some x ->
  In x l /\ pmatch (key x) s = true /\
  forall y, In y l -> pmatch (key y) s = true -> better (key y) (key x) = false.
Proof.
  induction l as [|x0 r IH]; intros s x H; [discriminate|].
  cbn in H. destruct (pmatch (key x0) s) eqn:M.
  - destruct (best_of key r s) as [z|] eqn:Br.
    + destruct (IH s z Br) as (Iz & Mz & Bz).
      destruct (better (key z) (key x0)) eqn:Bzx; injection H as <-.
      * split; [right; exact Iz|]. split; [exact Mz|].
        intros y [<-|Iy] My; [apply better_asym, Bzx|apply Bz; auto].
      * split; [left; reflexivity|]. split; [exact M|].
        intros y [<-|Iy] My.
        -- apply better_irrefl_skel. reflexivity.
        -- apply (better_negtrans s (key y) (key z) (key x0)); auto.
    + injection H as <-. split; [left; reflexivity|]. split; [exact M|].
      intros y [<-|Iy] My; [apply better_irrefl_skel; reflexivity|].
      rewrite (best_of_none _ _ _ _ Br y Iy) in My. discriminate.
  - destruct (IH s x H) as (I & Mx & B). split; [right; exact I|]. split; [exact Mx|].
    intros y [<-|Iy] My; [congruence|apply B; auto].
Qed.

(* a matching entry that no matching entry beats is the one [best_of] returns, up to the skeleton *)
Lemma best_of_unique : forall A (key : A -> list ptok) l s x p,
  best_of key l s = Some x -> pmatch p s = true ->
  (exists y, In y l /\ skel (key y) = skel p) ->
  (forall y, In y l -> pmatch (key y) s = true -> better (key y) p = false) ->
  skel (key x) = skel p.
Proof.
  intros A key l s x p H Mp (y & Iy & Ey) Bp.
  destruct (best_of_some _ _ _ _ _ H) as (Ix & Mx & Bx).
  destruct (better_total s (key x) p Mx Mp) as [E|[E|E]]; [exact E| |].
  - rewrite (Bp x Ix Mx) in E. discriminate.
  - exfalso.
    (* p is better than key x; y has p's skeleton, so y is better too *)
    assert (My : pmatch (key y) s = true).
    { clear - Ey Mp. revert s Mp. generalize dependent (key y). intros q. revert q.
      induction p as [|a p IH]; intros [|b q] E s M; cbn in E; try discriminate; auto.
      injection E as E1 E2. destruct s as [|t s].
      - apply pmatch_nil_inv in M. discriminate.
      - destruct (pmatch_cons_inv _ _ _ _ M) as [[-> ->]|(Na & M' & La)].
        + destruct b; cbn in E1; try discriminate. destruct q; [reflexivity|discriminate].
        + destruct a as [u| | |], b as [v| | |]; cbn in E1; try discriminate; try congruence; cbn;
            try (apply IH; auto).
          injection E1 as ->. rewrite (La u eq_refl), beq_refl. apply IH; auto. }
    specialize (Bx y Iy My).
    assert (Hb : better (key y) (key x) = better p (key x)).
    { clear - Ey. revert Ey. generalize (key x) as r. generalize (key y) as q. revert p.
      induction p as [|a p IH]; intros [|b q] r E; cbn in E; try discriminate; auto.
      injection E as E1 E2. destruct r as [|c r]; [reflexivity|].
      rewrite !better_cons. assert (rank b = rank a) as -> by (destruct a, b; cbn in *; congruence).
      rewrite (IH q r E2). reflexivity. }
    congruence.
Qed.
