(* GetHandler on one mux without mounts: never panics, returns the handler of [best]. *)
From GoRes Require Import Mux.Spec Pattern.Lemmas Mux.ProofsMatch Mux.ProofsOrder Mux.ProofsFetch Mux.ProofsFlat.
From Coq Require Import Lia Arith PeanoNat.
Open Scope N_scope.

Lemma pmatch_length : forall p s, pmatch p s = true -> (length p <= length s)%nat.
Proof.
  induction p as [|a p IH]; intros s M; cbn; [lia|].
  destruct s as [|t s]; [apply pmatch_nil_inv in M; discriminate|].
  destruct (pmatch_cons_inv _ _ _ _ M) as [[-> ->]|(_ & M' & _)]; cbn; [lia|].
  apply IH in M'. lia.
Qed.

Lemma reach_skel : forall l p n, reach l p n -> skel p = p.
Proof. induction 1; cbn; try reflexivity; unfold skel in *; congruence. Qed.

Lemma reach_det : forall l p n, reach l p n -> forall n', reach l p n' -> n = n'.
Proof.
  induction 1; intros n' R'; inversion R'; subst; auto; apply IHreach; congruence.
Qed.

Lemma flat_child : forall l e c,
  Inv P_flat [] l ->
  match e with
  | PLit t => lit_get t (node_lits l) = Some c
  | PAnon => node_param l = Some c
  | PFull => node_wild l = Some c
  | PParam _ => False
  end -> Inv P_flat [] c.
Proof.
  intros l e c F H q m Rq. destruct e; try tauto.
  - apply (F (PLit t :: q)). eapply R_lit; eauto.
  - apply (F (PAnon :: q)). eapply R_par; eauto.
  - apply (F (PFull :: q)). eapply R_wild; eauto.
Qed.

Lemma find_mi_flat : forall toks l i mi n m, Inv P_flat [] l -> find l toks i mi = Some (n, m) -> m = mi.
Proof.
  induction toks as [|t rest IH]; intros l i mi n m F H; [discriminate|].
  rewrite find_unfold in H. cbv zeta in H.
  assert (ML : node_mounted l = false) by apply (F [] l (R_nil l)). rewrite ML in H.
  assert (CR : forall e c, match e with
                           | PLit t => lit_get t (node_lits l) = Some c
                           | PAnon => node_param l = Some c
                           | PFull => node_wild l = Some c
                           | PParam _ => False end ->
               child_res (Some c) rest i mi = Some (n, m) -> m = mi).
  { intros e c Hc Hr. cbn [child_res] in Hr. destruct rest as [|t2 rest2].
    - destruct (node_hs c); [|discriminate]. congruence.
    - eapply IH; [eapply flat_child; eauto|exact Hr]. }
  destruct (lit_get t (node_lits l)) as [c|] eqn:EL.
  - destruct (child_res (Some c) rest i mi) as [r|] eqn:E1.
    + injection H as ->. apply (CR (PLit t) c EL E1).
    + destruct (node_param l) as [c2|] eqn:EP.
      * destruct (child_res (Some c2) rest i mi) as [r|] eqn:E2.
        -- injection H as ->. apply (CR PAnon c2 eq_refl E2).
        -- destruct (node_wild l); [congruence|discriminate].
      * cbn [child_res] in H. destruct (node_wild l); [congruence|discriminate].
  - cbn [child_res] in H. destruct (node_param l) as [c2|] eqn:EP.
    + destruct (child_res (Some c2) rest i mi) as [r|] eqn:E2.
      * injection H as ->. apply (CR PAnon c2 eq_refl E2).
      * destruct (node_wild l); [congruence|discriminate].
    + cbn [child_res] in H. destruct (node_wild l); [congruence|discriminate].
Qed.

Lemma read_params_ok : forall all mi ps, (forall x, In x ps -> (snd x + mi < length all)%nat) ->
  exists m, read_params all mi ps = Some m.
Proof.
  induction ps as [|[name idx] r IH]; intros H; cbn; [eauto|].
  destruct (nth_error all (idx + mi)) as [v|] eqn:E.
  - destruct IH as (m & ->); [intros x Ix; apply H; right; exact Ix|]. eauto.
  - apply nth_error_None in E. specialize (H (name, idx) (or_introl eq_refl)). cbn in H. lia.
Qed.

Lemma group_concat_ok : forall toks parts, (forall g, In g parts -> gpart_ok (length toks) g) ->
  exists s, group_concat toks parts = Some s.
Proof.
  induction parts as [|g r IH]; intros H; cbn; [eauto|].
  destruct IH as (s & E); [intros x Ix; apply H; right; exact Ix|].
  specialize (H g (or_introl eq_refl)). destruct g as [x|j|]; cbn in H.
  - rewrite E. eauto.
  - destruct (nth_error toks j) as [t|] eqn:N; [rewrite E; eauto|]. apply nth_error_None in N. lia.
  - destruct H.
Qed.
Lemma group_to_string_ok : forall rname toks g,
  (forall parts, g = Some parts -> forall x, In x parts -> gpart_ok (length toks) x) ->
  exists s, group_to_string rname toks g = Some s.
Proof.
  intros rname toks [parts|] H; cbn; [|eauto].
  destruct parts as [|a r]; [eauto|]. destruct (group_concat_ok toks (a :: r) (H _ eq_refl)) as (s & E).
  destruct a as [x|j|]; [destruct r; [eauto|]| |]; eauto.
Qed.

Lemma gpart_ok_mono : forall d d' g, (d <= d')%nat -> gpart_ok d g -> gpart_ok d' g.
Proof. intros d d' [x|j|] L H; cbn in *; auto; lia. Qed.

(* ValidateListeners: a node without handler has no listeners *)
Lemma validate_lits : forall lits t c,
  (fix go (l : list (bytes * node)) : bool :=
     match l with [] => true | (_, c) :: r => validate_node c && go r end) lits = true ->
  lit_get t lits = Some c -> validate_node c = true.
Proof.
  induction lits as [|[k c0] r IH]; intros t c V G; [discriminate|].
  cbn in G. apply Bool.andb_true_iff in V as [V1 V2]. destruct (beq t k).
  - injection G as <-. exact V1.
  - eapply IH; eauto.
Qed.
Lemma validate_reach : forall l q m, reach l q m -> validate_node l = true ->
  node_hs m <> None \/ node_ls m = [].
Proof.
  induction 1 as [n|n t c p m H _ IH|n c p m H _ IH|n c p m H _ IH]; intros V.
  - destruct n as [hs pp lits pa wi mo ls]. cbn in *.
    apply Bool.andb_true_iff in V as [V _]. apply Bool.andb_true_iff in V as [V _].
    apply Bool.andb_true_iff in V as [V _]. destruct hs; [left; discriminate|right].
    destruct ls; [reflexivity|discriminate].
  - apply IH. destruct n as [hs pp lits pa wi mo ls]. cbn [validate_node node_lits] in *.
    apply Bool.andb_true_iff in V as [V _]. apply Bool.andb_true_iff in V as [V _].
    apply Bool.andb_true_iff in V as [_ V]. eapply validate_lits; eauto.
  - apply IH. destruct n as [hs pp lits pa wi mo ls]. cbn [validate_node node_param] in *. subst pa.
    apply Bool.andb_true_iff in V as [V _]. apply Bool.andb_true_iff in V as [_ V]. exact V.
  - apply IH. destruct n as [hs pp lits pa wi mo ls]. cbn [validate_node node_wild] in *. subst wi.
    apply Bool.andb_true_iff in V as [_ V]. exact V.
Qed.

(* ---- lookup_total, flat ---- *)
Lemma hit_total : forall root toks p n, flat_inv root -> reach root p n -> pmatch p toks = true ->
  exists ps, read_params toks 0 (node_plist n) = Some ps /\ hit toks n 0 = MHit (node_hs n) (node_ls n) ps 0.
Proof.
  intros root toks p n FI Rn M. destruct (fi_bound _ FI p n Rn) as [B _]. cbn [app] in B.
  apply pmatch_length in M. unfold hit.
  destruct (read_params_ok toks 0 (node_plist n)) as (m & E); [|rewrite E; eauto].
  intros x Ix. specialize (B x Ix). lia.
Qed.

Lemma tokens_nonnil : forall s, tokens s <> [].
Proof. intros s. rewrite tokens_toks. pose proof (tl_toks_nonnil s). destruct (Lemmas.toks s); [discriminate|congruence]. Qed.

Lemma get_handler_total_flat : forall root path name, flat_inv root -> get_handler_node path root name <> LPanic.
Proof.
  intros root path name FI. unfold get_handler_node, get_handler_node_gen.
  destruct (strip_path_gen false path name) as [| |sub]; [discriminate| |].
  - destruct (node_hs root) as [[hid g]|] eqn:HS; [|discriminate].
    destruct (group_to_string_ok name [] g) as (s & ->); [|discriminate].
    intros parts -> x Ix. destruct (fi_bound _ FI [] root (R_nil root)) as [_ B]. exact (B hid parts HS x Ix).
  - set (tk := tokens sub). rewrite match_find.
    destruct (find root tk 0 0) as [[n m]|] eqn:F; [|discriminate].
    assert (NE : tk <> []) by apply tokens_nonnil.
    pose proof (find_best tk root 0%nat 0%nat NE) as FB. rewrite F in FB. cbn in FB.
    destruct FB as (p & [Rn _] & M & _).
    apply find_mi_flat in F; [|apply FI]. subst m.
    destruct (hit_total root tk p n FI Rn M) as (ps & _ & ->).
    destruct (node_hs n) as [[hid g]|] eqn:HS; [|discriminate].
    destruct (group_to_string_ok name (skipn 0 tk) g) as (s & ->); [|discriminate].
    intros parts -> x Ix. destruct (fi_bound _ FI p n Rn) as [_ B]. cbn [app skipn] in *.
    eapply gpart_ok_mono; [apply pmatch_length, M|]. exact (B hid parts HS x Ix).
Qed.

(* ---- lookup_most_specific, flat ---- *)
Lemma fregs_skel : forall ops root x, In x (fregs root ops) -> skel (fst x) = fst x.
Proof.
  induction ops as [|o r IH]; intros root x I; [destruct I|].
  cbn [fregs] in I. apply in_app_iff in I as [I|I]; [|eapply IH; eauto].
  destruct o as [pat hid grp par|pat l]; [|destruct I].
  destruct (is_ok _); [|destruct I]. destruct I as [<-|[]]. cbn [fst].
  unfold skel. rewrite map_map. apply map_ext. intros [t|x| |]; reflexivity.
Qed.

Lemma has_hid_empty : forall q hid, ~ has_hid empty_node q hid.
Proof. intros q hid (g & H). eapply has_pattern_empty, H. Qed.

(* the name tokens the code matches against the trie ([] = the root pattern only) *)
Definition stripped_toks (s : stripped) : option (list bytes) :=
  match s with SNil => None | SRoot => Some [] | SName sub => Some (tokens sub) end.

Lemma lookup_flat_pf : forall path ops name,
  let root := frun empty_node ops in
  validate_node root = true ->
  match stripped_toks (strip_path path name) with
  | None => get_handler_node path root name = LNone
  | Some tk =>
    match best_of fst (fregs empty_node ops) tk with
    | None => get_handler_node path root name = LNone
    | Some (p, hid) => exists n g ps gs,
        reach root p n /\ node_hs n = Some (hid, g) /\ pmatch p tk = true /\
        read_params tk 0 (node_plist n) = Some ps /\ group_to_string name tk g = Some gs /\
        get_handler_node path root name = LHit hid (node_ls n) ps gs
    end
  end.
Proof.
  intros path ops name root V.
  assert (FI : flat_inv root) by (apply flat_inv_frun, flat_inv_empty).
  assert (REG : forall q hid, has_hid root q hid <-> In (q, hid) (fregs empty_node ops)).
  { intros q hid. unfold root. rewrite frun_pats. split; [intros [X|X]; [destruct (has_hid_empty _ _ X)|exact X]|auto]. }
  pose proof (get_handler_total_flat root path name FI) as TOT.
  unfold get_handler_node, get_handler_node_gen, strip_path in *.
  destruct (strip_path_gen false path name) as [| |sub]; cbn [stripped_toks]; [reflexivity| |].
  - (* the root pattern *)
    destruct (node_hs root) as [[hid g]|] eqn:HS.
    + assert (IR : In ([], hid) (fregs empty_node ops)).
      { apply REG. exists g. apply HP_here, HS. }
      destruct (best_of fst (fregs empty_node ops) []) as [[p hid']|] eqn:BO.
      * destruct (best_of_some _ _ _ _ _ BO) as (Ix & Mx & _). cbn [fst] in Mx. apply pmatch_nil_inv in Mx. subst p.
        apply REG in Ix. destruct Ix as (g' & Hp). apply has_pattern_node in Hp. cbn in Hp.
        rewrite HS in Hp. injection Hp as <- <-.
        assert (PR : node_plist root = []).
        { destruct (fi_bound _ FI [] root (R_nil root)) as [B _]. cbn in B.
          destruct (node_plist root) as [|x r]; [reflexivity|]. specialize (B x (or_introl eq_refl)). lia. }
        destruct (group_to_string name [] g) as [gs|] eqn:GS; [|congruence].
        exists root, g, [], gs. rewrite PR. repeat split; auto. constructor.
      * pose proof (best_of_none _ _ _ _ BO _ IR). discriminate.
    + destruct (best_of fst (fregs empty_node ops) []) as [[p hid']|] eqn:BO; [|reflexivity].
      destruct (best_of_some _ _ _ _ _ BO) as (Ix & Mx & _). cbn [fst] in Mx. apply pmatch_nil_inv in Mx. subst p.
      apply REG in Ix. destruct Ix as (g' & Hp). apply has_pattern_node in Hp. cbn in Hp. congruence.
  - set (tk := tokens sub) in *. rewrite match_find in *.
    assert (NE : tk <> []) by apply tokens_nonnil.
    pose proof (find_best tk root 0%nat 0%nat NE) as FB.
    destruct (find root tk 0 0) as [[n m]|] eqn:F; cbn [option_map fst is_best] in FB.
    + destruct FB as (p & [Rn En] & M & BEST).
      apply find_mi_flat in F; [|apply FI]. subst m.
      destruct (hit_total root tk p n FI Rn M) as (ps & RP & HIT). rewrite HIT in *.
      (* the node found has a handler *)
      assert (HS : exists hid g, node_hs n = Some (hid, g)).
      { destruct (node_hs n) as [[hid g]|] eqn:HS; [eauto|]. exfalso.
        destruct En as [X|X]; [congruence|].
        pose proof (fi_wok _ FI p n Rn X) as W. cbn [app] in W.
        destruct (validate_reach _ _ _ Rn V) as [Y|Y]; [congruence|]. destruct W as [W|W]; congruence. }
      destruct HS as (hid & g & HS). rewrite HS in *.
      assert (IR : In (p, hid) (fregs empty_node ops)).
      { apply REG. exists g. apply has_pattern_reach. eauto. }
      destruct (best_of fst (fregs empty_node ops) tk) as [[p' hid']|] eqn:BO.
      * assert (E : skel p' = skel p).
        { apply (best_of_unique _ fst _ _ (p', hid') p BO M).
          - exists (p, hid). auto.
          - intros [q hq] Iq Mq. cbn [fst] in *. apply REG in Iq. destruct Iq as (gq & Hq).
            apply has_pattern_reach in Hq. destruct Hq as (nq & Rq & Eq).
            apply (BEST q nq); [|exact Mq]. split; [exact Rq|left; congruence]. }
        destruct (best_of_some _ _ _ _ _ BO) as (Ix & _ & _).
        pose proof (fregs_skel _ _ _ Ix) as S1. cbn [fst] in S1. rewrite (reach_skel _ _ _ Rn) in E.
        assert (p' = p) by congruence. subst p'.
        apply REG in Ix. destruct Ix as (g' & Hp). apply has_pattern_reach in Hp. destruct Hp as (n' & Rn' & En').
        assert (n = n') by (eapply reach_det; eauto). subst n'. assert (hid' = hid) by congruence. subst hid'.
        cbn [skipn] in *. destruct (group_to_string name tk g) as [gs|] eqn:GS; [|congruence].
        exists n, g, ps, gs. repeat split; auto.
      * pose proof (best_of_none _ _ _ _ BO _ IR) as X. cbn [fst] in X. congruence.
    + destruct (best_of fst (fregs empty_node ops) tk) as [[p' hid']|] eqn:BO; [|reflexivity].
      exfalso. destruct (best_of_some _ _ _ _ _ BO) as (Ix & Mx & _). cbn [fst] in Mx.
      apply REG in Ix. destruct Ix as (g' & Hp). apply has_pattern_reach in Hp. destruct Hp as (n' & Rn' & En').
      apply (FB p' n'); [|exact Mx]. split; [exact Rn'|left; congruence].
Qed.
