(* Mounted arrangements, structural part: what at_path / Mount do to the registered patterns. *)
From GoRes Require Import Mux.Spec Pattern.Lemmas Pattern.Proofs Mux.ProofsMatch Mux.ProofsFetch Mux.ProofsFlat.
From Coq Require Import Lia Arith PeanoNat.
Open Scope N_scope.

(* ---- literal tokens ---- *)
Lemma sk1_littok : forall t, littok t = true -> sk1 t = PLit t.
Proof.
  intros [|c tn] H; [discriminate|]. cbn in H. apply Bool.andb_true_iff in H as [H1 H2].
  apply Bool.negb_true_iff in H1, H2. apply sk1_lit; assumption.
Qed.
Lemma sk_lits : forall a, forallb littok a = true -> sk a = lits a.
Proof.
  induction a as [|t r IH]; intros H; [reflexivity|]. cbn in H. apply Bool.andb_true_iff in H as [H1 H2].
  cbn [sk lits map]. rewrite (sk1_littok _ H1). f_equal. apply IH, H2.
Qed.
Lemma sk_app : forall a b, sk (a ++ b) = sk a ++ sk b.
Proof. intros. unfold sk. apply map_app. Qed.
Lemma lits_app : forall a b, lits (a ++ b) = lits a ++ lits b.
Proof. intros. unfold lits. apply map_app. Qed.

Lemma toks_valid_littok : forall ts, tailv ts = true ->
  forallb (fun t => match kind t with KLit => true | _ => false end) ts = true -> forallb littok ts = true.
Proof.
  induction ts as [|t r IH]; intros V K; [reflexivity|].
  unfold tailv in V. cbn [is_nil orb] in V. rewrite toks_valid_cons in V. apply Bool.andb_true_iff in V as [V1 V2].
  cbn [forallb] in *. apply Bool.andb_true_iff in K as [K1 K2]. rewrite (IH V2 K2), Bool.andb_true_r.
  destruct t as [|c x]; [discriminate V1|]. unfold kind in K1. cbn [littok].
  destruct (c =? dollar); [discriminate|]. destruct (c =? star); [discriminate|]. destruct (c =? gt); [discriminate|reflexivity].
Qed.
Lemma valid_path_littok : forall p, is_valid_path p = true -> forallb littok (split_pattern p) = true.
Proof.
  intros p H. rewrite valid_path_spec_pf in H. destruct p as [|c p]; [reflexivity|]. cbn [is_nil orb] in H.
  apply Bool.andb_true_iff in H as [H1 H2]. unfold split_pattern. apply toks_valid_littok; [|exact H2].
  unfold tvalid in H1. cbn [is_nil orb] in H1. unfold tailv. rewrite H1. apply Bool.orb_true_r.
Qed.

Lemma tokens_go_app_dot : forall a b cur, tokens_go cur (a ++ dot :: b) = tokens_go cur a ++ tokens b.
Proof.
  induction a as [|c a IH]; intros b cur; cbn [app tokens_go].
  - rewrite N.eqb_refl. reflexivity.
  - destruct (c =? dot); [cbn [app]; f_equal; apply IH|apply IH].
Qed.
Lemma split_merge : forall a b, split_pattern (merge_pattern a b) = split_pattern a ++ split_pattern b.
Proof.
  intros [|x a] [|y b]; cbn [merge_pattern split_pattern app]; try reflexivity.
  - rewrite app_nil_r. reflexivity.
  - change (x :: a ++ dot :: y :: b) with ((x :: a) ++ dot :: y :: b). unfold tokens. apply tokens_go_app_dot.
Qed.

(* ---- the literal step of fetch / at_path ---- *)
Lemma step_ok_lit : forall hs pp li pa wi mo ls t,
  step_ok (Node hs pp li pa wi mo ls) (PLit t) (child_or_empty (lit_get t li))
          (fun n' => Node hs pp (lit_set t n' li) pa wi mo ls).
Proof. intros. constructor; cbn; auto. Qed.

Lemma node_at_app : forall a b n, node_at (a ++ b) n = match node_at a n with Some s => node_at b s | None => None end.
Proof.
  induction a as [|t r IH]; intros b n; [reflexivity|]. cbn [app node_at].
  destruct (lit_get t (node_lits n)); [apply IH|reflexivity].
Qed.

Lemma has_pattern_node_at : forall a n s q h, node_at a n = Some s ->
  (has_pattern n (lits a ++ q) h <-> has_pattern s q h).
Proof.
  induction a as [|t r IH]; intros n s q h H; cbn in H.
  - injection H as <-. reflexivity.
  - destruct (lit_get t (node_lits n)) as [c|] eqn:E; [|discriminate]. cbn [lits map app].
    rewrite has_pattern_node. fold (lits r). rewrite <- (IH c s q h H). split.
    + intros (c' & E' & Hp). congruence.
    + intros Hp. eauto.
Qed.

Lemma at_path_ok : forall a f n n', at_path a f n = Ok n' -> forall s, node_at a n = Some s -> exists s', f s = Ok s'.
Proof.
  induction a as [|t r IH]; intros f n n' H s Hs; cbn in *.
  - injection Hs as <-. eauto.
  - destruct n as [hs pp li pa wi mo ls]. cbn in Hs. destruct (lit_get t li) as [c|]; [|discriminate].
    destruct (at_path r f c) as [c'|e c'] eqn:E; [|discriminate]. eapply IH; eauto.
Qed.

(* patterns after an operation performed on the node at the literal path a *)
Lemma at_path_pats : forall a f n s (D : list ptok -> handler -> Prop), node_at a n = Some s ->
  (forall q h, has_pattern (out_state (f s)) q h <-> D q h \/ has_pattern s q h) ->
  forall q h, has_pattern (out_state (at_path a f n)) q h <->
              (exists q', q = lits a ++ q' /\ D q' h) \/ has_pattern n q h.
Proof.
  induction a as [|t r IH]; intros f n s D Hs HD q h; cbn in Hs.
  - injection Hs as <-. cbn [at_path lits map app]. rewrite HD. split.
    + intros [X|X]; [left; eauto|right; exact X].
    + intros [(q' & -> & X)|X]; [left; exact X|right; exact X].
  - destruct n as [hs pp li pa wi mo ls]. cbn [node_lits] in Hs. cbn [at_path].
    destruct (lit_get t li) as [c|] eqn:E; [|discriminate].
    rewrite out_state_rebuild.
    pose proof (step_ok_lit hs pp li pa wi mo ls t) as SO.
    rewrite (has_pattern_mk _ _ _ _ _ q h SO). specialize (IH f c s D Hs HD).
    destruct q as [|e q'].
    + split; [intros X; right; apply has_pattern_node; exact X|]. intros [(q' & X & _)|X]; [discriminate|]. apply has_pattern_node in X. exact X.
    + destruct e as [b| | |]; cbv iota; try (split; [auto|intros [(q2 & X & _)|X]; [discriminate|exact X]]).
      destruct (beq b t) eqn:B.
      * apply beq_eq in B. subst b. rewrite IH. split.
        -- intros [(q2 & -> & X)|X]; [left; exists q2; auto|right].
           apply has_pattern_node. cbn. eauto.
        -- intros [(q2 & X & Y)|X].
           ++ cbn [lits map app] in X. injection X as ->. left. eauto.
           ++ right. apply has_pattern_node in X. cbn in X. destruct X as (c' & E' & X). congruence.
      * split; [auto|]. intros [(q2 & X & _)|X]; [|exact X]. cbn [lits map app] in X. injection X as -> _.
        rewrite beq_refl in B. discriminate.
Qed.

(* nodes (and their mounted flags) are never removed *)
Definition persist (l l' : node) : Prop :=
  forall a s, node_at a l = Some s -> exists s', node_at a l' = Some s' /\ node_mounted s' = node_mounted s.
Lemma persist_refl : forall l, persist l l.
Proof. intros l a s H. eauto. Qed.
Lemma persist_trans : forall a b c, persist a b -> persist b c -> persist a c.
Proof.
  intros a b c H1 H2 p s Hs. destruct (H1 p s Hs) as (s1 & E1 & M1). destruct (H2 p s1 E1) as (s2 & E2 & M2).
  exists s2. split; [exact E2|congruence].
Qed.
Lemma persist_empty : forall l, persist empty_node l -> True.
Proof. auto. Qed.

Lemma persist_mk : forall l edge child mk c',
  step_ok l edge child mk ->
  (forall c, match edge with PLit t => lit_get t (node_lits l) = Some c | _ => False end -> persist c c') ->
  persist l (mk c').
Proof.
  intros l edge child mk c' [SL SC] HP a s Hs. destruct (SL c') as (_ & _ & _ & M).
  destruct a as [|t r]; cbn in Hs |- *.
  - injection Hs as <-. eauto.
  - destruct (lit_get t (node_lits l)) as [c|] eqn:E; [|discriminate].
    destruct edge as [b| | |]; try tauto; destruct SC as [_ SC]; destruct (SC c') as (L1 & L2 & L3); rewrite L1.
    + destruct (bytes_eq_dec t b) as [->|N].
      * rewrite lit_get_set_same. apply (HP c E r s Hs).
      * rewrite lit_get_set_other by exact N. rewrite E. eauto.
    + rewrite E. eauto.
    + rewrite E. eauto.
Qed.

Lemma persist_lit : forall hs pp li pa wi mo ls t c',
  (forall c, lit_get t li = Some c -> persist c c') ->
  persist (Node hs pp li pa wi mo ls) (Node hs pp (lit_set t c' li) pa wi mo ls).
Proof.
  intros hs pp li pa wi mo ls t c' H.
  apply (persist_mk _ (PLit t) _ (fun n' => Node hs pp (lit_set t n' li) pa wi mo ls) c' (step_ok_lit hs pp li pa wi mo ls t)).
  exact H.
Qed.

Lemma persist_fetch : forall v0 fin,
  (forall fr n ps mi, kids_eq n (out_state (fin fr n ps mi)) /\ node_mounted (out_state (fin fr n ps mi)) = node_mounted n) ->
  forall toks i mi ps fr l, persist l (out_state (fetch_gen v0 fin None toks i mi ps fr l)).
Proof.
  intros v0 fin HF. induction toks as [|t rest IH]; intros i mi ps fr l.
  - cbn [fetch_gen]. destruct (HF fr l ps mi) as ((K1 & _) & M). intros a s Hs. destruct a as [|t r]; cbn in *.
    + injection Hs as <-. eauto.
    + rewrite K1. rewrite Hs. eauto.
  - rewrite fetch_cons. cbv zeta.
    destruct (fetch_step v0 t rest i (if node_mounted l then i else mi) ps l) as [e|edge child ps' mk] eqn:ST; [apply persist_refl|].
    destruct (fetch_step_ok _ _ _ _ _ _ _ _ _ _ _ ST) as (SO & _).
    rewrite out_state_rebuild. eapply persist_mk; [exact SO|].
    intros c Hc. destruct edge as [b| | |]; try tauto. destruct SO as [_ [-> _]]. rewrite Hc. cbn [child_or_empty]. apply IH.
Qed.

Lemma persist_at_path : forall a f n s, node_at a n = Some s -> persist s (out_state (f s)) ->
  persist n (out_state (at_path a f n)).
Proof.
  induction a as [|t r IH]; intros f n s Hs HP; cbn in Hs.
  - injection Hs as <-. exact HP.
  - destruct n as [hs pp li pa wi mo ls]. cbn [node_lits] in Hs. cbn [at_path].
    destruct (lit_get t li) as [c|] eqn:E; [|discriminate]. rewrite out_state_rebuild.
    apply persist_lit. intros c0 Hc. rewrite E in Hc. injection Hc as <-.
    eapply IH; eauto.
Qed.

Lemma node_at_at_path : forall a f n s, node_at a n = Some s ->
  node_at a (out_state (at_path a f n)) = Some (out_state (f s)).
Proof.
  induction a as [|t r IH]; intros f n s Hs; cbn in Hs.
  - injection Hs as <-. reflexivity.
  - destruct n as [hs pp li pa wi mo ls]. cbn [node_lits] in Hs. cbn [at_path].
    destruct (lit_get t li) as [c|] eqn:E; [|discriminate]. rewrite out_state_rebuild. cbn [node_at node_lits].
    rewrite lit_get_set_same. apply IH, Hs.
Qed.

(* ---- fetch with a mount node, along literal tokens ---- *)
Lemma fetch_mount_cons : forall v0 fin M t rest i mi ps fr hs pp li pa wi mo ls, littok t = true ->
  fetch_gen v0 fin (Some M) (t :: rest) i mi ps fr (Node hs pp li pa wi mo ls) =
  rebuild (fun n' => Node hs pp (lit_set t n' li) pa wi mo ls)
    (match lit_get t li with
     | Some n => fetch_gen v0 fin (Some M) rest (S i) (if mo then i else mi) ps false n
     | None => fetch_gen v0 fin (Some M) rest (S i) (if mo then i else mi) ps (is_nil rest)
                         (if is_nil rest then M else empty_node)
     end).
Proof.
  intros v0 fin M t rest i mi ps fr hs pp li pa wi mo ls L. destruct t as [|c tn]; [discriminate|].
  cbn in L. apply Bool.andb_true_iff in L as [L1 L2]. apply Bool.negb_true_iff in L1, L2.
  cbn [fetch_gen]. rewrite L1, L2. destruct (lit_get (c :: tn) li); reflexivity.
Qed.

Lemma mount_fetch_spec : forall M toks, forallb littok toks = true -> toks <> [] ->
  forall i mi ps l l', fetch_gen false mount_fin (Some M) toks i mi ps false l = Ok l' ->
  (forall q h, has_pattern l' q h <-> has_pattern l q h \/ exists q', q = lits toks ++ q' /\ has_pattern M q' h) /\
  node_at toks l' = Some M /\ node_at toks l = None /\ persist l l'.
Proof.
  intros M. induction toks as [|t rest IH]; intros LT NE i mi ps l l' H; [congruence|].
  cbn [forallb] in LT. apply Bool.andb_true_iff in LT as [L1 L2].
  destruct l as [hs pp li pa wi mo ls]. rewrite (fetch_mount_cons _ _ _ _ _ _ _ _ _ _ _ _ _ _ _ _ L1) in H.
  pose proof (step_ok_lit hs pp li pa wi mo ls t) as SO.
  destruct (lit_get t li) as [c|] eqn:E.
  - (* existing child: must go deeper *)
    destruct rest as [|t2 r2].
    { cbn in H. discriminate. }
    destruct (fetch_gen false mount_fin (Some M) (t2 :: r2) (S i) (if mo then i else mi) ps false c) as [c'|e c'] eqn:F; [|discriminate].
    cbn in H. injection H as <-.
    destruct (IH L2 ltac:(discriminate) _ _ _ _ _ F) as (HP & N1 & N0 & PS).
    split; [|split; [|split]].
    + intros q h. rewrite (has_pattern_mk _ _ _ _ _ q h SO). destruct q as [|e q'].
      * rewrite (has_pattern_node (Node hs pp li pa wi mo ls)). split; [auto|intros [X|(q2 & X & _)]; [exact X|discriminate]].
      * destruct e as [b| | |]; cbv iota; try (split; [auto|intros [X|(q2 & X & _)]; [exact X|discriminate]]).
        destruct (beq b t) eqn:B.
        -- apply beq_eq in B. subst b. rewrite HP. rewrite (has_pattern_node (Node hs pp li pa wi mo ls)). cbn [node_lits].
           split.
           ++ intros [X|(q2 & -> & X)]; [left; eauto|right; exists q2; auto].
           ++ intros [(c0 & E0 & X)|(q2 & X & Y)]; [left; congruence|].
              cbn [lits map app] in X. injection X as ->. right. exists q2. split; [reflexivity|exact Y].
        -- split; [auto|]. intros [X|(q2 & X & _)]; [exact X|]. cbn [lits map app] in X. injection X as -> _.
           rewrite beq_refl in B. discriminate.
    + cbn [node_at node_lits]. rewrite lit_get_set_same. exact N1.
    + cbn [node_at node_lits]. rewrite E. exact N0.
    + apply persist_lit. intros c0 Hc. rewrite E in Hc. injection Hc as <-. exact PS.
  - destruct rest as [|t2 r2].
    + (* the mount node is placed here *)
      cbn in H. injection H as <-. split; [|split; [|split]].
      * intros q h. rewrite (has_pattern_mk _ _ _ _ _ q h SO). destruct q as [|e q'].
        -- rewrite (has_pattern_node (Node hs pp li pa wi mo ls)). split; [auto|intros [X|(q2 & X & _)]; [exact X|discriminate]].
        -- destruct e as [b| | |]; cbv iota; try (split; [auto|intros [X|(q2 & X & _)]; [exact X|discriminate]]).
           destruct (beq b t) eqn:B.
           ++ apply beq_eq in B. subst b. split.
              ** intros X. right. exists q'. auto.
              ** intros [X|(q2 & X & Y)].
                 --- apply has_pattern_node in X. cbn in X. destruct X as (c0 & E0 & _). congruence.
                 --- cbn [lits map app] in X. injection X as ->. exact Y.
           ++ split; [auto|]. intros [X|(q2 & X & _)]; [exact X|]. cbn [lits map app] in X. injection X as -> _.
              rewrite beq_refl in B. discriminate.
      * cbn [node_at node_lits]. rewrite lit_get_set_same. reflexivity.
      * cbn [node_at node_lits]. rewrite E. reflexivity.
      * apply persist_lit. intros c0 Hc. congruence.
    + cbn [is_nil] in H.
      destruct (fetch_gen false mount_fin (Some M) (t2 :: r2) (S i) (if mo then i else mi) ps false empty_node) as [c'|e c'] eqn:F; [|discriminate].
      cbn in H. injection H as <-.
      destruct (IH L2 ltac:(discriminate) _ _ _ _ _ F) as (HP & N1 & N0 & PS).
      split; [|split; [|split]].
      * intros q h. rewrite (has_pattern_mk _ _ _ _ _ q h SO). destruct q as [|e q'].
        -- rewrite (has_pattern_node (Node hs pp li pa wi mo ls)). split; [auto|intros [X|(q2 & X & _)]; [exact X|discriminate]].
        -- destruct e as [b| | |]; cbv iota; try (split; [auto|intros [X|(q2 & X & _)]; [exact X|discriminate]]).
           destruct (beq b t) eqn:B.
           ++ apply beq_eq in B. subst b. rewrite HP. split.
              ** intros [X|(q2 & -> & X)]; [destruct (has_pattern_empty _ _ X)|right; exists q2; auto].
              ** intros [X|(q2 & X & Y)].
                 --- apply has_pattern_node in X. cbn in X. destruct X as (c0 & E0 & _). congruence.
                 --- cbn [lits map app] in X. injection X as ->. right. exists q2. split; [reflexivity|exact Y].
           ++ split; [auto|]. intros [X|(q2 & X & _)]; [exact X|]. cbn [lits map app] in X. injection X as -> _.
              rewrite beq_refl in B. discriminate.
      * cbn [node_at node_lits]. rewrite lit_get_set_same. exact N1.
      * cbn [node_at node_lits]. rewrite E. reflexivity.
      * apply persist_lit. intros c0 Hc. congruence.
Qed.
