(* Invariants of all nodes together with the mountIdx (mi) with which matchNode / fetch arrive
   at them, for tries with mounted nodes. *)
From GoRes Require Import Mux.Spec Pattern.Lemmas Mux.ProofsMatch Mux.ProofsFetch Mux.ProofsFlat Mux.ProofsMount.
From Coq Require Import Lia Arith PeanoNat.
Open Scope N_scope.

Lemma reach_reachm : forall l p n, reach l p n -> forall i mi, exists m, reachm l i mi p n m.
Proof.
  induction 1; intros i mi.
  - exists mi. constructor.
  - destruct (IHreach (S i) (if node_mounted n then i else mi)) as (m0 & R). exists m0. eapply RM_lit; eauto.
  - destruct (IHreach (S i) (if node_mounted n then i else mi)) as (m0 & R). exists m0. eapply RM_par; eauto.
  - destruct (IHreach (S i) (if node_mounted n then i else mi)) as (m0 & R). exists m0. eapply RM_wild; eauto.
Qed.
Lemma reachm_le : forall l i mi p n m, reachm l i mi p n m -> (mi <= i)%nat -> (m <= i + length p)%nat.
Proof.
  induction 1; intros L; cbn [length]; try lia;
    (assert (X : ((if node_mounted l then i else mi) <= S i)%nat) by (destruct (node_mounted l); lia);
     specialize (IHreachm X); lia).
Qed.
Lemma reachm_det : forall l i mi p n m, reachm l i mi p n m -> forall n' m', reachm l i mi p n' m' -> n = n' /\ m = m'.
Proof.
  induction 1; intros n' m' R'; inversion R'; subst; auto; apply IHreachm; congruence.
Qed.

Definition InvM (P : list ptok -> nat -> node -> Prop) (pre : list ptok) (mi : nat) (l : node) : Prop :=
  forall q n m, reachm l (length pre) mi q n m -> P (pre ++ q) m n.

Lemma reachm_empty : forall i mi q n m, reachm empty_node i mi q n m -> q = [] /\ n = empty_node /\ m = mi.
Proof. intros i mi q n m H. inversion H; subst; auto; discriminate. Qed.

Section InvMSec.
Variable P : list ptok -> nat -> node -> Prop.
Hypothesis P_loc : forall path m n n', loc_eq n n' -> P path m n -> P path m n'.
Hypothesis P_empty : forall path m, ~ ends_full path -> P path m empty_node.

Lemma InvM_mk : forall pre mi l edge child mk c',
  step_ok l edge child mk -> InvM P pre mi l ->
  InvM P (pre ++ [edge]) (if node_mounted l then length pre else mi) c' -> InvM P pre mi (mk c').
Proof.
  intros pre mi l edge child mk c' [SL SC] I IC q n m Rq.
  destruct (SL c') as (E1 & E2 & E3 & E4).
  assert (LEN : length (pre ++ [edge]) = S (length pre)) by (rewrite app_length; cbn; lia).
  inversion Rq; subst.
  - rewrite app_nil_r. apply (P_loc _ _ l); [unfold loc_eq; auto|]. pose proof (I [] _ _ (RM_nil l (length pre) _)) as I0. rewrite app_nil_r in I0. exact I0.
  - rewrite E4 in H0. destruct edge as [b| | |]; try tauto; destruct SC as [_ SC]; destruct (SC c') as (L1 & L2 & L3); rewrite L1 in H.
    + destruct (bytes_eq_dec t b) as [->|N].
      * rewrite lit_get_set_same in H. injection H as <-. rewrite <- LEN in H0. specialize (IC _ _ _ H0). rewrite <- app_assoc in IC. exact IC.
      * rewrite lit_get_set_other in H by exact N. apply I. eapply RM_lit; eauto.
    + apply I. eapply RM_lit; eauto.
    + apply I. eapply RM_lit; eauto.
  - rewrite E4 in H0. destruct edge as [b| | |]; try tauto; destruct SC as [_ SC]; destruct (SC c') as (L1 & L2 & L3); rewrite L2 in H.
    + apply I. eapply RM_par; eauto.
    + injection H as <-. rewrite <- LEN in H0. specialize (IC _ _ _ H0). rewrite <- app_assoc in IC. exact IC.
    + apply I. eapply RM_par; eauto.
  - rewrite E4 in H0. destruct edge as [b| | |]; try tauto; destruct SC as [_ SC]; destruct (SC c') as (L1 & L2 & L3); rewrite L3 in H.
    + apply I. eapply RM_wild; eauto.
    + apply I. eapply RM_wild; eauto.
    + injection H as <-. rewrite <- LEN in H0. specialize (IC _ _ _ H0). rewrite <- app_assoc in IC. exact IC.
Qed.

Lemma InvM_fin : forall path mi n n', kids_eq n n' -> node_mounted n' = node_mounted n -> P path mi n' ->
  InvM P path mi n \/ n = empty_node -> InvM P path mi n'.
Proof.
  intros path mi n n' (K1 & K2 & K3) KM Pn' [I| ->] q x m Rq.
  - inversion Rq; subst.
    + rewrite app_nil_r. exact Pn'.
    + rewrite K1 in H. rewrite KM in H0. apply I. eapply RM_lit; eauto.
    + rewrite K2 in H. rewrite KM in H0. apply I. eapply RM_par; eauto.
    + rewrite K3 in H. rewrite KM in H0. apply I. eapply RM_wild; eauto.
  - inversion Rq; subst.
    + rewrite app_nil_r. exact Pn'.
    + rewrite K1 in H. discriminate.
    + rewrite K2 in H. discriminate.
    + rewrite K3 in H. discriminate.
Qed.

Lemma InvM_child : forall pre mi l e c,
  InvM P pre mi l ->
  match e with
  | PLit t => lit_get t (node_lits l) = Some c
  | PAnon => node_param l = Some c
  | PFull => node_wild l = Some c
  | PParam _ => False
  end -> InvM P (pre ++ [e]) (if node_mounted l then length pre else mi) c.
Proof.
  intros pre mi l e c I H q n m Rq. rewrite app_length in Rq. cbn [length] in Rq. rewrite Nat.add_1_r in Rq.
  rewrite <- app_assoc. cbn [app]. destruct e; try tauto; apply I; econstructor; eauto.
Qed.

Variable v0 : bool.
Variable fin : bool -> node -> list pparam -> nat -> outcome node.
Hypothesis fin_keeps : forall fr n ps mi,
  kids_eq n (out_state (fin fr n ps mi)) /\ node_mounted (out_state (fin fr n ps mi)) = node_mounted n.
(* what is known about the params handed to fin, along the path walked so far *)
Variable Q : list ptok -> list pparam -> nat -> Prop.
Hypothesis Q_step : forall pre ps mi l e, P pre mi l -> Q pre ps mi ->
  Q (pre ++ [e]) ps (if node_mounted l then length pre else mi).
Hypothesis Q_snoc : forall pre ps mi l tn, P pre mi l -> Q pre ps mi ->
  Q (pre ++ [PAnon]) (ps ++ [(tn, length pre - (if node_mounted l then length pre else mi))%nat])
    (if node_mounted l then length pre else mi).

Lemma fetch_invm : forall toks pre mi ps fr l b,
  is_ok (fetch_gen v0 fin None toks (length pre) mi ps fr l) = b ->
  (forall fr n ps' m, is_ok (fin fr n ps' m) = b -> Q (pre ++ sk toks) ps' m ->
       (P (pre ++ sk toks) m n \/ n = empty_node) -> P (pre ++ sk toks) m (out_state (fin fr n ps' m))) ->
  Q pre ps mi ->
  (InvM P pre mi l \/ (l = empty_node /\ (toks = [] \/ ~ ends_full pre))) ->
  InvM P pre mi (out_state (fetch_gen v0 fin None toks (length pre) mi ps fr l)).
Proof.
  induction toks as [|t rest IH]; intros pre mi ps fr l b Hb HF HQ HI.
  - cbn [fetch_gen] in *. cbn [sk map] in HF. rewrite app_nil_r in HF.
    destruct (fin_keeps fr l ps mi) as [K KM].
    apply (InvM_fin pre mi l); [exact K|exact KM| |].
    + apply HF; [exact Hb|exact HQ|]. destruct HI as [I|[-> _]]; [left|right; reflexivity].
      specialize (I [] l mi (RM_nil l _ mi)). rewrite app_nil_r in I. exact I.
    + destruct HI as [I|[-> _]]; auto.
  - assert (I : InvM P pre mi l).
    { destruct HI as [I|[-> [X|X]]]; [exact I|discriminate|].
      intros q n m Rq. apply reachm_empty in Rq as (-> & -> & ->). rewrite app_nil_r. apply P_empty, X. }
    assert (Pl : P pre mi l) by (specialize (I [] l mi (RM_nil l _ mi)); rewrite app_nil_r in I; exact I).
    rewrite fetch_cons in *. cbv zeta in *.
    set (mi' := if node_mounted l then length pre else mi) in *.
    destruct (fetch_step v0 t rest (length pre) mi' ps l) as [e|edge child ps' mk] eqn:ST; [exact I|].
    destruct (fetch_step_ok _ _ _ _ _ _ _ _ _ _ _ ST) as (SO & EE & EF & EP).
    rewrite is_ok_rebuild in Hb. rewrite out_state_rebuild.
    apply (InvM_mk pre mi l edge child mk); [exact SO|exact I|]. fold mi'.
    assert (LEN : length (pre ++ [edge]) = S (length pre)) by (rewrite app_length; cbn; lia).
    rewrite <- LEN in Hb |- *.
    apply (IH _ _ _ _ _ b Hb).
    + intros fr' n ps'' m Hb'' Q'' Pn. change (sk (t :: rest)) with (sk1 t :: sk rest) in HF. rewrite <- EE in HF.
      rewrite <- app_assoc in *. cbn [app] in *. apply HF; assumption.
    + destruct EP as [->|(tn & -> & _ & ET)].
      * apply Q_step; assumption.
      * assert (edge = PAnon) as -> by (rewrite EE, ET; reflexivity). apply Q_snoc; assumption.
    + destruct SO as [SL SC].
      destruct edge as [b0| | |]; try tauto.
      * destruct SC as [-> SC]. destruct (lit_get b0 (node_lits l)) as [c|] eqn:EL; cbn [child_or_empty].
        -- left. apply (InvM_child pre mi l (PLit b0) c I EL).
        -- right. split; [reflexivity|]. right. intros X. apply ends_full_snoc in X. discriminate.
      * destruct SC as [-> SC]. destruct (node_param l) as [c|] eqn:EL; cbn [child_or_empty].
        -- left. apply (InvM_child pre mi l PAnon c I EL).
        -- right. split; [reflexivity|]. right. intros X. apply ends_full_snoc in X. discriminate.
      * destruct SC as [-> SC]. destruct (node_wild l) as [c|] eqn:EL; cbn [child_or_empty].
        -- left. apply (InvM_child pre mi l PFull c I EL).
        -- right. split; [reflexivity|]. left. apply EF. reflexivity.
Qed.
End InvMSec.
