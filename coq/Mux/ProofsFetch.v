(* What fetch (through add / AddListener) does to the trie: the registered patterns change
   by exactly the new one, and invariants of the reachable nodes are kept. *)
From GoRes Require Import Mux.Spec Pattern.Lemmas Mux.ProofsMatch.
From Coq Require Import Lia Arith PeanoNat.
Open Scope N_scope.

(* ---- assoc list of literal children ---- *)
Lemma lit_get_set_same : forall t n l, lit_get t (lit_set t n l) = Some n.
Proof.
  induction l as [|[k c] r IH]; cbn.
  - rewrite beq_refl. reflexivity.
  - destruct (beq t k) eqn:E; cbn.
    + rewrite beq_refl. reflexivity.
    + rewrite E. exact IH.
Qed.
Lemma beq_false_neq : forall a b, a <> b -> beq a b = false.
Proof. intros a b N. destruct (beq a b) eqn:E; [apply beq_eq in E; congruence|reflexivity]. Qed.
Lemma lit_get_set_other : forall t t' n l, t' <> t -> lit_get t' (lit_set t n l) = lit_get t' l.
Proof.
  induction l as [|[k c] r IH]; intros N; cbn.
  - rewrite (beq_false_neq _ _ N). reflexivity.
  - destruct (beq t k) eqn:E; cbn.
    + apply beq_eq in E. subst k. rewrite (beq_false_neq _ _ N). reflexivity.
    + destruct (beq t' k); [reflexivity|apply IH, N].
Qed.
Lemma bytes_eq_dec : forall a b : bytes, {a = b} + {a <> b}.
Proof. intros a b. destruct (beq a b) eqn:E; [left; apply beq_eq, E|right; intros ->; rewrite beq_refl in E; discriminate]. Qed.

(* ---- has_pattern, unfolded one level ---- *)
Lemma has_pattern_node : forall n q h,
  has_pattern n q h <->
  match q with
  | [] => node_hs n = Some h
  | PLit t :: q' => exists c, lit_get t (node_lits n) = Some c /\ has_pattern c q' h
  | PAnon :: q' => exists c, node_param n = Some c /\ has_pattern c q' h
  | PFull :: q' => exists c, node_wild n = Some c /\ has_pattern c q' h
  | PParam _ :: _ => False
  end.
Proof.
  intros n q h. split.
  - intros H. inversion H; subst; eauto.
  - destruct q as [|[t|x| |] q']; intros H.
    + apply HP_here, H.
    + destruct H as (c & E & H). eapply HP_lit; eauto.
    + destruct H.
    + destruct H as (c & E & H). eapply HP_par; eauto.
    + destruct H as (c & E & H). eapply HP_wild; eauto.
Qed.
Lemma has_pattern_empty : forall q h, ~ has_pattern empty_node q h.
Proof. intros q h H. apply has_pattern_node in H. destruct q as [|[t|x| |] q']; cbn in H; try discriminate; try tauto; destruct H as (c & E & _); discriminate. Qed.

Definition child_or_empty (o : option node) : node := match o with Some n => n | None => empty_node end.
Lemma has_pattern_coe : forall o q h, has_pattern (child_or_empty o) q h <-> exists c, o = Some c /\ has_pattern c q h.
Proof.
  intros [c|] q h; cbn; split.
  - eauto.
  - intros (c' & E & H). injection E as <-. exact H.
  - intros H. exfalso. eapply has_pattern_empty, H.
  - intros (c' & E & _). discriminate.
Qed.

(* ---- skeleton edge of a pattern token, as fetch classifies it ---- *)
Definition sk1 (t : bytes) : ptok := skel1 (ptok_of t).
Definition sk (toks : list bytes) : list ptok := map sk1 toks.
Lemma skel_ptoks : forall pat, skel (ptoks pat) = sk (split_pattern pat).
Proof. intros. unfold skel, ptoks, sk. rewrite map_map. reflexivity. Qed.

Lemma sk1_ph : forall c tn, (c =? dollar) || (c =? star) = true -> sk1 (c :: tn) = PAnon.
Proof.
  intros c tn H. unfold sk1, ptok_of, kind. destruct (c =? dollar); [reflexivity|].
  cbn in H. rewrite H. reflexivity.
Qed.
Lemma sk1_full : forall c tn, (c =? dollar) || (c =? star) = false -> (c =? gt) = true -> sk1 (c :: tn) = PFull.
Proof.
  intros c tn H G. unfold sk1, ptok_of, kind. apply Bool.orb_false_iff in H as [H1 H2]. rewrite H1, H2, G. reflexivity.
Qed.
Lemma sk1_lit : forall c tn, (c =? dollar) || (c =? star) = false -> (c =? gt) = false -> sk1 (c :: tn) = PLit (c :: tn).
Proof.
  intros c tn H G. unfold sk1, ptok_of, kind. apply Bool.orb_false_iff in H as [H1 H2]. rewrite H1, H2, G. reflexivity.
Qed.

Lemma out_state_rebuild : forall A (f : node -> A) o, out_state (rebuild f o) = f (out_state o).
Proof. intros A f [a|e a]; reflexivity. Qed.
Lemma is_ok_rebuild : forall A (f : node -> A) o, is_ok (rebuild f o) = is_ok o.
Proof. intros A f [a|e a]; reflexivity. Qed.

(* ---- fetch without a mount node, one token unfolded ---- *)
Inductive fstep (v0 : bool) (t : bytes) (rest : list bytes) (i mi : nat) (ps : list pparam) (l : node) : Type :=
| FS_panic (e : N)
| FS_go (edge : ptok) (child : node) (ps' : list pparam) (mk : node -> node).

Definition fetch_step (v0 : bool) (t : bytes) (rest : list bytes) (i mi : nat) (ps : list pparam) (l : node)
  : fstep v0 t rest i mi ps l :=
  let 'Node hs pp lits pa wi mo ls := l in
  match t with
  | [] => FS_panic _ _ _ _ _ _ _ EInvalid
  | c :: tn =>
    if (c =? dollar) || (c =? star) then
      if (if v0 then is_nil tn else Bool.eqb (c =? dollar) (is_nil tn)) then FS_panic _ _ _ _ _ _ _ EInvalid
      else if (c =? dollar) && has_name tn ps then FS_panic _ _ _ _ _ _ _ EDupTag
      else FS_go _ _ _ _ _ _ _ PAnon (child_or_empty pa)
                 (if c =? dollar then ps ++ [(tn, i - mi)%nat] else ps)
                 (fun n' => Node hs pp lits (Some n') wi mo ls)
    else if c =? gt then
      if negb (is_nil tn) || negb (is_nil rest) then FS_panic _ _ _ _ _ _ _ EInvalid
      else FS_go _ _ _ _ _ _ _ PFull (child_or_empty wi) ps (fun n' => Node hs pp lits pa (Some n') mo ls)
    else FS_go _ _ _ _ _ _ _ (PLit t) (child_or_empty (lit_get t lits)) ps
               (fun n' => Node hs pp (lit_set t n' lits) pa wi mo ls)
  end.

Lemma fetch_cons : forall v0 fin t rest i mi ps fr l,
  fetch_gen v0 fin None (t :: rest) i mi ps fr l =
  let mi' := if node_mounted l then i else mi in
  match fetch_step v0 t rest i mi' ps l with
  | FS_panic _ _ _ _ _ _ _ e => Panic e l
  | FS_go _ _ _ _ _ _ _ _ child ps' mk => rebuild mk (fetch_gen v0 fin None rest (S i) mi' ps' false child)
  end.
Proof.
  intros v0 fin t rest i mi ps fr [hs pp lits pa wi mo ls].
  cbn [fetch_gen fetch_step node_mounted]. cbv zeta.
  destruct t as [|c tn]; [reflexivity|].
  destruct ((c =? dollar) || (c =? star)).
  - destruct (if v0 then is_nil tn else Bool.eqb (c =? dollar) (is_nil tn)); [reflexivity|].
    destruct ((c =? dollar) && has_name tn ps); [reflexivity|]. destruct pa; reflexivity.
  - destruct (c =? gt).
    + destruct (negb (is_nil tn) || negb (is_nil rest)); [reflexivity|]. destruct wi; reflexivity.
    + destruct (lit_get (c :: tn) lits); reflexivity.
Qed.

(* what a step's [mk] / [child] / [edge] mean *)
Record step_ok (l : node) (edge : ptok) (child : node) (mk : node -> node) : Prop := {
  so_loc : forall c', node_hs (mk c') = node_hs l /\ node_params (mk c') = node_params l /\
                      node_ls (mk c') = node_ls l /\ node_mounted (mk c') = node_mounted l;
  so_child : match edge with
             | PLit t => child = child_or_empty (lit_get t (node_lits l)) /\
                         forall c', node_lits (mk c') = lit_set t c' (node_lits l) /\
                                    node_param (mk c') = node_param l /\ node_wild (mk c') = node_wild l
             | PAnon => child = child_or_empty (node_param l) /\
                        forall c', node_lits (mk c') = node_lits l /\
                                   node_param (mk c') = Some c' /\ node_wild (mk c') = node_wild l
             | PFull => child = child_or_empty (node_wild l) /\
                        forall c', node_lits (mk c') = node_lits l /\
                                   node_param (mk c') = node_param l /\ node_wild (mk c') = Some c'
             | PParam _ => False
             end
}.

Lemma fetch_step_ok : forall v0 t rest i mi ps l edge child ps' mk,
  fetch_step v0 t rest i mi ps l = FS_go _ _ _ _ _ _ _ edge child ps' mk ->
  step_ok l edge child mk /\ edge = sk1 t /\ (edge = PFull -> rest = []) /\
  (ps' = ps \/ exists tn, ps' = ps ++ [(tn, i - mi)%nat] /\ has_name tn ps = false /\ t = dollar :: tn).
Proof.
  intros v0 t rest i mi ps [hs pp lits pa wi mo ls] edge child ps' mk H.
  cbn [fetch_step] in H. destruct t as [|c tn]; [discriminate|].
  destruct ((c =? dollar) || (c =? star)) eqn:PH.
  - destruct (if v0 then is_nil tn else Bool.eqb (c =? dollar) (is_nil tn)); [discriminate|].
    destruct ((c =? dollar) && has_name tn ps) eqn:DN; [discriminate|].
    injection H as <- <- <- <-. split; [|split; [|split]].
    + constructor; cbn; auto.
    + symmetry. apply sk1_ph, PH.
    + discriminate.
    + destruct (c =? dollar) eqn:D; [right|left; reflexivity]. exists tn. cbn in DN.
      apply N.eqb_eq in D. subst c. auto.
  - destruct (c =? gt) eqn:G.
    + destruct (negb (is_nil tn) || negb (is_nil rest)) eqn:L; [discriminate|].
      injection H as <- <- <- <-. split; [|split; [|split]].
      * constructor; cbn; auto.
      * symmetry. apply sk1_full; assumption.
      * intros _. apply Bool.orb_false_iff in L as [_ L]. destruct rest; [reflexivity|discriminate].
      * left; reflexivity.
    + injection H as <- <- <- <-. split; [|split; [|split]].
      * constructor; cbn; auto.
      * symmetry. apply sk1_lit; assumption.
      * discriminate.
      * left; reflexivity.
Qed.

(* ---- patterns after fetch ---- *)
Section Pats.
Variable v0 : bool.
Variable fin : bool -> node -> list pparam -> nat -> outcome node.
(* what the caller's action does to the fetched node: adds at most the pattern [] *)
Variable R : bool -> option handler -> Prop.
Hypothesis fin_spec : forall fr n ps mi, exists oh,
  R (is_ok (fin fr n ps mi)) oh /\
  forall q h, has_pattern (out_state (fin fr n ps mi)) q h <-> (q = [] /\ oh = Some h) \/ has_pattern n q h.
Hypothesis R_panic : R false None.

Lemma has_pattern_mk : forall l edge child mk c' q h,
  step_ok l edge child mk ->
  (has_pattern (mk c') q h <->
   match q with
   | [] => node_hs l = Some h
   | e :: q' => if match e, edge with
                   | PLit a, PLit b => beq a b
                   | PAnon, PAnon | PFull, PFull => true
                   | _, _ => false end
                then has_pattern c' q' h
                else has_pattern l q h
   end).
Proof.
  intros l edge child mk c' q h [SL SC]. destruct (SL c') as (E1 & _).
  rewrite has_pattern_node. destruct q as [|e q']; [rewrite E1; reflexivity|].
  destruct edge as [b| | |]; try tauto; destruct SC as [_ SC]; destruct (SC c') as (L1 & L2 & L3).
  - destruct e as [a| | |]; try (rewrite has_pattern_node; cbn; rewrite ?L2, ?L3; reflexivity).
    rewrite L1. destruct (beq a b) eqn:E.
    + apply beq_eq in E. subst. rewrite lit_get_set_same. split; [intros (c & Ec & H); congruence|eauto].
    + rewrite lit_get_set_other by (intros ->; rewrite beq_refl in E; discriminate).
      rewrite (has_pattern_node l). reflexivity.
  - destruct e as [a| | |]; try (rewrite has_pattern_node; cbn; rewrite ?L1, ?L2, ?L3; reflexivity).
    rewrite L2. split; [intros (c & Ec & H); congruence|eauto].
  - destruct e as [a| | |]; try (rewrite has_pattern_node; cbn; rewrite ?L1, ?L2, ?L3; reflexivity).
    rewrite L3. split; [intros (c & Ec & H); congruence|eauto].
Qed.

Lemma has_pattern_child : forall l edge child mk q' h,
  step_ok l edge child mk -> (has_pattern child q' h <-> has_pattern l (edge :: q') h).
Proof.
  intros l edge child mk q' h [_ SC]. rewrite (has_pattern_node l).
  destruct edge; try tauto; destruct SC as [-> _]; apply has_pattern_coe.
Qed.

Lemma fetch_pats : forall toks i mi ps fr l, exists oh,
  R (is_ok (fetch_gen v0 fin None toks i mi ps fr l)) oh /\
  forall q h, has_pattern (out_state (fetch_gen v0 fin None toks i mi ps fr l)) q h <->
              (q = sk toks /\ oh = Some h) \/ has_pattern l q h.
Proof.
  induction toks as [|t rest IH]; intros i mi ps fr l.
  - cbn [fetch_gen sk map]. apply fin_spec.
  - rewrite fetch_cons. cbv zeta. set (mi' := if node_mounted l then i else mi).
    destruct (fetch_step v0 t rest i mi' ps l) as [e|edge child ps' mk] eqn:ST.
    + exists None. split; [exact R_panic|]. intros q h. cbn. split; [auto|intros [[_ X]|X]; [discriminate|exact X]].
    + destruct (fetch_step_ok _ _ _ _ _ _ _ _ _ _ _ ST) as (SO & EE & _).
      destruct (IH (S i) mi' ps' false child) as (oh & HR & HP).
      exists oh. rewrite is_ok_rebuild, out_state_rebuild. split; [exact HR|].
      intros q h. rewrite (has_pattern_mk _ _ _ _ _ q h SO).
      destruct q as [|e q'].
      * rewrite (has_pattern_node l). cbn. split; [auto|intros [[X _]|X]; [discriminate|exact X]].
      * change (sk (t :: rest)) with (sk1 t :: sk rest). rewrite <- EE.
        destruct (match e, edge with PLit a, PLit b => beq a b | PAnon, PAnon | PFull, PFull => true | _, _ => false end) eqn:EQ.
        -- assert (e = edge) as ->.
           { destruct e, edge; try discriminate; try reflexivity. apply beq_eq in EQ. congruence. }
           rewrite HP, (has_pattern_child _ _ _ _ q' h SO). split.
           ++ intros [[-> E]|X]; [left; auto|right; exact X].
           ++ intros [[E1 E2]|X]; [left; split; [congruence|exact E2]|right; exact X].
        -- split; [auto|]. intros [[E1 _]|X]; [|exact X]. injection E1 as -> _.
           destruct SO as [_ SC]. destruct edge; try discriminate; [rewrite beq_refl in EQ; discriminate|destruct SC].
Qed.
End Pats.

(* ---- invariants of all reachable nodes ---- *)
Definition Inv (P : list ptok -> node -> Prop) (pre : list ptok) (l : node) : Prop :=
  forall q m, reach l q m -> P (pre ++ q) m.
Definition loc_eq (n n' : node) : Prop :=
  node_hs n' = node_hs n /\ node_params n' = node_params n /\ node_ls n' = node_ls n /\ node_mounted n' = node_mounted n.
Definition kids_eq (n n' : node) : Prop :=
  node_lits n' = node_lits n /\ node_param n' = node_param n /\ node_wild n' = node_wild n.

Lemma reach_empty : forall q m, reach empty_node q m -> q = [] /\ m = empty_node.
Proof. intros q m H. inversion H; subst; auto; discriminate. Qed.

Lemma reach_coe : forall o q m, reach (child_or_empty o) q m ->
  (exists c, o = Some c /\ reach c q m) \/ (o = None /\ q = [] /\ m = empty_node).
Proof.
  intros [c|] q m H; cbn in H; [left; eauto|right]. apply reach_empty in H. tauto.
Qed.

Lemma ends_full_snoc : forall pre e, ends_full (pre ++ [e]) -> e = PFull.
Proof.
  intros pre e (p0 & E). apply app_inj_tail in E. tauto.
Qed.

Section Invariants.
Variable P : list ptok -> node -> Prop.
Hypothesis P_loc : forall path n n', loc_eq n n' -> P path n -> P path n'.
Hypothesis P_empty : forall path, ~ ends_full path -> P path empty_node.

Lemma Inv_mk : forall pre l edge child mk c',
  step_ok l edge child mk -> Inv P pre l -> Inv P (pre ++ [edge]) c' -> Inv P pre (mk c').
Proof.
  intros pre l edge child mk c' [SL SC] I IC q m Rq.
  destruct (SL c') as (E1 & E2 & E3 & E4).
  inversion Rq; subst.
  - rewrite app_nil_r. apply (P_loc _ l); [unfold loc_eq; auto|]. specialize (I [] l (R_nil l)). rewrite app_nil_r in I. exact I.
  - destruct edge as [b| | |]; try tauto; destruct SC as [_ SC]; destruct (SC c') as (L1 & L2 & L3).
    + rewrite L1 in H. destruct (bytes_eq_dec t b) as [->|N].
      * rewrite lit_get_set_same in H. injection H as <-. specialize (IC _ _ H0). rewrite <- app_assoc in IC. exact IC.
      * rewrite lit_get_set_other in H by exact N. apply I. eapply R_lit; eauto.
    + rewrite L1 in H. apply I. eapply R_lit; eauto.
    + rewrite L1 in H. apply I. eapply R_lit; eauto.
  - destruct edge as [b| | |]; try tauto; destruct SC as [_ SC]; destruct (SC c') as (L1 & L2 & L3).
    + rewrite L2 in H. apply I. eapply R_par; eauto.
    + rewrite L2 in H. injection H as <-. specialize (IC _ _ H0). rewrite <- app_assoc in IC. exact IC.
    + rewrite L2 in H. apply I. eapply R_par; eauto.
  - destruct edge as [b| | |]; try tauto; destruct SC as [_ SC]; destruct (SC c') as (L1 & L2 & L3).
    + rewrite L3 in H. apply I. eapply R_wild; eauto.
    + rewrite L3 in H. apply I. eapply R_wild; eauto.
    + rewrite L3 in H. injection H as <-. specialize (IC _ _ H0). rewrite <- app_assoc in IC. exact IC.
Qed.

Variable v0 : bool.
Variable fin : bool -> node -> list pparam -> nat -> outcome node.
Hypothesis fin_kids : forall fr n ps mi, kids_eq n (out_state (fin fr n ps mi)).
(* a predicate on the params / mountIdx handed to [fin], kept along the way *)
Variable Q : nat -> list pparam -> nat -> Prop.
Hypothesis Q_step : forall i ps mi, Q i ps mi -> Q (S i) ps mi.
Hypothesis Q_snoc : forall i ps mi tn, Q i ps mi -> Q (S i) (ps ++ [(tn, i - mi)%nat]) mi.

Lemma Inv_fin : forall path n n', kids_eq n n' -> P path n' -> Inv P path n \/ n = empty_node -> Inv P path n'.
Proof.
  intros path n n' (K1 & K2 & K3) Pn' [I| ->] q m Rq.
  - inversion Rq; subst.
    + rewrite app_nil_r. exact Pn'.
    + rewrite K1 in H. apply I. eapply R_lit; eauto.
    + rewrite K2 in H. apply I. eapply R_par; eauto.
    + rewrite K3 in H. apply I. eapply R_wild; eauto.
  - inversion Rq; subst.
    + rewrite app_nil_r. exact Pn'.
    + rewrite K1 in H. discriminate.
    + rewrite K2 in H. discriminate.
    + rewrite K3 in H. discriminate.
Qed.

(* flat version: no node on the way is mounted, so mountIdx stays what it was.
   [b] = whether the whole fetch succeeds: fin only has to be understood for that outcome. *)
Lemma fetch_inv : forall toks pre i mi ps fr l b,
  is_ok (fetch_gen v0 fin None toks i mi ps fr l) = b ->
  (forall fr n ps', is_ok (fin fr n ps' mi) = b -> Q (i + length toks)%nat ps' mi ->
       (P (pre ++ sk toks) n \/ n = empty_node) -> P (pre ++ sk toks) (out_state (fin fr n ps' mi))) ->
  Q i ps mi ->
  Inv (fun _ n => node_mounted n = false) [] l ->
  (Inv P pre l \/ (l = empty_node /\ (toks = [] \/ ~ ends_full pre))) ->
  Inv P pre (out_state (fetch_gen v0 fin None toks i mi ps fr l)).
Proof.
  induction toks as [|t rest IH]; intros pre i mi ps fr l b Hb HF HQ FL HI.
  - cbn [fetch_gen] in *. cbn [sk map length] in HF. rewrite app_nil_r, Nat.add_0_r in HF.
    apply (Inv_fin pre l); [apply fin_kids| |].
    + apply HF; [exact Hb|exact HQ|]. destruct HI as [I|[-> _]]; [left|right; reflexivity].
      specialize (I [] l (R_nil l)). rewrite app_nil_r in I. exact I.
    + destruct HI as [I|[-> _]]; auto.
  - assert (I : Inv P pre l).
    { destruct HI as [I|[-> [X|X]]]; [exact I|discriminate|].
      intros q m Rq. apply reach_empty in Rq as [-> ->]. rewrite app_nil_r. apply P_empty, X. }
    rewrite fetch_cons in *. cbv zeta in *.
    assert (ML : node_mounted l = false) by (apply (FL [] l (R_nil l))).
    rewrite ML in *.
    destruct (fetch_step v0 t rest i mi ps l) as [e|edge child ps' mk] eqn:ST; [exact I|].
    destruct (fetch_step_ok _ _ _ _ _ _ _ _ _ _ _ ST) as (SO & EE & EF & EP).
    rewrite is_ok_rebuild in Hb.
    rewrite out_state_rebuild. apply (Inv_mk pre l edge child mk); [exact SO|exact I|].
    apply (IH _ _ _ _ _ _ b Hb).
    + intros fr' n ps'' Hb'' Q'' Pn. change (sk (t :: rest)) with (sk1 t :: sk rest) in HF. rewrite <- EE in HF.
      rewrite <- app_assoc. cbn [app]. apply HF; [exact Hb''| |rewrite <- app_assoc in Pn; exact Pn].
      cbn [length]. rewrite Nat.add_succ_r. exact Q''.
    + destruct EP as [->|(tn & -> & _)]; [apply Q_step, HQ|apply Q_snoc, HQ].
    + (* child is flat *)
      intros q m Rq. destruct SO as [_ SC].
      destruct edge as [b0| | |]; try tauto; destruct SC as [-> _];
        destruct (reach_coe _ _ _ Rq) as [(c & E & Rc)|(E & -> & ->)]; try reflexivity.
      * apply (FL (PLit b0 :: q)). eapply R_lit; eauto.
      * apply (FL (PAnon :: q)). eapply R_par; eauto.
      * apply (FL (PFull :: q)). eapply R_wild; eauto.
    + destruct SO as [SL SC].
      destruct edge as [b0| | |]; try tauto.
      * destruct SC as [-> SC]. destruct (lit_get b0 (node_lits l)) as [c|] eqn:EL; cbn [child_or_empty].
        -- left. intros q m Rq. rewrite <- app_assoc. apply I. eapply R_lit; eauto.
        -- right. split; [reflexivity|]. right. intros X. apply ends_full_snoc in X. discriminate.
      * destruct SC as [-> SC]. destruct (node_param l) as [c|] eqn:EL; cbn [child_or_empty].
        -- left. intros q m Rq. rewrite <- app_assoc. apply I. eapply R_par; eauto.
        -- right. split; [reflexivity|]. right. intros X. apply ends_full_snoc in X. discriminate.
      * destruct SC as [-> SC]. destruct (node_wild l) as [c|] eqn:EL; cbn [child_or_empty].
        -- left. intros q m Rq. rewrite <- app_assoc. apply I. eapply R_wild; eauto.
        -- right. split; [reflexivity|]. left. apply EF. reflexivity.
Qed.
End Invariants.
