(* params_exact and group_spec through mount points: every handler node stores the params and
   the group of its own Handle call, relative to the mountIdx with which it is visited. *)
From GoRes Require Import Mux.Spec Pattern.Lemmas Mux.ProofsMatch Mux.ProofsOrder Mux.ProofsFetch Mux.ProofsFlat
  Mux.ProofsReg Mux.ProofsLookup Mux.ProofsTop Mux.ProofsPG Mux.ProofsMount Mux.ProofsMountSt Mux.ProofsMi
  Mux.ProofsNorm Mux.ProofsTotal Mux.ProofsMountLookup.
From Coq Require Import Lia Arith PeanoNat.
Open Scope N_scope.

(* ---- fetch_invm with a token-aware description of the params handed to fin ---- *)
Section InvMTok.
Variable P : list ptok -> nat -> node -> Prop.
Hypothesis P_loc : forall path m n n', loc_eq n n' -> P path m n -> P path m n'.
Hypothesis P_empty : forall path m, ~ ends_full path -> P path m empty_node.
Variable v0 : bool.
Variable fin : bool -> node -> list pparam -> nat -> outcome node.
Hypothesis fin_keeps : forall fr n ps mi,
  kids_eq n (out_state (fin fr n ps mi)) /\ node_mounted (out_state (fin fr n ps mi)) = node_mounted n.
(* Q remaining-tokens path params mountIdx *)
Variable Q : list bytes -> list ptok -> list pparam -> nat -> Prop.
Hypothesis Q_tok : forall t rest pre ps mi l, P pre mi l -> Q (t :: rest) pre ps mi ->
  Q rest (pre ++ [sk1 t])
    (ps ++ tok_param (length pre - (if node_mounted l then length pre else mi)) t)
    (if node_mounted l then length pre else mi).

Lemma fetch_invm_tok : forall toks pre mi ps fr l b,
  is_ok (fetch_gen v0 fin None toks (length pre) mi ps fr l) = b ->
  (forall fr n ps' m, is_ok (fin fr n ps' m) = b -> Q [] (pre ++ sk toks) ps' m ->
       (P (pre ++ sk toks) m n \/ n = empty_node) -> P (pre ++ sk toks) m (out_state (fin fr n ps' m))) ->
  Q toks pre ps mi ->
  (InvM P pre mi l \/ (l = empty_node /\ (toks = [] \/ ~ ends_full pre))) ->
  InvM P pre mi (out_state (fetch_gen v0 fin None toks (length pre) mi ps fr l)).
Proof.
  induction toks as [|t rest IH]; intros pre mi ps fr l b Hb HF HQ HI.
  - cbn [fetch_gen] in *. cbn [sk map] in HF. rewrite app_nil_r in HF.
    destruct (fin_keeps fr l ps mi) as [K KM].
    apply (InvM_fin P pre mi l); [exact K|exact KM| |].
    + apply HF; [exact Hb|exact HQ|]. destruct HI as [I|[-> _]]; [left|right; reflexivity].
      specialize (I [] l mi (RM_nil l _ mi)). rewrite app_nil_r in I. exact I.
    + destruct HI as [I|[-> _]]; auto.
  - assert (I : InvM P pre mi l).
    { destruct HI as [I|[-> [X|X]]]; [exact I|discriminate|].
      intros q n m Rq. apply reachm_empty in Rq as (-> & -> & ->). rewrite app_nil_r. apply P_empty, X. }
    assert (Pl : P pre mi l) by (specialize (I [] l mi (RM_nil l _ mi)); rewrite app_nil_r in I; exact I).
    rewrite fetch_cons in *. cbv zeta in *.
    set (mi' := if node_mounted l then length pre else mi) in *.
    destruct (fetch_step v0 t rest (length pre) mi' ps l) as [e|edge child ps' mk] eqn:ST; [exact I|].
    destruct (fetch_step_ok _ _ _ _ _ _ _ _ _ _ _ ST) as (SO & EE & EF & _).
    pose proof (fetch_step_ps _ _ _ _ _ _ _ _ _ _ _ ST) as EP.
    rewrite is_ok_rebuild in Hb. rewrite out_state_rebuild.
    apply (InvM_mk P P_loc pre mi l edge child mk); [exact SO|exact I|]. fold mi'.
    assert (LEN : length (pre ++ [edge]) = S (length pre)) by (rewrite app_length; cbn; lia).
    rewrite <- LEN in Hb |- *.
    apply (IH _ _ _ _ _ b Hb).
    + intros fr' n ps'' m Hb'' Q'' Pn. change (sk (t :: rest)) with (sk1 t :: sk rest) in HF. rewrite <- EE in HF.
      rewrite <- app_assoc in *. cbn [app] in *. apply HF; assumption.
    + rewrite EP, EE. apply Q_tok; assumption.
    + destruct SO as [SL SC].
      destruct edge as [b0| | |]; try tauto.
      * destruct SC as [-> SC]. destruct (lit_get b0 (node_lits l)) as [c|] eqn:EL; cbn [child_or_empty].
        -- left. apply (InvM_child P pre mi l (PLit b0) c I EL).
        -- right. split; [reflexivity|]. right. intros X. apply ends_full_snoc in X. discriminate.
      * destruct SC as [-> SC]. destruct (node_param l) as [c|] eqn:EL; cbn [child_or_empty].
        -- left. apply (InvM_child P pre mi l PAnon c I EL).
        -- right. split; [reflexivity|]. right. intros X. apply ends_full_snoc in X. discriminate.
      * destruct SC as [-> SC]. destruct (node_wild l) as [c|] eqn:EL; cbn [child_or_empty].
        -- left. apply (InvM_child P pre mi l PFull c I EL).
        -- right. split; [reflexivity|]. left. apply EF. reflexivity.
Qed.
End InvMTok.

(* ---- params with their absolute positions ---- *)
Definition addidx (m : nat) (x : pparam) : pparam := (fst x, (snd x + m)%nat).
Lemma pparams_app : forall a b i, pparams i (a ++ b) = pparams i a ++ pparams (i + length a) b.
Proof.
  induction a as [|t r IH]; intros b i; cbn [app pparams length]; [rewrite Nat.add_0_r; reflexivity|].
  rewrite IH, <- app_assoc, Nat.add_succ_r. reflexivity.
Qed.
Lemma tok_param_shift : forall i d t, map (addidx d) (tok_param i t) = tok_param (i + d) t.
Proof. intros i d [|c tn]; cbn; [reflexivity|]. destruct (c =? dollar); reflexivity. Qed.
Lemma pparams_shift : forall toks i d, map (addidx d) (pparams i toks) = pparams (i + d) toks.
Proof.
  induction toks as [|t r IH]; intros i d; cbn [pparams map]; [reflexivity|].
  rewrite map_app, tok_param_shift, (IH (S i) d). reflexivity.
Qed.
Lemma tok_param_littok : forall i t, littok t = true -> tok_param i t = [].
Proof.
  intros i [|c tn] H; [reflexivity|]. cbn in H. apply Bool.andb_true_iff in H as [H _].
  apply Bool.negb_true_iff, Bool.orb_false_iff in H as [H _]. cbn. rewrite H. reflexivity.
Qed.
Lemma pparams_lit : forall a i, forallb littok a = true -> pparams i a = [].
Proof.
  induction a as [|t r IH]; intros i H; [reflexivity|]. cbn in H. apply Bool.andb_true_iff in H as [H1 H2].
  cbn [pparams]. rewrite (tok_param_littok _ _ H1), (IH _ H2). reflexivity.
Qed.
Lemma pparams_lit_app : forall a toks, forallb littok a = true ->
  pparams 0 (a ++ toks) = map (addidx (length a)) (pparams 0 toks).
Proof. intros a toks La. rewrite pparams_app, (pparams_lit a 0 La), pparams_shift. reflexivity. Qed.

(* tokens of a param position are PAnon in the skeleton *)
Lemma tok_param_sk : forall i t x, In x (tok_param i t) -> snd x = i /\ sk1 t = PAnon.
Proof.
  intros i [|c tn] x H; [destruct H|]. cbn in H. destruct (c =? dollar) eqn:D; [|destruct H].
  destruct H as [<-|[]]. split; [reflexivity|]. apply sk1_ph. rewrite D. reflexivity.
Qed.

(* ---- the registry invariant ---- *)
Definition gshift_ok := gshift.
Definition PReg (E : list bytes -> sreg -> Prop) (path : list ptok) (m : nat) (n : node) : Prop :=
  forall hid g, node_hs n = Some (hid, g) ->
    exists r a gr, E a r /\ sr_hid r = hid /\ forallb littok a = true /\
      sk (a ++ split_pattern (sr_pat r)) = path /\
      pgroup (sr_par r) (sr_grp r) (sr_pat r) = Some gr /\
      g = rebase_group m (gshift (length a) gr) /\
      map (addidx m) (node_plist n) = pparams 0 (a ++ split_pattern (sr_pat r)).
(* both together *)
Definition PX (E : list bytes -> sreg -> Prop) (path : list ptok) (m : nat) (n : node) : Prop :=
  PT path m n /\ (node_hs n <> None -> node_params n <> None) /\ PReg E path m n.

Lemma PX_loc : forall E path m n n', loc_eq n n' -> PX E path m n -> PX E path m n'.
Proof.
  intros E path m n n' LE (A & B & C). split; [eapply PT_loc; eauto|]. destruct LE as (E1 & E2 & E3 & E4).
  unfold PReg, node_plist in *. rewrite E1, E2. auto.
Qed.
Lemma PX_empty : forall E path m, ~ ends_full path -> PX E path m empty_node.
Proof.
  intros E path m NE. split; [apply PT_empty, NE|]. split; [intros X; cbn in X; congruence|]. intros hid g X. discriminate.
Qed.
Lemma PX_mono : forall (E E' : list bytes -> sreg -> Prop) path m n, (forall a r, E a r -> E' a r) -> PX E path m n -> PX E' path m n.
Proof.
  intros E E' path m n Sub (A & B & C). split; [exact A|]. split; [exact B|]. intros hid g X.
  destruct (C hid g X) as (r & a & gr & H1 & H2). exists r, a, gr. split; [apply Sub, H1|exact H2].
Qed.

(* what fetch knows about the params, with the tokens still to come *)
Definition QX (FT : list bytes) (rest : list bytes) (pre : list ptok) (ps : list pparam) (mi : nat) : Prop :=
  QT pre ps mi /\ exists done, done ++ rest = FT /\ sk done = pre /\ map (addidx mi) ps = pparams 0 done.

Lemma QX_tok : forall E FT t rest pre ps mi l, PX E pre mi l -> QX FT (t :: rest) pre ps mi ->
  QX FT rest (pre ++ [sk1 t])
     (ps ++ tok_param (length pre - (if node_mounted l then length pre else mi)) t)
     (if node_mounted l then length pre else mi).
Proof.
  intros E FT t rest pre ps mi l (HP & _) (HQ & done & D1 & D2 & D3).
  assert (LD : length done = length pre) by (rewrite <- D2; symmetry; apply sk_length).
  split.
  - (* QT *)
    destruct (tok_param (length pre - (if node_mounted l then length pre else mi)) t) as [|x xs] eqn:TP.
    + rewrite app_nil_r. apply QT_step; assumption.
    + assert (TP' : exists tn, tok_param (length pre - (if node_mounted l then length pre else mi)) t =
                    [(tn, (length pre - (if node_mounted l then length pre else mi))%nat)] /\ sk1 t = PAnon).
      { destruct t as [|c tn]; [discriminate|]. cbn in TP |- *. destruct (c =? dollar) eqn:D; [|discriminate].
        exists tn. split; [reflexivity|]. apply sk1_ph. rewrite D. reflexivity. }
      destruct TP' as (tn & TP2 & SK). rewrite <- TP, TP2, SK. apply QT_snoc; assumption.
  - exists (done ++ [t]). split; [rewrite <- app_assoc; exact D1|]. split; [rewrite sk_app, D2; reflexivity|].
    rewrite pparams_app. cbn [pparams]. rewrite app_nil_r, Nat.add_0_l, LD, map_app, tok_param_shift.
    destruct HP as (A & _). destruct HQ as (L & F & X). destruct (node_mounted l).
    + (* a mounted node: no params so far *)
      specialize (A eq_refl). assert (ps = []).
      { destruct ps as [|x ps']; [reflexivity|]. exfalso. eapply all_lit_nth; [exact A|apply X; left; reflexivity]. }
      subst ps. cbn [map] in D3. rewrite <- D3. cbn [map app]. rewrite Nat.sub_diag. reflexivity.
    + rewrite D3. f_equal. f_equal. lia.
Qed.

Lemma QX_nil : forall FT, QX FT FT [] [] 0.
Proof. intros FT. split; [exact QT_nil|]. exists []. auto. Qed.

(* ---- the two actions keep PX ---- *)
Lemma add_fin_PX : forall (E : list bytes -> sreg -> Prop) FT r a gr fr n ps' m n',
  FT = a ++ split_pattern (sr_pat r) -> E a r -> forallb littok a = true ->
  pgroup (sr_par r) (sr_grp r) (sr_pat r) = Some gr ->
  QX FT [] (sk FT) ps' m -> (PX E (sk FT) m n \/ n = empty_node) ->
  add_fin true (sr_hid r) (gshift (length a) gr) fr n ps' m = Ok n' -> PX E (sk FT) m n'.
Proof.
  intros E FT r a gr fr n ps' m n' EF Er La PG (HQ & done & D1 & D2 & D3) Pn AF.
  rewrite app_nil_r in D1. subst done.
  assert (PTn : PT (sk FT) m n \/ n = empty_node) by (destruct Pn as [(A & _)|X]; auto).
  pose proof (add_fin_PT (sr_hid r) (gshift (length a) gr) (sk FT) fr n ps' m
                ltac:(rewrite EF; eapply tags_ok_pgroup; eauto) HQ PTn) as PT'.
  rewrite AF in PT'. cbn [out_state] in PT'.
  destruct (loc_add_fin _ _ _ _ _ _ _ _ AF) as (HS & E1 & E2 & E3 & E4 & _).
  split; [exact PT'|]. split; [intros _; congruence|].
  intros hid g X. rewrite E1 in X. injection X as <- <-.
  exists r, a, gr. split; [exact Er|]. split; [reflexivity|]. split; [exact La|]. split; [rewrite EF; reflexivity|].
  split; [exact PG|]. split; [reflexivity|]. unfold node_plist. rewrite E4, D3, EF. reflexivity.
Qed.

Lemma listen_fin_PX : forall (E : list bytes -> sreg -> Prop) l path fr n ps' m, QT path ps' m ->
  (PX E path m n \/ n = empty_node) -> PX E path m (out_state (listen_fin l fr n ps' m)).
Proof.
  intros E l path fr n ps' m HQ Pn.
  assert (PTn : PT path m n \/ n = empty_node) by (destruct Pn as [(A & _)|X]; auto).
  pose proof (listen_fin_PT l path fr n ps' m HQ PTn) as PT'.
  destruct (listen_fin l fr n ps' m) as [n'|e n'] eqn:AF; cbn [out_state] in *.
  - destruct (loc_listen_fin _ _ _ _ _ _ AF) as (E1 & E2 & E3 & E4 & E5).
    split; [exact PT'|]. split; [intros _; congruence|].
    intros hid g X. rewrite E1 in X. destruct Pn as [(_ & B & C)| ->]; [|discriminate].
    destruct (C hid g X) as (r & a & gr & H1 & H2 & H3 & H4 & H5 & H6 & H7).
    exists r, a, gr. repeat (split; [assumption|]).
    assert (node_plist n' = node_plist n) as ->; [|exact H7].
    unfold node_plist. rewrite E4. destruct E5 as [E5|E5]; [|rewrite E5; reflexivity].
    exfalso. apply B; [congruence|exact E5].
  - pose proof AF as AF'. apply listen_fin_panic_state in AF'. subst n'. destruct Pn as [Pn| ->]; [exact Pn|cbn in AF; discriminate AF].
Qed.

Lemma InvM_mono : forall (P P' : list ptok -> nat -> node -> Prop) pre mi l,
  (forall path m n, P path m n -> P' path m n) -> InvM P pre mi l -> InvM P' pre mi l.
Proof. intros P P' pre mi l H I q n m R. apply H, I, R. Qed.

Lemma handle_PX : forall (E E' : list bytes -> sreg -> Prop) T a s r T',
  forallb littok a = true -> node_at a T = Some s -> (a <> [] -> node_mounted s = true) ->
  (forall a0 r0, E a0 r0 -> E' a0 r0) -> E' a r ->
  at_path a (fun x => add x (sr_pat r) (sr_hid r) (sr_grp r) (sr_par r)) T = Ok T' ->
  InvM (PX E) [] 0 T -> InvM (PX E') [] 0 T'.
Proof.
  intros E E' T a s r T' La Hs HM Sub Er AP I.
  destruct (at_path_ok _ _ _ _ AP _ Hs) as (s' & Es). destruct (add_ok_inv _ _ _ _ _ _ Es) as (g & PG & V).
  rewrite (handle_normal T a s _ _ _ _ g La Hs HM PG V) in AP.
  rewrite (at_path_out_gen _ _ _ AP).
  set (FT := a ++ split_pattern (sr_pat r)) in *.
  apply (fetch_invm_tok (PX E') (PX_loc E') (PX_empty E') false _ (add_fin_keeps true (sr_hid r) _)
           (QX FT) (QX_tok E' FT) FT [] 0%nat [] false T true).
  - cbn [length]. rewrite AP. reflexivity.
  - intros fr n ps' m OK HQ Pn. cbn [app] in *.
    destruct (add_fin true (sr_hid r) (gshift (length a) g) fr n ps' m) as [n'|e n'] eqn:AF; [|discriminate OK].
    cbn [out_state]. apply (add_fin_PX E' FT r a g fr n ps' m n' eq_refl Er La PG HQ Pn AF).
  - apply QX_nil.
  - left. eapply InvM_mono; [|exact I]. intros path m n. apply PX_mono, Sub.
Qed.

Lemma listen_PX : forall (E : list bytes -> sreg -> Prop) T a s pat l T',
  forallb littok a = true -> node_at a T = Some s -> (a <> [] -> node_mounted s = true) ->
  at_path a (fun r => add_listener r pat l) T = Ok T' -> InvM (PX E) [] 0 T -> InvM (PX E) [] 0 T'.
Proof.
  intros E T a s pat l T' La Hs HM AP I.
  rewrite (listen_normal T a s pat l La Hs HM) in AP.
  rewrite (at_path_out_gen _ _ _ AP).
  set (FT := a ++ split_pattern pat) in *.
  apply (fetch_invm_tok (PX E) (PX_loc E) (PX_empty E) false _ (listen_fin_keeps l)
           (QX FT) (QX_tok E FT) FT [] 0%nat [] false T true).
  - cbn [length]. rewrite AP. reflexivity.
  - intros fr n ps' m _ (HQ & _) Pn. cbn [app] in *. apply listen_fin_PX; assumption.
  - apply QX_nil.
  - left. exact I.
Qed.

(* ---- a mounted subtree, generically ---- *)
Lemma mounted_sub_gen : forall (P P' : list ptok -> nat -> node -> Prop) (Sb : node) (full : list bytes),
  (forall q m n, q <> [] -> P q m n -> P' (lits full ++ q) (m + length full)%nat n) ->
  (forall m0 : nat, P [] 0%nat Sb -> P' (lits full) m0 (set_mounted Sb)) ->
  InvM P [] 0%nat Sb -> forall m0 : nat, InvM P' (lits full) m0 (set_mounted Sb).
Proof.
  intros P P' Sb full SH RT I m0 q n m Rq.
  assert (LL : length (lits full) = length full) by (unfold lits; apply map_length). rewrite LL in Rq.
  assert (KID : forall e c, match e with
                  | PLit t => lit_get t (node_lits (set_mounted Sb)) = Some c
                  | PAnon => node_param (set_mounted Sb) = Some c
                  | PFull => node_wild (set_mounted Sb) = Some c
                  | PParam _ => False end ->
                match e with
                  | PLit t => lit_get t (node_lits Sb) = Some c
                  | PAnon => node_param Sb = Some c
                  | PFull => node_wild Sb = Some c
                  | PParam _ => False end) by (destruct Sb; cbn; auto).
  assert (MS : node_mounted (set_mounted Sb) = true) by (destruct Sb; reflexivity).
  assert (STEP : forall e c q' , match e with
                  | PLit t => lit_get t (node_lits Sb) = Some c
                  | PAnon => node_param Sb = Some c
                  | PFull => node_wild Sb = Some c
                  | PParam _ => False end ->
                 reachm c (S (length full)) (length full) q' n m -> P' (lits full ++ e :: q') m n).
  { intros e c q' HC R1. destruct (reach_reachm _ _ _ (reachm_reach _ _ _ _ _ _ R1) 1%nat 0%nat) as (m' & R0).
    pose proof (reachm_shift _ _ _ _ _ _ R0 (length full)) as R2. cbn [Nat.add] in R2.
    destruct (reachm_det _ _ _ _ _ _ R1 _ _ R2) as [_ ->].
    apply SH; [discriminate|]. apply (I (e :: q') n m').
    cbn [length]. destruct e; try tauto; econstructor; eauto; destruct (node_mounted Sb); exact R0. }
  inversion Rq; subst.
  - rewrite app_nil_r. apply RT. exact (I [] Sb 0%nat (RM_nil Sb _ _)).
  - rewrite MS in H0. apply (STEP (PLit t) c p (KID (PLit t) c H) H0).
  - rewrite MS in H0. apply (STEP PAnon c p (KID PAnon c H) H0).
  - rewrite MS in H0. apply (STEP PFull c p (KID PFull c H) H0).
Qed.

Lemma gshift_add : forall d1 d2 g, gshift (d1 + d2) g = gshift d1 (gshift d2 g).
Proof.
  intros d1 d2 [l|]; [|reflexivity]. cbn. f_equal. rewrite map_map. apply map_ext. intros [x|j|]; cbn; try reflexivity.
  f_equal. lia.
Qed.
Lemma addidx_add : forall a b l, map (addidx (a + b)) l = map (addidx b) (map (addidx a) l).
Proof. intros. rewrite map_map. apply map_ext. intros [nm i]. unfold addidx. cbn. f_equal. lia. Qed.

Lemma PX_shift : forall (E E' : list bytes -> sreg -> Prop) full q m n, forallb littok full = true ->
  (forall a r, E a r -> E' (full ++ a) r) -> q <> [] -> PX E q m n -> PX E' (lits full ++ q) (m + length full)%nat n.
Proof.
  intros E E' full q m n Lf Sub NE (A & B & C). split; [apply PT_shift; assumption|]. split; [exact B|].
  intros hid g X. destruct (C hid g X) as (r & a & gr & H1 & H2 & H3 & H4 & H5 & H6 & H7).
  exists r, (full ++ a), gr. split; [apply Sub, H1|]. split; [exact H2|]. split; [rewrite forallb_app, Lf, H3; reflexivity|].
  split; [rewrite <- app_assoc, sk_app, (sk_lits full Lf), H4; reflexivity|]. split; [exact H5|]. split.
  - rewrite app_length, gshift_add, rebase_gshift_all. exact H6.
  - rewrite addidx_add, H7, <- app_assoc. symmetry. apply pparams_lit_app, Lf.
Qed.

Lemma sk_nil_inv : forall l, sk l = [] -> l = [].
Proof. intros [|t r] H; [reflexivity|discriminate]. Qed.

Lemma PX_root : forall (E E' : list bytes -> sreg -> Prop) full Sb m0, forallb littok full = true ->
  (forall a r, E a r -> E' (full ++ a) r) ->
  InvM PT [] 0%nat Sb -> PX E [] 0%nat Sb -> PX E' (lits full) m0 (set_mounted Sb).
Proof.
  intros E E' full Sb m0 Lf Sub IPT (A & B & C).
  pose proof (PT_mounted_sub Sb full m0 IPT [] (set_mounted Sb) m0) as PTr.
  rewrite app_nil_r in PTr.
  assert (EH : node_hs (set_mounted Sb) = node_hs Sb) by (destruct Sb; reflexivity).
  assert (EP : node_params (set_mounted Sb) = node_params Sb) by (destruct Sb; reflexivity).
  split; [apply PTr; unfold lits; rewrite map_length; constructor|]. split; [rewrite EH, EP; exact B|].
  intros hid g X. rewrite EH in X. destruct (C hid g X) as (r & a & gr & H1 & H2 & H3 & H4 & H5 & H6 & H7).
  apply sk_nil_inv, app_eq_nil in H4 as [-> H4].
  assert (NI : no_idx gr).
  { destruct (sr_pat r) as [|c p] eqn:EPat; [eapply pgroup_nil_no_idx; eauto|]. cbn [split_pattern] in H4.
    pose proof (tokens_nonnil (c :: p)). congruence. }
  exists r, (full ++ []), gr. split; [apply Sub, H1|]. split; [exact H2|]. split; [rewrite app_nil_r; exact Lf|].
  split; [rewrite H4, !app_nil_r; apply sk_lits, Lf|]. split; [exact H5|]. split.
  - rewrite H6. cbn [length]. rewrite !(no_idx_gshift gr _ NI), !(no_idx_rebase gr _ NI). reflexivity.
  - unfold node_plist in *. rewrite EP. cbn [app] in H7. rewrite H4 in H7. cbn in H7.
    destruct (match node_params Sb with Some l => l | None => [] end); [|discriminate].
    rewrite H4, !app_nil_r, (pparams_lit full 0 Lf). reflexivity.
Qed.

Lemma mount_PX : forall (E Es E' : list bytes -> sreg -> Prop) T a s toks Sb T',
  forallb littok a = true -> forallb littok toks = true -> toks <> [] -> node_at a T = Some s ->
  (forall a0 r0, E a0 r0 -> E' a0 r0) -> (forall a0 r0, Es a0 r0 -> E' ((a ++ toks) ++ a0) r0) ->
  at_path a (fun r => fetch_gen false mount_fin (Some (set_mounted Sb)) toks 0 0 [] false r) T = Ok T' ->
  InvM (PX E) [] 0%nat T -> InvM (PX Es) [] 0%nat Sb -> InvM (PX E') [] 0%nat T'.
Proof.
  intros E Es E' T a s toks Sb T' La Lt NE Hs Sub1 Sub2 AP I IS.
  rewrite (mount_normal T a s toks _ La Lt Hs) in AP.
  assert (Lf : forallb littok (a ++ toks) = true) by (rewrite forallb_app, La, Lt; reflexivity).
  apply (mount_invm (PX E') (PX_loc E') (PX_empty E') (set_mounted Sb) (a ++ toks)) with (pre := []) (mi := 0%nat) (ps := []) (l := T).
  - exact Lf.
  - destruct a; [exact NE|discriminate].
  - exact AP.
  - eapply InvM_mono; [|exact I]. intros path m n. apply PX_mono, Sub1.
  - intros m0. cbn [app]. apply (mounted_sub_gen (PX Es) (PX E') Sb (a ++ toks)); [| |exact IS].
    + intros q m n NEq. apply PX_shift; assumption.
    + intros m1 PS. apply (PX_root Es E'); auto. eapply InvM_mono; [|exact IS]. intros path m n (X & _). exact X.
Qed.

(* ---- the state invariant ---- *)
Definition Et (st : state) (R : list sreg) (t : nat) (a : list bytes) (r : sreg) : Prop :=
  In r R /\ top_of st (sr_mux r) = Some (t, a).
Definition InvX (st : state) (R : list sreg) : Prop :=
  forall t p T, nth_error st t = Some (p, Top T) -> InvM (PX (Et st R t)) [] 0 T.

Lemma InvX_nil : InvX [] [].
Proof. intros t p T H. destruct t; discriminate. Qed.

Lemma run_op_InvX : forall st o st' R, WFst st -> InvX st R ->
  match o with ORoute _ _ _ => False | _ => True end -> run_op st o = Ok st' ->
  InvX st' (R ++ handles [o]).
Proof.
  intros st o st' R W IX NR H. destruct o; cbn [run_op] in H; try tauto; cbn [handles]; rewrite ?app_nil_r.
  - (* NewMux *)
    unfold new_mux in H. destruct (is_valid_path path); [|discriminate]. injection H as <-.
    intros t p T Ht. destruct (Nat.lt_ge_cases t (length st)) as [L|L].
    + rewrite nth_error_app1 in Ht by exact L. eapply InvM_mono; [|apply (IX _ _ _ Ht)].
      intros pth m n. apply PX_mono. intros a r [I1 T1]. split; [exact I1|].
      unfold top_of in *. rewrite nth_error_app1; [exact T1|].
      destruct (nth_error st (sr_mux r)) eqn:E; [eapply nth_error_lt; eauto|discriminate].
    + rewrite nth_error_app2 in Ht by exact L. destruct (t - length st)%nat as [|x]; cbn in Ht; [|destruct x; discriminate].
      injection Ht as <- <-. intros q n m0 Rq. apply reachm_empty in Rq as (-> & -> & ->).
      apply PX_empty. intros X. destruct (lits_not_full [] X).
  - (* Handle *)
    unfold do_handle in H.
    destruct (with_root_ok _ _ _ _ W H) as (t & a & p & T & s & T' & TO & Ht & Hs & La & HM & AP & ->).
    set (r := SR m pat hid grp par).
    intros t0 p0 T0 H0. rewrite (set_top_nth st t p T T' Ht) in H0.
    assert (SUB : forall t1 a0 r0, Et st R t1 a0 r0 -> Et (set_nth t (p, Top T') st) (R ++ [r]) t1 a0 r0).
    { intros t1 a0 r0 [I1 T1]. split; [apply in_app_iff; left; exact I1|]. rewrite (set_top_top_of st t p T T' Ht). exact T1. }
    destruct (Nat.eqb t0 t) eqn:E.
    + apply Nat.eqb_eq in E. subst t0. injection H0 as <- <-.
      apply (handle_PX (Et st R t) _ T a s r T' La Hs HM (SUB t)); [|exact AP|apply (IX _ _ _ Ht)].
      split; [apply in_app_iff; right; left; reflexivity|]. rewrite (set_top_top_of st t p T T' Ht). exact TO.
    + eapply InvM_mono; [|apply (IX _ _ _ H0)]. intros pth m0 n. apply PX_mono, SUB.
  - (* AddListener *)
    unfold do_listen in H.
    destruct (with_root_ok _ _ _ _ W H) as (t & a & p & T & s & T' & TO & Ht & Hs & La & HM & AP & ->).
    intros t0 p0 T0 H0. rewrite (set_top_nth st t p T T' Ht) in H0.
    assert (SUB : forall t1 a0 r0, Et st R t1 a0 r0 -> Et (set_nth t (p, Top T') st) R t1 a0 r0).
    { intros t1 a0 r0 [I1 T1]. split; [exact I1|]. rewrite (set_top_top_of st t p T T' Ht). exact T1. }
    destruct (Nat.eqb t0 t) eqn:E.
    + apply Nat.eqb_eq in E. subst t0. injection H0 as <- <-.
      eapply InvM_mono; [intros pth m0 n; apply PX_mono, SUB|].
      apply (listen_PX (Et st R t) T a s pat l T' La Hs HM AP (IX _ _ _ Ht)).
    + eapply InvM_mono; [|apply (IX _ _ _ H0)]. intros pth m0 n. apply PX_mono, SUB.
  - (* Mount *)
    destruct (do_mount_ok _ _ _ _ _ W H) as (t & a & p & T & s & S0 & subpath & T' & TO & Ht & Hs & La & HM & ES & TS & Lt & NE & AP & TREE & TOP & _).
    intros t0 p0 T0 H0. destruct (TREE _ _ _ H0) as (N0 & [(-> & -> & ->)|(N1 & H0')]).
    + apply (mount_PX (Et st R t) (Et st R sub) _ T a s _ S0 T' La Lt NE Hs); [| |exact AP|apply (IX _ _ _ Ht)|apply (IX _ _ _ ES)].
      * intros a0 r0 [I1 T1]. split; [exact I1|]. rewrite TOP, T1. cbn [moved]. rewrite (proj2 (Nat.eqb_neq t sub) TS). reflexivity.
      * intros a0 r0 [I1 T1]. split; [exact I1|]. rewrite TOP, T1. cbn [moved]. rewrite Nat.eqb_refl. reflexivity.
    + eapply InvM_mono; [|apply (IX _ _ _ H0')]. intros pth m0 n. apply PX_mono.
      intros a0 r0 [I1 T1]. split; [exact I1|]. rewrite TOP, T1. cbn [moved]. rewrite (proj2 (Nat.eqb_neq t0 sub) N0). reflexivity.
Qed.

Lemma handles_app : forall a b, handles (a ++ b) = handles a ++ handles b.
Proof. induction a as [|o a IH]; intros b; [reflexivity|]. destruct o; cbn; rewrite ?IH; reflexivity. Qed.

Lemma run_all_X : forall ops st st' R R1, noroute ops = true -> WFst st -> Inv1 st R1 -> InvX st R ->
  run_all st ops = Some st' -> InvX st' (R ++ handles ops).
Proof.
  induction ops as [|o r IH]; intros st st' R R1 NR W I1 IX H.
  - cbn in H. injection H as <-. cbn. rewrite app_nil_r. exact IX.
  - cbn [run_all] in H. destruct (run_op st o) as [s1|e s1] eqn:E; [|discriminate].
    cbn [noroute forallb] in NR. apply Bool.andb_true_iff in NR as [N1 N2].
    assert (NRo : match o with ORoute _ _ _ => False | _ => True end) by (destruct o; try exact I; discriminate N1).
    pose proof (run_op_InvX st o s1 R W IX NRo E) as IX1.
    assert (WI : WFst s1 /\ exists R2, Inv1 s1 R2).
    { destruct o; cbn [run_op] in E; try tauto.
      - destruct (new_step _ _ _ _ W I1 E) as (A & B & _). eauto.
      - destruct (handle_step _ _ _ _ _ _ _ _ W I1 E) as (A & B). eauto.
      - destruct (listen_step _ _ _ _ _ _ W I1 E) as (A & B). eauto.
      - destruct (mount_step _ _ _ _ _ _ W I1 E) as (A & B). eauto. }
    destruct WI as (W1 & R2 & I2).
    change (o :: r) with ([o] ++ r). rewrite handles_app, app_assoc. eapply IH; eauto.
Qed.

Lemma accepted_X : forall ops st, run_all [] ops = Some st -> InvX st (handles (desugar ops 0)).
Proof.
  intros ops st H. apply run_all_desugar in H. cbn [length] in H.
  apply (run_all_X _ [] st [] [] (noroute_desugar ops 0) WFst_nil Inv1_nil InvX_nil H).
Qed.

(* ---- reading the stored params / group back ---- *)
Lemma ptok_of_littok : forall t, littok t = true -> ptok_of t = PLit t.
Proof.
  intros [|c tn] H; [discriminate|]. cbn in H. apply Bool.andb_true_iff in H as [H1 H2].
  apply Bool.negb_true_iff in H1, H2. apply Bool.orb_false_iff in H1 as [H1a H1b].
  unfold ptok_of, kind. rewrite H1a, H1b, H2. reflexivity.
Qed.
Lemma pmatch_lit_prefix : forall a x b, forallb littok a = true -> pmatch (map ptok_of (a ++ x)) b = true ->
  exists y, b = a ++ y /\ pmatch (map ptok_of x) y = true.
Proof.
  induction a as [|t r IH]; intros x b La M; [exists b; auto|].
  cbn [forallb] in La. apply Bool.andb_true_iff in La as [L1 L2].
  cbn [app map] in M. rewrite (ptok_of_littok t L1) in M. cbn [pmatch] in M.
  destruct b as [|b0 b']; [discriminate|]. apply Bool.andb_true_iff in M as [M1 M2]. apply beq_eq in M1. subst b0.
  destruct (IH x b' L2 M2) as (y & -> & My). exists y. auto.
Qed.
Lemma pmatch_lit_prefix_rev : forall a x y, forallb littok a = true -> pmatch (map ptok_of x) y = true ->
  pmatch (map ptok_of (a ++ x)) (a ++ y) = true.
Proof.
  induction a as [|t r IH]; intros x y La M; [exact M|].
  cbn [forallb] in La. apply Bool.andb_true_iff in La as [L1 L2].
  cbn [app map]. rewrite (ptok_of_littok t L1). cbn [pmatch]. rewrite beq_refl. apply IH; assumption.
Qed.
Lemma pvalues_lit_prefix : forall a x y, forallb littok a = true ->
  pvalues (map ptok_of (a ++ x)) (a ++ y) = pvalues (map ptok_of x) y.
Proof.
  induction a as [|t r IH]; intros x y La; [reflexivity|].
  cbn [forallb] in La. apply Bool.andb_true_iff in La as [L1 L2].
  cbn [app map]. rewrite (ptok_of_littok t L1). cbn [pvalues]. apply IH, L2.
Qed.
Lemma nth_error_skipn : forall A (l : list A) k i, nth_error (skipn k l) i = nth_error l (k + i).
Proof. induction l as [|x l IH]; intros [|k] i; cbn; auto. destruct i; reflexivity. Qed.
Lemma read_params_shift : forall tk m l1 l2, map (addidx m) l1 = l2 -> read_params tk m l1 = read_params tk 0 l2.
Proof.
  induction l1 as [|[nm i] r IH]; intros l2 <-; [reflexivity|]. cbn [map addidx read_params fst snd].
  rewrite Nat.add_0_r. rewrite (IH _ eq_refl). reflexivity.
Qed.
Lemma addidx_inj : forall d l1 l2, map (addidx d) l1 = map (addidx d) l2 -> l1 = l2.
Proof.
  induction l1 as [|[n1 i1] r IH]; intros [|[n2 i2] r2] H; cbn in H; try discriminate; [reflexivity|].
  injection H as H1 H2 H3. f_equal; [f_equal; [exact H1|lia]|apply IH, H3].
Qed.

Lemma group_concat_rebase : forall AN M d parts,
  (forall p, In p parts -> match p with GIdx j => (M <= j + d)%nat | GNeg => False | GStr _ => True end) ->
  group_concat (skipn M AN) (map (rebase_part M) (map (gshift_part d) parts)) = group_concat (skipn d AN) parts.
Proof.
  induction parts as [|p r IH]; intros H; [reflexivity|].
  cbn [map]. specialize (IH (fun q Iq => H q (or_intror Iq))). specialize (H p (or_introl eq_refl)).
  destruct p as [x|j|]; cbn [gshift_part rebase_part group_concat].
  - rewrite IH. reflexivity.
  - destruct (Nat.ltb_spec (j + d) M) as [Lt|Ge]; [lia|]. cbn [group_concat].
    rewrite !nth_error_skipn. replace (M + (j + d - M))%nat with (d + j)%nat by lia. rewrite IH. reflexivity.
  - destruct H.
Qed.

Lemma pgroup_lit_no_idx : forall par grp pat gr, forallb littok (split_pattern pat) = true ->
  pgroup par grp pat = Some gr -> no_idx gr.
Proof.
  intros par grp pat gr L PG l -> p I.
  pose proof (tags_ok_pgroup par grp pat (Some l) [] PG (map (gshift_part 0) l) eq_refl) as T.
  cbn [length app] in T. specialize (T (gshift_part 0 p) (in_map _ _ _ I)).
  destruct p as [x|j|]; cbn in T; [eauto| |destruct T].
  rewrite Nat.add_0_r in T. exfalso. rewrite (sk_lits _ L) in T. eapply lits_nth; eauto.
Qed.
Lemma no_idx_group_to_string : forall gr name nt nt', no_idx gr -> group_to_string name nt gr = group_to_string name nt' gr.
Proof.
  intros [l|] name nt nt' NI; [|reflexivity]. rewrite !group_to_string_concat.
  induction l as [|p r IH]; [reflexivity|].
  destruct (NI _ eq_refl p (or_introl eq_refl)) as (x & ->). cbn [group_concat].
  rewrite IH; [reflexivity|]. intros l0 E q Iq. injection E as <-. apply (NI _ eq_refl q). right. exact Iq.
Qed.

(* ---- params_exact and group_spec through mount points ---- *)
Lemma lookup_full_pf : forall ops st k name,
  run_all [] ops = Some st -> (k < length st)%nat -> validate_listeners st k = true ->
  match spec_strip (path_of st k) name with
  | None => get_handler st k name = LNone
  | Some tk =>
    match best_of ckey (mcands st (handles (desugar ops 0)) k) tk with
    | None => get_handler st k name = LNone
    | Some x => exists r rel ls gs,
        In (rel, r) (mcands st (handles (desugar ops 0)) k) /\ ckey (rel, r) = ckey x /\ sr_hid r = sr_hid (snd x) /\
        get_handler st k name = LHit (sr_hid r) ls (pvalues (map ptok_of rel) tk) gs /\
        group_spec_of (sr_par r) (sr_grp r) name (pvalues (map ptok_of rel) tk) = Some gs
    end
  end.
Proof.
  intros ops st k name H L V.
  destruct (mounted_G ops st k name H L V) as (t & a & p & T & s & TO & Ht & Hs & La & HM & RO & G).
  pose proof (accepted_X _ _ H t p T Ht) as IX.
  unfold get_handler. rewrite RO. rewrite spec_strip_code.
  set (R := handles (desugar ops 0)) in *.
  destruct (stripped_toks (strip_path (path_of st k) name)) as [tk|]; [|exact G].
  destruct (best_of ckey (mcands st R k) tk) as [x|]; [|exact G].
  destruct G as (n & g & ps & gs & m & Rm & HS & M & TK0 & TK1 & GS & E).
  assert (LL : length (lits a) = length a) by (unfold lits; apply map_length).
  (* the node in the absolute view *)
  assert (ABS : exists Mabs, reachm T 0 0 (lits a ++ ckey x) n Mabs /\
                  (tk <> [] -> Mabs = (m + length a)%nat) /\ (Mabs <= length a + length (ckey x))%nat).
  { destruct (ckey x) as [|e q] eqn:CK.
    - inversion Rm; subst. rewrite app_nil_r.
      destruct (reach_reachm _ _ _ (node_at_reach _ _ _ Hs) 0%nat 0%nat) as (ms & R1). exists ms. split; [exact R1|].
      split; [intros X; destruct tk; [congruence|discriminate M]|].
      pose proof (reachm_le _ _ _ _ _ _ R1 (le_n 0)). rewrite LL in H0. cbn in *. lia.
    - exists (m + length a)%nat. split; [apply (abs_reach a T s _ n m Hs HM); [discriminate|exact Rm]|]. split; [auto|].
      pose proof (reachm_le _ _ _ _ _ _ Rm (le_n 0)). cbn [length] in *. lia. }
  destruct ABS as (Mabs & RA & MA & MB).
  destruct (IX _ _ _ RA) as (PTn & _ & PR). cbn [app] in PTn, PR.
  destruct (PR _ _ HS) as (r & a' & gr & [Ir Tr] & Hr & La' & SKr & PGr & Gr & PPr).
  (* r's full tokens are a ++ rel *)
  destruct (proj1 (sk_strip a _ (ckey x) La) (eq_sym SKr)) as (rel & SP & CK).
  pose proof (strip_pre_eq _ _ _ SP) as FULL.
  assert (IM : In (rel, r) (mcands st R k)).
  { apply in_mcands. split; [exact Ir|]. unfold rel_toks. rewrite TO, Tr, Nat.eqb_refl. exact SP. }
  assert (CKr : ckey (rel, r) = ckey x) by (rewrite ckey_sk; cbn [fst]; auto).
  exists r, rel, (node_ls n), gs. split; [exact IM|]. split; [exact CKr|]. split; [exact Hr|].
  assert (Mrel : pmatch (map ptok_of rel) tk = true).
  { assert (SKE : skel (map ptok_of rel) = sk rel) by (unfold skel, sk; rewrite map_map; reflexivity).
    rewrite <- pmatch_skel, SKE, <- CK. exact M. }
  rewrite E, Hr. subst g.
  destruct tk as [|t0 tk'].
  - (* the root pattern of mux k *)
    destruct (TK0 eq_refl) as (-> & -> & ->).
    apply pmatch_nil_inv in Mrel. assert (rel = []) by (destruct rel; [reflexivity|discriminate]). subst rel.
    rewrite app_nil_r in FULL. cbn [map pvalues]. split; [reflexivity|].
    assert (Lp : forallb littok (split_pattern (sr_pat r)) = true).
    { rewrite <- FULL in La. rewrite forallb_app in La. apply Bool.andb_true_iff in La. tauto. }
    pose proof (pgroup_lit_no_idx _ _ _ _ Lp PGr) as NI.
    cbn [skipn] in GS. rewrite (no_idx_gshift gr _ NI), (no_idx_rebase gr _ NI) in GS.
    assert (PM0 : pmatch (ptoks (sr_pat r)) (split_pattern (sr_pat r)) = true).
    { unfold ptoks. pose proof (pmatch_lit_prefix_rev _ [] [] Lp eq_refl) as X. rewrite !app_nil_r in X. exact X. }
    assert (PV0 : pvalues (ptoks (sr_pat r)) (split_pattern (sr_pat r)) = []).
    { unfold ptoks. pose proof (pvalues_lit_prefix _ [] [] Lp) as X. rewrite !app_nil_r in X. exact X. }
    pose proof (group_spec_lemma _ _ _ gr name (split_pattern (sr_pat r)) PGr PM0) as GL. rewrite PV0 in GL.
    rewrite <- GL, (no_idx_group_to_string gr name _ [] NI). exact GS.
  - specialize (MA ltac:(discriminate)). subst Mabs. specialize (TK1 ltac:(discriminate)).
    set (tk := t0 :: tk') in *. set (AN := a ++ tk).
    split.
    + (* params *)
      f_equal. rewrite FULL, (pparams_lit_app a rel La), addidx_add in PPr.
      assert (PP2 : map (addidx m) (node_plist n) = pparams 0 rel) by (apply (addidx_inj (length a)); exact PPr).
      rewrite (read_params_shift tk m _ _ PP2) in TK1.
      pose proof (read_pparams rel tk 0%nat [] Mrel eq_refl) as RR. cbn [app] in RR. congruence.
    + (* group *)
      assert (MF : pmatch (map ptok_of (a' ++ split_pattern (sr_pat r))) AN = true).
      { rewrite FULL. apply pmatch_lit_prefix_rev; assumption. }
      destruct (pmatch_lit_prefix a' _ AN La' MF) as (y & EY & My).
      assert (SK1 : skipn (m + length a) AN = skipn m tk).
      { unfold AN. rewrite skipn_app. replace (m + length a - length a)%nat with m by lia.
        rewrite skipn_all2 by lia. reflexivity. }
      assert (SK2 : skipn (length a') AN = y).
      { rewrite EY, skipn_app, Nat.sub_diag, skipn_all2 by lia. reflexivity. }
      assert (PV : pvalues (ptoks (sr_pat r)) y = pvalues (map ptok_of rel) tk).
      { unfold ptoks. rewrite <- (pvalues_lit_prefix a' _ y La'), <- EY, FULL. unfold AN. apply pvalues_lit_prefix, La. }
      rewrite <- PV, <- (group_spec_lemma _ _ _ gr name y PGr My). rewrite <- GS, <- SK1, <- SK2. destruct gr as [parts|]; [|destruct (m + length a)%nat; reflexivity].
      cbn [gshift]. rewrite rebase_group_some, !group_to_string_concat. symmetry. apply group_concat_rebase.
      intros q Iq. destruct PTn as (_ & _ & C & _).
      specialize (C (sr_hid (snd x)) (map (rebase_part (m + length a)) (map (gshift_part (length a')) parts))).
      rewrite HS in C. cbn [gshift] in C. rewrite rebase_group_some in C. specialize (C eq_refl).
      specialize (C (rebase_part (m + length a) (gshift_part (length a') q)) (in_map _ _ _ (in_map _ _ _ Iq))).
      destruct q as [z|j|]; cbn [gshift_part rebase_part] in *; auto.
      destruct (Nat.ltb_spec (j + length a') (m + length a)); [destruct C|lia].
Qed.
