(* matchNode finds the node of the most specific matching registered pattern - for ANY trie
   (mounted nodes or not). *)
From GoRes Require Import Mux.Spec Pattern.Lemmas.
From Coq Require Import Lia Arith PeanoNat.
Open Scope N_scope.

(* ---- the search without the parameter read-out ---- *)
Fixpoint find (l : node) (toks : list bytes) (i mi : nat) {struct toks} : option (node * nat) :=
  match toks with
  | [] => None
  | t :: rest =>
    let mi := if node_mounted l then i else mi in
    let try (c : option node) (k : option (node * nat)) :=
      match c with
      | None => k
      | Some n =>
        match rest with
        | [] => match node_hs n with Some _ => Some (n, mi) | None => k end
        | _ => match find n rest (S i) mi with None => k | r => r end
        end
      end in
    try (lit_get t (node_lits l))
        (try (node_param l) (match node_wild l with Some w => Some (w, mi) | None => None end))
  end.

Lemma hit_not_no : forall all n mi, hit all n mi <> MNo.
Proof. intros. unfold hit. destruct (read_params all mi (node_plist n)); discriminate. Qed.

Lemma match_find : forall toks all l i mi,
  match_node all l toks i mi =
  match find l toks i mi with None => MNo | Some (n, m) => hit all n m end.
Proof.
  induction toks as [|t rest IH]; intros all l i mi; [reflexivity|].
  destruct l as [hs pp lits pa wi mo ls].
  cbn [match_node find node_mounted node_lits node_param node_wild].
  set (m := if mo then i else mi).
  assert (W : (match wi with Some w => hit all w m | None => MNo end) =
              match (match wi with Some w => Some (w, m) | None => None end) with
              | None => MNo | Some (n, m0) => hit all n m0 end) by (destruct wi; reflexivity).
  assert (S1 : forall (c : option node) k k',
     k = match k' with None => MNo | Some (n, m0) => hit all n m0 end ->
     (match c with
      | None => k
      | Some n => match rest with
                  | [] => match node_hs n with Some _ => hit all n m | None => k end
                  | _ :: _ => match match_node all n rest (S i) m with MNo => k | r => r end
                  end
      end) =
     match (match c with
            | None => k'
            | Some n => match rest with
                        | [] => match node_hs n with Some _ => Some (n, m) | None => k' end
                        | _ :: _ => match find n rest (S i) m with None => k' | r => r end
                        end
            end) with None => MNo | Some (n, m0) => hit all n m0 end).
  { intros c k k' E. destruct c as [n|]; [|exact E].
    destruct rest as [|t2 rest2].
    - destruct (node_hs n); [reflexivity|exact E].
    - rewrite IH. destruct (find n (t2 :: rest2) (S i) m) as [[n1 m1]|]; [|exact E].
      pose proof (hit_not_no all n1 m1). destruct (hit all n1 m1); congruence. }
  apply S1. apply S1. exact W.
Qed.

Lemma has_pattern_reach : forall n p h, has_pattern n p h <-> exists m, reach n p m /\ node_hs m = Some h.
Proof.
  intros n p h. split.
  - induction 1 as [n h H|n t c p h H _ IH|n c p h H _ IH|n c p h H _ IH].
    + exists n. split; [constructor|exact H].
    + destruct IH as (m & R & E). exists m. split; [eapply R_lit; eauto|exact E].
    + destruct IH as (m & R & E). exists m. split; [eapply R_par; eauto|exact E].
    + destruct IH as (m & R & E). exists m. split; [eapply R_wild; eauto|exact E].
  - intros (m & R & E). induction R.
    + apply HP_here, E.
    + eapply HP_lit; eauto.
    + eapply HP_par; eauto.
    + eapply HP_wild; eauto.
Qed.

(* what matchNode can stop at: a node with a handler, or any full-wildcard node *)
Definition cand (l : node) (p : list ptok) (n : node) : Prop :=
  reach l p n /\ (node_hs n <> None \/ ends_full p).

Lemma pmatch_nil : forall p, pmatch p [] = true -> p = [].
Proof.
  intros [|a p]; [reflexivity|]. destruct a; cbn; try discriminate.
  rewrite Bool.andb_false_r. discriminate.
Qed.

Lemma ends_full_cons : forall a p, p <> [] -> ends_full (a :: p) -> ends_full p.
Proof.
  intros a p NE (p0 & E). destruct p0 as [|b p0].
  - cbn in E. injection E as _ E. congruence.
  - cbn in E. injection E as _ E. exists p0. exact E.
Qed.
Lemma ends_full_single : forall a, ends_full [a] -> a = PFull.
Proof.
  intros a (p0 & E). destruct p0 as [|b p0]; cbn in E.
  - congruence.
  - injection E as _ E. destruct p0; discriminate.
Qed.
Lemma ends_full_app : forall a p, ends_full p -> ends_full (a :: p).
Proof. intros a p (p0 & E). exists (a :: p0). rewrite E. reflexivity. Qed.

Definition is_best (l : node) (toks : list bytes) (r : option node) : Prop :=
  match r with
  | Some n => exists p, cand l p n /\ pmatch p toks = true /\
                        forall p' n', cand l p' n' -> pmatch p' toks = true -> better p' p = false
  | None => forall p' n', cand l p' n' -> pmatch p' toks = true -> False
  end.

(* candidates below a child, seen from the parent *)
Lemma cand_inv : forall l p n t rest, cand l p n -> pmatch p (t :: rest) = true ->
  (exists c q, p = PLit t :: q /\ lit_get t (node_lits l) = Some c /\ reach c q n /\ pmatch q rest = true) \/
  (exists c q, p = PAnon :: q /\ node_param l = Some c /\ reach c q n /\ pmatch q rest = true) \/
  (exists c, p = [PFull] /\ node_wild l = Some c /\ n = c).
Proof.
  intros l p n t rest [R E] M. inversion R; subst.
  - discriminate M.
  - left. cbn in M. apply Bool.andb_true_iff in M as [M1 M2]. apply beq_eq in M1. subst t0.
    exists c, p0. auto.
  - right; left. exists c, p0. auto.
  - right; right. cbn in M. apply Bool.andb_true_iff in M as [M1 _].
    destruct p0; [|discriminate]. inversion H0; subst. exists n. auto.
Qed.

Lemma cand_tail : forall a c q n, q <> [] \/ node_hs n <> None ->
  reach c q n -> (node_hs n <> None \/ ends_full (a :: q)) -> cand c q n.
Proof.
  intros a c q n H R [E|E]; split; auto.
  destruct q as [|b q].
  - destruct H as [H|H]; [congruence|auto].
  - right. apply (ends_full_cons a); [discriminate|exact E].
Qed.

Lemma rank_lit : forall t, rank (PLit t) = 2%nat. Proof. reflexivity. Qed.

Lemma better_same_head : forall a p q, better (a :: p) (a :: q) = better p q.
Proof. intros. cbn [better]. rewrite Nat.ltb_irrefl. reflexivity. Qed.

(* the search result of one child: [sub] is the child's own result for the remaining tokens *)
Definition child_res (c : option node) (rest : list bytes) (i mi : nat) : option (node * nat) :=
  match c with
  | None => None
  | Some n => match rest with
              | [] => match node_hs n with Some _ => Some (n, mi) | None => None end
              | _ => find n rest (S i) mi
              end
  end.

Lemma find_unfold : forall l t rest i mi,
  find l (t :: rest) i mi =
  let m := if node_mounted l then i else mi in
  match child_res (lit_get t (node_lits l)) rest i m with
  | Some r => Some r
  | None => match child_res (node_param l) rest i m with
            | Some r => Some r
            | None => match node_wild l with Some w => Some (w, m) | None => None end
            end
  end.
Proof.
  intros. cbn [find]. cbv zeta. unfold child_res.
  destruct (lit_get t (node_lits l)) as [n|], (node_param l) as [n2|];
    destruct rest; try reflexivity;
    repeat match goal with |- context [match node_hs ?x with _ => _ end] => destruct (node_hs x) end;
    try reflexivity;
    repeat match goal with |- context [match find ?a ?b ?c ?d with _ => _ end] => destruct (find a b c d) end;
    reflexivity.
Qed.

(* a child's result is the best candidate among the patterns through that child *)
(* reachm l i mi p n m: following p from l, which is visited as token index i with mountIdx mi,
   ends in n, visited with mountIdx m *)
Inductive reachm : node -> nat -> nat -> list ptok -> node -> nat -> Prop :=
| RM_nil : forall l i mi, reachm l i mi [] l mi
| RM_lit : forall l i mi t c p n m, lit_get t (node_lits l) = Some c ->
    reachm c (S i) (if node_mounted l then i else mi) p n m -> reachm l i mi (PLit t :: p) n m
| RM_par : forall l i mi c p n m, node_param l = Some c ->
    reachm c (S i) (if node_mounted l then i else mi) p n m -> reachm l i mi (PAnon :: p) n m
| RM_wild : forall l i mi c p n m, node_wild l = Some c ->
    reachm c (S i) (if node_mounted l then i else mi) p n m -> reachm l i mi (PFull :: p) n m.
Lemma reachm_reach : forall l i mi p n m, reachm l i mi p n m -> reach l p n.
Proof. induction 1; econstructor; eauto. Qed.

(* the search result with the mountIdx it reports *)
Definition is_bestm (l : node) (toks : list bytes) (i mi : nat) (r : option (node * nat)) : Prop :=
  match r with
  | Some (n, m) => exists p, reachm l i mi p n m /\ (node_hs n <> None \/ ends_full p) /\ pmatch p toks = true /\
                             forall p' n', cand l p' n' -> pmatch p' toks = true -> better p' p = false
  | None => forall p' n', cand l p' n' -> pmatch p' toks = true -> False
  end.

Definition child_bestm (c : option node) (rest : list bytes) (i mi : nat) (r : option (node * nat)) : Prop :=
  match r with
  | Some (n, m) => exists c0 q, c = Some c0 /\ reachm c0 (S i) mi q n m /\ (q = [] -> node_hs n <> None) /\
                           (q <> [] -> node_hs n <> None \/ ends_full q) /\ pmatch q rest = true /\
                           forall q' n', reach c0 q' n' -> (q' = [] -> node_hs n' <> None) ->
                                         (q' <> [] -> cand c0 q' n') -> pmatch q' rest = true -> better q' q = false
  | None => forall c0 q' n', c = Some c0 -> reach c0 q' n' -> (q' = [] -> node_hs n' <> None) ->
                             (q' <> [] -> cand c0 q' n') -> pmatch q' rest = true -> False
  end.

Lemma child_res_bestm : forall rest,
  (forall l i mi, rest <> [] -> is_bestm l rest i mi (find l rest i mi)) ->
  forall c i mi, child_bestm c rest i mi (child_res c rest i mi).
Proof.
  intros rest IH c i mi. destruct c as [c0|]; [|cbn; intros; discriminate].
  destruct rest as [|t2 rest2].
  - cbn [child_res]. destruct (node_hs c0) eqn:H; cbn [child_bestm].
    + exists c0, []. split; [reflexivity|]. split; [constructor|]. split; [intros _; congruence|].
      split; [congruence|]. split; [reflexivity|]. intros q' n' R _ _ M. apply pmatch_nil in M. subst. reflexivity.
    + intros c1 q' n' E R H1 _ M. injection E as <-. apply pmatch_nil in M. subst q'.
      inversion R; subst. apply H1; auto.
  - cbn [child_res]. specialize (IH c0 (S i) mi ltac:(discriminate)).
    destruct (find c0 (t2 :: rest2) (S i) mi) as [[n m]|]; cbn [is_bestm child_bestm] in *.
    + destruct IH as (q & Rm & En & M & B). exists c0, q. split; [reflexivity|]. split; [exact Rm|].
      split; [intros ->; discriminate M|]. split; [intros _; exact En|]. split; [exact M|].
      intros q' n' R H1 H2 M'. apply (B q' n'); [|exact M']. apply H2. intros ->. discriminate M'.
    + intros c1 q' n' E R H1 H2 M. injection E as <-. apply (IH q' n'); [|exact M]. apply H2. intros ->. discriminate M.
Qed.

Lemma find_bestm : forall toks l i mi, toks <> [] -> is_bestm l toks i mi (find l toks i mi).
Proof.
  induction toks as [|t rest IH]; intros l i mi NE; [congruence|].
  assert (IH' : forall l i mi, rest <> [] -> is_bestm l rest i mi (find l rest i mi)) by (intros; apply IH; auto).
  rewrite find_unfold. cbv zeta. set (m := if node_mounted l then i else mi).
  pose proof (child_res_bestm rest IH' (lit_get t (node_lits l)) i m) as BL.
  pose proof (child_res_bestm rest IH' (node_param l) i m) as BP.
  destruct (child_res (lit_get t (node_lits l)) rest i m) as [[n1 m1]|]; cbn [child_bestm] in BL.
  { (* literal child wins *)
    destruct BL as (c0 & q & EC & R & H0 & H1 & M & B). cbn [is_bestm].
    exists (PLit t :: q). split; [|split; [|split]].
    - eapply RM_lit; eauto.
    - destruct q as [|b q]; [left; auto|].
      destruct (H1 ltac:(discriminate)) as [E|E]; [left; exact E|right; apply ends_full_app, E].
    - cbn. rewrite beq_refl. exact M.
    - intros p' n' C' M'. destruct (cand_inv _ _ _ _ _ C' M') as [(c & q' & -> & EL & R' & Mq)|[(c & q' & -> & _)|(c & -> & _)]].
      + rewrite better_same_head. rewrite EC in EL. injection EL as <-.
        apply (B q' n'); auto.
        * intros ->. destruct C' as [_ [E|E]]; [exact E|]. apply ends_full_single in E. discriminate.
        * intros NEq. eapply cand_tail; [left; exact NEq|exact R'|apply C'].
      + reflexivity.
      + reflexivity. }
  destruct (child_res (node_param l) rest i m) as [[n2 m2]|]; cbn [child_bestm] in BP.
  { (* param child wins: nothing through the literal child matches *)
    destruct BP as (c0 & q & EC & R & H0 & H1 & M & B). cbn [is_bestm].
    exists (PAnon :: q). split; [|split; [|split]].
    - eapply RM_par; eauto.
    - destruct q as [|b q]; [left; auto|].
      destruct (H1 ltac:(discriminate)) as [E|E]; [left; exact E|right; apply ends_full_app, E].
    - cbn. exact M.
    - intros p' n' C' M'. destruct (cand_inv _ _ _ _ _ C' M') as [(c & q' & -> & EL & R' & Mq)|[(c & q' & -> & EP & R' & Mq)|(c & -> & _)]].
      + exfalso. apply (BL c q' n' EL R'); auto.
        * intros ->. destruct C' as [_ [E|E]]; [exact E|]. apply ends_full_single in E. discriminate.
        * intros NEq. eapply cand_tail; [left; exact NEq|exact R'|apply C'].
      + rewrite better_same_head. rewrite EC in EP. injection EP as <-.
        apply (B q' n'); auto.
        * intros ->. destruct C' as [_ [E|E]]; [exact E|]. apply ends_full_single in E. discriminate.
        * intros NEq. eapply cand_tail; [left; exact NEq|exact R'|apply C'].
      + reflexivity. }
  (* neither: the full wildcard or nothing *)
  assert (NL : forall p' n', cand l p' n' -> pmatch p' (t :: rest) = true ->
               exists c, p' = [PFull] /\ node_wild l = Some c /\ n' = c).
  { intros p' n' C' M'. destruct (cand_inv _ _ _ _ _ C' M') as [(c & q' & -> & EL & R' & Mq)|[(c & q' & -> & EP & R' & Mq)|X]]; [| |exact X].
    - exfalso. apply (BL c q' n' EL R'); auto.
      + intros ->. destruct C' as [_ [E|E]]; [exact E|]. apply ends_full_single in E. discriminate.
      + intros NEq. eapply cand_tail; [left; exact NEq|exact R'|apply C'].
    - exfalso. apply (BP c q' n' EP R'); auto.
      + intros ->. destruct C' as [_ [E|E]]; [exact E|]. apply ends_full_single in E. discriminate.
      + intros NEq. eapply cand_tail; [left; exact NEq|exact R'|apply C']. }
  destruct (node_wild l) as [w|] eqn:EW; cbn [is_bestm].
  - exists [PFull]. split; [|split; [|split]].
    + eapply RM_wild; [exact EW|constructor].
    + right; exists []; reflexivity.
    + reflexivity.
    + intros p' n' C' M'. destruct (NL _ _ C' M') as (c & -> & _). reflexivity.
  - intros p' n' C' M'. destruct (NL _ _ C' M') as (c & _ & E & _). discriminate.
Qed.

Lemma find_best : forall toks l i mi, toks <> [] -> is_best l toks (option_map fst (find l toks i mi)).
Proof.
  intros toks l i mi NE. pose proof (find_bestm toks l i mi NE) as H.
  destruct (find l toks i mi) as [[n m]|]; cbn [option_map fst is_best is_bestm] in *; [|exact H].
  destruct H as (p & Rm & En & M & B). exists p. split; [split; [eapply reachm_reach; eauto|exact En]|]. auto.
Qed.
