(* registration_complete: on a fresh mux, add accepts exactly the patterns the documentation
   calls valid (token-wise valid, placeholder names unique, group template parses). *)
From GoRes Require Import Mux.Spec Pattern.Lemmas Pattern.Proofs Mux.ProofsMatch Mux.ProofsFetch Mux.ProofsFlat.
From Coq Require Import Lia Arith PeanoNat.
Open Scope N_scope.

Fixpoint fresh_from (seen l : list bytes) : bool :=
  match l with
  | [] => true
  | x :: r => negb (existsb (beq x) seen) && fresh_from (seen ++ [x]) r
  end.

Lemma forallb_snoc_seen : forall x seen r,
  forallb (fun y => negb (existsb (beq y) (seen ++ [x]))) r =
  forallb (fun y => negb (existsb (beq y) seen)) r && negb (existsb (beq x) r).
Proof.
  induction r as [|y r IH]; cbn; [reflexivity|].
  rewrite IH, existsb_app. cbn. rewrite Bool.orb_false_r, (beq_sym x y).
  destruct (existsb (beq y) seen), (beq y x), (forallb (fun y0 => negb (existsb (beq y0) seen)) r),
    (existsb (beq x) r); reflexivity.
Qed.
Lemma fresh_from_spec : forall l seen,
  fresh_from seen l = forallb (fun y => negb (existsb (beq y) seen)) l && nodupb l.
Proof.
  induction l as [|x r IH]; intros seen; cbn; [reflexivity|].
  rewrite IH, forallb_snoc_seen.
  destruct (existsb (beq x) seen), (forallb (fun y => negb (existsb (beq y) seen)) r), (existsb (beq x) r), (nodupb r); reflexivity.
Qed.
Lemma fresh_from_nil : forall l, fresh_from [] l = nodupb l.
Proof.
  intros l. rewrite fresh_from_spec. replace (forallb _ l) with true; [reflexivity|].
  symmetry. apply forallb_forall. reflexivity.
Qed.

Definition names (toks : list bytes) : list bytes := placeholder_names (map ptok_of toks).

Lemma has_name_seen : forall tn ps, has_name tn ps = existsb (beq tn) (map fst ps).
Proof.
  intros tn ps. unfold has_name. induction ps as [|[n i] r IH]; cbn; [reflexivity|].
  rewrite IH, (beq_sym n tn). reflexivity.
Qed.

Lemma eqb_consts : forall c, (c =? gt) = true -> (c =? dollar) = false /\ (c =? star) = false.
Proof. intros c H. apply N.eqb_eq in H. subst. split; reflexivity. Qed.
Lemma eqb_star : forall c, (c =? star) = true -> (c =? dollar) = false /\ (c =? gt) = false.
Proof. intros c H. apply N.eqb_eq in H. subst. split; reflexivity. Qed.
Lemma eqb_dollar : forall c, (c =? dollar) = true -> (c =? star) = false /\ (c =? gt) = false.
Proof. intros c H. apply N.eqb_eq in H. subst. split; reflexivity. Qed.

Lemma add_fin_empty_ok : forall rb hid g fr ps mi, is_ok (add_fin rb hid g fr empty_node ps mi) = true.
Proof. reflexivity. Qed.

Lemma fetch_fresh : forall rb hid g toks i mi ps fr,
  tailv toks = true ->
  is_ok (fetch_gen false (add_fin rb hid g) None toks i mi ps fr empty_node) = fresh_from (map fst ps) (names toks).
Proof.
  induction toks as [|t rest IH]; intros i mi ps fr V; [reflexivity|].
  unfold tailv in V. cbn [is_nil orb] in V. rewrite toks_valid_cons in V. apply Bool.andb_true_iff in V as [V1 V2].
  rewrite fetch_cons. cbv zeta. cbn [node_mounted empty_node fetch_step node_param node_wild node_lits lit_get child_or_empty].
  destruct t as [|c tn]; [discriminate|]. cbn [tok_valid] in V1.
  unfold names. cbn [map placeholder_names flat_map]. unfold ptok_of at 1, kind.
  destruct (c =? gt) eqn:G.
  - destruct (eqb_consts c G) as [-> ->]. cbn [orb app].
    apply Bool.andb_true_iff in V1 as [T L]. rewrite T. destruct rest; [|discriminate]. cbn [is_nil negb orb].
    rewrite is_ok_rebuild. apply (IH (S i) mi ps false V2).
  - destruct (c =? star) eqn:ST.
    + destruct (eqb_star c ST) as [-> _]. cbn [orb andb app]. rewrite V1. cbn [Bool.eqb].
      rewrite is_ok_rebuild. apply (IH (S i) mi ps false V2).
    + destruct (c =? dollar) eqn:D.
      * cbn [orb andb app]. apply Bool.andb_true_iff in V1 as [_ NE].
        destruct tn as [|x tn']; [discriminate|]. cbn [is_nil Bool.eqb].
        rewrite has_name_seen. cbn [fresh_from].
        destruct (existsb (beq (x :: tn')) (map fst ps)); [reflexivity|]. cbn [negb andb].
        rewrite is_ok_rebuild, (IH (S i) mi _ false V2), map_app. reflexivity.
      * cbn [orb app]. rewrite is_ok_rebuild. apply (IH (S i) mi ps false V2).
Qed.

Lemma tailv_split : forall pat, tailv (split_pattern pat) = is_valid pat.
Proof.
  intros pat. rewrite is_valid_spec_pf. unfold tvalid, tailv, split_pattern. destruct pat as [|c p]; [reflexivity|].
  cbn [is_nil orb]. rewrite tokens_toks, tl_toks_nonnil. reflexivity.
Qed.

Lemma add_unfold : forall root pat hid grp par,
  add root pat hid grp par =
  match pgroup par grp pat with
  | None => Panic EGroup root
  | Some g => if negb (is_valid pat) then Panic EInvalid root
              else fetch_gen false (add_fin true hid g) None (split_pattern pat) 0 0 [] false root
  end.
Proof. reflexivity. Qed.

Lemma registration_complete_pf : forall pat hid grp par,
  is_ok (add empty_node pat hid grp par) =
  tvalid pat && nodupb (placeholder_names (ptoks pat)) && isSome (pgroup par grp pat).
Proof.
  intros pat hid grp par. rewrite add_unfold.
  destruct (pgroup par grp pat) as [g|]; cbn [isSome];
    [|rewrite Bool.andb_false_r; reflexivity].
  rewrite Bool.andb_true_r, <- is_valid_spec_pf. destruct (is_valid pat) eqn:V; cbn [negb andb]; [|reflexivity].
  rewrite fetch_fresh by (rewrite tailv_split; exact V). cbn [map]. rewrite fresh_from_nil. reflexivity.
Qed.
