(* Executable model of mux.go (NewMux, AddHandler/add, AddListener, Mount, Route, fetch,
   GetHandler, matchNode, ValidateListeners, setAndValidateParams) and group.go
   (parseGroup, group.toString) of /repo as it is now.

   The trie is the Go trie: one [node] per Go *node.  Go shares the root node of a mounted
   Mux between the sub Mux and its parent's trie (pointer); here a mounted Mux is a
   location (top-level tree, literal path to its root) inside the tree of its top-level
   ancestor, and every operation on it is performed at that location, so both views
   always see the same node.

   A Go panic is the explicit outcome [Panic code state]: the state it leaves behind
   (fetch creates nodes before it panics on a later token) is part of the outcome. *)
From GoRes Require Export Base.Bytes Pattern.Model.

Definition lid := N.

(* group.go gpart: a literal part (str <> ""), or a tag part = index into the token slice.
   [GNeg]: a tag index that became negative by the rebasing [idx -= mountIdx] (any use
   panics in toString: index out of range). *)
Inductive gpart := GStr (s : bytes) | GIdx (i : nat) | GNeg.
(* None = nil group (Handler.Group = ""), Some [] = the non-nil empty group of Parallel *)
Definition group := option (list gpart).
(* a regHandler: identity of the Handler value and its parsed group *)
Definition handler := (N * group)%type.
Definition pparam := (bytes * nat)%type.   (* pathParam{name, idx} *)

(* params: None = not set yet (paramsSet = false); Some ps = set (ps = [] is the nil slice of a
   pattern without $-placeholders).  lits: the Go map nodes (keys unique). *)
Inductive node :=
  Node (hs : option handler) (params : option (list pparam)) (lits : list (bytes * node))
       (param wild : option node) (mounted : bool) (listeners : list lid).

Definition empty_node : node := Node None None [] None None false [].
Definition node_hs (n : node) := let 'Node hs _ _ _ _ _ _ := n in hs.
Definition node_params (n : node) := let 'Node _ ps _ _ _ _ _ := n in ps.
Definition node_plist (n : node) : list pparam := match node_params n with Some l => l | None => [] end.
Definition node_lits (n : node) := let 'Node _ _ l _ _ _ _ := n in l.
Definition node_param (n : node) := let 'Node _ _ _ p _ _ _ := n in p.
Definition node_wild (n : node) := let 'Node _ _ _ _ w _ _ := n in w.
Definition node_mounted (n : node) := let 'Node _ _ _ _ _ m _ := n in m.
Definition node_ls (n : node) := let 'Node _ _ _ _ _ _ l := n in l.
Definition set_mounted (n : node) : node :=
  let 'Node hs ps li pa wi _ ls := n in Node hs ps li pa wi true ls.

Fixpoint lit_get (t : bytes) (l : list (bytes * node)) : option node :=
  match l with
  | [] => None
  | (k, c) :: r => if beq t k then Some c else lit_get t r
  end.
Fixpoint lit_set (t : bytes) (n : node) (l : list (bytes * node)) : list (bytes * node) :=
  match l with
  | [] => [(t, n)]
  | (k, c) :: r => if beq t k then (t, n) :: r else (k, c) :: lit_set t n r
  end.

Inductive outcome (A : Type) := Ok (a : A) | Panic (code : N) (a : A).
Arguments Ok {A} a.
Arguments Panic {A} code a.
Definition omap {A B} (f : A -> B) (o : outcome A) : outcome B :=
  match o with Ok a => Ok (f a) | Panic e a => Panic e (f a) end.
Definition is_ok {A} (o : outcome A) : bool := match o with Ok _ => true | Panic _ _ => false end.
Definition out_state {A} (o : outcome A) : A := match o with Ok a => a | Panic _ a => a end.

(* panic codes *)
Definition EInvalid : N := 1.      (* "res: invalid pattern" *)
Definition EDupTag : N := 2.       (* placeholder found multiple times *)
Definition EMountWild : N := 3.    (* attempting to mount on full wildcard pattern *)
Definition EDup : N := 4.          (* registration already done *)
Definition EParams : N := 5.       (* setAndValidateParams *)
Definition EPath : N := 6.         (* "res: invalid path" *)
Definition EMounted : N := 7.      (* "res: already mounted" *)
Definition EMountRoot : N := 8.    (* attempting to mount to root *)
Definition EMountExists : N := 9.  (* attempting to mount to existing pattern *)
Definition EGroup : N := 10.       (* any parseGroup panic *)
Definition ENoMux : N := 11.       (* op refers to a mux that was never created (harness error) *)
Definition ECycle : N := 12.       (* mounting a mux below itself: not modelled (Go builds a cyclic trie) *)
Definition EInternal : N := 13.    (* location of a mounted mux not found: never happens *)

(* ---- splitPattern / mergePattern ---- *)
Definition split_pattern (p : bytes) : list bytes := match p with [] => [] | _ => tokens p end.
Definition merge_pattern (a b : bytes) : bytes :=
  match a, b with [], _ => b | _, [] => a | _, _ => a ++ dot :: b end.

(* ---- fetch ----
   Structural recursion on the pattern tokens, rebuilding the path.  [i] = loop index,
   [mi] = mountIdx, [ps] = params so far, [mount] = the node to mount (Mount only),
   [fresh] = the current node is the mount node just placed by this call (n == sub.root),
   [fin] = what the caller does with the fetched node, its params and mountIdx.
   [v0] = the placeholder check as it was before fix 8a739ee (lt == 1 rejected). *)
Definition has_name (name : bytes) (ps : list pparam) : bool := existsb (fun p => beq (fst p) name) ps.

Definition rebuild {A} (f : node -> A) (o : outcome node) : outcome A := omap f o.

Fixpoint fetch_gen (v0 : bool) (fin : bool -> node -> list pparam -> nat -> outcome node)
    (mount : option node) (toks : list bytes) (i mi : nat) (ps : list pparam) (fresh : bool)
    (l : node) {struct toks} : outcome node :=
  match toks with
  | [] => fin fresh l ps mi
  | t :: rest =>
    let 'Node hs pp lits pa wi mo ls := l in
    let mi := if mo then i else mi in
    let do_mount := match mount with Some _ => is_nil rest | None => false end in
    let newn := match mount with Some m => if is_nil rest then m else empty_node | None => empty_node end in
    match t with
    | [] => Panic EInvalid l
    | c :: tn =>
      if (c =? dollar) || (c =? star) then
        if (if v0 then is_nil tn else Bool.eqb (c =? dollar) (is_nil tn)) then Panic EInvalid l
        else if (c =? dollar) && has_name tn ps then Panic EDupTag l
        else
          let ps' := if c =? dollar then ps ++ [(tn, i - mi)%nat] else ps in
          let '(child, fr) := match pa with Some n => (n, false) | None => (newn, do_mount) end in
          rebuild (fun n' => Node hs pp lits (Some n') wi mo ls)
                  (fetch_gen v0 fin mount rest (S i) mi ps' fr child)
      else if c =? gt then
        if negb (is_nil tn) || negb (is_nil rest) then Panic EInvalid l
        else match wi with
             | Some n => rebuild (fun n' => Node hs pp lits pa (Some n') mo ls)
                                 (fetch_gen v0 fin mount rest (S i) mi ps false n)
             | None => if do_mount then Panic EMountWild l
                       else rebuild (fun n' => Node hs pp lits pa (Some n') mo ls)
                                    (fetch_gen v0 fin mount rest (S i) mi ps false empty_node)
             end
      else
        let '(child, fr) := match lit_get t lits with Some n => (n, false) | None => (newn, do_mount) end in
        rebuild (fun n' => Node hs pp (lit_set t n' lits) pa wi mo ls)
                (fetch_gen v0 fin mount rest (S i) mi ps fr child)
    end
  end.
Definition fetch_go := fetch_gen false.

(* ---- setAndValidateParams ---- *)
Fixpoint params_eq (a b : list pparam) : bool :=
  match a, b with
  | [], _ => true     (* the Go loop ranges over the new params only (lengths already equal) *)
  | (n1, i1) :: a', (n2, i2) :: b' => beq n1 n2 && Nat.eqb i1 i2 && params_eq a' b'
  | _ :: _, [] => false
  end.
Definition set_params (n : node) (ps : list pparam) : option node :=
  let 'Node hs old lits pa wi mo ls := n in
  match old with
  | None => Some (Node hs (Some ps) lits pa wi mo ls)
  | Some o => if Nat.eqb (length o) (length ps) && params_eq ps o then Some n else None
  end.
(* before fix de9a2b8: nil params counted as "not set" *)
Definition set_params_v0 (n : node) (ps : list pparam) : option node :=
  let 'Node hs old lits pa wi mo ls := n in
  match old with
  | None | Some [] => Some (Node hs (Some ps) lits pa wi mo ls)
  | Some o => if Nat.eqb (length o) (length ps) && params_eq ps o then Some n else None
  end.

(* ---- group.go parseGroup: a character-level state machine ----
   GDef acc: StateDefault with g[start:i] = rev acc; GDollar: just after '$';
   GTag acc: StateTag.  None = panic. *)
Inductive gmode := GDef (acc : bytes) | GDollar | GTag (acc : bytes).
Definition flush (acc : bytes) (r : list gpart) : list gpart :=
  match acc with [] => r | _ => GStr (rev acc) :: r end.
Fixpoint find_tok (tag : bytes) (toks : list bytes) (j : nat) : option nat :=
  match toks with
  | [] => None
  | t :: r => if beq t tag then Some j else find_tok tag r (S j)
  end.
Definition tag_char (c : N) : bool :=
  ((65 <=? c) && (c <=? 90)) || ((97 <=? c) && (c <=? 122)) || ((48 <=? c) && (c <=? 57)) || (c =? 95) || (c =? 45).
Definition lbrace : N := 123.
Definition rbrace : N := 125.
Definition ocons {A} (x : A) (o : option (list A)) : option (list A) :=
  match o with Some l => Some (x :: l) | None => None end.
Fixpoint parse_group_go (toks : list bytes) (md : gmode) (g : bytes) : option (list gpart) :=
  match g with
  | [] => match md with GDef acc => Some (flush acc []) | _ => None end
  | c :: g' =>
    match md with
    | GDef acc =>
      if c =? dollar then
        match parse_group_go toks GDollar g' with Some r => Some (flush acc r) | None => None end
      else parse_group_go toks (GDef (c :: acc)) g'
    | GDollar => if c =? lbrace then parse_group_go toks (GTag []) g' else None
    | GTag acc =>
      if c =? rbrace then
        match acc with
        | [] => None
        | _ => match find_tok (dollar :: rev acc) toks 0 with
               | Some j => ocons (GIdx j) (parse_group_go toks (GDef []) g')
               | None => None
               end
        end
      else if tag_char c then parse_group_go toks (GTag (c :: acc)) g' else None
    end
  end.
(* None = panic; Some None = nil group *)
Definition parse_group (g pattern : bytes) : option group :=
  match g with
  | [] => Some None
  | _ => match parse_group_go (split_pattern pattern) (GDef []) g with Some r => Some (Some r) | None => None end
  end.

(* ---- group.toString ---- None = index out of range panic *)
Fixpoint group_concat (toks : list bytes) (g : list gpart) : option bytes :=
  match g with
  | [] => Some []
  | GStr s :: r => match group_concat toks r with Some x => Some (s ++ x) | None => None end
  | GIdx i :: r => match nth_error toks i with
                   | Some t => match group_concat toks r with Some x => Some (t ++ x) | None => None end
                   | None => None end
  | GNeg :: _ => None
  end.
Definition group_to_string (rname : bytes) (toks : list bytes) (g : group) : option bytes :=
  match g with
  | None => Some rname
  | Some [] => Some []
  | Some [GStr s] => Some s
  | Some l => group_concat toks l
  end.

(* the rebasing in add: tag parts only, only when mountIdx > 0 *)
Definition rebase_part (mi : nat) (p : gpart) : gpart :=
  match p with
  | GIdx i => if Nat.ltb i mi then GNeg else GIdx (i - mi)
  | _ => p
  end.
Definition rebase_group (mi : nat) (g : group) : group :=
  match mi with
  | O => g
  | _ => match g with Some l => Some (map (rebase_part mi) l) | None => None end
  end.

(* ---- add / AddHandler, AddListener on the root node of a mux ---- *)
Definition set_hs (n : node) (h : handler) : node :=
  let 'Node _ ps li pa wi mo ls := n in Node (Some h) ps li pa wi mo ls.
Definition add_ls (n : node) (l : lid) : node :=
  let 'Node hs ps li pa wi mo ls := n in Node hs ps li pa wi mo (ls ++ [l]).

Definition add_fin (rebase : bool) (hid : N) (g : group) (_ : bool) (n : node) (ps : list pparam) (mi : nat) : outcome node :=
  match node_hs n with
  | Some _ => Panic EDup n
  | None => match set_params n ps with
            | None => Panic EParams n
            | Some n' => Ok (set_hs n' (hid, if rebase then rebase_group mi g else g))
            end
  end.
(* AddHandler: parseGroup (unless Parallel), then add: IsValid, fetch, checks, set *)
Definition add_gen (v0star v0grp : bool) (root : node) (pattern : bytes) (hid : N) (grp : bytes) (parallel : bool) : outcome node :=
  match (if parallel then Some (Some []) else parse_group grp pattern) with
  | None => Panic EGroup root
  | Some g =>
    if negb (is_valid pattern) then Panic EInvalid root
    else fetch_gen v0star (add_fin (negb v0grp) hid g) None (split_pattern pattern) 0 0 [] false root
  end.
Definition add := add_gen false false.

Definition listen_fin (l : lid) (_ : bool) (n : node) (ps : list pparam) (_ : nat) : outcome node :=
  match set_params n ps with
  | None => Panic EParams n
  | Some n' => Ok (add_ls n' l)
  end.
Definition add_listener (root : node) (pattern : bytes) (l : lid) : outcome node :=
  fetch_go (listen_fin l) None (split_pattern pattern) 0 0 [] false root.

(* AddListener before fix de9a2b8 (refutation witness only) *)
Definition listen_fin_v0 (l : lid) (_ : bool) (n : node) (ps : list pparam) (_ : nat) : outcome node :=
  match set_params_v0 n ps with
  | None => Panic EParams n
  | Some n' => Ok (add_ls n' l)
  end.
Definition add_listener_v0 (root : node) (pattern : bytes) (l : lid) : outcome node :=
  fetch_go (listen_fin_v0 l) None (split_pattern pattern) 0 0 [] false root.

(* Mount's use of fetch: n != sub.root  <->  the mount node was not placed *)
Definition mount_fin (fresh : bool) (n : node) (_ : list pparam) (_ : nat) : outcome node :=
  if fresh then Ok n else Panic EMountExists n.
Definition mount_node (root : node) (spath : bytes) (sub : node) : outcome node :=
  fetch_go mount_fin (Some (set_mounted sub)) (split_pattern spath) 0 0 [] false root.

(* ---- matchNode ----
   [all] = the whole token slice, [toks] = all[i:], non-empty.  The param values are read
   as all[idx+mi]; out of range is the outcome MPanic. *)
Inductive mres := MNo | MPanic | MHit (hs : option handler) (ls : list lid) (ps : list (bytes * bytes)) (mi : nat).

Fixpoint read_params (all : list bytes) (mi : nat) (ps : list pparam) : option (list (bytes * bytes)) :=
  match ps with
  | [] => Some []
  | (name, idx) :: r =>
    match nth_error all (idx + mi) with
    | Some v => match read_params all mi r with Some m => Some ((name, v) :: m) | None => None end
    | None => None
    end
  end.
Definition hit (all : list bytes) (n : node) (mi : nat) : mres :=
  match read_params all mi (node_plist n) with
  | Some m => MHit (node_hs n) (node_ls n) m mi
  | None => MPanic
  end.

Fixpoint match_node (all : list bytes) (l : node) (toks : list bytes) (i mi : nat) {struct toks} : mres :=
  match toks with
  | [] => MNo
  | t :: rest =>
    let 'Node _ _ lits pa wi mo _ := l in
    let mi := if mo then i else mi in
    let try (c : option node) (k : mres) : mres :=
      match c with
      | None => k
      | Some n =>
        match rest with
        | [] => match node_hs n with Some _ => hit all n mi | None => k end
        | _ => match match_node all n rest (S i) mi with MNo => k | r => r end
        end
      end in
    try (lit_get t lits) (try pa (match wi with Some w => hit all w mi | None => MNo end))
  end.

(* ---- GetHandler ---- *)
Inductive lres := LNone | LPanic | LHit (hid : N) (ls : list lid) (ps : list (bytes * bytes)) (g : bytes).

Fixpoint strip_prefix (p s : bytes) : option bytes :=
  match p, s with
  | [], _ => Some s
  | a :: p', b :: s' => if a =? b then strip_prefix p' s' else None
  | _ :: _, [] => None
  end.
(* the m.path block and the root test:
   SNil = return nil; SRoot = the name is the mux path itself ("" for a mux without path):
   the root pattern; SName sub = match the tokens of sub (sub = "" after "<path>." is the
   one-token name [""]).
   [v0] = before fix 4459494: an empty remainder was always taken for the root pattern. *)
Inductive stripped := SNil | SRoot | SName (sub : bytes).
Definition strip_path_gen (v0 : bool) (path rname : bytes) : stripped :=
  match path with
  | [] => match rname with [] => SRoot | _ => SName rname end
  | _ =>
    if Nat.eqb (length path) (length rname) then (if beq path rname then SRoot else SNil)
    else match strip_prefix path rname with
         | Some (c :: r) => if c =? dot then (if v0 && is_nil r then SRoot else SName r) else SNil
         | _ => SNil
         end
  end.
Definition strip_path := strip_path_gen false.

Definition get_handler_node_gen (v0 : bool) (path : bytes) (root : node) (rname : bytes) : lres :=
  match strip_path_gen v0 path rname with
  | SNil => LNone
  | SRoot =>
    match node_hs root with
    | None => LNone
    | Some (hid, g) => match group_to_string rname [] g with
                       | Some s => LHit hid (node_ls root) [] s
                       | None => LPanic end
    end
  | SName sub =>
    let toks := tokens sub in
    match match_node toks root toks 0 0 with
    | MNo => LNone
    | MPanic => LPanic
    | MHit None _ _ _ => LNone
    | MHit (Some (hid, g)) ls ps mi =>
      match group_to_string rname (skipn mi toks) g with
      | Some s => LHit hid ls ps s
      | None => LPanic
      end
    end
  end.
Definition get_handler_node := get_handler_node_gen false.
Definition get_handler_node_v0dot := get_handler_node_gen true.

(* ---- ValidateListeners: no node with listeners and without handler ---- *)
Fixpoint validate_node (n : node) : bool :=
  let 'Node hs _ lits pa wi _ ls := n in
  (match hs with Some _ => true | None => is_nil ls end)
  && (fix go (l : list (bytes * node)) : bool :=
        match l with [] => true | (_, c) :: r => validate_node c && go r end) lits
  && match pa with Some c => validate_node c | None => true end
  && match wi with Some c => validate_node c | None => true end.

(* ---- muxes: replay of the operations the harness performs ---- *)
Inductive loc := Top (tree : node) | Sub (top : nat) (abs : list bytes).
Definition mux := (bytes * loc)%type.          (* m.path, where m.root lives *)
Definition state := list mux.

Fixpoint set_nth {A} (k : nat) (x : A) (l : list A) : list A :=
  match l, k with
  | [], _ => []
  | _ :: r, O => x :: r
  | y :: r, S k' => y :: set_nth k' x r
  end.

(* apply f to the node at the end of the literal path abs *)
Fixpoint at_path (abs : list bytes) (f : node -> outcome node) (n : node) : outcome node :=
  match abs with
  | [] => f n
  | t :: r =>
    let 'Node hs pp lits pa wi mo ls := n in
    match lit_get t lits with
    | None => Panic EInternal n
    | Some c => rebuild (fun c' => Node hs pp (lit_set t c' lits) pa wi mo ls) (at_path r f c)
    end
  end.
Fixpoint node_at (abs : list bytes) (n : node) : option node :=
  match abs with
  | [] => Some n
  | t :: r => match lit_get t (node_lits n) with Some c => node_at r c | None => None end
  end.

Definition top_of (st : state) (k : nat) : option (nat * list bytes) :=
  match nth_error st k with
  | Some (_, Top _) => Some (k, [])
  | Some (_, Sub t abs) => Some (t, abs)
  | None => None
  end.
Definition tree_of (st : state) (t : nat) : option (bytes * node) :=
  match nth_error st t with Some (p, Top n) => Some (p, n) | _ => None end.
Definition root_of (st : state) (k : nat) : option node :=
  match top_of st k with
  | Some (t, abs) => match tree_of st t with Some (_, n) => node_at abs n | None => None end
  | None => None
  end.
Definition path_of (st : state) (k : nat) : bytes :=
  match nth_error st k with Some (p, _) => p | None => [] end.

(* run f on the root node of mux k *)
Definition with_root (st : state) (k : nat) (f : node -> outcome node) : outcome state :=
  match top_of st k with
  | None => Panic ENoMux st
  | Some (t, abs) =>
    match tree_of st t with
    | None => Panic EInternal st
    | Some (p, n) => omap (fun n' => set_nth t (p, Top n') st) (at_path abs f n)
    end
  end.

Definition new_mux (st : state) (path : bytes) : outcome state :=
  if is_valid_path path then Ok (st ++ [(path, Top empty_node)]) else Panic EPath st.
Definition do_handle (st : state) (k : nat) (pat : bytes) (hid : N) (grp : bytes) (par : bool) : outcome state :=
  with_root st k (fun r => add r pat hid grp par).
Definition do_listen (st : state) (k : nat) (pat : bytes) (l : lid) : outcome state :=
  with_root st k (fun r => add_listener r pat l).

Definition relocate (sub t : nat) (pre : list bytes) (m : mux) : mux :=
  match m with
  | (p, Sub t' abs) => if Nat.eqb t' sub then (p, Sub t (pre ++ abs)) else m
  | _ => m
  end.
Definition do_mount (st : state) (k : nat) (path : bytes) (sub : nat) : outcome state :=
  if negb (is_valid_path path) then Panic EPath st else
  match nth_error st sub, top_of st k with
  | None, _ | _, None => Panic ENoMux st
  | Some (_, Sub _ _), _ => Panic EMounted st
  | Some (subpath, Top subtree), Some (t, abs) =>
    let spath := merge_pattern path subpath in
    if is_nil spath then Panic EMountRoot st
    else if Nat.eqb t sub then Panic ECycle st
    else match with_root st k (fun r => mount_node r spath subtree) with
         | Ok st' => let pre := abs ++ split_pattern spath in
                     Ok (set_nth sub (subpath, Sub t pre) (map (relocate sub t pre) st'))
         | p => p
         end
  end.

(* operations inside the callback of Route; a panic aborts the whole Route (the muxes
   created so far stay allocated, unreachable from the parent) *)
Inductive rop :=
| RHandle (pat : bytes) (hid : N) (grp : bytes) (par : bool)
| RListen (pat : bytes) (l : lid)
| RRoute (path : bytes) (body : list rop).

Fixpoint run_rop (r : rop) (k : nat) (st : state) {struct r} : outcome state :=
  match r with
  | RHandle pat hid grp par => do_handle st k pat hid grp par
  | RListen pat l => do_listen st k pat l
  | RRoute path body =>
    let k' := length st in
    match (fix go (b : list rop) (s : state) {struct b} : outcome state :=
             match b with
             | [] => Ok s
             | r' :: b' => match run_rop r' k' s with Ok s' => go b' s' | p => p end
             end) body (st ++ [([], Top empty_node)]) with
    | Ok s => do_mount s k path k'
    | p => p
    end
  end.

Inductive op :=
| ONew (path : bytes)
| OHandle (m : nat) (pat : bytes) (hid : N) (grp : bytes) (par : bool)
| OListen (m : nat) (pat : bytes) (l : lid)
| OMount (m : nat) (path : bytes) (sub : nat)
| ORoute (m : nat) (path : bytes) (body : list rop).

Definition run_op (st : state) (o : op) : outcome state :=
  match o with
  | ONew path => new_mux st path
  | OHandle m pat hid grp par => do_handle st m pat hid grp par
  | OListen m pat l => do_listen st m pat l
  | OMount m path sub => do_mount st m path sub
  | ORoute m path body => run_rop (RRoute path body) m st
  end.

(* replay: every op is attempted (the harness recovers from panics and goes on);
   returns the final state and which ops panicked *)
Fixpoint replay (st : state) (ops : list op) : state * list bool :=
  match ops with
  | [] => (st, [])
  | o :: r => let out := run_op st o in
              let '(st', fl) := replay (out_state out) r in (st', negb (is_ok out) :: fl)
  end.
(* an accepted op list: no op panics *)
Fixpoint run_all (st : state) (ops : list op) : option state :=
  match ops with
  | [] => Some st
  | o :: r => match run_op st o with Ok st' => run_all st' r | Panic _ _ => None end
  end.

Definition get_handler (st : state) (k : nat) (rname : bytes) : lres :=
  match root_of st k with
  | Some r => get_handler_node (path_of st k) r rname
  | None => LPanic
  end.
Definition validate_listeners (st : state) (k : nat) : bool :=
  match root_of st k with Some r => validate_node r | None => false end.

(* ---- the code before the two fixes (refutation witnesses only) ---- *)
Definition add_v0star := add_gen true false.   (* fetch rejects a lone "*" (before 8a739ee) *)
Definition add_v0grp := add_gen false true.    (* group indexes not rebased (before d78f562) *)

(* ---- Register, OnRegister callbacks, AddListener(nil) ----
   A layer on top of [run_op]: which muxes are registered to a service (only a top-level mux can be:
   Register panics on a mounted mux and Mount panics on a registered one), which handlers carry an
   OnRegister callback, and the callbacks an operation fires: (full pattern, handler id).
   FullPath of a mux = the path of its top-level mux ++ the literal tokens down to its root. *)
Definition ENilListener : N := 14.  (* "nil event handler" *)
Definition ERegistered : N := 15.   (* "res: already registered to a service" *)

Definition event := (bytes * N)%type.
Record xstate := XS { xs_st : state; xs_reg : list bool; xs_cb : list N }.

Definition full_path (st : state) (k : nat) : bytes :=
  match top_of st k with
  | Some (t, a) => join (split_pattern (path_of st t) ++ a)
  | None => []
  end.

(* pathSliceToString: the traversed path with "$name" put back at the params' positions; None = index out of range *)
Fixpoint set_tok (i : nat) (x : bytes) (l : list bytes) : option (list bytes) :=
  match l, i with
  | [], _ => None
  | _ :: r, O => Some (x :: r)
  | y :: r, S i' => match set_tok i' x r with Some r' => Some (y :: r') | None => None end
  end.
Fixpoint subst_params (path : list bytes) (ps : list pparam) (mi : nat) : option (list bytes) :=
  match ps with
  | [] => Some path
  | (name, idx) :: r => match set_tok (idx + mi) (dollar :: name) path with
                        | Some p' => subst_params p' r mi
                        | None => None
                        end
  end.
(* traverse + the OnRegister test of callOnRegister: (relative pattern tokens, handler id) *)
Fixpoint cb_node (cbs : list N) (n : node) (path : list bytes) (mi : nat) : list (option (list bytes) * N) :=
  let 'Node hs pp lits pa wi mo ls := n in
  let mi' := if mo then length path else mi in
  (match hs with
   | Some (hid, _) => if existsb (N.eqb hid) cbs then [(subst_params path (node_plist n) mi, hid)] else []
   | None => [] end) ++
  (match wi with Some c => cb_node cbs c (path ++ [[gt]]) mi' | None => [] end) ++
  (match pa with Some c => cb_node cbs c (path ++ [[star]]) mi' | None => [] end) ++
  (fix go (l : list (bytes * node)) : list (option (list bytes) * N) :=
     match l with [] => [] | (k, c) :: r => cb_node cbs c (path ++ [k]) mi' ++ go r end) lits.
Fixpoint collect_events (pre : list bytes) (l : list (option (list bytes) * N)) : option (list event) :=
  match l with
  | [] => Some []
  | (Some toks, hid) :: r => match collect_events pre r with
                             | Some ev => Some ((join (pre ++ toks), hid) :: ev)
                             | None => None end
  | (None, _) :: _ => None
  end.
(* m.callOnRegister() for mux k *)
Definition cb_events (st : state) (cbs : list N) (k : nat) : option (list event) :=
  match root_of st k with
  | Some s => collect_events (split_pattern (full_path st k)) (cb_node cbs s [] 0)
  | None => Some []
  end.
Definition top_registered (st : state) (rg : list bool) (k : nat) : bool :=
  match top_of st k with Some (t, _) => nth t rg false | None => false end.
Definition pad_reg (st : state) (rg : list bool) : list bool := rg ++ repeat false (length st - length rg).

Inductive xop :=
| XBase (o : op)
| XHandleR (m : nat) (pat : bytes) (hid : N) (grp : bytes) (par : bool)   (* Handle with an OnRegister option *)
| XRegister (m : nat)                                                     (* m.Register(service) *)
| XListenNil (m : nat) (pat : bytes)                                      (* m.AddListener(pat, nil) *)
(* Handle of a Handler with one entry in its Listeners map (and possibly an OnRegister callback):
   add registers the handler, then calls AddListener, then the callback *)
| XHandleL (m : nat) (pat : bytes) (hid : N) (grp : bytes) (par : bool) (onreg : bool) (lpat : bytes) (l : lid).

Definition xrun (xs : xstate) (o : xop) : outcome xstate * list event :=
  let 'XS st rg cbs := xs in
  match o with
  | XListenNil _ _ => (Panic ENilListener xs, [])
  | XRegister k =>
    match nth_error st k with
    | None => (Panic ENoMux xs, [])
    | Some (_, Sub _ _) => (Panic EMounted xs, [])
    | Some (_, Top _) =>
      if nth k rg false then (Panic ERegistered xs, [])
      else let xs' := XS st (set_nth k true rg) cbs in
           match cb_events st cbs k with
           | Some ev => (Ok xs', ev)
           | None => (Panic EInternal xs', [])
           end
    end
  | XHandleR m pat hid grp par =>
    match do_handle st m pat hid grp par with
    | Ok st' => (Ok (XS st' rg (hid :: cbs)),
                 if top_registered st' rg m then [(merge_pattern (full_path st' m) pat, hid)] else [])
    | Panic e st' => (Panic e (XS st' rg cbs), [])
    end
  | XHandleL m pat hid grp par onreg lpat l =>
    match do_handle st m pat hid grp par with
    | Ok st1 =>
      let cbs' := if onreg then hid :: cbs else cbs in
      match do_listen st1 m lpat l with
      | Ok st2 => (Ok (XS st2 rg cbs'),
                   if onreg && top_registered st2 rg m then [(merge_pattern (full_path st2 m) pat, hid)] else [])
      | Panic e st2 => (Panic e (XS st2 rg cbs'), [])
      end
    | Panic e st' => (Panic e (XS st' rg cbs), [])
    end
  | XBase b =>
    let blocked := match b with OMount _ _ sub => nth sub rg false | _ => false end in
    if blocked then (Panic ERegistered xs, [])
    else match run_op st b with
         | Ok st' =>
           let rg' := pad_reg st' rg in
           match b with
           | OMount m _ sub =>
             if top_registered st' rg' m then
               match cb_events st' cbs sub with
               | Some ev => (Ok (XS st' rg' cbs), ev)
               | None => (Panic EInternal (XS st' rg' cbs), [])
               end
             else (Ok (XS st' rg' cbs), [])
           | _ => (Ok (XS st' rg' cbs), [])
           end
         | Panic e st' => (Panic e (XS st' (pad_reg st' rg) cbs), [])
         end
  end.

Fixpoint xreplay (xs : xstate) (ops : list xop) : xstate * list (bool * list event) :=
  match ops with
  | [] => (xs, [])
  | o :: r => let '(out, ev) := xrun xs o in
              let '(xs', fl) := xreplay (out_state out) r in (xs', (negb (is_ok out), ev) :: fl)
  end.

(* ---- Mux.Contains with the test "is the handler with this id" ---- *)
Definition hs_is (hid : N) (n : node) : bool := match node_hs n with Some (h, _) => h =? hid | None => false end.
Fixpoint contains_hid (hid : N) (n : node) : bool :=
  let 'Node _ _ lits pa wi _ _ := n in
  (match wi with Some w => hs_is hid w | None => false end) ||
  (match pa with Some c => hs_is hid c || contains_hid hid c | None => false end) ||
  (fix go (l : list (bytes * node)) : bool :=
     match l with [] => false | (_, c) :: r => hs_is hid c || contains_hid hid c || go r end) lits.
Definition mux_contains (st : state) (k : nat) (hid : N) : bool :=
  match root_of st k with Some r => hs_is hid r || contains_hid hid r | None => false end.
